#!/bin/sh
# For every seeded change: apply it to /repo, run the registered quick check of the property it breaks, undo it straight afterwards.
# Prints one line per change. /repo must be clean and no other check may run meanwhile.
cd /verif
for d in seeded/${SEED_GLOB:-*}/; do
  name=$(basename "$d")
  # the check to run: the first `./check Cxx` named in detection.by (a few changes are caught by the check of another property
  # than the one their author named), else the property itself
  pid=$(python3 -c "
import json,re
m=json.load(open('$d/meta.json'))
f=re.findall(r'\./check (C\d\d)', m.get('detection',{}).get('by',''))
print(f[-1] if f and m['property'] in f else (f[0] if f else m['property']))")
  if ! git -C /repo diff --quiet; then echo "ABORT: /repo is dirty"; exit 2; fi
  if ! git -C /repo apply "$PWD/$d/patch.diff" 2>/dev/null; then echo "$name $pid PATCH-DOES-NOT-APPLY"; continue; fi
  out=$(./check "$pid" 2>&1 | grep -E "VIOLATION|CHECK-ERROR" | head -1)
  rc=$?
  git -C /repo checkout -- .
  if echo "$out" | grep -q VIOLATION; then echo "$name $pid CAUGHT $(echo "$out" | grep -o 'no-failing-input-found')"; else echo "$name $pid MISSED $out"; fi
done
git -C /repo status --short | head -3
