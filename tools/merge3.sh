#!/bin/sh
# usage: merge3.sh <src-verif-root> <base-commit> file...   (three-way merges shared files changed in a private copy)
SRC=$1; BASE=$2; shift 2
for f in "$@"; do
  if ! git -C /verif show "$BASE:$f" > /tmp/merge3.base 2>/dev/null; then : > /tmp/merge3.base; fi
  if cmp -s "/verif/$f" "$SRC/$f"; then echo "same    $f"; continue; fi
  if cmp -s /tmp/merge3.base "$SRC/$f"; then echo "unchanged-in-src $f"; continue; fi
  cp "/verif/$f" /tmp/merge3.cur
  if git merge-file -p /tmp/merge3.cur /tmp/merge3.base "$SRC/$f" > /tmp/merge3.out; then cp /tmp/merge3.out "/verif/$f"; echo "merged  $f"; else cp /tmp/merge3.out "/verif/$f.CONFLICT"; echo "CONFLICT $f (see $f.CONFLICT)"; fi
done
