#!/bin/sh
# usage: try_seeded.sh <patch.diff> <pid> [more pids...]
# Applies a seeded patch to the scratch repo /tmp/mutrun/repo and runs the checks of a scratch copy of
# /verif (whose harness points at that repo) — used while other work needs /repo untouched.
set -u
PATCH=$1; shift
cd /tmp/mutrun/repo && git checkout -q -- . && git apply "$PATCH" || { echo "patch does not apply"; exit 3; }
rsync -a --exclude 'harness/target*' --exclude .git --exclude .work --exclude evidence/replay /verif/ /tmp/mutrun/verif/
sed -i 's|path = "/repo"|path = "/tmp/mutrun/repo"|' /tmp/mutrun/verif/harness/Cargo.toml
cd /tmp/mutrun/verif
for p in "$@"; do
  ./check "$p" 2>&1 | grep -E "VIOLATION|KNOWN|tier=|CHECK-ERROR" | head -4
done
cd /tmp/mutrun/repo && git checkout -q -- .
