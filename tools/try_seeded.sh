#!/bin/sh
# usage: try_seeded.sh <patch.diff> <pid> [more pids...]
# Applies a seeded patch to the scratch repo /tmp/mutrun/repo and runs the checks of a scratch copy of
# /verif (whose harness points at that repo) — used while other work needs /repo untouched.
set -u
PATCH=$1; shift
M=${MUTRUN:-/tmp/mutrun}
mkdir -p "$M"
[ -d "$M/repo" ] || git -C /repo worktree add --detach "$M/repo" HEAD >/dev/null 2>&1
cd "$M/repo" && git checkout -q -- . && git apply "$PATCH" || { echo "patch does not apply"; exit 3; }
rsync -a --exclude 'harness/target*' --exclude .git --exclude .work --exclude evidence/replay /verif/ $M/verif/
sed -i "s|path = \"/repo\"|path = \"$M/repo\"|" $M/verif/harness/Cargo.toml
cd $M/verif
for p in "$@"; do
  ./check "$p" 2>&1 | grep -E "VIOLATION|KNOWN|tier=|CHECK-ERROR" | head -4
done
cd "$M/repo" && git checkout -q -- .
