#!/usr/bin/env python3
"""Translator for the table-shaped parts of the expression front end: regenerates coq/Generated/ExprTables.v from the
Rust SOURCE of
  * the tokenizer (`tokenize_group` in src/boolean_expression/_impl_parser.rs): single-character arms, `=>`, `<=>`;
  * `NOT_IN_VAR_NAME` (src/lib.rs);
  * the precedence chain of the recursive-descent parser (parse_formula -> iff -> imp -> cond -> or -> and -> xor ->
    terminal): for every level its operator token, constructor, and the functions called for the left operand, the
    right operand and when the operator is absent; the conditional level; the entry point; the two keywords;
  * the `Display` format strings of BooleanExpression (src/boolean_expression/_impl_boolean_expression.rs);
  * the rules of the `bdd!` macro (src/_macro_bdd.rs): operator symbol -> method.
The generated file states, for every table, that the table read off the source EQUALS the model's table
(coq/Proofs/ExprTable.v, where each model table is proved to characterise the hand-written model function); so a change
of precedence, of a token, of a format string or of a macro rule breaks a proof obligation of C14 / C15 before any test
runs.  Functions are recognised by SHAPE and identified by the token they search for, not by name (renaming a function or
a local variable, reformatting, reordering match arms do not matter).
Usage: gen_expr.py [repo-root].  Exit 0: file (re)written or unchanged.  Exit 2: the source no longer has a shape this
translator understands — the caller then falls back to the correspondence check alone (recorded in the evidence)."""
import os, re, sys

repo = sys.argv[1] if len(sys.argv) > 1 else "/repo"
V = os.path.dirname(os.path.dirname(os.path.abspath(__file__)))


class Untranslatable(Exception):
    pass


def strip_comments(s):
    s = re.sub(r"/\*.*?\*/", "", s, flags=re.S)
    return re.sub(r"//[^\n]*", "", s)


def non_test(src):
    i = src.find("#[cfg(test)]")
    return src if i < 0 else src[:i]


def nows(s):
    return re.sub(r"\s+", "", s)


def coq_str(s):
    return "[" + "; ".join(str(ord(c)) for c in s) + "]"


TOK = {"Not": "TNot", "And": "TAnd", "Or": "TOr", "Xor": "TXor", "Imp": "TImp", "Iff": "TIff", "Colon": "TColon", "QuestionMark": "TQuestion"}
CTOR = {"Iff": "CIff", "Imp": "CImp", "Or": "COr", "And": "CAnd", "Xor": "CXor"}
LEVEL_OF_TOKEN = {"Iff": "LIff", "Imp": "LImp", "Or": "LOr", "And": "LAnd", "Xor": "LXor", "QuestionMark": "LCond"}
SIG = r"\(data:&\[ExprToken\]\)->Result<Box<BooleanExpression>,String>"


def tokenizer(parser_src):
    m = re.search(r"fn\s+tokenize_group\b.*?\n}\n", parser_src, flags=re.S)
    if not m:
        raise Untranslatable("tokenize_group not found")
    body = m.group(0)
    singles = re.findall(r"'(.)'\s*=>\s*output\s*\.\s*push\(\s*ExprToken::(\w+)\s*\)\s*,", body)
    if not singles:
        raise Untranslatable("no single-character token arms")
    rows = []
    for ch, t in singles:
        if t not in TOK:
            raise Untranslatable("token %s" % t)
        rows.append((ord(ch), TOK[t]))
    rows.sort()
    w = nows(body)
    multi = []
    m1 = re.search(r"'(.)'=>\{ifSome\('(.)'\)==data\.next\(\)\{output\.push\(ExprToken::(\w+)\);?\}else\{returnErr\(", w)
    if not m1 or m1.group(3) not in TOK:
        raise Untranslatable("two-character token arm")
    multi.append((m1.group(1) + m1.group(2), TOK[m1.group(3)]))
    m2 = re.search(r"'(.)'=>\{ifSome\('(.)'\)==data\.next\(\)\{ifSome\('(.)'\)==data\.next\(\)\{output\.push\(ExprToken::(\w+)\);?\}else\{returnErr\(", w)
    if not m2 or m2.group(4) not in TOK:
        raise Untranslatable("three-character token arm")
    multi.append((m2.group(1) + m2.group(2) + m2.group(3), TOK[m2.group(4)]))
    return rows, multi


def reserved(lib_src):
    m = re.search(r"const\s+NOT_IN_VAR_NAME\s*:\s*\[char;\s*\d+\]\s*=\s*\[(.*?)\];", lib_src, flags=re.S)
    if not m:
        raise Untranslatable("NOT_IN_VAR_NAME not found")
    chars = re.findall(r"'(.)'", m.group(1))
    if not chars:
        raise Untranslatable("NOT_IN_VAR_NAME empty")
    return sorted(set(ord(c) for c in chars))


def parser_chain(parser_src):
    w = nows(parser_src)
    binary = re.compile(
        r"fn(\w+)" + SIG + r"\{let(\w+)=index_of_first\(data,ExprToken::(\w+)\);ifletSome\((\w+)\)=\2\{Ok\(Box::new\((\w+)\("
        r"(\w+)\(&data\[\.\.\4\]\)\?,(\w+)\(&data\[\(\4\+1\)\.\.\]\)\?,?\)\)\)\}else\{(\w+)\(data\)\}\}")
    fns = {}
    raw_rows = []
    for m in binary.finditer(w):
        name, tok, ctor, left, right, els = m.group(1), m.group(3), m.group(5), m.group(6), m.group(7), m.group(8)
        if tok not in LEVEL_OF_TOKEN or ctor not in CTOR:
            raise Untranslatable("binary level %s: token %s / constructor %s" % (name, tok, ctor))
        fns[name] = LEVEL_OF_TOKEN[tok]
        raw_rows.append((name, tok, ctor, left, right, els))
    cond = re.search(
        r"fn(\w+)" + SIG + r"\{let(\w+)=index_of_first\(data,ExprToken::(\w+)\);let(\w+)=index_of_first\(data,ExprToken::(\w+)\);"
        r"match\(\2,\4\)\{\(None,None\)=>(\w+)\(data\),\(Some\((\w+)\),Some\((\w+)\)\)=>Ok\(Box::new\(Cond\("
        r"(\w+)\(&data\[\.\.\7\]\)\?,(\w+)\(&data\[\(\7\+1\)\.\.\8\]\)\?,(\w+)\(&data\[\(\8\+1\)\.\.\]\)\?,?\)\)\),"
        r"\(None,Some\(_\)\)=>Err\([^;{}]*?\),\(Some\(_\),None\)=>Err\([^;{}]*?\),?\}\}", w)
    if not cond:
        raise Untranslatable("conditional level not recognised")
    if cond.group(3) not in TOK or cond.group(5) not in TOK:
        raise Untranslatable("conditional tokens")
    fns[cond.group(1)] = "LCond"
    entry = re.search(r"fnparse_formula" + SIG + r"\{ifdata\.len\(\)==1&&matches!\(data\[0\],ExprToken::Tokens\(\.\.\)\)\{return(\w+)\(data\);\}(\w+)\(data\)\}", w)
    if not entry:
        raise Untranslatable("parse_formula not recognised")
    term_name = entry.group(1)
    fns[term_name] = "LTerm"
    fns["parse_formula"] = "LFormula"

    def lv(n):
        if n not in fns:
            raise Untranslatable("call to unrecognised function %s" % n)
        return fns[n]
    order = ["LIff", "LImp", "LOr", "LAnd", "LXor"]
    rows = []
    for name, tok, ctor, left, right, els in raw_rows:
        rows.append((fns[name], TOK[tok], CTOR[ctor], lv(left), lv(right), lv(els)))
    if sorted(r[0] for r in rows) != sorted(order):
        raise Untranslatable("binary levels found: %s" % [r[0] for r in rows])
    rows.sort(key=lambda r: order.index(r[0]))
    cond_row = ("LCond", TOK[cond.group(3)], TOK[cond.group(5)], [lv(cond.group(9)), lv(cond.group(10)), lv(cond.group(11))], lv(cond.group(6)))
    entry_row = (lv(entry.group(2)), lv(entry.group(1)))
    # the terminal level: negation prefix and the two keywords
    t = re.search(r"fn" + re.escape(term_name) + SIG + r"\{(.*?)\n?\}(?=fn|$|#\[)", w, flags=re.S)
    tb = w[w.find("fn" + term_name + "("):]
    neg = re.search(r"elseifdata\[0\]==ExprToken::(\w+)\{Ok\(Box::new\(Not\(" + re.escape(term_name) + r"\(&data\[1\.\.\]\)\?\)\)\)\}", tb)
    if not neg or neg.group(1) not in TOK:
        raise Untranslatable("negation arm of the terminal level")
    kws = re.findall(r"if\w+==\"(\w+)\"\{Ok\(Box::new\(Const\((true|false)\)\)\)\}", tb)
    if len(kws) != 2:
        raise Untranslatable("keywords of the terminal level: %s" % kws)
    grp = re.search(r"ExprToken::Tokens\((\w+)\)=>Ok\((\w+)\(\1\)\?\)", tb)
    if not grp:
        raise Untranslatable("group arm of the terminal level")
    return rows, cond_row, entry_row, TOK[neg.group(1)], sorted(kws, key=lambda k: k[1] != "true"), lv(grp.group(2))


def display(expr_src):
    m = re.search(r"impl\s+Display\s+for\s+BooleanExpression\s*\{.*?\n\}\n", expr_src, flags=re.S)
    if not m:
        raise Untranslatable("Display for BooleanExpression not found")
    body = m.group(0)
    arms = re.findall(r"(\w+)\(([^)]*)\)\s*=>\s*(?:\{\s*)?write!\(\s*f\s*,\s*\"([^\"]*)\"\s*,([^)]*)\)", body)
    out = {}
    for ctor, binders, fmt, args in arms:
        b = [x.strip() for x in binders.split(",") if x.strip()]
        a = [x.strip() for x in args.split(",") if x.strip()]
        if a != b:
            raise Untranslatable("Display arm %s: arguments %s are not the binders %s in order" % (ctor, a, b))
        pieces = fmt.split("{}")
        if len(pieces) != len(b) + 1:
            raise Untranslatable("Display arm %s: format %r" % (ctor, fmt))
        out[ctor] = pieces
    need = ["Const", "Variable", "Not", "And", "Or", "Xor", "Imp", "Iff", "Cond"]
    if sorted(out) != sorted(need):
        raise Untranslatable("Display arms found: %s" % sorted(out))
    return out


def macro(macro_src):
    m = re.search(r"macro_rules!\s*bdd\s*\{(.*?)\n\}\n", macro_src, flags=re.S)
    if not m:
        raise Untranslatable("macro_rules! bdd not found")
    w = nows(m.group(1))
    SYM = {"!": "MNot", "&": "MAnd", "|": "MOr", "<=>": "MIff", "=>": "MImp", "^": "MXor"}
    MTH = {"not": "MthNot", "and": "MthAnd", "or": "MthOr", "iff": "MthIff", "imp": "MthImp", "xor": "MthXor"}
    rows = []
    for mm in re.finditer(r"\((\$vars:ident,)?\$l:tt(&|\||<=>|=>|\^)\$r:tt\)=>\{bdd!\((\$vars,)?\$l\)\.(\w+)\(&bdd!\((\$vars,)?\$r\)\)\};", w):
        v, sym, v2, mth, v3 = mm.groups()
        if bool(v) != bool(v2) or bool(v) != bool(v3) or mth not in MTH:
            raise Untranslatable("macro rule %s" % mm.group(0))
        rows.append((bool(v), SYM[sym], MTH[mth]))
    for mm in re.finditer(r"\((\$vars:ident,)?!\$e:tt\)=>\{bdd!\((\$vars,)?\$e\)\.(\w+)\(\)\};", w):
        v, v2, mth = mm.groups()
        if bool(v) != bool(v2) or mth not in MTH:
            raise Untranslatable("macro rule %s" % mm.group(0))
        rows.append((bool(v), "MNot", MTH[mth]))
    order = ["MNot", "MAnd", "MOr", "MIff", "MImp", "MXor"]
    rows.sort(key=lambda r: (not r[0], order.index(r[1])))
    if len(rows) != 12:
        raise Untranslatable("macro rules found: %d" % len(rows))
    return rows


def main():
    try:
        parser_src = strip_comments(non_test(open(os.path.join(repo, "src/boolean_expression/_impl_parser.rs")).read()))
        lib_src = strip_comments(open(os.path.join(repo, "src/lib.rs")).read())
        expr_src = strip_comments(non_test(open(os.path.join(repo, "src/boolean_expression/_impl_boolean_expression.rs")).read()))
        macro_src = strip_comments(non_test(open(os.path.join(repo, "src/_macro_bdd.rs")).read()))
        singles, multi = tokenizer(parser_src)
        res = reserved(lib_src)
        rows, cond_row, entry_row, neg_tok, kws, grp_level = parser_chain(parser_src)
        disp = display(expr_src)
        mac = macro(macro_src)
    except (Untranslatable, OSError) as e:
        print("gen_expr: cannot translate: %s" % e, file=sys.stderr)
        names = {"single": "list (N * token)", "multi": "list (list N * token)", "reserved": "list N", "levels": "list level_row",
                 "cond": "level * token * token * list level * level", "entry": "level * level",
                 "terminal": "token * list (name * bool) * level", "show_binary": "list (bctor * list (list N))",
                 "show_not": "list (list N)", "show_cond": "list (list N)", "show_leaf": "list (list (list N))",
                 "macro": "list (bool * msym * mname)"}
        fb = ["(* GENERATED by tools/gen_expr.py — FALLBACK: the source no longer has a shape the translator understands",
              "   (%s); the definitions below are the model's own tables. *)" % str(e).replace("*)", "* )"),
              "From Coq Require Import List NArith Bool. Import ListNotations.",
              "From BddVerif Require Import Model.Bdd Model.Apply Model.Ops Model.Expr Proofs.ExprTable.", "Open Scope N_scope.", ""]
        for n, ty in names.items():
            fb.append("Definition src_%s : %s := model_%s.\nLemma src_%s_eq : src_%s = model_%s.\nProof. reflexivity. Qed." % (n, ty, n, n, n, n))
        write_if_changed("\n".join(fb) + "\n")
        return 2
    b = lambda x: "true" if x else "false"
    out = ["(* GENERATED by tools/gen_expr.py from the Rust source of the expression front end — do not edit.",
           "   A change of a token, of the precedence chain, of a format string or of a bdd! rule in the source changes this",
           "   file and breaks the corresponding obligation `src_*_eq` below. *)",
           "From Coq Require Import List NArith Bool. Import ListNotations.",
           "From BddVerif Require Import Model.Bdd Model.Apply Model.Ops Model.Expr Proofs.ExprTable.",
           "Open Scope N_scope.", "",
           "Definition src_single : list (N * token) := [%s]." % "; ".join("(%d, %s)" % r for r in singles),
           "Definition src_multi : list (list N * token) := [%s]." % "; ".join("(%s, %s)" % (coq_str(s), t) for s, t in multi),
           "Definition src_reserved : list N := [%s]." % "; ".join(str(c) for c in res),
           "Definition src_levels : list level_row :=\n  [ %s ]." % ";\n    ".join("mkRow %s %s %s %s %s %s" % r for r in rows),
           "Definition src_cond : level * token * token * list level * level := (%s, %s, %s, [%s], %s)." % (
               cond_row[0], cond_row[1], cond_row[2], "; ".join(cond_row[3]), cond_row[4]),
           "Definition src_entry : level * level := (%s, %s)." % entry_row,
           "Definition src_terminal : token * list (name * bool) * level := (%s, [%s], %s)." % (
               neg_tok, "; ".join("(%s, %s)" % (coq_str(k), v) for k, v in kws), grp_level),
           "Definition src_show_binary : list (bctor * list (list N)) :=\n  [ %s ]." % ";\n    ".join(
               "(%s, [%s])" % (CTOR[c], "; ".join(coq_str(p) for p in disp[c])) for c in ["And", "Or", "Xor", "Imp", "Iff"]),
           "Definition src_show_not : list (list N) := [%s]." % "; ".join(coq_str(p) for p in disp["Not"]),
           "Definition src_show_cond : list (list N) := [%s]." % "; ".join(coq_str(p) for p in disp["Cond"]),
           "Definition src_show_leaf : list (list (list N)) := [[%s]; [%s]]." % (
               "; ".join(coq_str(p) for p in disp["Const"]), "; ".join(coq_str(p) for p in disp["Variable"])),
           "Definition src_macro : list (bool * msym * mname) :=\n  [ %s ]." % ";\n    ".join("(%s, %s, %s)" % (b(v), s, m) for v, s, m in mac),
           ""]
    for n in ["single", "multi", "reserved", "levels", "cond", "entry", "terminal", "show_binary", "show_not", "show_cond", "show_leaf", "macro"]:
        out.append("Lemma src_%s_eq : src_%s = model_%s.\nProof. reflexivity. Qed." % (n, n, n))
    write_if_changed("\n".join(out) + "\n")
    return 0


def write_if_changed(text):
    path = os.path.join(V, "coq", "Generated", "ExprTables.v")
    os.makedirs(os.path.dirname(path), exist_ok=True)
    if not os.path.exists(path) or open(path).read() != text:
        open(path, "w").write(text)
        print("gen_expr: wrote", path)


if __name__ == "__main__":
    sys.exit(main())
