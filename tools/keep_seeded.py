#!/usr/bin/env python3
"""keep_seeded.py <src-dir> <name> <caught: yes|no> <checks that catch it / why missed> — stores a confirmed seeded change under /verif/seeded/<name>/"""
import json, os, shutil, sys
src, name, caught, note = sys.argv[1:5]
dst = os.path.join(os.path.dirname(os.path.dirname(os.path.abspath(__file__))), "seeded", name)
os.makedirs(dst, exist_ok=True)
for f in ("patch.diff", "demo.rs"):
    shutil.copy(os.path.join(src, f), os.path.join(dst, f))
meta = json.load(open(os.path.join(src, "meta.json")))
confirm = ""
for log in sorted(f for f in os.listdir("/tmp") if f.startswith("confirm_") and f.endswith(".log")):
    for line in open(os.path.join("/tmp", log)):
        if line.startswith(src.rstrip("/") + ":"):
            confirm = line.strip().split(": ", 1)[1]
meta["confirmed_by_builder"] = {
    "procedure": "tools/confirm_seeded.sh in a scratch worktree of /repo: git apply patch.diff; cargo test --offline --lib (unedited suite); demo as tests/demo.rs with and without the patch",
    "outcome": confirm,
}
meta["detection"] = {"caught": caught == "yes", "by": note,
                     "how_run": "tools/try_seeded.sh <patch> <property> (scratch copy of /verif whose harness points at a scratch worktree with the patch applied)"}
json.dump(meta, open(os.path.join(dst, "meta.json"), "w"), indent=1)
print(dst, caught)
