#!/usr/bin/env python3
"""integrate.py <src-verif-root> --model A B --proofs P1 P2 --props C09 --extract count --driver ops_count --harness area_x --gen C09 --corpus C09
Copies the files of a vertical slice from a private copy into /verif and updates Model/All.v and _CoqProject."""
import argparse, os, shutil, re, sys
ap = argparse.ArgumentParser()
ap.add_argument("src")
for k in ("model", "proofs", "props", "extract", "driver", "harness", "gen", "corpus", "extra"):
    ap.add_argument("--" + k, nargs="*", default=[])
a = ap.parse_args()
V = "/verif"
def cp(rel):
    s, d = os.path.join(a.src, rel), os.path.join(V, rel)
    os.makedirs(os.path.dirname(d), exist_ok=True)
    shutil.copy(s, d); print("copied", rel)
for m in a.model: cp("coq/Model/%s.v" % m)
for m in a.proofs: cp("coq/Proofs/%s.v" % m)
for m in a.props: cp("coq/Properties/%s.v" % m)
for m in a.extract: cp("coq/extract.d/%s.txt" % m)
for m in a.driver: cp("driver/%s.ml" % m)
for m in a.harness: cp("harness/src/%s.rs" % m)
for m in a.gen: cp("gen/props/%s.py" % m)
for m in a.corpus: cp("corpus/%s.txt" % m)
for m in a.extra: cp(m)
# All.v
p = os.path.join(V, "coq/Model/All.v")
s = open(p).read()
for m in a.model:
    if "Model.%s" % m not in s:
        s = s.rstrip().rstrip(".") + " Model.%s.\n" % m
open(p, "w").write(s)
# _CoqProject: keep the source project's relative order for the new proof files
p = os.path.join(V, "coq/_CoqProject")
lines = [l for l in open(p).read().split("\n") if l]
def insert_before(name, anchor_pred):
    if name in lines: return
    idx = next(i for i, l in enumerate(lines) if anchor_pred(l))
    lines.insert(idx, name)
for m in a.model: insert_before("Model/%s.v" % m, lambda l: l == "Model/All.v")
src_lines = [l for l in open(os.path.join(a.src, "coq/_CoqProject")).read().split("\n") if l]
for l in src_lines:
    if l.startswith("Proofs/") and l[7:-2] in a.proofs:
        insert_before(l, lambda x: x == "Extract.v" or x.startswith("Properties/"))
for m in a.props:
    if "Properties/%s.v" % m not in lines: lines.append("Properties/%s.v" % m)
open(p, "w").write("\n".join(lines) + "\n")
