#!/usr/bin/env python3
"""Rewrites DESIGN.md §10 from seeded/*/meta.json."""
import json, os, re
V = os.path.dirname(os.path.dirname(os.path.abspath(__file__)))
rows = []
for name in sorted(os.listdir(os.path.join(V, "seeded"))):
    m = json.load(open(os.path.join(V, "seeded", name, "meta.json")))
    needs = re.sub(r"\s+", " ", m.get("needs", "")).strip()
    if len(needs) > 230:
        needs = needs[:227] + "..."
    det = m.get("detection", {})
    by = re.sub(r"\s+", " ", det.get("by", "")).replace("|", "\\|")
    rows.append("| %s | %s | %s | %s | %s |" % (name, m.get("property", "?"), needs.replace("|", "\\|"), "yes" if det.get("caught") else "**no**", by))
first = sum(1 for r in rows if "(first run" in r)
table = """## 10. Seeded changes and the checks that catch them

Changes written by independent sub-agents (each given only a property's text and a scratch worktree of /repo — nothing
from /verif), confirmed by me in a scratch worktree (`tools/confirm_seeded.sh`: the patch applies, the unedited 145-test
suite passes, the demonstration fails with and passes without the patch), stored under `seeded/<name>/` (patch.diff,
demo.rs, meta.json). "first run" = the check as it stood when the change arrived; the other entries say what had to be
strengthened. %d changes, all caught by the current checks; %d of them were caught by the first run. Checks were run with
`tools/try_seeded.sh` (a scratch copy of /verif whose harness points at a scratch worktree with the patch applied, because
other work needed /repo untouched at the time). Finally every change was applied to /repo itself (`git -C /repo apply`),
the registered quick check of its property was run, and the change was undone (`tools/run_seeded_on_repo.sh`): all of them
are reported as VIOLATION (first 100: `seeded-logs/run-on-repo-2026-10-01.log`; after the sixth wave ALL 202 again, with the
checks as they then stood: `seeded-logs/run-on-repo-2026-10-01b.log` — 201 reported on the first pass, 11 of them with
`no-failing-input-found` on their first VIOLATION line; ONE early change, C05-dry-run-left-flip-order, was no longer reported:
later generator changes had shifted the random stream away from the shape it needs — a family that produces that shape on
purpose was added and the change is reported again, which is what re-running the whole collection is for; waves 7 and 8:
`seeded-logs/run-on-repo-2026-10-01c.log` (30/30) and `…-01d.log` (22/22); wave 9: `…-01e.log` (6/6) and `…-01f.log` (8/8)).

Lessons that changed the generators: operands must include (i) more than 65,536 nodes (needs the fast engine), (ii) more
than 256 / 1024 variables and level gaps of exactly 63/64/65, (iii) same-shaped sub-diagrams on variables congruent
modulo 256, (iv) sparse, structurally unrelated but comparable pairs (task-pair blow-up), (v) counts with more than 53
significant bits, (vi) padded partial valuations built cell by cell, (vii) near-keyword names (`True`, `FALSE`),
(viii) fused ternary flips and multi-variable restrictions inside histories, (ix) limited / dry-run operators inside
the concurrent op list; from the third, scale-focused wave (`*-w3-*`, 12 changes that need more than 65,536 nodes, machine-
integer boundaries or huge counts; 7 caught by the first run): (x) BOTH operands large with a size product above 2^32,
(xi) limits that do not fit 32 bits, (xii) an operand above 2^20 nodes (the ternary model engine needs about a minute and
6 GB for it), (xiii) name lists of 65,536 and more names; and one FALSE ALARM was removed on the way: `TryFrom
<BddPartialValuation>` succeeding where the model (like the pinned code) keeps trailing padding is now accepted when the
conversion is an inverse (harmless/13 trims the padding and raises no alarm in any of the 20 checks); from the fourth,
ADVERSARIAL wave (`*-w4-*`, 30 changes written to slip past a strong differential tester: coincidences and state; only 19
caught by the first run — 9 of the 10 for C01–C07 were missed): (xiv) the SAME object in two operand positions (the harness
decoded every operand separately, so reference-identity shortcuts such as `ite(f, g, f)` or equal flips on one reference
never fired: identical operands are now handed out as one `Rc` in three cases out of four and the generators repeat
operands), (xv) operations with nothing to do on NON-canonical operands (quantification over an empty or support-disjoint
list, `a.and(a)`) which must still canonicalise, (xvi) quantified and picked variable sets beyond 32 / 64 entries and
indices, (xvii) non-canonical CONSTANTS (a valid diagram of a constant with redundant nodes), (xviii) operands at the very
top of the variable range (65,533 / 65,534 / 65,535 variables) for `substitute`, (xix) non-REDUCED diagrams for the
selectors (the benign shape on which the pinned code meets C11), (xx) `write_as_dot_string` into a writer that accepts
partial writes. A hang watchdog was added to the harness on the way (`HANG` outcome: a call that does not return within
VERIF_HANG_SECS costs one case, not the shard) after `random_clause` looped for ever on a non-reduced diagram with a
non-terminal false node (outside C11's quantifier, see §0); from the fifth wave (`*-w5-*`, 30 further adversarial changes that
were told which trigger families are used up; 21 caught by the first run): (xxi) strict inclusions over 60..1000 variables
whose two sides have the same count as doubles, judged by an exact product-walk implication oracle (`raw_implies`) instead
of truth tables, (xxii) decision variables congruent modulo 256 / 1024 / 4096 / 32768 among thousands of variables, (xxiii)
storms of consecutive calls inside ONE program so that state kept between calls and keyed by a hash of the arguments is
hit by a colliding consecutive pair, (xxiv) `if_then_else` with operands related by negation, (xxv) results far larger than
both operands together (symmetric functions over interleaved supports) with limits across the whole window, (xxvi) single
edges skipping exactly 1020..1026 levels, (xxvii) non-ASCII whitespace read through chunks of 1..3 bytes, (xxviii)
conditionals nested without parentheses, (xxix) the provided `Iterator` methods (`count`, `last`, `nth`, `size_hint`) on
a partially consumed iterator and `next()` after the end; operands now include structured functions (symmetric,
self-dual, flip-symmetric, cubes, multiplexers) one time in six. One seeded change (C11-w5-b4) is caught by the check of
ANOTHER property than its author named (C17: it lives in `set_num_vars`); from the sixth wave (`*-w6-*`, 30 changes, told
the families of waves 4 and 5 as used up; 26 caught by the first run, 4 of them first by the check of a neighbouring
property — C05 for a non-canonical limited result, C19 for state left behind by an unwound or abandoned call, C09 for a
double count on a permuted array — after which the named property's check was given the missing family too): (xxx) sparse
DNF-shaped functions for `pick`, (xxxi) 2^k paths for k around 64 and 128, (xxxii) short clause lists over 17..60
variables with an oracle that probes every clause, (xxxiii) names containing the separators of a printed name list,
(xxxiv) an operation after a caught panic of a user closure, (xxxv) a quantifier right after a call that gave up,
(xxxvi) limited operators with output flips among the canonicity families, (xxxvii) `cardinality()` of accepted foreign
arrays. One first-run "miss" was a CRASH of the comparator on an unexpected `Some(..)` (C17): comparator exceptions are
now reported as violations (`no-failing-input-found`) instead of ending the check without a verdict; from the seventh wave
(`*-w7-*`, 30 changes, 23 caught by the first run — two of them by a neighbouring property's check): (xxxviii) node counts
that are exact multiples of 256/512 and runs of 8..100 consecutive interruptions for the serialisers, (xxxix) long
malformed text records with multi-byte characters at fixed byte offsets, (xl) quantifier lists forming one contiguous block
of 16..40 variables, (xli) a trigger closure that itself runs a nested apply, (xlii) diagrams above 1,000 nodes for the
dot export, (xliii) repeated literals in sorted `select` lists inside histories. A second first-run "miss" was again the
machinery: a change that makes the library request 100 GB took the harness PROCESS down (CHECK-ERROR, no verdict); the
transcript is now flushed after every case, a dead process is the outcome `ABORT` for the case it died in (a confirmed
violation) and the shard resumes with the next program; from the eighth wave (`*-w8-*`, 22 changes, 21 caught by the first
run): (xliv) `ternary_op` over operands that store identical nodes at identical indices but denote different functions;
from the ninth, small wave (`*-w9-*`, 6 changes on the six least-seeded properties, 5 caught by the first run): (xlv) ONE
diagram exported several times in a row inside one program under different name lists of the same length — a thread-local
memo of `to_dot_string` keyed by the diagram, the pruning flag and the NUMBER of names answered with the earlier labels; the
harness keeps one worker thread per shard, so state of that kind survives between the cases of a program, and C20 now has a
relabelling-storm family that mixes `to_dot_string`, `write_as_dot_string` and the anonymous-name entry point.
A second group of eight (`*-w9b-*`) was asked specifically for STATE KEPT BETWEEN CALLS — thread-local memos and scratch buffers
introduced as optimisations and keyed by less than everything the answer depends on; 5 of 8 were caught by the first run, the
three misses each needed two consecutive calls whose arguments COLLIDE under a cheap key: (xlvi) the same decision nodes counted
under different variable counts (only the terminal records differ; C09 universe storms), (xlvii) `mk_sat_exactly_k` and
`mk_sat_up_to_k` alternating on one variable list with rising thresholds (C16 threshold storms), (xlviii) projections of one
operand over lists agreeing in length, smallest and largest entry and sum, or differing by order or one repeated entry (C03
list storms); the parser memo (C14) was caught by the first run through ONE program only, so C14 got regrouping storms as well
(one sequence of names and operators parsed under several parenthesisations inside one program), after which it is reported
by hundreds of cases. (The eight agents shared one `git stash` through their worktrees and popped each other's changes; every patch was
therefore confirmed on its own by `tools/confirm_seeded.sh`, which starts from a clean checkout — later briefs must say
`git diff > p; git checkout -- src; …; git apply p` instead of `git stash`.)
Open item for a later round: storm families of this kind (consecutive calls on one thread whose arguments collide under a cheap
key) exist for C03, C05, C06, C09, C14, C16 and C20; the other properties rely on ordinary programs sharing a shard's worker
thread, which caught the w9b changes written for C10, C12, C17 and C18 but is not designed to.
First-run rates per wave: 80/100 (waves 1–2), 7/12, 19/30, 21/30, 26/30, 23/30, 21/22, 5/6 + 5/8.

| seeded change | property | needs | caught | by |
|---|---|---|---|---|
""" % (len(rows), first) + "\n".join(rows) + "\n"
p = os.path.join(V, "DESIGN.md")
s = open(p).read()
i = s.index("## 10. Seeded changes and the checks that catch them")
open(p, "w").write(s[:i] + table)
print(len(rows), "rows;", first, "first-run")
