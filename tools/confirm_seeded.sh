#!/bin/sh
# usage: confirm_seeded.sh <seed-dir> ... ; confirms in a scratch worktree (/tmp/confirm/repo) that each seeded change
# (a) applies and compiles, (b) passes the unedited lib test suite, (c) its demo fails with it and (d) passes without it.
# Prints one summary line per directory.
export CARGO_NET_OFFLINE=true CARGO_TARGET_DIR=/tmp/confirm/target
mkdir -p /tmp/confirm
[ -d /tmp/confirm/repo ] || git -C /repo worktree add --detach /tmp/confirm/repo HEAD >/dev/null 2>&1
cd /tmp/confirm/repo && git checkout -q --detach "$(git -C /repo rev-parse HEAD)" 
for d in "$@"; do
  cd /tmp/confirm/repo; git checkout -q -- .; rm -f tests/demo.rs
  if ! git apply "$d/patch.diff" 2>/dev/null; then echo "$d: PATCH-DOES-NOT-APPLY"; continue; fi
  suite=$(cargo test --offline --lib 2>&1 | grep -E "^test result" | head -1)
  mkdir -p tests; cp "$d/demo.rs" tests/demo.rs
  with=$(cargo test --offline --test demo 2>&1 | grep -E "^test result" | head -1)
  git checkout -q -- src
  without=$(cargo test --offline --test demo 2>&1 | grep -E "^test result" | head -1)
  rm -f tests/demo.rs
  echo "$d: suite[$suite] demo-with-patch[$with] demo-without[$without]"
done
cd /tmp/confirm/repo; git checkout -q -- .; rm -f tests/demo.rs
