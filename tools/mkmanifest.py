#!/usr/bin/env python3
"""Regenerates /verif/MANIFEST.json from the table below (run after adding a property check)."""
import json, os
HERE = os.path.dirname(os.path.dirname(os.path.abspath(__file__)))
props = [json.loads(l) for l in open(os.path.join(HERE, "properties.jsonl"))]
TECH = "Coq proof about an executable model + step-local differential correspondence (extracted model vs /repo) + raw-array oracle"
NOTE = "trusted base: Coq kernel, extraction (ExtrOcamlBasic only), OCaml driver, Rust harness, Python comparator; see evidence.coverage.trusted_base and DESIGN.md §8. "
claimed = {
 "C01": ("Axiom-free Coq theorems: for any two valid diagrams over the same variable count and any total, consistent partial-operator table the binary operator returns the canonical diagram of the pointwise connective (C01_binary_pointwise); consistent tables of one connective give identical arrays (C01_eager_lazy_same); the six built-in tables are total and consistent (C01_builtin_tables). The model is tied to /repo on every run by the step-local correspondence canon(impl)=canon(model) on exhaustive small scopes and random larger ones, incl. not/ternary/ite.",
         "partial: the ternary operators and `not` are modelled (ternary as a composition of proved binary applies) and covered by the correspondence; their own theorems (apply3_sem, not_sem) are listed in DESIGN.md as still to be added."),
 "C04": ("Axiom-free Coq theorems: the fused binary operator denotes r(v)=op(a(flip_fa(flip_fo v)), b(flip_fb(flip_fo v))) with None the identity, for all valid operands and all flip choices in range (C04_fused_binary_flip_semantics), and rejects exactly out-of-range flips / different variable counts (C04_flip_bounds). Correspondence: all flip triples over <=2 variables exhaustively, random larger, fused vs. unfused composition through the public API compared with ==.",
         "partial: fused_ternary_flip_op is modelled by composition and covered by correspondence only; fused==unfused is checked dynamically (theorem fused_eq_unfused still to be added)."),
 "C02": ("Axiom-free Coq theorems: two canonical diagrams (valid, reduced, DFS post-order high-first, nothing unreachable) over the same variable count denoting the same function are the same array (C02_canonical_unique); the executable checker canonicalb decides that predicate (C02_checker_decides); is_false/is_true are exact on canonical diagrams; binary, ternary and nested operators return canonical results on merely valid operands; not and projection preserve canonicity. Correspondence: histories of 4..30 public operations from library constructors; every produced Bdd is checked with the extracted canonicalb and an independent Python scan; identity programs compare ==, Hash stream, text and bytes along two histories.",
         "partial: canonicity-preservation theorems exist for the engine-based operators, not, projection; for the remaining producers (restrict, substitute, normal-form and threshold constructors, renaming/transfer, deserialisation) canonicity is established per run by canonicalb on the implementation's output plus canonical_unique, with per-producer theorems being added (DESIGN.md §4 C02). The history induction theorem over the register language is not yet stated."),
 "C03": ("Axiom-free Coq theorems: var_exists/var_for_all, exists/for_all, binary_op_with_exists/for_all and binary_op_nested (inner or/and) denote exactly the existential/universal projection over the listed/triggered variables of the outer operator's result, for any list (order, repetition, out-of-range), any consistent outer table, any valid operands; the result is canonical, independent of the quantified variables and depends only on the set of listed variables (C03_*). The model is operate-then-project-one-variable-at-a-time; by canonicity its array must equal the nested apply's. Correspondence on all subsets with duplicated permutations over <=3 variables and random larger cases; exists vs iterated var_exists compared with ==.",
         "nested apply's internal stack machine is not modelled (only its result, which canonicity pins to the array)."),
 "C05": ("Axiom-free Coq theorems: the limited operator returns Some r exactly when the unrestricted result r has at most limit nodes and then r itself, for every limit incl. 0 and 1 (C05_limit_exact, proved about a step-faithful limited engine by a structural simulation argument); cmp_implies orders by implication exactly (C05_cmp_implies). Correspondence: every limit 0..size+2, dry runs for every limit.",
         "partial: the dry-run clauses (flag == !is_false, count >= decision nodes, None iff count > limit) are decided by the correspondence against the step-faithful model `dry_run` and the implementation's own unrestricted result; their theorems (dry_flag, dry_limit, dry_count_bound) are not yet proved."),
}
checks = []
for pid, (text, note) in claimed.items():
    checks.append({"property_id": pid, "quick_cmd": "./check %s --tier quick" % pid, "thorough_cmd": "./check %s --tier thorough" % pid,
                   "evidence_file": "/verif/evidence/%s.json" % pid, "replay_cmd_template": "./check %s --replay {path}" % pid,
                   "engine": "coq-proof+correspondence",
                   "level_claimed": {"category": "proof", "text": text, "design_ref": "DESIGN.md §4 " + pid},
                   "level_note": NOTE + note, "technique": TECH})
na = [{"property_id": p["id"], "reason": "not claimed yet: its Coq property file and correspondence check are under construction (DESIGN.md §4, §9); the technique applies"} for p in props if p["id"] not in claimed]
m = {"version": 1, "setup_cmd": "./setup.sh",
     "hooks": {"guard": "biodivine_lib_bdd_verif",
               "enable": "--cfg biodivine_lib_bdd_verif via /verif/harness/.cargo/config.toml (the harness crate depends on /repo by path and is rebuilt by every check)",
               "baseline_off_cmd": "cd /repo && cargo test --workspace --no-fail-fast --offline",
               "source_commits": ["c7dc89f"], "add_only": True},
     "engines": [{"name": "coq-proof+correspondence", "path": "/verif/check", "serves_properties": list(claimed),
                  "kind_free_text": "Coq 8.16 development (coq/), extracted OCaml model driver (driver/), Rust harness (harness/), Python generators/oracles (gen/)"}],
     "checks": checks, "not_applicable": na,
     "notes": "Every check: (1) builds coq/Properties/<id>.vo, audits Print Assumptions and scans for Admitted/Axiom; (2) rebuilds the harness against /repo's working tree; (3) runs generated programs on the implementation, replays every step in the extracted Coq model, compares under the property's relation; (4) on disagreement searches for a failing input with an independent raw-array oracle."}
json.dump(m, open(os.path.join(HERE, "MANIFEST.json"), "w"), indent=1)
print("claimed:", sorted(claimed))
