(* renaming / transfer (C17) *)
open Sx
open Model

let d_name x : n list =
  let s = d_hex x in
  List.init (String.length s) (fun i -> n_of_int (Char.code s.[i]))
let d_names x = d_list d_name x
let e_obdd = e_outcome e_bdd

let run (c : s list) : s option =
  match c with
  | A "rename_var" :: b :: o :: nw :: _ -> Some (e_obdd (rename_variable (d_bdd b) (d_n o) (d_n nw)))
  | A "rename_vars" :: b :: m :: _ ->
    (* the harness collects the pairs into a HashMap (a later pair with the same key replaces an earlier one); the model's
       association list answers with its first binding, so hand it the pairs in reverse *)
    Some (e_obdd (rename_variables (d_bdd b) (List.rev (d_list (d_pair d_n d_n) m))))
  | A "set_num_vars" :: b :: nv :: _ -> Some (e_obdd (set_num_vars (d_bdd b) (d_n nv)))
  | A "transfer" :: b :: from :: target :: _ ->
    Some (e_outcome (e_opt e_bdd) (transfer_from (d_names target) (d_bdd b) (d_names from)))
  | _ -> None
