(* serialisation area (C12, C13): text / binary readers and writers over scripted I/O, from_nodes, validate *)
open Sx
open Model

let byte_tab : n array = Array.init 256 n_of_int

let bytes_of_string (s : string) : n list =
  let acc = ref [] in
  for i = String.length s - 1 downto 0 do acc := byte_tab.(Char.code s.[i]) :: !acc done;
  !acc

let string_of_bytes (l : n list) : string =
  let b = Buffer.create 1024 in
  List.iter (fun x -> let v = int_of_n x in
              if v < 0 || v > 255 then raise (Bad "byte out of range") else Buffer.add_char b (Char.chr v)) l;
  Buffer.contents b

let d_kind = function
  | "interrupted" -> KInterrupted
  | "unexpected_eof" -> KUnexpectedEof
  | "other" | "would_block" | "invalid_data" | "invalid_input" | "timed_out" | "write_zero" | "broken_pipe"
  | "connection_reset" | "not_found" | "permission_denied" | "out_of_memory" -> KOther
  | k -> raise (Bad ("error kind " ^ k))

let d_sched (x : s) : event list =
  List.map (function
      | A "I" -> EIntr
      | L [A "C"; k] -> EChunk (d_n k)
      | L [A "E"; A k] -> EFail (d_kind k)
      | e -> raise (Bad ("event " ^ to_string e))) (items "L" x)

let e_rbdd : bdd result outcome -> s = function
  | Ok (ROk b) -> L [A "OK"; e_bdd b]
  | Ok RErr -> A "ERR"
  | Panic -> A "PANIC"
  | OutOfFuel -> A "FUEL"

let e_runit : unit result outcome -> s = function
  | Ok (ROk ()) -> A "OK"
  | Ok RErr -> A "ERR"
  | Panic -> A "PANIC"
  | OutOfFuel -> A "FUEL"

let e_written ((ok, bytes) : bool * n list) : s =
  L [A "P"; A (if ok then "OK" else "ERR"); e_hex (string_of_bytes bytes)]

let run (c : s list) : s option =
  match c with
  | A "read_bytes_sched" :: d :: sc :: _ -> Some (e_rbdd (read_bytes_sched (bytes_of_string (d_hex d)) (d_sched sc)))
  | A "read_string_sched" :: d :: sc :: _ -> Some (e_rbdd (read_text_sched (bytes_of_string (d_hex d)) (d_sched sc)))
  | A "read_bytes" :: d :: _ -> Some (e_rbdd (read_bytes_sched (bytes_of_string (d_hex d)) []))
  | A "read_string" :: d :: _ -> Some (e_rbdd (read_text_sched (bytes_of_string (d_hex d)) []))
  | A "write_bytes_sched" :: b :: sc :: _ -> Some (e_written (write_bytes_sched (d_bdd b) (d_sched sc)))
  | A "write_string_sched" :: b :: sc :: _ -> Some (e_written (write_text_sched (d_bdd b) (d_sched sc)))
  | A "to_bytes" :: b :: _ -> Some (e_hex (string_of_bytes (write_bytes (d_bdd b))))
  | A "to_string" :: b :: _ -> Some (e_hex (string_of_bytes (write_text (d_bdd b))))
  | A "from_nodes" :: b :: _ -> Some (e_rbdd (from_nodes (d_bdd b)))
  | A "to_nodes" :: b :: _ -> Some (e_bdd (to_nodes (d_bdd b)))
  | A "validate" :: b :: _ -> Some (e_runit (validate (d_bdd b)))
  | _ -> None
