(* core operations: logic, limits, quantifiers, relations, constructors *)
open Sx
open Model


let op2_of x = op_of_table (d_table x)

let canon (b : bdd) : s =
  if not (wfb b) then A "NOTWF" else
  match fused_binary_flip_op b b None None None op_and with
  | Ok r -> e_bdd r
  | Panic -> A "PANIC"
  | OutOfFuel -> A "FUEL"

exception Unhandled
let e_obdd = e_outcome e_bdd

(* engine selection for fbin/bin/named: the reference engine (Model/Apply.v, association lists) for small
   operands, the proved-equal efficient engine (Model/ApplyFast.v, Proofs/ApplyFast.v
   fused_binary_flip_op_fast_eq) as soon as an operand has more than fast_threshold nodes, so both stay
   exercised.  BDD_ENGINE=fast|slow forces one of them (used by the fast-vs-slow cross-check of ./check). *)
let fast_threshold = 300
let rec longer_than (l : 'a list) (k : int) = match l with [] -> false | _ :: r -> k <= 0 || longer_than r (k - 1)
let engine = match Sys.getenv_opt "BDD_ENGINE" with Some "fast" -> `Fast | Some "slow" -> `Slow | _ -> `Auto
let fbf (x : bdd) (y : bdd) fa fb fo op : bdd outcome =
  let fast = match engine with
    | `Fast -> true | `Slow -> false
    | `Auto -> longer_than x fast_threshold || longer_than y fast_threshold in
  if fast then fused_binary_flip_op_fast x y fa fb fo op else fused_binary_flip_op x y fa fb fo op
let run (c : s list) : s option =
  Some (match c with
  | A "fbin" :: t :: fa :: fb :: fo :: x :: y :: _ ->
    e_obdd (fbf (d_bdd x) (d_bdd y) (d_optvar fa) (d_optvar fb) (d_optvar fo) (op2_of t))
  | A "bin" :: t :: x :: y :: _ ->
    e_obdd (fbf (d_bdd x) (d_bdd y) None None None (op2_of t))
  | A "named" :: A name :: x :: y :: _ ->
    let op = match name with
      | "and" -> op_and | "or" -> op_or | "imp" -> op_imp | "iff" -> op_iff | "xor" -> op_xor | "and_not" -> op_and_not
      | _ -> raise (Bad "named") in
    e_obdd (fbf (d_bdd x) (d_bdd y) None None None op)
  | A "fbinlim" :: lim :: t :: fa :: fb :: fo :: x :: y :: _ ->
    e_outcome (e_opt e_bdd)
      (fused_binary_flip_op_with_limit (d_n lim) (d_bdd x) (d_bdd y) (d_optvar fa) (d_optvar fb) (d_optvar fo) (op2_of t))
  | A "binlim" :: lim :: t :: x :: y :: _ ->
    e_outcome (e_opt e_bdd) (fused_binary_flip_op_with_limit (d_n lim) (d_bdd x) (d_bdd y) None None None (op2_of t))
  | A "dry" :: lim :: t :: fa :: fb :: fo :: x :: y :: _ ->
    e_outcome (e_opt (e_pair e_bool e_n))
      (check_fused_binary_flip_op (d_n lim) (d_bdd x) (d_bdd y) (d_optvar fa) (d_optvar fb) (d_optvar fo) (op2_of t))
  | A "drybin" :: lim :: t :: x :: y :: _ ->
    e_outcome (e_opt (e_pair e_bool e_n)) (check_fused_binary_flip_op (d_n lim) (d_bdd x) (d_bdd y) None None None (op2_of t))
  | A "optable" :: A name :: _ ->
    let op = match name with
      | "and" -> op_and | "or" -> op_or | "imp" -> op_imp | "iff" -> op_iff | "xor" -> op_xor | "and_not" -> op_and_not
      | _ -> raise (Bad "optable") in
    let o = [None; Some false; Some true] in
    A ("t:" ^ String.concat "" (List.concat_map (fun l -> List.map (fun r ->
        match op l r with None -> "-" | Some false -> "0" | Some true -> "1") o) o))
  | A "not" :: x :: _ -> e_bdd (bdd_not (d_bdd x))
  | A "ite" :: x :: y :: z :: _ -> e_obdd (if_then_else (d_bdd x) (d_bdd y) (d_bdd z))
  | A "tern" :: t :: x :: y :: z :: _ -> e_obdd (ternary_op (d_bdd x) (d_bdd y) (d_bdd z) (op3_of_table (d_table t)))
  | A "ftern" :: t :: f1 :: f2 :: f3 :: fo :: x :: y :: z :: _ ->
    e_obdd (fused_ternary_flip_op (d_bdd x) (d_bdd y) (d_bdd z) (d_optvar f1) (d_optvar f2) (d_optvar f3) (d_optvar fo) (op3_of_table (d_table t)))
  | A "var_exists" :: x :: v :: _ -> e_obdd (var_exists (d_bdd x) (d_n v))
  | A "var_for_all" :: x :: v :: _ -> e_obdd (var_for_all (d_bdd x) (d_n v))
  | A "exists" :: x :: vs :: _ -> e_obdd (bdd_exists (d_bdd x) (d_list d_n vs))
  | A "for_all" :: x :: vs :: _ -> e_obdd (bdd_for_all (d_bdd x) (d_list d_n vs))
  | A "bin_exists" :: t :: x :: y :: vs :: _ -> e_obdd (binary_op_with_exists (d_bdd x) (d_bdd y) (op2_of t) (d_list d_n vs))
  | A "bin_for_all" :: t :: x :: y :: vs :: _ -> e_obdd (binary_op_with_for_all (d_bdd x) (d_bdd y) (op2_of t) (d_list d_n vs))
  | A "nested" :: tout :: tin :: x :: y :: trig :: _ ->
    let inner = op2_of tin in
    let is_and = (inner (Some false) (Some true) = Some false) in
    e_obdd (binary_op_nested (d_bdd x) (d_bdd y) (d_bits 'v' trig) (op2_of tout) is_and)
  | A "var_select" :: x :: v :: c :: _ -> e_obdd (var_select (d_bdd x) (d_n v) (d_bool c))
  | A "select" :: x :: lits :: _ -> e_obdd (select (d_bdd x) (d_list (d_pair d_n d_bool) lits))
  | A "var_restrict" :: x :: v :: c :: _ -> e_obdd (var_restrict (d_bdd x) (d_n v) (d_bool c))
  | A "restrict" :: x :: lits :: _ -> e_obdd (restrict (d_bdd x) (d_list (d_pair d_n d_bool) lits))
  | A "var_pick" :: x :: v :: _ -> e_obdd (var_pick (d_bdd x) (d_n v))
  | A "var_pick_random" :: x :: v :: sc :: _ -> e_obdd (fst (var_pick_random (d_bdd x) (d_n v) (d_bits 'v' sc)))
  | A "pick" :: x :: vs :: _ -> e_obdd (pick (d_bdd x) (d_list d_n vs))
  | A "pick_random" :: x :: vs :: sc :: _ -> e_obdd (pick_random (d_bdd x) (d_list d_n vs) (d_bits 'v' sc))
  | A "substitute" :: f :: v :: g :: _ -> e_obdd (substitute (d_bdd f) (d_n v) (d_bdd g))
  | A "mk_true" :: nv :: _ -> e_bdd (mk_true (d_n nv))
  | A "mk_false" :: nv :: _ -> e_bdd (mk_false (d_n nv))
  | A "mk_var" :: nv :: v :: _ -> e_obdd (vs_mk_literal (d_n nv) (d_n v) true)
  | A "mk_not_var" :: nv :: v :: _ -> e_obdd (vs_mk_literal (d_n nv) (d_n v) false)
  | A "mk_literal" :: nv :: v :: c :: _ -> e_obdd (vs_mk_literal (d_n nv) (d_n v) (d_bool c))
  | A "mk_cc" :: nv :: pv :: _ -> e_obdd (mk_conjunctive_clause (d_n nv) (d_pv pv))
  | A "mk_dc" :: nv :: pv :: _ -> e_obdd (mk_disjunctive_clause (d_n nv) (d_pv pv))
  | A "mk_dnf" :: nv :: cs :: _ -> e_obdd (mk_dnf (d_n nv) (d_list d_pv cs))
  | A "mk_cnf" :: nv :: cs :: _ -> e_obdd (mk_cnf (d_n nv) (d_list d_pv cs))
  | A "mk_sat_exactly" :: nv :: k :: vs :: _ -> e_obdd (mk_sat_k false (d_n nv) (d_n k) (d_list d_n vs))
  | A "mk_sat_upto" :: nv :: k :: vs :: _ -> e_obdd (mk_sat_k true (d_n nv) (d_n k) (d_list d_n vs))
  | A "of_valuation" :: v :: _ -> e_bdd (of_valuation (d_bits 'v' v))
  | A "cmp_implies" :: x :: y :: _ ->
    e_outcome (e_opt (function OLt -> A "LT" | OEq -> A "EQ" | OGt -> A "GT")) (cmp_implies (d_bdd x) (d_bdd y))
  | A "eval" :: x :: v :: _ -> e_bool (eval (d_bdd x) (val_of_list (d_bits 'v' v)))
  | A "is_true" :: x :: _ -> e_bool (N.eqb (size (d_bdd x)) (n_of_int 2))
  | A "is_false" :: x :: _ -> e_bool (N.eqb (size (d_bdd x)) (n_of_int 1))
  | A "id" :: x :: _ -> e_bdd (d_bdd x)
  | _ -> raise Unhandled)

