(* core operations: logic, limits, quantifiers, relations, constructors *)
open Sx
open Model


let op2_of x = op_of_table (d_table x)

let canon (b : bdd) : s =
  if not (wfb b) then A "NOTWF" else
  match fused_binary_flip_op b b None None None op_and with
  | Ok r -> e_bdd r
  | Panic -> A "PANIC"
  | OutOfFuel -> A "FUEL"

exception Unhandled
let e_obdd = e_outcome e_bdd

(* engine selection for fbin/bin/named: the reference engine (Model/Apply.v, association lists) for small
   operands, the proved-equal efficient engine (Model/ApplyFast.v, Proofs/ApplyFast.v
   fused_binary_flip_op_fast_eq) as soon as an operand has more than fast_threshold nodes, so both stay
   exercised.  BDD_ENGINE=fast|slow|stack forces one of them (used by the engine cross-check of ./check);
   `stack` is the step-faithful explicit-stack machine of Model/ApplyStack.v (one sstep = one iteration of the
   Rust `while` loop), proved equal to the reference engine in Proofs/ApplyStack.v (apply2_stack_eq). *)
let fast_threshold = 300
let rec longer_than (l : 'a list) (k : int) = match l with [] -> false | _ :: r -> k <= 0 || longer_than r (k - 1)
let engine = match Sys.getenv_opt "BDD_ENGINE" with
  | Some "fast" -> `Fast | Some "slow" -> `Slow | Some "stack" -> `Stack | _ -> `Auto
let fbf (x : bdd) (y : bdd) fa fb fo op : bdd outcome =
  match engine with
  | `Stack -> fused_binary_flip_op_stack x y fa fb fo op
  | `Fast -> fused_binary_flip_op_fast x y fa fb fo op
  | `Slow -> fused_binary_flip_op x y fa fb fo op
  | `Auto ->
    if longer_than x fast_threshold || longer_than y fast_threshold
    then fused_binary_flip_op_fast x y fa fb fo op else fused_binary_flip_op x y fa fb fo op
(* The same selection for the other loops of the library that have an efficient twin proved EQUAL to their reference
   model with no hypotheses: the size-limited engine and the dry run (Model/ApplyFast2.v, Proofs/ApplyFast2.v
   fused_binary_flip_op_with_limit_fast_eq / check_fused_binary_flip_op_fast_eq), the ternary engine
   (Model/Apply3Fast.v, Proofs/Apply3Fast.v fused_ternary_flip_op_faithful_fast_eq) and the nested apply
   (Model/NestedFast.v, Proofs/NestedFast.v nested_apply_fn_fast_eq).  BDD_ENGINE=fast forces the twins, slow the
   reference definitions (engine cross-check of ./check).
   BDD_ENGINE=stack selects, for the size-limited engine, the dry run and the ternary engine, the STEP-FAITHFUL
   explicit-stack machines (Model/ApplyLimitStack.v, Model/DryStack.v, Model/Apply3Stack.v: one step = one iteration of
   the Rust `while` loop; proved equal to the reference definitions for well-formed operands and total tables in
   Proofs/ApplyLimitStack.v apply2_limit_stack_eq, Proofs/DryStack.v dry_run_stack_eq, Proofs/Apply3Stack.v apply3_stack_eq)
   as long as no operand is above fast_threshold nodes; above it (association-list tables: quadratic) the fast twins
   stay in charge.  The nested apply (nested / exists / for_all / bin_exists / bin_for_all) has its own step-faithful
   machines (Model/NestedStack.v: outer loop, inner loop run to completion inside one outer step, fix_bdd_alignment
   copy loop; Proofs/NestedStack.v nested_apply_stack_eq: equal to the faithful recursion for well-formed operands and
   two total tables), selected by `stack` under the same size rule (`both_nested`). *)
let is_big (x : bdd) = longer_than x fast_threshold
let use_fast (operands : bdd list) : bool =
  match engine with
  | `Fast -> true
  | `Slow | `Stack -> false
  | `Auto -> List.exists is_big operands
(* `Stack on small operands -> the stack machine; `Stack on big operands -> the fast twin; otherwise as use_fast *)
let pick3 (operands : bdd list) ~(stack : unit -> 'a) ~(fast : unit -> 'a) ~(reference : unit -> 'a) : 'a =
  match engine with
  | `Stack -> if List.exists is_big operands then fast () else stack ()
  | _ -> if use_fast operands then fast () else reference ()
let limf lim (x : bdd) (y : bdd) fa fb fo op : bdd option outcome =
  pick3 [x; y]
    ~stack:(fun () -> fused_binary_flip_op_with_limit_stack lim x y fa fb fo op)
    ~fast:(fun () -> fused_binary_flip_op_with_limit_fast lim x y fa fb fo op)
    ~reference:(fun () -> fused_binary_flip_op_with_limit lim x y fa fb fo op)
let dryf lim (x : bdd) (y : bdd) fa fb fo op : (bool * n) option outcome =
  pick3 [x; y]
    ~stack:(fun () -> check_fused_binary_flip_op_stack lim x y fa fb fo op)
    ~fast:(fun () -> check_fused_binary_flip_op_fast lim x y fa fb fo op)
    ~reference:(fun () -> check_fused_binary_flip_op lim x y fa fb fo op)

(* restrict / var_restrict: the order-faithful single-pass algorithm (Model/Restrict.v) is the model that is
   reported; the compositional model (Ops.restrict, exists-of-select) is computed as well.  On a well-formed
   operand (in particular on every canonical one) the two are proved equal (Proofs/Restrict.v
   restriction_eq_model_wf), so a difference there is a machinery error, never a finding. *)
let restrict_both (b : bdd) (lits : (n * bool) list) : bdd outcome =
  let faithful = restrict_faithful b lits in
  (match faithful, restrict b lits with
   | Some r, Ok r' when r <> r' && wfb b -> raise (Bad "restrict models disagree")
   | None, Ok _ when wfb b -> raise (Bad "restrict models disagree")
   | _ -> ());
  match faithful with Some r -> Ok r | None -> OutOfFuel

(* mk_dnf / mk_cnf: the reported result is the one of the ORDER-FAITHFUL transcription of the library's own recursion
   (Model/Dnf.v: three-way split on the variable index, duplicate-clause assertion, or/and combination of the three
   sub-results); the I/O-equivalent fold model (Model/Ops.v), which the C10 theorems were first stated about, is
   recomputed alongside.  Proofs/DnfSem.v mk_dnf_faithful_eq_model / mk_cnf_faithful_eq_model prove the two outcomes
   equal whenever every clause cell is below num_vars, so a difference there is a machinery error, never a finding.
   For a clause mentioning a variable >= num_vars the DNF models legitimately differ (the Rust does not reject it). *)
let nf_both faithful fold (nv : n) (cs : pval list) : bdd outcome =
  let f = faithful nv cs in
  if List.for_all (cells_in_range nv) cs && f <> fold nv cs then raise (Bad "dnf-models-disagree");
  f

(* ternary operators: the reported result is the one of the ORDER-FAITHFUL engine (Model/Apply3.v, the model of the
   library's own `ternary_apply` loop); the compositional I/O-equivalent model (Model/Ops.v, five binary applies) is
   recomputed alongside.  Proofs/Apply3Sem.v `ternary_faithful_eq` proves the two outcomes equal whenever the operands
   are well-formed and the table is total and consistent (`table3_okb`, proved sound: `table3_okb_sound`; the Python
   generator `partial_table3` only produces such tables).  Under exactly these hypotheses a difference can only be a
   model/extraction/driver bug and is a hard error; otherwise (malformed operand recorded from a defective
   implementation, inconsistent table) the theorem does not apply and the faithful engine's result goes to the judge. *)
let tern3 (x : bdd) (y : bdd) (z : bdd) fa fb fc fo (op : op3) : bdd outcome =
  let f = pick3 [x; y; z]
      ~stack:(fun () -> fused_ternary_flip_op_stack x y z fa fb fc fo op)
      ~fast:(fun () -> fused_ternary_flip_op_faithful_fast x y z fa fb fc fo op)
      ~reference:(fun () -> fused_ternary_flip_op_faithful x y z fa fb fc fo op) in
  (* the compositional cross-check runs five reference binary applies and the list-based wfb (quadratic): only
     when no operand is above the threshold *)
  if not (List.exists is_big [x; y; z]) then begin
    let c = fused_ternary_flip_op x y z fa fb fc fo op in
    if f <> c && table3_okb op && wfb x && wfb y && wfb z then raise (Bad "ternary-models-disagree")
  end;
  f

(* nested apply: the model answer is the result of the FAITHFUL engine (Model/Nested.v: outer engine, inner
   engine on the growing store, fix_alignment).  The compositional model (operate, then project the triggered
   variables one at a time; Model/Ops.v) is computed as well: on valid operands with a total consistent outer
   table and an or/and inner table both are canonical diagrams of the same function
   (Proofs/NestedSem.v, Proofs/QuantSem.v), so a difference is a hard machinery error. *)
let table_ok (op : op2) : bool =
  let tt a b = op (Some a) (Some b) in
  let bools = [false; true] in
  let o = [None; Some false; Some true] in
  let refines a x = match x with None -> true | Some b -> a = b in
  List.for_all (fun a -> List.for_all (fun b -> tt a b <> None) bools) bools &&
  List.for_all (fun l -> List.for_all (fun r ->
      match op l r with None -> true | Some c ->
        List.for_all (fun a -> List.for_all (fun b ->
          not (refines a l && refines b r) || tt a b = Some c) bools) bools) o) o
let or_and_like (inner : op2) : bool =
  let total_is f = List.for_all (fun (a, b) -> inner (Some a) (Some b) = Some (f a b))
      [(false,false);(false,true);(true,false);(true,true)] in
  table_ok inner && (total_is (||) || total_is (&&))
let both_nested (operands : bdd list) (outer : op2) ~(stack : unit -> bdd outcome) (reference : unit -> bdd outcome)
    (fast : unit -> bdd outcome) (compositional : unit -> bdd outcome) : bdd outcome =
  let faithful = pick3 operands ~stack ~fast ~reference in
  (* the compositional model is a chain of reference binary applies (quadratic): only when no operand is above
     the threshold *)
  if not (List.exists is_big operands) then begin
    if faithful <> compositional () && List.for_all wfb operands && table_ok outer then raise (Bad "nested models disagree")
  end;
  faithful

(* substitute: the reported result is the one of the STEP-FAITHFUL model of the library's own algorithm
   (Model/Substitute.v: clone / safe / proxy-variable paths, set_num_vars, rename_variables, nested apply, every
   unwrap as an explicit Panic); the compositional I/O-equivalent Shannon model (Ops.substitute) is recomputed
   alongside.  Proofs/SubstituteSem.v `substitute_faithful_eq_model` proves the two outcomes equal whenever both
   operands are well-formed, range over the same variable count below the u16 maximum, and x is in range.  Under
   exactly these hypotheses a difference can only be a model/extraction/driver bug and is a hard error; otherwise
   the theorem does not apply and the faithful model's result goes to the judge. *)
let n_u16_max = n_of_int 65535
let substitute_both (f : bdd) (x : n) (g : bdd) : bdd outcome =
  let fa = substitute_faithful f x g in
  let co = substitute f x g in
  if fa <> co && wfb f && wfb g && N.eqb (nvars f) (nvars g) && N.ltb x (nvars f) && N.ltb (nvars f) n_u16_max
  then raise (Bad "substitute-models-disagree");
  fa

let run (c : s list) : s option =
  Some (match c with
  | A "fbin" :: t :: fa :: fb :: fo :: x :: y :: _ ->
    e_obdd (fbf (d_bdd x) (d_bdd y) (d_optvar fa) (d_optvar fb) (d_optvar fo) (op2_of t))
  | A "bin" :: t :: x :: y :: _ ->
    e_obdd (fbf (d_bdd x) (d_bdd y) None None None (op2_of t))
  | A "named" :: A name :: x :: y :: _ ->
    let op = match name with
      | "and" -> op_and | "or" -> op_or | "imp" -> op_imp | "iff" -> op_iff | "xor" -> op_xor | "and_not" -> op_and_not
      | _ -> raise (Bad "named") in
    e_obdd (fbf (d_bdd x) (d_bdd y) None None None op)
  | A "fbinlim" :: lim :: t :: fa :: fb :: fo :: x :: y :: _ ->
    e_outcome (e_opt e_bdd)
      (limf (d_n lim) (d_bdd x) (d_bdd y) (d_optvar fa) (d_optvar fb) (d_optvar fo) (op2_of t))
  | A "binlim" :: lim :: t :: x :: y :: _ ->
    e_outcome (e_opt e_bdd) (limf (d_n lim) (d_bdd x) (d_bdd y) None None None (op2_of t))
  | A "dry" :: lim :: t :: fa :: fb :: fo :: x :: y :: _ ->
    e_outcome (e_opt (e_pair e_bool e_n))
      (dryf (d_n lim) (d_bdd x) (d_bdd y) (d_optvar fa) (d_optvar fb) (d_optvar fo) (op2_of t))
  | A "drybin" :: lim :: t :: x :: y :: _ ->
    e_outcome (e_opt (e_pair e_bool e_n)) (dryf (d_n lim) (d_bdd x) (d_bdd y) None None None (op2_of t))
  | A "optable" :: A name :: _ ->
    let op = match name with
      | "and" -> op_and | "or" -> op_or | "imp" -> op_imp | "iff" -> op_iff | "xor" -> op_xor | "and_not" -> op_and_not
      | _ -> raise (Bad "optable") in
    let o = [None; Some false; Some true] in
    A ("t:" ^ String.concat "" (List.concat_map (fun l -> List.map (fun r ->
        match op l r with None -> "-" | Some false -> "0" | Some true -> "1") o) o))
  | A "not" :: x :: _ -> e_bdd (bdd_not (d_bdd x))
  | A "ite" :: x :: y :: z :: _ -> e_obdd (tern3 (d_bdd x) (d_bdd y) (d_bdd z) None None None None ite_function)
  | A "tern" :: t :: x :: y :: z :: _ -> e_obdd (tern3 (d_bdd x) (d_bdd y) (d_bdd z) None None None None (op3_of_table (d_table t)))
  | A "ftern" :: t :: f1 :: f2 :: f3 :: fo :: x :: y :: z :: _ ->
    e_obdd (tern3 (d_bdd x) (d_bdd y) (d_bdd z) (d_optvar f1) (d_optvar f2) (d_optvar f3) (d_optvar fo) (op3_of_table (d_table t)))
  | A "var_exists" :: x :: v :: _ -> e_obdd (var_exists (d_bdd x) (d_n v))
  | A "var_for_all" :: x :: v :: _ -> e_obdd (var_for_all (d_bdd x) (d_n v))
  | A "exists" :: x :: vs :: _ ->
    let b = d_bdd x and l = d_list d_n vs in
    e_obdd (both_nested [b] op_and ~stack:(fun () -> bdd_exists_stack b l) (fun () -> bdd_exists_faithful b l) (fun () -> bdd_exists_faithful_fast b l) (fun () -> bdd_exists b l))
  | A "for_all" :: x :: vs :: _ ->
    let b = d_bdd x and l = d_list d_n vs in
    e_obdd (both_nested [b] op_and ~stack:(fun () -> bdd_for_all_stack b l) (fun () -> bdd_for_all_faithful b l) (fun () -> bdd_for_all_faithful_fast b l) (fun () -> bdd_for_all b l))
  | A "bin_exists" :: t :: x :: y :: vs :: _ ->
    let a = d_bdd x and b = d_bdd y and l = d_list d_n vs and op = op2_of t in
    e_obdd (both_nested [a; b] op ~stack:(fun () -> binary_op_with_exists_stack a b op l)
              (fun () -> binary_op_with_exists_faithful a b op l)
              (fun () -> binary_op_with_exists_faithful_fast a b op l) (fun () -> binary_op_with_exists a b op l))
  | A "bin_for_all" :: t :: x :: y :: vs :: _ ->
    let a = d_bdd x and b = d_bdd y and l = d_list d_n vs and op = op2_of t in
    e_obdd (both_nested [a; b] op ~stack:(fun () -> binary_op_with_for_all_stack a b op l)
              (fun () -> binary_op_with_for_all_faithful a b op l)
              (fun () -> binary_op_with_for_all_faithful_fast a b op l) (fun () -> binary_op_with_for_all a b op l))
  | A "nested" :: tout :: tin :: x :: y :: trig :: _ ->
    let inner = op2_of tin in
    let is_and = (inner (Some false) (Some true) = Some false) in
    let a = d_bdd x and b = d_bdd y and tr = d_bits 'v' trig and out = op2_of tout in
    let reference () = nested_apply_faithful a b tr out inner and fast () = nested_apply_faithful_fast a b tr out inner in
    let stack () = binary_op_nested_stack a b tr out inner in
    if or_and_like inner then e_obdd (both_nested [a; b] out ~stack reference fast (fun () -> binary_op_nested a b tr out is_and))
    else e_obdd (pick3 [a; b] ~stack ~fast ~reference)
  | A "var_select" :: x :: v :: c :: _ -> e_obdd (var_select (d_bdd x) (d_n v) (d_bool c))
  | A "select" :: x :: lits :: _ -> e_obdd (select (d_bdd x) (d_list (d_pair d_n d_bool) lits))
  | A "var_restrict" :: x :: v :: c :: _ -> e_obdd (restrict_both (d_bdd x) [(d_n v, d_bool c)])
  | A "restrict" :: x :: lits :: _ -> e_obdd (restrict_both (d_bdd x) (d_list (d_pair d_n d_bool) lits))
  | A "var_pick" :: x :: v :: _ -> e_obdd (var_pick (d_bdd x) (d_n v))
  | A "var_pick_random" :: x :: v :: sc :: _ -> e_obdd (fst (var_pick_random (d_bdd x) (d_n v) (d_bits 'v' sc)))
  | A "pick" :: x :: vs :: _ -> e_obdd (pick (d_bdd x) (d_list d_n vs))
  | A "pick_random" :: x :: vs :: sc :: _ -> e_obdd (pick_random (d_bdd x) (d_list d_n vs) (d_bits 'v' sc))
  | A "substitute" :: f :: v :: g :: _ -> e_obdd (substitute_both (d_bdd f) (d_n v) (d_bdd g))
  | A "mk_true" :: nv :: _ -> e_bdd (mk_true (d_n nv))
  | A "mk_false" :: nv :: _ -> e_bdd (mk_false (d_n nv))
  | A "mk_var" :: nv :: v :: _ -> e_obdd (vs_mk_literal (d_n nv) (d_n v) true)
  | A "mk_not_var" :: nv :: v :: _ -> e_obdd (vs_mk_literal (d_n nv) (d_n v) false)
  | A "mk_literal" :: nv :: v :: c :: _ -> e_obdd (vs_mk_literal (d_n nv) (d_n v) (d_bool c))
  | A "mk_cc" :: nv :: pv :: _ -> e_obdd (mk_conjunctive_clause (d_n nv) (d_pv pv))
  | A "mk_dc" :: nv :: pv :: _ -> e_obdd (mk_disjunctive_clause (d_n nv) (d_pv pv))
  | A "mk_dnf" :: nv :: cs :: _ -> e_obdd (nf_both mk_dnf_faithful mk_dnf (d_n nv) (d_list d_pv cs))
  | A "mk_cnf" :: nv :: cs :: _ -> e_obdd (nf_both mk_cnf_faithful mk_cnf (d_n nv) (d_list d_pv cs))
  | A "mk_sat_exactly" :: nv :: k :: vs :: _ -> e_obdd (mk_sat_k_fast false (d_n nv) (d_n k) (d_list d_n vs))   (* proved equal to mk_sat_k: Proofs/OpsFast.v *)
  | A "mk_sat_upto" :: nv :: k :: vs :: _ -> e_obdd (mk_sat_k_fast true (d_n nv) (d_n k) (d_list d_n vs))
  | A "of_valuation" :: v :: _ -> e_bdd (of_valuation (d_bits 'v' v))
  | A "cmp_implies" :: x :: y :: _ ->
    e_outcome (e_opt (function OLt -> A "LT" | OEq -> A "EQ" | OGt -> A "GT")) (cmp_implies (d_bdd x) (d_bdd y))
  | A "eval" :: x :: v :: _ -> e_bool (eval (d_bdd x) (val_of_list (d_bits 'v' v)))
  | A "is_true" :: x :: _ -> e_bool (N.eqb (size (d_bdd x)) (n_of_int 2))
  | A "is_false" :: x :: _ -> e_bool (N.eqb (size (d_bdd x)) (n_of_int 1))
  | A "id" :: x :: _ -> e_bdd (d_bdd x)
  | _ -> raise Unhandled)

