(* valuation types and comparators (C18) *)
open Sx
open Model

let d_optbool = d_opt d_bool
let d_hist x : bool option list =
  match items "H" x with
  | start :: ops ->
    let s = (match start with
        | A "E" | A "D" -> []
        | L [A "V"; v] -> pv_of_valuation (d_bits 'v' v)
        | L [A "F"; l] -> pv_from_values (d_list (d_pair d_n d_bool) l)
        | _ -> raise (Bad "history start")) in
    let op = function
      | L [A "S"; x; c] -> OpSet (d_n x, d_bool c)
      | L [A "U"; x] -> OpUnset (d_n x)
      | L [A "I"; x; c] -> OpIndex (d_n x, d_optbool c)
      | _ -> raise (Bad "history op") in
    pv_run s (List.map op ops)
  | [] -> raise (Bad "empty history")

let e_optbool = e_opt e_bool
let e_lits = e_list (e_pair e_n e_bool)
let e_ord = function OLt -> A "LT" | OEq -> A "EQ" | OGt -> A "GT"
let e_bytes (l : n list) = A ("h:" ^ String.concat "" (List.map (fun b -> Printf.sprintf "%02x" (int_of_n b)) l))
let e_conv = function Some v -> L [A "OK"; e_bits 'v' v] | None -> A "ERR"
let raw (p : bool option list) = A ("p" ^ String.concat "" (List.map (function None -> "-" | Some false -> "0" | Some true -> "1") p))

let run (c : s list) : s option =
  match c with
  | A "pv_eq" :: a :: b :: _ -> Some (e_bool (pv_eq (d_hist a) (d_hist b)))
  | A "pv_ne" :: a :: b :: _ -> Some (e_bool (not (pv_eq (d_hist a) (d_hist b))))
  | A "pv_hash" :: a :: _ -> Some (e_bytes (pv_hash_stream (d_hist a)))
  | A "pv_extends" :: a :: b :: _ -> Some (e_bool (pv_extends (d_hist a) (d_hist b)))
  | A "val_extends" :: v :: b :: _ -> Some (e_bool (val_extends (d_bits 'v' v) (d_hist b)))
  | A "pv_get" :: a :: x :: _ -> Some (e_optbool (pv_get (d_hist a) (d_n x)))
  | A "pv_index" :: a :: x :: _ -> Some (e_optbool (pv_get (d_hist a) (d_n x)))
  | A "pv_has" :: a :: x :: _ -> Some (e_bool (pv_has_value (d_hist a) (d_n x)))
  | A "pv_to_values" :: a :: _ -> Some (e_lits (pv_to_values (d_hist a)))
  | A "pv_card" :: a :: _ -> Some (e_outcome e_n (pv_cardinality (d_hist a)))
  | A "pv_last" :: a :: _ -> Some (e_opt e_n (pv_last_fixed_variable (d_hist a)))
  | A "pv_is_empty" :: a :: _ -> Some (e_bool (pv_is_empty (d_hist a)))
  | A "pv_raw" :: a :: _ -> Some (raw (d_hist a))
  | A "pv_to_val" :: a :: _ -> Some (e_conv (valuation_of_pv (d_hist a)))
  | A "val_to_pv" :: v :: _ -> Some (e_lits (pv_to_values (pv_of_valuation (d_bits 'v' v))))
  | A "val_to_values" :: v :: _ -> Some (e_lits (val_to_values (d_bits 'v' v)))
  | A "val_pv_val" :: v :: _ -> Some (e_conv (valuation_of_pv (pv_of_valuation (d_bits 'v' v))))
  | A "pv_val_pv" :: a :: _ ->
    let p = d_hist a in
    Some (match valuation_of_pv p with
        | Some v -> let q = pv_of_valuation v in L [A "OK"; e_bool (pv_eq p q); e_lits (pv_to_values q)]
        | None -> A "ERR")
  | A "pv_values_pv" :: a :: _ ->
    let p = d_hist a in
    let q = pv_from_values (pv_to_values p) in
    Some (L [A "P"; e_bool (pv_eq p q); e_lits (pv_to_values q)])
  | A "val_values_pv" :: v :: _ ->
    let v = d_bits 'v' v in
    Some (e_bool (pv_eq (pv_from_values (val_to_values v)) (pv_of_valuation v)))
  | A "val_bdd_via_pv" :: v :: _ ->
    let v = d_bits 'v' v in
    Some (e_outcome e_bdd (mk_conjunctive_clause (n_of_int (List.length v)) (pv_of_valuation v)))
  | A "cmp_size" :: a :: b :: _ -> Some (e_ord (cmp_size (d_bdd a) (d_bdd b)))
  | A "cmp_structural" :: a :: b :: _ -> Some (e_ord (cmp_structural (d_bdd a) (d_bdd b)))
  (* the count is the memoised exact count of Model/CountFast.v (for well-formed operands; else the reference recursion): proved
     equal to exact_cardinality on all inputs (Proofs/CountFast.v exact_cardinality_auto_eq), cross-checked against it on small
     operands (Ops_count.exact_card), and not exponential on diagrams with much sharing *)
  | A "cmp_cardinality" :: a :: b :: _ -> Some (e_ord (cmp_cardinality_with Ops_count.exact_card (d_bdd a) (d_bdd b)))
  | A "cmp_cardinality_strict" :: a :: b :: _ -> Some (e_opt e_ord (cmp_cardinality_strict_with Ops_count.exact_card (d_bdd a) (d_bdd b)))
  | A "exact_card" :: a :: _ -> Some (e_n (Ops_count.exact_card (d_bdd a)))
  | _ -> None
