(* counting area (C09): exact counts, clause counts, binary64 cardinality (integer-valued model), support, size per variable *)
open Sx
open Model

let e_fl = function
  | FNaN -> A "NAN"
  | FInf -> A "INF"
  | FFin n -> e_n n

let run (c : s list) : s option =
  match c with
  | A "exact_card" :: x :: _ -> Some (e_n (exact_cardinality (d_bdd x)))
  | A "clause_card" :: x :: _ -> Some (e_n (exact_clause_cardinality (d_bdd x)))
  | A "card" :: x :: _ -> Some (e_fl (cardinality_f64 (d_bdd x)))
  | A "support" :: x :: _ -> Some (e_list e_n (support_set (d_bdd x)))
  | A "size_per_var" :: x :: _ -> Some (e_list (e_pair e_n e_n) (size_per_variable (d_bdd x)))
  | A "path_count" :: x :: _ -> Some (e_int (List.length (paths (d_bdd x))))
  | _ -> None
