(* counting area (C09): exact counts, clause counts, binary64 cardinality (integer-valued model), support, size per variable *)
open Sx
open Model

let e_fl = function
  | FNaN -> A "NAN"
  | FInf -> A "INF"
  | FFin n -> e_n n

(* exact_card / clause_card / card: the answer is the one of the MEMOISED twins (Model/CountFast.v: per-node cache, every node
   computed once, like the Rust) whenever the operand passes the well-formedness check, else the one of the un-memoised reference
   recursions of Model/Count.v; this dispatch is itself extracted code (`*_auto`, with wfb_fast = wfb), proved equal to the
   reference functions on ALL inputs (Proofs/CountFast.v *_auto_eq, wfb_fast_eq; for wf operands *_fast_eq).  The reference
   recursions are exponential in the presence of sharing, so they are re-run alongside only on small operands (at most 60 nodes
   and at most 16 variables or 24 decision nodes, i.e. a few thousand paths at worst); there a difference between the dispatching function, the
   memoised twin (wf operands) and the reference, or between wfb_fast and wfb, contradicts the theorems: a
   model/extraction/driver bug, reported as a hard machinery error, never as a finding. *)
let small (b : bdd) : bool =
  not (Ops_core.longer_than b 60) && (not (Ops_core.longer_than b 26) || int_of_n (nvars b) <= 16)
let counted (auto : bdd -> 'a) (fast : bdd -> 'a) (reference : bdd -> 'a) (b : bdd) : 'a =
  let r = auto b in
  if small b then begin
    let w = wfb b in
    if wfb_fast b <> w || r <> reference b || (w && fast b <> r) then raise (Bad "count-models-disagree")
  end;
  r
let exact_card (b : bdd) : n = counted exact_cardinality_auto exact_cardinality_fast exact_cardinality b
let clause_card (b : bdd) : n = counted exact_clause_cardinality_auto exact_clause_cardinality_fast exact_clause_cardinality b
let card (b : bdd) : fl = counted cardinality_f64_auto cardinality_f64_fast cardinality_f64 b

let run (c : s list) : s option =
  match c with
  | A "exact_card" :: x :: _ -> Some (e_n (exact_card (d_bdd x)))
  | A "clause_card" :: x :: _ -> Some (e_n (clause_card (d_bdd x)))
  | A "card" :: x :: _ -> Some (e_fl (card (d_bdd x)))
  | A "support" :: x :: _ -> Some (e_list e_n (support_set (d_bdd x)))
  | A "size_per_var" :: x :: _ -> Some (e_list (e_pair e_n e_n) (size_per_variable (d_bdd x)))
  | A "path_count" :: x :: _ -> Some (e_int (List.length (paths (d_bdd x))))
  | _ -> None
