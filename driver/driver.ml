(* Model driver: reads a transcript written by the Rust harness and, for every step separately,
   recomputes the result with the extracted Coq model from the operand values the implementation
   recorded.  Output line:  (id model-result aux)   where aux describes the implementation's
   result when it is (or wraps) a Bdd: (wf canonical canon-form), else "-". *)
open Sx
open Model

let op2_of x = op_of_table (d_table x)

let canon (b : bdd) : s =
  if not (wfb b) then A "NOTWF" else
  match fused_binary_flip_op b b None None None op_and with
  | Ok r -> e_bdd r
  | Panic -> A "PANIC"
  | OutOfFuel -> A "FUEL"

let bdd_part (res : s) : s option = match res with
    | L (A "b" :: _) -> Some res
    | L [A "S"; (L (A "b" :: _) as b)] -> Some b
    | L [A "OK"; (L (A "b" :: _) as b)] -> Some b
    | _ -> None

(* aux = (wf(impl) canonical(impl) canon(impl) canon(model)) *)
let aux_of (res : s) (model : s) : s =
  match bdd_part res with
  | None -> A "-"
  | Some b ->
    let b = d_bdd b in
    let mc = match bdd_part model with
      | None -> A "-"
      | Some m -> let m = d_bdd m in if canonicalb m then e_bdd m else canon m in
    L [e_bool (wfb b); e_bool (canonicalb b); canon b; mc]

let e_obdd = e_outcome e_bdd

let run (c : s list) : s =
  match c with
  | A "fbin" :: t :: fa :: fb :: fo :: x :: y :: _ ->
    e_obdd (fused_binary_flip_op (d_bdd x) (d_bdd y) (d_optvar fa) (d_optvar fb) (d_optvar fo) (op2_of t))
  | A "bin" :: t :: x :: y :: _ ->
    e_obdd (fused_binary_flip_op (d_bdd x) (d_bdd y) None None None (op2_of t))
  | A "named" :: A name :: x :: y :: _ ->
    let op = match name with
      | "and" -> op_and | "or" -> op_or | "imp" -> op_imp | "iff" -> op_iff | "xor" -> op_xor | "and_not" -> op_and_not
      | _ -> raise (Bad "named") in
    e_obdd (fused_binary_flip_op (d_bdd x) (d_bdd y) None None None op)
  | A "fbinlim" :: lim :: t :: fa :: fb :: fo :: x :: y :: _ ->
    e_outcome (e_opt e_bdd)
      (fused_binary_flip_op_with_limit (d_n lim) (d_bdd x) (d_bdd y) (d_optvar fa) (d_optvar fb) (d_optvar fo) (op2_of t))
  | A "binlim" :: lim :: t :: x :: y :: _ ->
    e_outcome (e_opt e_bdd) (fused_binary_flip_op_with_limit (d_n lim) (d_bdd x) (d_bdd y) None None None (op2_of t))
  | A "dry" :: lim :: t :: fa :: fb :: fo :: x :: y :: _ ->
    e_outcome (e_opt (e_pair e_bool e_n))
      (check_fused_binary_flip_op (d_n lim) (d_bdd x) (d_bdd y) (d_optvar fa) (d_optvar fb) (d_optvar fo) (op2_of t))
  | A "drybin" :: lim :: t :: x :: y :: _ ->
    e_outcome (e_opt (e_pair e_bool e_n)) (check_fused_binary_flip_op (d_n lim) (d_bdd x) (d_bdd y) None None None (op2_of t))
  | A "optable" :: A name :: _ ->
    let op = match name with
      | "and" -> op_and | "or" -> op_or | "imp" -> op_imp | "iff" -> op_iff | "xor" -> op_xor | "and_not" -> op_and_not
      | _ -> raise (Bad "optable") in
    let o = [None; Some false; Some true] in
    A ("t:" ^ String.concat "" (List.concat_map (fun l -> List.map (fun r ->
        match op l r with None -> "-" | Some false -> "0" | Some true -> "1") o) o))
  | A "not" :: x :: _ -> e_bdd (bdd_not (d_bdd x))
  | A "ite" :: x :: y :: z :: _ -> e_obdd (if_then_else (d_bdd x) (d_bdd y) (d_bdd z))
  | A "tern" :: t :: x :: y :: z :: _ -> e_obdd (ternary_op (d_bdd x) (d_bdd y) (d_bdd z) (op3_of_table (d_table t)))
  | A "ftern" :: t :: f1 :: f2 :: f3 :: fo :: x :: y :: z :: _ ->
    e_obdd (fused_ternary_flip_op (d_bdd x) (d_bdd y) (d_bdd z) (d_optvar f1) (d_optvar f2) (d_optvar f3) (d_optvar fo) (op3_of_table (d_table t)))
  | A "eval" :: x :: v :: _ -> e_bool (eval (d_bdd x) (val_of_list (d_bits 'v' v)))
  | A "is_true" :: x :: _ -> e_bool (N.eqb (size (d_bdd x)) (n_of_int 2))
  | A "is_false" :: x :: _ -> e_bool (N.eqb (size (d_bdd x)) (n_of_int 1))
  | A "id" :: x :: _ -> e_bdd (d_bdd x)
  | A op :: _ -> A ("UNMODELLED:" ^ op)
  | _ -> raise (Bad "call")

let () =
  let ic = if Array.length Sys.argv > 1 then open_in Sys.argv.(1) else stdin in
  (try
     while true do
       let line = input_line ic in
       if String.length line > 0 then begin
         match parse line with
         | L [id; L call; res] ->
           let model = (try run call with Bad m -> A ("BAD:" ^ m) | Stack_overflow -> A "STACK") in
           let aux = (try aux_of res model with Bad m -> A ("BAD:" ^ m)) in
           print_string (to_string (L [id; model; aux])); print_newline ()
         | _ -> prerr_endline ("bad transcript line: " ^ line)
       end
     done
   with End_of_file -> ())
