(* variable sets (C16): names <-> variables; names are byte strings (list of N) in the model *)
open Sx
open Model

open Ops_dot

let e_set (vs : varset) : s =
  L [A "VS"; e_n (num_vars vs); e_list e_name (variable_names vs); e_list e_n (variables vs); e_name (display vs)]

let with_set x (f : varset -> s) : s =
  match d_set x with Ok vs -> f vs | Panic -> A "PANIC" | OutOfFuel -> A "FUEL"

let run (c : s list) : s option =
  match c with
  | A "vs_summary" :: spec :: _ -> Some (with_set spec e_set)
  | A "vs_steps" :: ns :: _ ->
    let (bl, outs) = make_variable_steps builder_new (d_names ns) in
    Some (L [A "P"; e_list (e_outcome e_n) outs; e_set (build bl)])
  | A "vs_batches" :: bs :: _ ->
    let rec go bl acc = function
      | [] -> L [A "P"; L (A "L" :: List.rev acc); e_set (build bl)]
      | b :: r -> (match make_variables bl (d_names b) with
          | Ok (bl', ids) -> go bl' (e_list e_n ids :: acc) r
          | Panic -> A "PANIC"
          | OutOfFuel -> A "FUEL") in
    Some (go builder_new [] (items "L" bs))
  | A "vs_var_by_name" :: spec :: nm :: _ -> Some (with_set spec (fun vs -> e_opt e_n (var_by_name vs (d_name nm))))
  | A "vs_name_of" :: spec :: v :: _ -> Some (with_set spec (fun vs -> e_outcome e_name (name_of vs (d_n v))))
  | A "vs_mk_var_by_name" :: spec :: nm :: _ -> Some (with_set spec (fun vs -> e_outcome e_bdd (mk_var_by_name vs (d_name nm) true)))
  | A "vs_mk_not_var_by_name" :: spec :: nm :: _ -> Some (with_set spec (fun vs -> e_outcome e_bdd (mk_var_by_name vs (d_name nm) false)))
  | A "vs_roundtrip" :: spec :: _ ->
    Some (with_set spec (fun vs ->
        let rec go acc = function
          | [] -> L (A "L" :: List.rev acc)
          | v :: r -> (match name_of vs v with
              | Ok nm -> go (e_opt e_n (var_by_name vs nm) :: acc) r
              | Panic -> A "PANIC"
              | OutOfFuel -> A "FUEL") in
        go [] (variables vs)))
  | _ -> None
