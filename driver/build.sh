#!/bin/sh
# builds the model driver from the extracted model (model.ml/.mli are produced by coq/Extract.v)
set -e
cd "$(dirname "$0")"
ocamlfind ocamlopt -O3 -w -a model.mli model.ml sx.ml driver.ml -o driver 2>/dev/null || ocamlfind ocamlopt -w -a model.mli model.ml sx.ml driver.ml -o driver
