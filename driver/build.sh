#!/bin/sh
# builds the model driver from the extracted model (model.ml/.mli are produced by coq/Extract.v)
# and the area modules ops_*.ml (each defines `run : Sx.s list -> Sx.s option`, raising
# Ops_core.Unhandled or returning None for operations it does not know).
set -e
cd "$(dirname "$0")"
AREAS=$(ls ops_*.ml | sed 's/\.ml$//' | sort | awk '{ if ($0=="ops_core") print "0 " $0; else print "1 " $0 }' | sort | cut -d' ' -f2)
{
  printf 'let all : (Sx.s list -> Sx.s option) list = ['
  for a in $AREAS; do m=$(echo "$a" | sed 's/^o/O/'); printf '%s.run; ' "$m"; done
  echo ']'
} > dispatch.ml
FILES="model.mli model.ml sx.ml"
for a in $AREAS; do FILES="$FILES $a.ml"; done
ocamlfind ocamlopt -O3 -w -a $FILES dispatch.ml driver.ml -o driver 2>/dev/null || ocamlfind ocamlopt -w -a $FILES dispatch.ml driver.ml -o driver
