(* thin public entry points (Model/Alias.v): deprecated aliases, panicking readers, eval_expression_string,
   the uninterrupted _to_optimized_dnf, and histories over the total valuation type.  Compiled last (the name sorts
   after every other area) because it reuses their decoders. *)
open Sx
open Model

let d_val_op = function
  | L [A "S"; x] -> VSet (d_n x)
  | L [A "C"; x] -> VClear (d_n x)
  | L [A "F"; x] -> VFlip (d_n x)
  | L [A "V"; x; c] -> VSetValue (d_n x, d_bool c)
  | L [A "I"; x; c] -> VIndexMut (d_n x, d_bool c)
  | o -> raise (Bad ("valuation op " ^ to_string o))

let d_val_start = function
  | L [A "AF"; n] -> val_all false (d_n n)
  | L [A "AT"; n] -> val_all true (d_n n)
  | L [A "N"; v] -> d_bits 'v' v
  | o -> raise (Bad ("valuation start " ^ to_string o))

let run (c : s list) : s option =
  try
    (match c with
     (* the deprecated aliases are the same code path as exists / var_exists: Alias.bdd_project_alias = Ops.bdd_exists by
        definition; the order-faithful nested engine is reported exactly as for `exists` *)
     | A "project" :: rest -> Ops_core.run (A "exists" :: rest)
     | A "var_project" :: b :: x :: _ -> Some (e_outcome e_bdd (var_project_alias (d_bdd b) (d_n x)))
     | A "to_opt_dnf_int" :: x :: _ -> Some (e_outcome Ops_paths.e_pvs (to_optimized_dnf_uninterrupted (d_bdd x)))
     | A "from_string" :: d :: _ -> Some (e_outcome e_bdd (from_string_m (Ops_serial.bytes_of_string (d_hex d))))
     | A "from_bytes" :: d :: _ -> Some (e_outcome e_bdd (from_bytes_m (Ops_serial.bytes_of_string (d_hex d))))
     | A "eval_expr_string" :: names :: x :: _ ->
       Some (Ops_expr.with_vs names (fun ns -> e_outcome e_bdd (eval_expr_string ns (Ops_expr.d_str x))))
     | A "dot_write_sched" :: b :: ns :: pr :: sc :: _ ->
       Some (match dot_write_sched_m (d_bdd b) (Ops_dot.d_names ns) (d_bool pr) (Ops_serial.d_sched sc) with
           | Ok r -> Ops_serial.e_written r
           | Panic -> A "PANIC"
           | OutOfFuel -> A "FUEL")
     | A "vs_assignment" :: spec :: _ ->
       Some (Ops_varset.with_set spec (fun vs ->
           L (A "L" :: List.mapi (fun i nm -> L [A "P"; A (string_of_int i); Ops_dot.e_name nm]) (variable_names vs))))
     | A "vs_make3" :: ns :: _ ->
       Some (match make_variables builder_new (Ops_dot.d_names ns) with
           | Ok (bl, ids) -> L [A "P"; e_list e_n ids; e_list Ops_dot.e_name (variable_names (build bl))]
           | Panic -> A "PANIC"
           | OutOfFuel -> A "FUEL")
     (* (val_hist start (L op ...) x): the vector after the history, the value read back at x, num_vars *)
     | A "val_hist" :: start :: ops :: x :: _ ->
       Some (match val_run (d_val_start start) (d_list d_val_op ops) with
           | Ok v -> L [A "P"; e_bits 'v' v; e_outcome e_bool (val_value v (d_n x)); e_n (val_num_vars v)]
           | Panic -> A "PANIC"
           | OutOfFuel -> A "FUEL")
     | _ -> None)
  with Ops_expr.Invalid_utf8 -> Some (A "SKIP")
