(* dot export (C20): the model emits byte strings (lists of N); conversion helpers live in Ops_varset *)
open Sx
open Model

(* conversion helpers shared with Ops_varset (build.sh links ops_*.ml in alphabetical order) *)
let name_of_string (s : string) : n list = List.init (String.length s) (fun i -> n_of_int (Char.code s.[i]))
let string_of_name (l : n list) : string =
  let b = Buffer.create 16 in
  List.iter (fun c -> let i = int_of_n c in if i > 255 then raise (Bad "byte") else Buffer.add_char b (Char.chr i)) l;
  Buffer.contents b
let d_name x = name_of_string (d_hex x)
let e_name l = e_hex (string_of_name l)
let d_names x = d_list d_name x

let d_set (x : s) : varset outcome =
  match x with
  | L [A "new"; ns] -> vs_new (d_names ns)
  | L [A "from"; ns] -> vs_from (d_names ns)
  | L [A "anon"; k] -> new_anonymous (d_n k)
  | _ -> raise (Bad ("set spec: " ^ to_string x))


let run (c : s list) : s option =
  match c with
  | (A "dot" | A "dot_write") :: b :: ns :: pr :: _ ->
    Some (e_outcome e_name (dot_of_names (d_bdd b) (d_names ns) (d_bool pr)))
  | A "vs_dot" :: b :: spec :: pr :: _ ->
    Some (match d_set spec with
        | Ok vs -> e_outcome e_name (dot_text (d_bdd b) (variable_names vs) (d_bool pr))
        | Panic -> A "PANIC"
        | OutOfFuel -> A "FUEL")
  | _ -> None
