(* expression area (C14, C15): parser, printer, evaluation of expression trees, export, bdd! table *)
open Sx
open Model

exception Invalid_utf8

(* strict UTF-8 decoding (what String::from_utf8 accepts): no overlong forms, no surrogates, <= U+10FFFF *)
let utf8_decode (s : string) : int list =
  let n = String.length s in
  let out = ref [] in
  let i = ref 0 in
  let cont k = if k >= n then raise Invalid_utf8 else
      let c = Char.code s.[k] in if c land 0xC0 <> 0x80 then raise Invalid_utf8 else c land 0x3F in
  while !i < n do
    let c = Char.code s.[!i] in
    if c < 0x80 then (out := c :: !out; incr i)
    else if c land 0xE0 = 0xC0 then begin
      let cp = ((c land 0x1F) lsl 6) lor cont (!i + 1) in
      if cp < 0x80 then raise Invalid_utf8;
      out := cp :: !out; i := !i + 2 end
    else if c land 0xF0 = 0xE0 then begin
      let c1 = cont (!i + 1) in let c2 = cont (!i + 2) in
      let cp = ((c land 0x0F) lsl 12) lor (c1 lsl 6) lor c2 in
      if cp < 0x800 || (cp >= 0xD800 && cp <= 0xDFFF) then raise Invalid_utf8;
      out := cp :: !out; i := !i + 3 end
    else if c land 0xF8 = 0xF0 then begin
      let c1 = cont (!i + 1) in let c2 = cont (!i + 2) in let c3 = cont (!i + 3) in
      let cp = ((c land 0x07) lsl 18) lor (c1 lsl 12) lor (c2 lsl 6) lor c3 in
      if cp < 0x10000 || cp > 0x10FFFF then raise Invalid_utf8;
      out := cp :: !out; i := !i + 4 end
    else raise Invalid_utf8
  done;
  List.rev !out

let utf8_encode (cps : int list) : string =
  let b = Buffer.create 16 in
  List.iter (fun cp ->
      if cp < 0x80 then Buffer.add_char b (Char.chr cp)
      else if cp < 0x800 then begin
        Buffer.add_char b (Char.chr (0xC0 lor (cp lsr 6)));
        Buffer.add_char b (Char.chr (0x80 lor (cp land 0x3F))) end
      else if cp < 0x10000 then begin
        Buffer.add_char b (Char.chr (0xE0 lor (cp lsr 12)));
        Buffer.add_char b (Char.chr (0x80 lor ((cp lsr 6) land 0x3F)));
        Buffer.add_char b (Char.chr (0x80 lor (cp land 0x3F))) end
      else begin
        Buffer.add_char b (Char.chr (0xF0 lor (cp lsr 18)));
        Buffer.add_char b (Char.chr (0x80 lor ((cp lsr 12) land 0x3F)));
        Buffer.add_char b (Char.chr (0x80 lor ((cp lsr 6) land 0x3F)));
        Buffer.add_char b (Char.chr (0x80 lor (cp land 0x3F))) end) cps;
  Buffer.contents b

let d_str (x : s) : n list = List.map n_of_int (utf8_decode (d_hex x))
let e_str (l : n list) : s = e_hex (utf8_encode (List.map int_of_n l))
let d_names (x : s) : n list list = d_list d_str x

let rec e_expr (e : expr) : s = match e with
  | EConst c -> L [A "const"; e_bool c]
  | EVar x -> L [A "var"; e_str x]
  | ENot a -> L [A "not"; e_expr a]
  | EAnd (a, b) -> L [A "and"; e_expr a; e_expr b]
  | EOr (a, b) -> L [A "or"; e_expr a; e_expr b]
  | EXor (a, b) -> L [A "xor"; e_expr a; e_expr b]
  | EImp (a, b) -> L [A "imp"; e_expr a; e_expr b]
  | EIff (a, b) -> L [A "iff"; e_expr a; e_expr b]
  | ECond (a, b, c) -> L [A "cond"; e_expr a; e_expr b; e_expr c]

let rec d_expr (x : s) : expr = match x with
  | L [A "const"; c] -> EConst (d_bool c)
  | L [A "var"; n] -> EVar (d_str n)
  | L [A "not"; a] -> ENot (d_expr a)
  | L [A "and"; a; b] -> EAnd (d_expr a, d_expr b)
  | L [A "or"; a; b] -> EOr (d_expr a, d_expr b)
  | L [A "xor"; a; b] -> EXor (d_expr a, d_expr b)
  | L [A "imp"; a; b] -> EImp (d_expr a, d_expr b)
  | L [A "iff"; a; b] -> EIff (d_expr a, d_expr b)
  | L [A "cond"; a; b; c] -> ECond (d_expr a, d_expr b, d_expr c)
  | _ -> raise (Bad ("expression: " ^ to_string x))

let e_pres = function
  | POk e -> L [A "OK"; e_expr e]
  | PErr -> A "ERR"
  | PPanic -> A "PANIC"
  | PFuel -> A "FUEL"

let rec e_tokens (ts : token list) : s =
  L (List.map (function
      | TNot -> A "!" | TAnd -> A "&" | TOr -> A "|" | TXor -> A "^" | TImp -> A "=>" | TIff -> A "<=>"
      | TColon -> A ":" | TQuestion -> A "?" | TId x -> e_str x | TGroup l -> e_tokens l) ts)

let with_vs names k = match ex_vs_new (d_names names) with Ok ns -> k ns | Panic -> A "PANIC" | OutOfFuel -> A "FUEL"

let msym_of = function
  | "not" -> MNot | "and" -> MAnd | "or" -> MOr | "iff" -> MIff | "imp" -> MImp | "xor" -> MXor
  | m -> raise (Bad ("macro symbol " ^ m))

let run (c : s list) : s option =
  try
    (match c with
     | A "parse" :: x :: _ -> Some (e_pres (parse_string (d_str x)))
     | A "tokens" :: x :: _ ->
       Some (match tokenize (d_str x) with TOk (ts, _) -> L [A "OK"; e_tokens ts] | TErr -> A "ERR" | TFuel -> A "FUEL")
     | A "show" :: e :: _ -> Some (e_str (show (d_expr e)))
     | A "eval_expr" :: names :: e :: _ ->
       Some (with_vs names (fun ns -> e_outcome e_bdd (eval_expr ns (d_expr e))))
     | A "safe_eval_expr" :: names :: e :: _ ->
       Some (with_vs names (fun ns -> e_outcome (e_opt e_bdd) (safe_eval_expr ns (d_expr e))))
     | A "to_expr" :: b :: names :: _ ->
       Some (with_vs names (fun ns -> e_outcome e_expr (to_expr ns (d_bdd b))))
     (* bdd!(a OP b) / bdd!(!a): the model's symbol -> method table applied to the recorded operands *)
     | A "macro" :: A sym :: a :: rest ->
       Some (match macro_binary (msym_of sym), rest with
           | None, _ -> e_bdd (bdd_not (d_bdd a))
           | Some op, b :: _ -> e_outcome e_bdd (binary_op (d_bdd a) (d_bdd b) op)
           | Some _, [] -> raise (Bad "macro operands"))
     (* harness-internal comparison of a macro form with its method chain: the property demands T *)
     | A "eq" :: a :: b :: _ -> Some (e_bool (d_bdd a = d_bdd b))
     | A "macro_eq" :: _ -> Some (A "T")
     | A "macro_vars_eq" :: _ -> Some (A "T")
     | _ -> None)
  with Invalid_utf8 -> Some (A "SKIP")
