(* paths area: path / clause / valuation enumeration, normal-form extraction (C08, C10).
   Every enumeration is computed with the STEP-FAITHFUL model (stack machine / counter increment) and, whenever that
   run does not panic, cross-checked against the I/O-equivalent definition the theorems are about
   (paths / clause_valuations / sat_valuations); a disagreement between the two models is a hard error (BAD:...). *)
open Sx
open Model

let e_val = e_bits 'v'
let e_vals = e_list e_val
let e_pvs = e_list e_pv

(* canonical form of a clause for comparison: trailing unset cells dropped (the same normalisation e_pv prints) *)
let same_clauses (a : pval list) (b : pval list) = to_string (e_pvs a) = to_string (e_pvs b)

(* to_dnf / to_cnf: the reported list is the one of the faithful machine (Model/Dnf.v: explicit stack + mutable path for
   to_dnf, the recursion with the threaded path for to_cnf); the I/O-equivalent DFS lists of Model/Paths.v are recomputed
   alongside.  Proofs/DnfSem.v to_dnf_faithful_eq / to_cnf_faithful_eq prove them equal (up to the trailing unset cells the
   mutable path accumulates, which e_pv drops) for every operand that passes wfb: a difference there is a machinery error. *)
let nf_lists faithful dfs (b : bdd) : s =
  let f = faithful b in
  (match f with
   | Ok l when same_clauses l (dfs b) -> ()
   | _ -> if wfb b then raise (Bad "dnf-models-disagree"));
  e_outcome e_pvs f

let run (c : s list) : s option =
  match c with
  | A ("sat_clauses" | "into_sat_clauses") :: x :: _ ->
    let b = d_bdd x in
    Some (match path_iter b with
        | Ok l -> if same_clauses l (sat_clauses b) then e_pvs l else A "BAD:path_iter<>paths"
        | Panic -> A "PANIC"
        | OutOfFuel -> A "FUEL")
  | A "to_dnf" :: x :: _ -> Some (nf_lists to_dnf_faithful to_dnf (d_bdd x))
  | A "to_cnf" :: x :: _ -> Some (nf_lists to_cnf_faithful to_cnf (d_bdd x))
  | A ("sat_valuations" | "into_sat_valuations") :: x :: _ ->
    let b = d_bdd x in
    Some (match sat_valuations_iter b with
        | Ok l -> if l = sat_valuations b then e_vals l else A "BAD:sat_valuations_iter<>sat_valuations"
        | Panic -> A "PANIC"
        | OutOfFuel -> A "FUEL")
  | A "clause_valuations" :: pv :: nv :: _ ->
    let cl = d_pv pv and n = d_n nv in
    Some (match clause_iter cl n with
        | Ok l -> if l = clause_valuations cl n then e_vals l else A "BAD:clause_iter<>clause_valuations"
        | Panic -> A "PANIC"
        | OutOfFuel -> A "FUEL")
  | A ("valuations_unconstrained" | "valuations_deprecated") :: nv :: _ -> Some (e_outcome e_vals (unconstrained_iter (d_n nv)))
  | A "valuations_empty" :: _ -> Some (e_vals clause_iter_empty)
  | A "clause_valuations_clone" :: pv :: nv :: k :: _ ->
    Some (e_outcome (fun l -> e_pair e_vals e_vals (iter_split (d_n k) l)) (clause_iter (d_pv pv) (d_n nv)))
  | A "clause_valuations_adapters" :: pv :: nv :: k :: _ ->
    Some (match clause_iter (d_pv pv) (d_n nv) with
        | Ok l ->
          let rec drop n l = if n <= 0 then l else (match l with [] -> [] | _ :: r -> drop (n - 1) r) in
          let rest = drop (int_of_n (d_n k)) l in
          let opt = function None -> A "N" | Some v -> L [A "S"; e_val v] in
          let last = (match List.rev rest with [] -> None | x :: _ -> Some x) in
          let nth1 = (match rest with _ :: x :: _ -> Some x | _ -> None) in
          L [A "P"; A (string_of_int (List.length rest)); opt last; opt nth1; A "T"]
        | Panic -> A "PANIC"
        | OutOfFuel -> A "FUEL")
  | A "iter_after_end" :: x :: _ ->
    let b = d_bdd x in
    Some (match sat_valuations_iter b, path_iter b with
        | Ok vs, Ok ps ->
          let cell l = L [A "P"; A (string_of_int (List.length l)); A "T"] in
          L [A "L"; cell vs; cell ps; cell vs; cell ps]
        | (OutOfFuel, _) | (_, OutOfFuel) -> A "FUEL"
        | _ -> A "PANIC")
  | A "owned_back" :: x :: k :: _ -> Some (e_pair e_bdd e_bdd (owned_back (d_bdd x) (d_n k)))
  (* to_optimized_dnf: the step-faithful model of Model/OptDnf.v (the greedy recursion over the operator models);
     Proofs/OptDnfSem.v proves that on a canonical operand it neither panics nor runs out of fuel and that rebuilding its
     list returns the operand.  The property itself only demands that rebuilding the IMPLEMENTATION's list returns b (the
     rebuild step that follows); the two lists are compared by the judge as additional evidence. *)
  | A "to_opt_dnf" :: x :: _ -> Some (e_outcome e_pvs (to_optimized_dnf (d_bdd x)))
  | A "eq" :: x :: y :: _ -> Some (e_bool (d_bdd x = d_bdd y))
  | _ -> None
