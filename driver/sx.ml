(* s-expressions and conversions between transcript values and the extracted model's types *)
type s = A of string | L of s list

(* printing through a Buffer: linear and constant stack in the width of a list (Bdds of 100k nodes are
   flat lists of 300k atoms) *)
let to_string (x : s) : string =
  let buf = Buffer.create 256 in
  let rec go = function
    | A a -> Buffer.add_string buf a
    | L l ->
      Buffer.add_char buf '(';
      List.iteri (fun i y -> if i > 0 then Buffer.add_char buf ' '; go y) l;
      Buffer.add_char buf ')' in
  go x; Buffer.contents buf

exception Bad of string

let parse (src : string) : s =
  let n = String.length src in
  let pos = ref 0 in
  let skip () = while !pos < n && (src.[!pos] = ' ' || src.[!pos] = '\t') do incr pos done in
  let rec go () =
    skip ();
    if !pos >= n then raise (Bad "eof");
    if src.[!pos] = '(' then begin
      incr pos;
      let items = ref [] in
      let fin = ref false in
      while not !fin do
        skip ();
        if !pos >= n then raise (Bad "unterminated");
        if src.[!pos] = ')' then (incr pos; fin := true)
        else items := go () :: !items
      done;
      L (List.rev !items)
    end else begin
      let st = !pos in
      while !pos < n && src.[!pos] <> ' ' && src.[!pos] <> '(' && src.[!pos] <> ')' && src.[!pos] <> '\t' do incr pos done;
      A (String.sub src st (!pos - st))
    end in
  go ()

open Model

(* ---- numbers: decimal strings <-> N (arbitrary size, schoolbook) ---- *)
let rec pos_of_int (i : int) : positive =
  if i = 1 then XH else if i land 1 = 0 then XO (pos_of_int (i lsr 1)) else XI (pos_of_int (i lsr 1))
let n_of_int (i : int) : n = if i = 0 then N0 else Npos (pos_of_int i)
let rec int_of_pos = function XH -> 1 | XO p -> 2 * int_of_pos p | XI p -> 2 * int_of_pos p + 1
let int_of_n = function N0 -> 0 | Npos p -> int_of_pos p

(* big decimal <-> N through lists of decimal digits (little endian) *)
let n_of_decimal_big (str : string) : n =
  (* repeated halving of a decimal string *)
  let digits = Array.of_list (List.map (fun c -> Char.code c - 48) (List.init (String.length str) (String.get str))) in
  Array.iter (fun d -> if d < 0 || d > 9 then raise (Bad ("decimal " ^ str))) digits;
  let is_zero a = Array.for_all (fun d -> d = 0) a in
  let halve a = (* returns remainder *)
    let carry = ref 0 in
    Array.iteri (fun i d -> let cur = !carry * 10 + d in a.(i) <- cur / 2; carry := cur mod 2) a;
    !carry in
  let bits = ref [] in
  let a = Array.copy digits in
  while not (is_zero a) do bits := halve a :: !bits done;
  (* bits: most significant first *)
  List.fold_left (fun acc b ->
      match acc, b with
      | N0, 0 -> N0
      | N0, _ -> Npos XH
      | Npos p, 0 -> Npos (XO p)
      | Npos p, _ -> Npos (XI p)) N0 !bits

(* fast path for numbers that fit an OCaml int (at most 17 decimal digits / 56 bits): same function *)
let n_of_decimal (str : string) : n =
  let len = String.length str in
  if len = 0 || len > 17 then n_of_decimal_big str else begin
    let v = ref 0 in
    String.iter (fun c -> let d = Char.code c - 48 in if d < 0 || d > 9 then raise (Bad ("decimal " ^ str)); v := !v * 10 + d) str;
    n_of_int !v
  end

let decimal_of_n_big (x : n) : string =
  (* double-and-add on a decimal digit array, most significant bit first *)
  let rec bits_of_pos p acc = match p with XH -> 1 :: acc | XO q -> bits_of_pos q (0 :: acc) | XI q -> bits_of_pos q (1 :: acc) in
  match x with
  | N0 -> "0"
  | Npos p ->
    let bits = bits_of_pos p [] in
    let digits = ref [0] in (* little endian *)
    List.iter (fun b ->
        let carry = ref b in
        digits := List.map (fun d -> let v = 2 * d + !carry in carry := v / 10; v mod 10) !digits;
        if !carry > 0 then digits := !digits @ [!carry]) bits;
    String.concat "" (List.rev_map string_of_int !digits)

let decimal_of_n (x : n) : string =
  let rec bits p k = if k > 56 then k else match p with XH -> k + 1 | XO q | XI q -> bits q (k + 1) in
  match x with
  | N0 -> "0"
  | Npos p -> if bits p 0 <= 56 then string_of_int (int_of_pos p) else decimal_of_n_big x

let atom = function A a -> a | L _ as x -> raise (Bad ("atom expected: " ^ to_string x))
let items tag = function
  | L (A t :: r) when t = tag -> r
  | x -> raise (Bad (tag ^ " expected: " ^ to_string x))

let d_n x = n_of_decimal (atom x)
let d_int x = int_of_string (atom x)
let d_bool x = match atom x with "T" -> true | "F" -> false | a -> raise (Bad ("bool " ^ a))
let d_opt f = function A "N" -> None | L [A "S"; v] -> Some (f v) | x -> raise (Bad ("option: " ^ to_string x))
let d_optvar = d_opt d_n
let d_list f x = List.map f (items "L" x)
let d_pair f g x = match items "P" x with [a; b] -> (f a, g b) | _ -> raise (Bad "pair")

let d_bdd x : bdd =
  let rec go acc = function
    | [] -> List.rev acc
    | v :: l :: h :: r -> go ({ nvar = d_n v; nlow = d_n l; nhigh = d_n h } :: acc) r
    | _ -> raise (Bad "bdd triples") in
  go [] (items "b" x)

let e_n x = A (decimal_of_n x)
let e_int i = A (string_of_int i)
let e_bool b = A (if b then "T" else "F")
let e_opt f = function None -> A "N" | Some v -> L [A "S"; f v]
let e_bdd (b : bdd) =
  L (A "b" :: List.rev (List.fold_left (fun acc nd -> e_n nd.nhigh :: e_n nd.nlow :: e_n nd.nvar :: acc) [] b))
let e_list f l = L (A "L" :: List.map f l)
let e_pair f g (a, b) = L [A "P"; f a; g b]

let d_table x : bool option list =
  let a = atom x in
  if String.length a < 2 || String.sub a 0 2 <> "t:" then raise (Bad ("table " ^ a));
  List.init (String.length a - 2) (fun i -> match a.[i + 2] with '-' -> None | '0' -> Some false | '1' -> Some true | _ -> raise (Bad "table char"))

let d_bits prefix x : bool list =
  let a = atom x in
  if String.length a < 1 || a.[0] <> prefix then raise (Bad ("bits " ^ a));
  List.init (String.length a - 1) (fun i -> match a.[i + 1] with '0' -> false | '1' -> true | _ -> raise (Bad "bit"))
let e_bits prefix (l : bool list) = A (String.make 1 prefix ^ String.concat "" (List.map (fun b -> if b then "1" else "0") l))

(* partial valuation "p01-": list of option bool *)
let d_pv x : bool option list =
  let a = atom x in
  if String.length a < 1 || a.[0] <> 'p' then raise (Bad ("pv " ^ a));
  List.init (String.length a - 1) (fun i -> match a.[i + 1] with '0' -> Some false | '1' -> Some true | '-' -> None | _ -> raise (Bad "pv char"))
let e_pv (l : bool option list) =
  (* canonical: trailing unset cells dropped *)
  let rec strip = function [] -> [] | None :: r -> (match strip r with [] -> [] | r' -> None :: r') | Some b :: r -> Some b :: strip r in
  A ("p" ^ String.concat "" (List.map (function None -> "-" | Some false -> "0" | Some true -> "1") (strip l)))

let d_hex x : string =
  let a = atom x in
  if String.length a < 2 || String.sub a 0 2 <> "h:" then raise (Bad ("hex " ^ a));
  let n = (String.length a - 2) / 2 in
  String.init n (fun i -> Char.chr (int_of_string ("0x" ^ String.sub a (2 + 2 * i) 2)))
let e_hex (s : string) = A ("h:" ^ String.concat "" (List.init (String.length s) (fun i -> Printf.sprintf "%02x" (Char.code s.[i]))))

let e_outcome f = function
  | Ok x -> f x
  | Panic -> A "PANIC"
  | OutOfFuel -> A "FUEL"
