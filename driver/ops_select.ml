(* selectors: witnesses, extremal valuations and clauses (C11) *)
open Sx
open Model

let e_oval = e_outcome (e_opt (e_bits 'v'))
let e_opv = e_outcome (e_opt e_pv)

let run (c : s list) : s option =
  match c with
  | A "sat_witness" :: x :: _ -> Some (e_oval (sat_witness (d_bdd x)))
  | A "first_valuation" :: x :: _ -> Some (e_oval (first_valuation (d_bdd x)))
  | A "last_valuation" :: x :: _ -> Some (e_oval (last_valuation (d_bdd x)))
  | A "most_positive_valuation" :: x :: _ -> Some (e_oval (most_positive_valuation (d_bdd x)))
  | A "most_negative_valuation" :: x :: _ -> Some (e_oval (most_negative_valuation (d_bdd x)))
  | A "first_clause" :: x :: _ -> Some (e_opv (first_clause (d_bdd x)))
  | A "last_clause" :: x :: _ -> Some (e_opv (last_clause (d_bdd x)))
  | A "most_fixed_clause" :: x :: _ -> Some (e_opv (most_fixed_clause (d_bdd x)))
  | A "most_free_clause" :: x :: _ -> Some (e_opv (most_free_clause (d_bdd x)))
  | A "necessary_clause" :: x :: _ -> Some (e_opv (necessary_clause (d_bdd x)))
  | A "random_valuation" :: x :: sc :: _ -> Some (e_oval (random_valuation (d_bdd x) (d_bits 'v' sc)))
  | A "random_clause" :: x :: sc :: _ -> Some (e_opv (random_clause (d_bdd x) (d_bits 'v' sc)))
  | A "is_clause" :: x :: _ -> Some (e_outcome e_bool (is_clause (d_bdd x)))
  | A "is_valuation" :: x :: _ -> Some (e_outcome e_bool (is_valuation (d_bdd x)))
  | _ -> None
