(* Model/Substitute.v — Bdd::substitute (src/_impl_bdd/_impl_util.rs), the library's own algorithm.
   Granularity: step-faithful composition of the faithful models of its ingredients, in the order of the Rust:
     1. `var` not in `self.support_set()`                       -> `self.clone()`;
     2. `var` not in `function.support_set()` ("safe" path)     -> mk_literal; iff (binary apply, panics on a variable
        count mismatch); binary_op_with_exists (the order-faithful nested apply of Model/Nested.v);
     3. otherwise ("unsafe" path): sorted union of the two supports; the permutation `v -> v+1` for every `v >= var` of
        the union (`BddVariable::from_index` = `u16::try_from(..).unwrap()`: explicit Panic); `checked_add(1).unwrap()`
        on the u16 variable count (explicit Panic when nvars + 1 > 65535); set_num_vars, rename_variables (step-faithful
        models of Model/Rename.v, their panics propagate); `permutation.remove(&var).unwrap()`; the same for `function`;
        mk_literal with the proxy variable; iff; binary_op_with_exists; the reversed permutation; rename_variables;
        set_num_vars(num_vars - 1).
   HashSet/HashMap are finite maps: the union collected into a Vec and sorted is the sorted duplicate-free list
   `union_sorted`; a HashMap is an association list with unique keys (Model/Rename.v `map_get`).
   `substituted.num_vars() - 1` is a u16 subtraction that cannot underflow where it is reached: the nested apply returns
   a diagram over the variable count of its left operand, which is `nvars self + 1`.
   Definitions only. *)
From Coq Require Import List NArith Bool.
Import ListNotations.
From BddVerif Require Import Model.Bdd Model.Apply Model.Ops Model.Rename Model.Nested.
Open Scope N_scope.

Definition u16_max : N := 65535.

(* `n.checked_add(1).unwrap()` on u16 *)
Definition checked_succ (n : N) : outcome N := if u16_max <? n + 1 then Panic else Ok (n + 1).

(* `Vec::from_iter(input_set.union(&sub_inputs).cloned())` followed by `sort()` *)
Definition union_sorted (f g : bdd) : list N := fold_right insert_uniq [] (support f ++ support g).

(* the loop over the sorted union: every input >= var is mapped to from_index(input.to_index() + 1) *)
Fixpoint shift_permutation (vars : list N) (x : N) : outcome (list (N * N)) :=
  match vars with
  | [] => Ok []
  | v :: r =>
    if x <=? v then
      if u16_max <? v + 1 then Panic                          (* u16::try_from(index).unwrap() *)
      else bind (shift_permutation r x) (fun m => Ok ((v, v + 1) :: m))
    else shift_permutation r x
  end.

(* HashMap::remove (the value is read with map_get beforehand) *)
Definition map_remove (m : list (N * N)) (k : N) : list (N * N) := filter (fun kv => negb (fst kv =? k)) m.
(* `.into_iter().map(|(a, b)| (b, a)).collect::<HashMap<_, _>>()` *)
Definition map_reverse (m : list (N * N)) : list (N * N) := map (fun kv => (snd kv, fst kv)) m.

Definition substitute_faithful (f : bdd) (x : N) (g : bdd) : outcome bdd :=
  if negb (mem x (support f)) then Ok f
  else if negb (mem x (support g)) then
    bind (binary_op (mk_literal (nvars f) x true) g op_iff) (fun iff =>
    binary_op_with_exists_faithful f iff op_and [x])
  else
    bind (shift_permutation (union_sorted f g) x) (fun perm =>
    bind (checked_succ (nvars f)) (fun n1 =>
    bind (set_num_vars f n1) (fun f1 =>
    bind (rename_variables f1 perm) (fun f2 =>
    match map_get perm x with
    | None => Panic                                           (* permutation.remove(&var).unwrap() *)
    | Some var_prime =>
      let perm' := map_remove perm x in
      bind (checked_succ (nvars g)) (fun m1 =>
      bind (set_num_vars g m1) (fun g1 =>
      bind (rename_variables g1 perm') (fun g2 =>
      bind (binary_op (mk_literal (nvars f2) var_prime true) g2 op_iff) (fun iff =>
      bind (binary_op_with_exists_faithful f2 iff op_and [var_prime]) (fun s =>
      bind (rename_variables s (map_reverse perm')) (fun s1 =>
      set_num_vars s1 (nvars s1 - 1)))))))
    end)))).
