(* Model/ApplyFast.v — an efficient executable version of the binary apply engine of Model/Apply.v
   (process / apply2 / fused_binary_flip_op).  Definitions only; Proofs/ApplyFast.v proves
   apply2_fast = apply2 and fused_binary_flip_op_fast = fused_binary_flip_op WITHOUT hypotheses,
   so every theorem about the reference engine transfers.
   Granularity: the same as Model/Apply.v (order-faithful functional); only the data structures differ:
     * each operand is loaded once into a PositiveMap from index to node (key N.succ_pos p); a missing
       key reads as dnode, exactly like `nth _ _ dnode`;
     * the memo table `finished` is a two-level PositiveMap keyed by the task pair, the unique table
       `existing` a three-level PositiveMap keyed by (variable, low, high); `add` overwrites, which is the
       association-list discipline "most recent binding wins";
     * the result store is a REVERSED list plus its length as an N counter (the binary engine never
       reads the store, it only needs its size); it is reversed once at the end with rev_append.
   The recursion structure (fuel-indexed process, ensure first / ensure second / resolve) is unchanged. *)
From Coq Require Import List NArith Bool FMapPositive.
Import ListNotations.
From BddVerif Require Import Model.Bdd Model.Apply.
Open Scope N_scope.

Definition pkey (p : N) : positive := N.succ_pos p.

(* ---- operands as finite maps ---- *)
Definition arr := PositiveMap.t node.
Fixpoint load (b : list node) (i : N) (m : arr) : N * arr :=
  match b with
  | [] => (i, m)
  | n :: r => load r (N.succ i) (PositiveMap.add (pkey i) n m)
  end.
Definition aget (m : arr) (p : N) : node :=
  match PositiveMap.find (pkey p) m with Some n => n | None => dnode end.

(* ---- memo tables ---- *)
Definition find2 {V : Type} (a b : N) (m : PositiveMap.t (PositiveMap.t V)) : option V :=
  match PositiveMap.find (pkey a) m with Some m1 => PositiveMap.find (pkey b) m1 | None => None end.
Definition add2 {V : Type} (a b : N) (v : V) (m : PositiveMap.t (PositiveMap.t V)) : PositiveMap.t (PositiveMap.t V) :=
  let m1 := match PositiveMap.find (pkey a) m with Some m1 => m1 | None => PositiveMap.empty V end in
  PositiveMap.add (pkey a) (PositiveMap.add (pkey b) v m1) m.

Definition tmap := PositiveMap.t (PositiveMap.t N).
Definition nmap := PositiveMap.t (PositiveMap.t (PositiveMap.t N)).
Definition tfindF (k : task) (m : tmap) : option N := find2 (fst k) (snd k) m.
Definition taddF (k : task) (v : N) (m : tmap) : tmap := add2 (fst k) (snd k) v m.
Definition nfindF (n : node) (m : nmap) : option N :=
  match find2 (nvar n) (nlow n) m with Some m2 => PositiveMap.find (pkey (nhigh n)) m2 | None => None end.
Definition naddF (n : node) (v : N) (m : nmap) : nmap :=
  let m2 := match find2 (nvar n) (nlow n) m with Some m2 => m2 | None => PositiveMap.empty N end in
  add2 (nvar n) (nlow n) (PositiveMap.add (pkey (nhigh n)) v m2) m.

(* ---- engine state: reversed store + its size ---- *)
Record fstate := mkF { rnodes : list node; rsize : N; fexisting : nmap; ffinished : tmap; fnonempty : bool }.

Definition pushF (s : fstate) (n : node) : N * fstate :=
  let p := rsize s in
  (p, mkF (n :: rnodes s) (N.succ p) (naddF n p (fexisting s)) (ffinished s) (fnonempty s)).
Definition memoF (s : fstate) (t : task) (p : N) : fstate :=
  mkF (rnodes s) (rsize s) (fexisting s) (taddF t p (ffinished s)) (fnonempty s).
Definition set_neF (s : fstate) (b : bool) : fstate :=
  mkF (rnodes s) (rsize s) (fexisting s) (ffinished s) (fnonempty s || b).
Definition mkF_node (s : fstate) (d lo hi : N) : N * fstate :=
  if lo =? hi then (lo, s) else
  let n := mkNode d lo hi in
  match nfindF n (fexisting s) with Some p => (p, s) | None => pushF s n end.

Definition kidsF (G : arr) (fl : option N) (p dv : N) : N * N :=
  let n := aget G p in
  if negb (nvar n =? dv) then (p, p) else if oeq fl dv then (nhigh n, nlow n) else (nlow n, nhigh n).

Section ApplyFast.
  Variables (MA MB : arr) (fa fb fo : option N) (op : op2).

  Definition ensure_withF (proc : task -> fstate -> option (N * fstate)) (t : task) (s : fstate) : option (N * fstate) :=
    match op (as_bool (fst t)) (as_bool (snd t)) with
    | Some c => Some (of_bool c, s)
    | None => match tfindF t (ffinished s) with Some p => Some (p, s) | None => proc t s end
    end.

  Definition levelF (t : task) : N := N.min (nvar (aget MA (fst t))) (nvar (aget MB (snd t))).
  Definition t_loF (t : task) : task := let dv := levelF t in (fst (kidsF MA fa (fst t) dv), fst (kidsF MB fb (snd t) dv)).
  Definition t_hiF (t : task) : task := let dv := levelF t in (snd (kidsF MA fa (fst t) dv), snd (kidsF MB fb (snd t) dv)).

  Fixpoint processF (fuel : nat) (t : task) (s : fstate) : option (N * fstate) :=
    match fuel with O => None | S f =>
      let dv := levelF t in
      let swap := oeq fo dv in
      let '(t1, t2) := if swap then (t_loF t, t_hiF t) else (t_hiF t, t_loF t) in
      match ensure_withF (processF f) t1 s with None => None | Some (p1, s1) =>
      match ensure_withF (processF f) t2 s1 with None => None | Some (p2, s2) =>
        let '(plo, phi) := if swap then (p1, p2) else (p2, p1) in
        let s3 := set_neF s2 ((plo =? 1) || (phi =? 1)) in
        let '(p, s4) := if swap then mkF_node s3 dv phi plo else mkF_node s3 dv plo phi in
        Some (p, memoF s4 t p)
      end end
    end.
End ApplyFast.

Definition s0F (zero one : node) : fstate :=
  mkF [one; zero] 2 (naddF zero 0 (naddF one 1 (PositiveMap.empty _))) (PositiveMap.empty _) false.

Definition apply2_fast (A B : bdd) (fa fb fo : option N) (op : op2) : option bdd :=
  let '(sa, MA) := load A 0 (PositiveMap.empty node) in
  let '(sb, MB) := load B 0 (PositiveMap.empty node) in
  let nv := nvar (aget MA 0) in
  let zero := mkNode nv 0 0 in
  let one := mkNode nv 1 1 in
  match processF MA MB fa fb fo op (S (S (N.to_nat nv))) (sa - 1, sb - 1) (s0F zero one) with
  | None => None
  | Some (_, s) => Some (if fnonempty s then rev_append (rnodes s) [] else [zero])
  end.

(* same guards as fused_binary_flip_op; the variable counts are read from the lists (node 0), as there *)
Definition fused_binary_flip_op_fast (A B : bdd) (fa fb fo : option N) (op : op2) : outcome bdd :=
  guard2 A B fa fb fo (of_option (apply2_fast A B fa fb fo op)).
Definition binary_op_fast (A B : bdd) (op : op2) : outcome bdd := fused_binary_flip_op_fast A B None None None op.
