(* Model/Dot.v — Bdd::to_dot_string / write_as_dot_string (_impl_export_dot.rs), plus a SPEC-side reader.
   Definitions only.
   Granularity of the writer (`dot_items`, `print_line`, `dot_lines`, `dot_text`): step-faithful — one element per
   `writeln!` of the Rust in the same order; strings are byte strings (`list N`); node indices are printed with
   `VarSet.decimal`.  Panics of the Rust that are explicit here: an empty node array (`num_vars` indexes node 0),
   `var_names.len() != num_vars`, and `var_names[var]` out of range for a decision node (only possible for
   arrays that are not well formed).  The text is the lines each followed by '\n' (`dot_text`).
   The writer is factored as `map print_line` over a structured line type; this is a presentation of the same
   sequence of `writeln!` calls, not an abstraction (print_line is injective: Proofs/Dot.v parse_print).
   Reader (`parse_line`, `parse_dot`, `graph_eval`): specification side, no Rust counterpart. *)
From Coq Require Import List NArith Bool.
From Coq Require String Ascii.
Import String.StringSyntax.
Delimit Scope string_scope with string.
Import ListNotations.
From BddVerif Require Import Model.Bdd Model.Apply Model.Ops Model.VarSet.
Open Scope N_scope.

Definition bytes (s : String.string) : list N := map Ascii.N_of_ascii (String.list_ascii_of_string s).

Inductive style := Filled | Dotted.
Inductive line :=
| LHeader                       (* digraph G {                                                    *)
| LInit                         (* init__ [label="", style=invis, height=0, width=0];             *)
| LEntry (r : N)                (* init__ -> r;                                                   *)
| LTerm (one : bool)            (* 0 [shape=box, label="0", style=filled, shape=box, ...];        *)
| LVertex (p : N) (label : name)(* p[label="name"];                                               *)
| LEdge (p q : N) (s : style)   (* p -> q [style=filled];      / [style=dotted];                  *)
| LFooter.                      (* }                                                              *)

Definition s_header : list N := Eval vm_compute in bytes "digraph G {"%string.
Definition s_init : list N := Eval vm_compute in bytes "init__ [label="""", style=invis, height=0, width=0];"%string.
Definition s_entry_pre : list N := Eval vm_compute in bytes "init__ -> "%string.
Definition s_semi : list N := Eval vm_compute in bytes ";"%string.
Definition s_term0_rest : list N := Eval vm_compute in bytes " [shape=box, label=""0"", style=filled, shape=box, height=0.3, width=0.3];"%string.
Definition s_term1_rest : list N := Eval vm_compute in bytes " [shape=box, label=""1"", style=filled, shape=box, height=0.3, width=0.3];"%string.
Definition s_vertex_mid : list N := Eval vm_compute in bytes "[label="""%string.
Definition s_vertex_end : list N := Eval vm_compute in bytes """];"%string.
Definition s_arrow : list N := Eval vm_compute in bytes " -> "%string.
Definition s_filled : list N := Eval vm_compute in bytes " [style=filled];"%string.
Definition s_dotted : list N := Eval vm_compute in bytes " [style=dotted];"%string.
Definition s_footer : list N := Eval vm_compute in bytes "}"%string.

Definition print_line (l : line) : list N :=
  match l with
  | LHeader => s_header
  | LInit => s_init
  | LEntry r => s_entry_pre ++ decimal r ++ s_semi
  | LTerm false => decimal 0 ++ s_term0_rest
  | LTerm true => decimal 1 ++ s_term1_rest
  | LVertex p s => decimal p ++ s_vertex_mid ++ s ++ s_vertex_end
  | LEdge p q Filled => decimal p ++ s_arrow ++ decimal q ++ s_filled
  | LEdge p q Dotted => decimal p ++ s_arrow ++ decimal q ++ s_dotted
  | LFooter => s_footer
  end.

(* one iteration of `for node_pointer in bdd.pointers().skip(2)` *)
Definition node_items (b : bdd) (names : list name) (pruned : bool) (p : N) : outcome (list line) :=
  let n := get b p in
  match nth_error names (N.to_nat (nvar n)) with
  | None => Panic
  | Some s =>
    Ok ([LVertex p s]
        ++ (if negb pruned || negb (nhigh n =? 0) then [LEdge p (nhigh n) Filled] else [])
        ++ (if negb pruned || negb (nlow n =? 0) then [LEdge p (nlow n) Dotted] else []))
  end.
Fixpoint nodes_items (b : bdd) (names : list name) (pruned : bool) (ps : list N) : outcome (list line) :=
  match ps with
  | [] => Ok []
  | p :: r => bind (node_items b names pruned p) (fun a =>
              bind (nodes_items b names pruned r) (fun c => Ok (a ++ c)))
  end.

Definition dot_items (b : bdd) (names : list name) (pruned : bool) : outcome (list line) :=
  if size b =? 0 then Panic
  else if negb (N.of_nat (length names) =? nvars b) then Panic
  else bind (nodes_items b names pruned (idxs b)) (fun body =>
       Ok ([LHeader; LInit; LEntry (size b - 1)]
           ++ (if pruned then [] else [LTerm false]) ++ [LTerm true] ++ body ++ [LFooter])).

Definition dot_lines (b : bdd) (names : list name) (pruned : bool) : outcome (list (list N)) :=
  bind (dot_items b names pruned) (fun ls => Ok (map print_line ls)).

Definition dot_text (b : bdd) (names : list name) (pruned : bool) : outcome (list N) :=
  bind (dot_lines b names pruned) (fun ss => Ok (flat_map (fun s => s ++ [10]) ss)).

(* Bdd::to_dot_string(&BddVariableSet::from(names), pruned): the harness operation `dot` *)
Definition dot_of_names (b : bdd) (names : list name) (pruned : bool) : outcome (list N) :=
  bind (vs_from names) (fun vs => dot_text b (vs_names vs) pruned).

(* ======================================================================================== *)
(* SPEC-side reader                                                                          *)
Fixpoint bytes_eqb (a b : list N) : bool :=
  match a, b with
  | [], [] => true
  | x :: a', y :: b' => (x =? y) && bytes_eqb a' b'
  | _, _ => false
  end.
Fixpoint strip_prefix (p s : list N) : option (list N) :=
  match p, s with
  | [], _ => Some s
  | x :: p', y :: s' => if x =? y then strip_prefix p' s' else None
  | _ :: _, [] => None
  end.
Definition strip_suffix (p s : list N) : option (list N) :=
  match strip_prefix (rev p) (rev s) with Some r => Some (rev r) | None => None end.
Definition is_digit (c : N) : bool := (48 <=? c) && (c <=? 57).
Fixpoint span_digits (s : list N) : list N * list N :=
  match s with
  | [] => ([], [])
  | c :: r => if is_digit c then let '(d, t) := span_digits r in (c :: d, t) else ([], s)
  end.
Definition undec (d : list N) : N := fold_left (fun a c => 10 * a + (c - 48)) d 0.
Definition read_num (s : list N) : option (N * list N) :=
  let '(d, t) := span_digits s in match d with [] => None | _ => Some (undec d, t) end.

Definition parse_line (s : list N) : option line :=
  match read_num s with
  | Some (p, t) =>
    match strip_prefix s_vertex_mid t with
    | Some u => match strip_suffix s_vertex_end u with Some nm => Some (LVertex p nm) | None => None end
    | None =>
      match strip_prefix s_arrow t with
      | Some u =>
        match read_num u with
        | Some (q, w) => if bytes_eqb w s_filled then Some (LEdge p q Filled)
                         else if bytes_eqb w s_dotted then Some (LEdge p q Dotted) else None
        | None => None
        end
      | None => if (p =? 0) && bytes_eqb t s_term0_rest then Some (LTerm false)
                else if (p =? 1) && bytes_eqb t s_term1_rest then Some (LTerm true) else None
      end
    end
  | None =>
    match strip_prefix s_entry_pre s with
    | Some u => match read_num u with
                | Some (q, w) => if bytes_eqb w s_semi then Some (LEntry q) else None
                | None => None
                end
    | None => if bytes_eqb s s_header then Some LHeader
              else if bytes_eqb s s_init then Some LInit
              else if bytes_eqb s s_footer then Some LFooter else None
    end
  end.

Fixpoint parse_lines (ss : list (list N)) : option (list line) :=
  match ss with
  | [] => Some []
  | s :: r => match parse_line s, parse_lines r with Some l, Some ls => Some (l :: ls) | _, _ => None end
  end.

(* the graph that the text declares: entry edges, terminal vertices, labelled vertices, typed edges, each in order of
   appearance *)
Record graph := mkGraph {
  g_entry : list N;
  g_terms : list N;
  g_verts : list (N * name);
  g_edges : list (N * N * style) }.

(* body lines up to the closing brace, which must be the last line *)
Fixpoint collect (ls : list line) : option graph :=
  match ls with
  | [LFooter] => Some (mkGraph [] [] [] [])
  | LEntry r :: t => match collect t with Some g => Some (mkGraph (r :: g_entry g) (g_terms g) (g_verts g) (g_edges g)) | None => None end
  | LTerm c :: t => match collect t with Some g => Some (mkGraph (g_entry g) ((if c then 1 else 0) :: g_terms g) (g_verts g) (g_edges g)) | None => None end
  | LVertex p s :: t => match collect t with Some g => Some (mkGraph (g_entry g) (g_terms g) ((p, s) :: g_verts g) (g_edges g)) | None => None end
  | LEdge p q st :: t => match collect t with Some g => Some (mkGraph (g_entry g) (g_terms g) (g_verts g) ((p, q, st) :: g_edges g)) | None => None end
  | _ => None
  end.
Definition graph_of (ls : list line) : option graph :=
  match ls with LHeader :: LInit :: t => collect t | _ => None end.
Definition parse_dot (ss : list (list N)) : option graph :=
  match parse_lines ss with Some ls => graph_of ls | None => None end.

(* evaluation of a declared graph under a valuation of the LABELS: from the entry edge follow the filled edge when
   the label is true, the dotted edge otherwise; a missing edge or an undeclared vertex reads as the 0 terminal
   (the zero-pruned reading) *)
Definition style_eqb (a b : style) : bool := match a, b with Filled, Filled | Dotted, Dotted => true | _, _ => false end.
Fixpoint find_vert (vs : list (N * name)) (p : N) : option name :=
  match vs with [] => None | (q, s) :: r => if q =? p then Some s else find_vert r p end.
Fixpoint find_edge (es : list (N * N * style)) (p : N) (st : style) : option N :=
  match es with
  | [] => None
  | (p', q, st') :: r => if (p' =? p) && style_eqb st' st then Some q else find_edge r p st
  end.
Fixpoint gwalk (fuel : nat) (g : graph) (lv : name -> bool) (p : N) : bool :=
  match fuel with
  | O => false
  | S f =>
    if mem p (g_terms g) then p =? 1
    else match find_vert (g_verts g) p with
         | None => false
         | Some s => match find_edge (g_edges g) p (if lv s then Filled else Dotted) with
                     | None => false
                     | Some q => gwalk f g lv q
                     end
         end
  end.
Definition graph_eval (g : graph) (lv : name -> bool) : bool :=
  match g_entry g with
  | [r] => gwalk (S (length (g_verts g))) g lv r
  | _ => false
  end.

(* reader + evaluator on the text lines (used by the driver for the read-back check) *)
Definition dot_read_eval (ss : list (list N)) (names : list name) (v : list bool) : option bool :=
  match parse_dot ss with
  | Some g => Some (graph_eval g (fun s => match smap_get (build_map names) s with
                                           | Some x => nth (N.to_nat x) v false | None => false end))
  | None => None
  end.
