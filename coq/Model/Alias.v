(* Model/Alias.v — the thin public entry points that wrap a modelled core: deprecated aliases
   (`project`, `var_project`), the panicking forms of the readers
   (`Bdd::from_string`, `Bdd::from_bytes`: read + `expect`), `eval_expression_string` (parse + unwrap + evaluate),
   `_to_optimized_dnf` with an interrupt that never fires, and the mutators/observers of the TOTAL valuation type
   `BddValuation` (`all_false`, `all_true`, `set`, `clear`, `flip_value`, `set_value`, `IndexMut`, `value`, `Index`,
   `vector`, `num_vars`).  Definitions only; proofs are in Proofs/Alias.v. *)
From Coq Require Import List NArith Bool. Import ListNotations.
From BddVerif Require Import Model.Bdd Model.Apply Model.Ops Model.Serial Model.Expr Model.OptDnf Model.VarSet Model.Dot.
Open Scope N_scope.

(* ---- _impl_relation_ops.rs: #[deprecated] project / var_project call exists / var_exists *)
Definition bdd_project_alias (b : bdd) (vars : list N) : outcome bdd := bdd_exists b vars.
Definition var_project_alias (b : bdd) (x : N) : outcome bdd := var_exists b x.

(* ---- _impl_serialisation.rs: from_string / from_bytes = read_as_*(&mut slice).expect(..)
   (a slice reader hands over everything that is asked for: the empty schedule) *)
Definition expect_read (r : outcome (result bdd)) : outcome bdd :=
  match r with
  | Ok (ROk b) => Ok b
  | Ok RErr => Panic
  | Panic => Panic
  | OutOfFuel => OutOfFuel
  end.
Definition from_string_m (data : list N) : outcome bdd := expect_read (read_text_sched data []).
Definition from_bytes_m (data : list N) : outcome bdd := expect_read (read_bytes_sched data []).

(* ---- boolean_expression (parse_boolean_expression, which TryFrom<&str> calls, is not exported):
   eval_expression_string = try_from(..).unwrap() then eval_expression *)
Definition eval_expr_string (names : list name) (s : list N) : outcome bdd :=
  match parse_string s with
  | POk e => eval_expr names e
  | PErr => Panic
  | PPanic => Panic
  | PFuel => OutOfFuel
  end.

(* ---- _impl_dnf.rs: to_optimized_dnf = _to_optimized_dnf(never-failing interrupt).unwrap() *)
Definition to_optimized_dnf_uninterrupted (b : bdd) := to_optimized_dnf b.

(* ---- _impl_bdd_valuation.rs: BddValuation(Vec<bool>) and its in-place mutators; an index beyond the vector panics *)
Inductive val_op :=
  | VSet (x : N)                    (* set *)
  | VClear (x : N)                  (* clear *)
  | VFlip (x : N)                   (* flip_value *)
  | VSetValue (x : N) (c : bool)    (* set_value *)
  | VIndexMut (x : N) (c : bool).   (* v[x] = c *)

Fixpoint upd_at (l : list bool) (i : nat) (f : bool -> bool) : option (list bool) :=
  match l, i with
  | [], _ => None
  | c :: r, O => Some (f c :: r)
  | c :: r, S j => option_map (cons c) (upd_at r j f)
  end.

Definition val_op_var (o : val_op) : N :=
  match o with VSet x | VClear x | VFlip x | VSetValue x _ | VIndexMut x _ => x end.
Definition val_op_fun (o : val_op) : bool -> bool :=
  match o with
  | VSet _ => fun _ => true
  | VClear _ => fun _ => false
  | VFlip _ => negb
  | VSetValue _ c | VIndexMut _ c => fun _ => c
  end.
Definition val_step (v : list bool) (o : val_op) : outcome (list bool) :=
  match upd_at v (N.to_nat (val_op_var o)) (val_op_fun o) with Some w => Ok w | None => Panic end.
Fixpoint val_run (v : list bool) (ops : list val_op) : outcome (list bool) :=
  match ops with
  | [] => Ok v
  | o :: r => bind (val_step v o) (fun w => val_run w r)
  end.

Definition val_all (c : bool) (n : N) : list bool := repeat c (N.to_nat n).   (* all_false / all_true (n : u16) *)
Definition val_value (v : list bool) (x : N) : outcome bool :=                (* value / Index *)
  match nth_error v (N.to_nat x) with Some c => Ok c | None => Panic end.
Definition val_num_vars (v : list bool) : N := N.of_nat (length v) mod 65536. (* `self.0.len() as u16` *)

(* ---- _impl_export_dot.rs: write_as_dot_string into an arbitrary `Write` — every line goes through `writeln!` = write_fmt
   = write_all, so the bytes a scripted writer accepts are those of ONE write_all of the whole text under the same schedule
   (Proofs/SerialIO.v: write_pieces_clean / write_pieces_fail — the split into pieces does not matter) *)
Definition dot_write_sched_m (b : bdd) (names : list VarSet.name) (pruned : bool) (sched : list event) : outcome (bool * list N) :=
  bind (dot_of_names b names pruned) (fun text => let r := write_all text sched [] in Ok (fst r, rev (snd (snd r)))).
