(* Model/Rename.v — Bdd::rename_variable, Bdd::rename_variables, Bdd::set_num_vars (src/_impl_bdd/_impl_util.rs)
   and BddVariableSet::transfer_from (src/_impl_bdd_variable_set.rs).
   Granularity: step-faithful.  Every assert!/panic!/index/unreachable! of the Rust is an explicit `Panic`, in the
   order in which the Rust reaches it; the node rewrite is the same single pass over the node vector.
   HashSet/HashMap are modelled as finite maps: `support_set()` followed by `sort()` is the sorted duplicate-free
   list `support_sorted`; a `HashMap<BddVariable, BddVariable>` argument is an association list with unique keys
   (`map_get` = first binding); a variable set is the list of its names (a name = list of bytes), `name_of` is
   indexing (panics out of range, like `self.var_names[i]`), `var_by_name` (modelled by tr_var_by_name) is the first index carrying the name
   (names of a BddVariableSet are unique: the builder rejects duplicates).
   Definitions only. *)
From Coq Require Import List NArith Bool.
Import ListNotations.
From BddVerif Require Import Model.Bdd Model.Apply Model.Ops.
Open Scope N_scope.

(* ---- support_set() collected into a Vec and sorted: ascending, no duplicates ---- *)
Fixpoint insert_uniq (x : N) (l : list N) : list N :=
  match l with
  | [] => [x]
  | y :: r => if x <? y then x :: l else if x =? y then l else y :: insert_uniq x r
  end.
Definition support_sorted (b : bdd) : list N := fold_right insert_uniq [] (support b).

(* HashMap<BddVariable, BddVariable> as an association list *)
Fixpoint map_get (m : list (N * N)) (x : N) : option N :=
  match m with
  | [] => None
  | (k, y) :: r => if k =? x then Some y else map_get r x
  end.
Definition apply_map (m : list (N * N)) (x : N) : N := match map_get m x with Some y => y | None => x end.

Fixpoint strictly_increasing (l : list N) : bool :=
  match l with
  | x :: ((y :: _) as r) => (x <? y) && strictly_increasing r
  | _ => true
  end.

Definition set_var (n : node) (x : N) : node := mkNode x (nlow n) (nhigh n).

(* ---- rename_variables (after the D7 repair: the two terminals are skipped) ---- *)
Definition rename_variables (b : bdd) (m : list (N * N)) : outcome bdd :=
  match support_sorted b with
  | [] => Ok b
  | cur =>
    let after := map (apply_map m) cur in
    if negb (forallb (fun y => y <? nvars b) after) then Panic
    else if negb (strictly_increasing after) then Panic
    else Ok (firstn 2 b ++ map (fun n => match map_get m (nvar n) with Some y => set_var n y | None => n end) (skipn 2 b))
  end.

(* ---- rename_variable ---- *)
(* the loop `for i in (low + 1)..high { if support_set.contains(i) { panic } }` *)
Definition between_in_support (sup : list N) (lo hi : N) : bool :=
  existsb (fun i => mem (N.of_nat i) sup) (seq (S (N.to_nat lo)) (N.to_nat hi - S (N.to_nat lo))).

Definition rename_variable (b : bdd) (old new : N) : outcome bdd :=
  if negb (old <? nvars b) then Panic
  else if negb (new <? nvars b) then Panic
  else if old =? new then Ok b
  else
    let sup := support b in
    if between_in_support sup (N.min old new) (N.max old new) then Panic
    else if mem new sup then Panic
    else Ok (map (fun n => if nvar n =? old then set_var n new else n) b).

(* ---- set_num_vars ---- *)
Definition set_num_vars (b : bdd) (n : N) : outcome bdd :=
  if existsb (fun nd => n <=? nvar nd) (skipn 2 b) then Panic
  else match b with
       | [] => Panic                                        (* self.0[0] *)
       | [z] => Ok [set_var z n]
       | z :: o :: rest => Ok (set_var z n :: set_var o n :: rest)
       end.

(* ---- transfer_from ---- *)
Definition vname := list N.
Fixpoint vname_eqb (a b : vname) : bool :=
  match a, b with
  | [], [] => true
  | x :: a', y :: b' => (x =? y) && vname_eqb a' b'
  | _, _ => false
  end.
Fixpoint tr_index_from (i : N) (nm : vname) (names : list vname) : option N :=
  match names with
  | [] => None
  | n :: r => if vname_eqb n nm then Some i else tr_index_from (i + 1) nm r
  end.
Definition tr_var_by_name (names : list vname) (nm : vname) : option N := tr_index_from 0 nm names.

(* the loop translating the sorted support: name_of may panic, a missing name returns None at once *)
Fixpoint translate (target source : list vname) (old : list N) : outcome (option (list N)) :=
  match old with
  | [] => Ok (Some [])
  | x :: r =>
    match nth_error source (N.to_nat x) with
    | None => Panic
    | Some nm =>
      match tr_var_by_name target nm with
      | None => Ok None
      | Some id =>
        match translate target source r with
        | Ok (Some ids) => Ok (Some (id :: ids))
        | o => o
        end
      end
    end
  end.

(* `for i in 1..len { if new[i] <= new[i-1] { return None } }` *)
Definition order_valid (l : list N) : bool := strictly_increasing l.

Fixpoint copy_nodes (m : list (N * N)) (l : list node) : outcome (list node) :=
  match l with
  | [] => Ok []
  | n :: r =>
    match map_get m (nvar n) with
    | None => Panic                                         (* unreachable!() *)
    | Some y => match copy_nodes m r with Ok r' => Ok (set_var n y :: r') | o => o end
    end
  end.

Definition transfer_from (target : list vname) (b : bdd) (source : list vname) : outcome (option bdd) :=
  let tn := N.of_nat (length target) in
  if is_false b then Ok (Some (mk_false tn))
  else if is_true b then Ok (Some (mk_true tn))
  else
    let old := support_sorted b in
    match translate target source old with
    | Ok (Some new) =>
      if negb (order_valid new) then Ok None
      else match copy_nodes (combine old new) (skipn 2 b) with
           | Ok l => Ok (Some (mk_true tn ++ l))
           | Panic => Panic
           | OutOfFuel => OutOfFuel
           end
    | Ok None => Ok None
    | Panic => Panic
    | OutOfFuel => OutOfFuel
    end.
