(* Model/Apply3.v — the ternary apply engine with four fused flips (`ternary_apply` in
   src/_impl_bdd/_impl_ternary_ops.rs: its own explicit-stack loop over triples of pointers with three
   input flips and an output flip).  Definitions only.
   Granularity: order-faithful functional, exactly the rendering Model/Apply.v uses for the binary loop:
   "ensure first; ensure second; resolve" creates nodes in the same order as the Rust stack machine
   (without an output flip on the decision variable: push low, push high, so HIGH is completed first;
   under the output flip: push high, push low, so LOW is completed first; the node is built with its
   links swapped under the output flip; the `is_not_empty` flag is raised when either sub-result is the
   pointer 1).  The explicit stack is not modelled.  The engine consults the operator table on PARTIAL
   inputs too (early answers), like the Rust; the compositional model `Ops.fused_ternary_flip_op` only
   reads the total entries (Proofs/Apply3Sem.v `ternary_faithful_eq` relates the two). *)
From Coq Require Import List NArith Bool.
Import ListNotations.
From BddVerif Require Import Model.Bdd Model.Apply Model.Ops.
Open Scope N_scope.

Definition task3 := (N * N * N)%type.
Definition t3a (t : task3) : N := fst (fst t).
Definition t3b (t : task3) : N := snd (fst t).
Definition t3c (t : task3) : N := snd t.
Definition task3_eqb (x y : task3) := (t3a x =? t3a y) && (t3b x =? t3b y) && (t3c x =? t3c y).
Fixpoint tfind3 (k : task3) (m : list (task3 * N)) : option N :=
  match m with [] => None | (k', v) :: r => if task3_eqb k k' then Some v else tfind3 k r end.

(* result store + hash-consing table `existing` + memo table `finished` + the `is_not_empty` flag *)
Record st3 := mkSt3 { nodes3 : list node; existing3 : list (node * N); finished3 : list (task3 * N); nonempty3 : bool }.

Definition push3 (s : st3) (n : node) : N * st3 :=
  let p := size (nodes3 s) in
  (p, mkSt3 (nodes3 s ++ [n]) ((n, p) :: existing3 s) (finished3 s) (nonempty3 s)).
Definition memo3 (s : st3) (t : task3) (p : N) : st3 :=
  mkSt3 (nodes3 s) (existing3 s) ((t, p) :: finished3 s) (nonempty3 s).
Definition set_ne3 (s : st3) (b : bool) : st3 := mkSt3 (nodes3 s) (existing3 s) (finished3 s) (nonempty3 s || b).
Definition mk3 (s : st3) (d lo hi : N) : N * st3 :=
  if lo =? hi then (lo, s) else
  let n := mkNode d lo hi in
  match nfind n (existing3 s) with Some p => (p, s) | None => push3 s n end.

Section Apply3.
  Variables (A B C : bdd) (fa fb fc fo : option N) (op : op3).

  (* terminal lookup, then the memo table, then the recursive call *)
  Definition ensure_with3 (proc : task3 -> st3 -> option (N * st3)) (t : task3) (s : st3) : option (N * st3) :=
    match op (as_bool (t3a t)) (as_bool (t3b t)) (as_bool (t3c t)) with
    | Some c => Some (of_bool c, s)
    | None => match tfind3 t (finished3 s) with Some p => Some (p, s) | None => proc t s end
    end.

  Definition level3 (t : task3) : N :=
    N.min (var_of A (t3a t)) (N.min (var_of B (t3b t)) (var_of C (t3c t))).
  Definition t_lo3 (t : task3) : task3 :=
    let dv := level3 t in
    (fst (kids A fa (t3a t) dv), fst (kids B fb (t3b t) dv), fst (kids C fc (t3c t) dv)).
  Definition t_hi3 (t : task3) : task3 :=
    let dv := level3 t in
    (snd (kids A fa (t3a t) dv), snd (kids B fb (t3b t) dv), snd (kids C fc (t3c t) dv)).

  Fixpoint process3 (fuel : nat) (t : task3) (s : st3) : option (N * st3) :=
    match fuel with O => None | S f =>
      let dv := level3 t in
      let swap := oeq fo dv in
      let '(t1, t2) := if swap then (t_lo3 t, t_hi3 t) else (t_hi3 t, t_lo3 t) in
      match ensure_with3 (process3 f) t1 s with None => None | Some (p1, s1) =>
      match ensure_with3 (process3 f) t2 s1 with None => None | Some (p2, s2) =>
        let '(plo, phi) := if swap then (p1, p2) else (p2, p1) in
        let s3 := set_ne3 s2 ((plo =? 1) || (phi =? 1)) in
        let '(p, s4) := if swap then mk3 s3 dv phi plo else mk3 s3 dv plo phi in
        Some (p, memo3 s4 t p)
      end end
    end.

  Definition zero3 := mkNode (nvars A) 0 0.
  Definition one3  := mkNode (nvars A) 1 1.
  Definition s03 := mkSt3 [zero3; one3] [(zero3, 0); (one3, 1)] [] false.
  Definition root3 : task3 := (size A - 1, size B - 1, size C - 1).
  (* None = fuel exhausted (excluded by the theorems for total tables) *)
  Definition apply3 : option bdd :=
    match process3 (S (S (N.to_nat (nvars A)))) root3 s03 with
    | None => None
    | Some (_, s) => Some (if nonempty3 s then nodes3 s else [zero3])
    end.
End Apply3.

(* ---- API-level wrappers: the panics of `ternary_apply` are the variable-count check and the four
   flip-bound checks, i.e. exactly `Ops.guard3` ---- *)
Definition fused_ternary_flip_op_faithful (A B C : bdd) (fa fb fc fo : option N) (op : op3) : outcome bdd :=
  guard3 A B C fa fb fc fo (of_option (apply3 A B C fa fb fc fo op)).
Definition ternary_op_faithful (A B C : bdd) (op : op3) : outcome bdd :=
  fused_ternary_flip_op_faithful A B C None None None None op.
Definition if_then_else_faithful (A B C : bdd) : outcome bdd := ternary_op_faithful A B C ite_function.

(* ---- executable check that a 27-entry table is total on total inputs and consistent (every answer on a
   partial input is the answer on all of its completions); used by the driver to decide when the
   faithful engine and the compositional model are REQUIRED to agree (Apply3Sem.table3_okb_sound) ---- *)
Definition completions (x : option bool) : list bool := match x with Some b => [b] | None => [false; true] end.
Definition total3b (op : op3) : bool :=
  forallb (fun a => forallb (fun b => forallb (fun c =>
    match op (Some a) (Some b) (Some c) with Some _ => true | None => false end)
    [false; true]) [false; true]) [false; true].
Definition consistent3b (op : op3) : bool :=
  let obs := [None; Some false; Some true] in
  forallb (fun x => forallb (fun y => forallb (fun z =>
    match op x y z with
    | None => true
    | Some r =>
      forallb (fun a => forallb (fun b => forallb (fun c =>
        match op (Some a) (Some b) (Some c) with Some r' => Bool.eqb r r' | None => false end)
        (completions z)) (completions y)) (completions x)
    end) obs) obs) obs.
Definition table3_okb (op : op3) : bool := total3b op && consistent3b op.
