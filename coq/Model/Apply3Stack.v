(* Model/Apply3Stack.v — STEP-FAITHFUL small-step model of the explicit-stack loop of `ternary_apply`
   (src/_impl_bdd/_impl_ternary_ops.rs, `while let Some(on_stack) = stack.last()`, lines 105-209).
   Definitions only; Proofs/Apply3Stack.v proves apply3_stack = apply3 (the recursive engine of Model/Apply3.v).
   Granularity: one `sstep3` = one iteration of the `while` body.  The machine state is the task stack
   (head of the list = top = `stack.last()`) and the same store record `st3` as Model/Apply3.v
   (nodes3 = `result`, existing3 = `existing`, finished3 = `finished`, nonempty3 = `is_not_empty`).
   The hash maps are association lists where the most recent binding wins (= `insert` overwrites).
   The Rust loop has no iteration bound; `srun3 d` iterates `sstep3` until the stack is empty, at most
   2^d times (a balanced binary tree of depth d, so the bound is never materialised as a unary number);
   the theorems show that the bound used by apply3_stack is never reached. *)
From Coq Require Import List NArith Bool.
Import ListNotations.
From BddVerif Require Import Model.Bdd Model.Apply Model.Ops Model.Apply3.
Open Scope N_scope.

(* `if new_x.is_none() { stack.push(comp_x) }`  (lines 193-204) *)
Definition push_unknown3 (known : option N) (t : task3) (stk : list task3) : list task3 :=
  match known with None => t :: stk | Some _ => stk end.

Section Apply3Stack.
  Variables (A B C : bdd) (fa fb fc fo : option N) (op : op3).

  (* lines 155-160:
     terminal_lookup(a.as_bool(), b.as_bool(), c.as_bool()).map(BddPointer::from_bool)
       .or_else(|| finished.get(&task).cloned()) *)
  Definition lookup3 (t : task3) (s : st3) : option N :=
    match op (as_bool (t3a t)) (as_bool (t3b t)) (as_bool (t3c t)) with
    | Some c => Some (of_bool c)
    | None => tfind3 t (finished3 s)
    end.

  (* lines 163-187, "both values are computed":
       164-166  if new_low.is_one() || new_high.is_one() { is_not_empty = true }
       168-170  if new_low == new_high { finished.insert( *on_stack, new_low) }
       173-177  node = if flip_out_if == Some(decision_var) { mk_node(dv, new_high, new_low) } else { mk_node(dv, new_low, new_high) }
       178-180  if let Some(index) = existing.get(&node) { finished.insert( *on_stack, *index) }
       183-185  else { result.push_node(node); existing.insert(node, result.root_pointer());
                       finished.insert( *on_stack, result.root_pointer()) }
     (push3 appends the node, binds it in existing3 and returns the new root pointer; memo3 = finished.insert) *)
  Definition resolve3 (t : task3) (dv new_low new_high : N) (s : st3) : st3 :=
    let s1 := set_ne3 s ((new_low =? 1) || (new_high =? 1)) in
    if new_low =? new_high then memo3 s1 t new_low
    else
      let n := if oeq fo dv then mkNode dv new_high new_low else mkNode dv new_low new_high in
      match nfind n (existing3 s1) with
      | Some index => memo3 s1 t index
      | None => let '(p, s2) := push3 s1 n in memo3 s2 t p
      end.

  (* one iteration of the `while` body (lines 105-208); on the empty stack (loop exit) the state is left unchanged *)
  Definition sstep3 (c : list task3 * st3) : list task3 * st3 :=
    let '(stk, s) := c in
    match stk with
    | [] => c
    | on_stack :: rest =>
      match tfind3 on_stack (finished3 s) with
      | Some _ => (rest, s)                         (* 106-108: finished.contains_key(on_stack): stack.pop() *)
      | None =>
        let p_a := t3a on_stack in                  (* 110 *)
        let p_b := t3b on_stack in
        let p_c := t3c on_stack in
        (* 113-114: decision_var = min(v_a, min(v_b, v_c)) *)
        let decision_var := N.min (var_of A p_a) (N.min (var_of B p_b) (var_of C p_c)) in
        (* 118-140: advance the operands that sit on the decision variable, swapped under their input flip *)
        let '(low_a, high_a) := kids A fa p_a decision_var in
        let '(low_b, high_b) := kids B fb p_b decision_var in
        let '(low_c, high_c) := kids C fc p_c decision_var in
        let comp_low := (low_a, low_b, low_c) in    (* 143-147 *)
        let comp_high := (high_a, high_b, high_c) in (* 148-152 *)
        let new_low := lookup3 comp_low s in        (* 155-157: low is looked up first *)
        let new_high := lookup3 comp_high s in      (* 158-160 *)
        match new_low, new_high with
        | Some nl, Some nh => (rest, resolve3 on_stack decision_var nl nh s)   (* 163-188: ...; stack.pop() *)
        | _, _ =>
          if oeq fo decision_var                    (* 191 *)
          (* 193-198: push high (if unknown), then low (if unknown): low ends on top *)
          then (push_unknown3 new_low comp_low (push_unknown3 new_high comp_high stk), s)
          (* 200-205: push low (if unknown), then high (if unknown): high ends on top *)
          else (push_unknown3 new_high comp_high (push_unknown3 new_low comp_low stk), s)
        end
      end
    end.

  Definition stack_empty3 (c : list task3 * st3) : bool := match fst c with [] => true | _ => false end.

  (* iterate sstep3 until the stack is empty, at most 2^d times *)
  Fixpoint srun3 (d : nat) (c : list task3 * st3) : list task3 * st3 :=
    match d with
    | O => sstep3 c
    | S d' => let c' := srun3 d' c in if stack_empty3 c' then c' else srun3 d' c'
    end.

  (* lines 73-103 (initial store, root task on the stack), the loop, lines 211-215 (the `is_not_empty` epilogue).
     None = iteration bound reached (excluded by the theorems) *)
  Definition apply3_stack : option bdd :=
    let '(stk, s) := srun3 (S (S (S (S (N.to_nat (nvars A)))))) ([root3 A B C], s03 A) in
    match stk with
    | [] => Some (if nonempty3 s then nodes3 s else [zero3 A])
    | _ :: _ => None
    end.
End Apply3Stack.

(* ---- API-level wrappers, mirroring the `_faithful` entry points of Model/Apply3.v (lines 56-68: the variable-count
   check and the four flip-bound checks = Ops.guard3) ---- *)
Definition fused_ternary_flip_op_stack (A B C : bdd) (fa fb fc fo : option N) (op : op3) : outcome bdd :=
  guard3 A B C fa fb fc fo (of_option (apply3_stack A B C fa fb fc fo op)).
Definition ternary_op_stack (A B C : bdd) (op : op3) : outcome bdd :=
  fused_ternary_flip_op_stack A B C None None None None op.
Definition if_then_else_stack (A B C : bdd) : outcome bdd := ternary_op_stack A B C ite_function.
