(* Model/Paths.v — enumeration of paths / clauses / valuations and normal-form extraction.
   Definitions only.

   Granularity
   * `paths_to`, `paths`, `to_dnf`, `to_cnf`, `sat_clauses`, `clause_valuations`, `sat_valuations`:
     I/O-equivalent functional models (the produced SEQUENCE, order included).
       - `to_dnf` (Rust: explicit stack of (node, phase), full low-first DFS that skips 0-leaves) and
         `to_cnf` (Rust: recursion, low child first with the literal inverted) are exactly the DFS
         enumerations `paths_to 1` / `paths_to 0`.
       - `clause_valuations` is the structural definition of the binary counter over the free positions
         (position 0 is the fastest changing one).
   * `val_next`, `first_valuation`, `clause_iter`: STEP-FAITHFUL model of `BddValuation::next(clause)`
     (carry loop with the `assert_eq!` on fixed positions and the early `break`) and of
     `ValuationsOfClauseIterator::{new,next}` (index panic of `flip_value` for a positive literal >= num_vars).
   * `continue_path`, `backtrack`, `make_clause`, `path_iter`: STEP-FAITHFUL model of `BddPathIterator`
     (`new`, `next`, `continue_path`, `make_clause`, with their three panics); the explicit stack is the list
     `stack` (top = head).  `sat_valuations_iter` chains it with `clause_iter` like `BddSatisfyingValuations::next`.
     Fuel: the loops `continue_path` (depth) and the two iterations (number of items) run on explicit fuel;
     the item fuel is `S (length <I/O-equivalent list>)`, which only bounds the run and never changes a result
     (an exhausted run is `OutOfFuel`, reported as a hard error by the driver).
   * the owned iterators hold the Bdd by value and never touch it: `owned_back`. *)
From Coq Require Import List NArith Bool.
Import ListNotations.
From BddVerif Require Import Model.Bdd Model.Apply Model.Ops.
Open Scope N_scope.

(* ======================================================================================== *)
(* I/O-equivalent enumeration of paths                                                       *)
Definition path := list (N * bool).           (* literals from the root downwards *)

(* root-to-terminal-t paths below pointer p, low child first *)
Fixpoint paths_to (t : N) (fuel : nat) (b : bdd) (p : N) : list path :=
  match fuel with
  | O => []
  | S f => if p <? 2 then (if p =? t then [[]] else [])
           else let n := get b p in
                map (cons (nvar n, false)) (paths_to t f b (nlow n)) ++
                map (cons (nvar n, true)) (paths_to t f b (nhigh n))
  end.
Definition root (b : bdd) : N := size b - 1.
Definition path_fuel (b : bdd) : nat := S (N.to_nat (nvars b)).
Definition paths (b : bdd) : list path := paths_to 1 (path_fuel b) b (root b).
Definition zero_paths (b : bdd) : list path := paths_to 0 (path_fuel b) b (root b).

Definition clause_of_path (p : path) : pval := pv_from_values p.        (* make_clause: set_value per edge *)
Definition negate_path (p : path) : path := map (fun xc => (fst xc, negb (snd xc))) p.

Definition sat_clauses (b : bdd) : list pval := map clause_of_path (paths b).
Definition to_dnf (b : bdd) : list pval := map clause_of_path (paths b).
Definition to_cnf (b : bdd) : list pval := map (fun p => clause_of_path (negate_path p)) (zero_paths b).

(* ======================================================================================== *)
(* valuations of a clause                                                                    *)
(* I/O-equivalent: all length-n extensions of the clause, position 0 changing fastest *)
Fixpoint clause_valuations_nat (n : nat) (clause : pval) : list (list bool) :=
  match n with
  | O => [[]]
  | S m => let rest := clause_valuations_nat m (tl clause) in
           match hd None clause with
           | Some c => map (cons c) rest
           | None => flat_map (fun r => [false :: r; true :: r]) rest
           end
  end.
Definition clause_valuations (clause : pval) (nv : N) : list (list bool) :=
  clause_valuations_nat (N.to_nat nv) clause.

Definition sat_valuations (b : bdd) : list (list bool) :=
  flat_map (fun c => clause_valuations c (nvars b)) (sat_clauses b).

(* step-faithful: BddValuation::next(&self, clause) *)
Definition omap {T U} (f : T -> U) (o : outcome (option T)) : outcome (option U) :=
  match o with Ok (Some x) => Ok (Some (f x)) | Ok None => Ok None | Panic => Panic | OutOfFuel => OutOfFuel end.
(* the carry is true for as long as the loop runs; `v` / `clause` are the suffixes from the current variable on *)
Fixpoint val_next (v : list bool) (clause : pval) : outcome (option (list bool)) :=
  match v with
  | [] => Ok None                                                   (* carry out of the last position *)
  | x :: r =>
    match hd None clause with
    | Some c => if Bool.eqb c x then omap (cons x) (val_next r (tl clause))
                else Panic                                          (* assert_eq!(clause value, self value) *)
    | None => if x then omap (cons false) (val_next r (tl clause))  (* 1 -> 0, carry on *)
              else Ok (Some (true :: r))                            (* 0 -> 1, break *)
    end
  end.

(* ValuationsOfClauseIterator::new: all_false(num_vars), flip_value(var) for every positive literal *)
Definition first_valuation (clause : pval) (nv : N) : outcome (list bool) :=
  if forallb (fun xc => negb (snd xc) || (fst xc <? nv)) (pv_cells clause)
  then Ok (map (fun i => match pv_get clause (N.of_nat i) with Some true => true | _ => false end) (seq 0 (N.to_nat nv)))
  else Panic.                                                       (* Vec index out of bounds in flip_value *)

Fixpoint clause_iter_from (fuel : nat) (v : list bool) (clause : pval) : outcome (list (list bool)) :=
  match fuel with
  | O => OutOfFuel
  | S f => match val_next v clause with
           | Ok None => Ok [v]
           | Ok (Some v') => bind (clause_iter_from f v' clause) (fun l => Ok (v :: l))
           | Panic => Panic
           | OutOfFuel => OutOfFuel
           end
  end.
Definition clause_iter (clause : pval) (nv : N) : outcome (list (list bool)) :=
  bind (first_valuation clause nv) (fun v0 =>
    clause_iter_from (S (length (clause_valuations clause nv))) v0 clause).

(* ======================================================================================== *)
(* step-faithful BddPathIterator                                                             *)
Fixpoint continue_path (fuel : nat) (b : bdd) (stack : list N) : outcome (list N) :=
  match fuel with
  | O => OutOfFuel
  | S f =>
    match stack with
    | [] => Panic                                                   (* assert!(!path.is_empty()) *)
    | top :: _ =>
      if top =? 1 then Ok stack
      else if negb (nlow (get b top) =? 0) then continue_path f b (nlow (get b top) :: stack)
      else if negb (nhigh (get b top) =? 0) then continue_path f b (nhigh (get b top) :: stack)
      else Panic                                                    (* "The given BDD is not canonical." *)
    end
  end.

(* the `while let Some(top) = self.stack.last()` loop of next() *)
Fixpoint backtrack (b : bdd) (last_child : N) (stack : list N) : outcome (list N) :=
  match stack with
  | [] => Ok []
  | top :: rest =>
    let n := get b top in
    if nlow n =? last_child then
      if nhigh n =? 0 then backtrack b top rest
      else if nlow n =? nhigh n then Panic                          (* "The BDD is not canonical." *)
      else continue_path (S (path_fuel b)) b (nhigh n :: stack)
    else if nhigh n =? last_child then backtrack b top rest
    else Panic                                                      (* unreachable!("Invalid path data") *)
  end.

(* make_clause over the stack read bottom-up; `bottom_up` = rev stack *)
Fixpoint make_clause_from (b : bdd) (bottom_up : list N) (acc : pval) : outcome pval :=
  match bottom_up with
  | this :: ((next :: _) as rest) =>
    let n := get b this in
    if nlow n =? next then make_clause_from b rest (pv_set acc (N.to_nat (nvar n)) (Some false))
    else if nhigh n =? next then make_clause_from b rest (pv_set acc (N.to_nat (nvar n)) (Some true))
    else Panic
  | _ => Ok acc
  end.
Definition make_clause (b : bdd) (stack : list N) : outcome pval := make_clause_from b (rev stack) [].

Definition path_iter_new (b : bdd) : outcome (list N) :=
  if is_false b then Ok [] else continue_path (S (path_fuel b)) b [root b].

(* one call of next(): None when the stack is empty, else the item and the new stack *)
Definition path_iter_next (b : bdd) (stack : list N) : outcome (option (pval * list N)) :=
  match stack with
  | [] => Ok None
  | last :: rest =>
    bind (make_clause b stack) (fun item =>
    bind (backtrack b last rest) (fun stack' => Ok (Some (item, stack'))))
  end.

Fixpoint path_iter_run (fuel : nat) (b : bdd) (stack : list N) : outcome (list pval) :=
  match fuel with
  | O => OutOfFuel
  | S f => match path_iter_next b stack with
           | Ok None => Ok []
           | Ok (Some (item, stack')) => bind (path_iter_run f b stack') (fun l => Ok (item :: l))
           | Panic => Panic
           | OutOfFuel => OutOfFuel
           end
  end.
Definition path_iter (b : bdd) : outcome (list pval) :=
  bind (path_iter_new b) (path_iter_run (S (S (length (paths b)))) b).

(* BddSatisfyingValuations: for every clause in turn, all valuations of the clause *)
Fixpoint concat_clause_iters (cs : list pval) (nv : N) : outcome (list (list bool)) :=
  match cs with
  | [] => Ok []
  | c :: r => bind (clause_iter c nv) (fun l => bind (concat_clause_iters r nv) (fun l' => Ok (l ++ l')))
  end.
Definition sat_valuations_iter (b : bdd) : outcome (list (list bool)) :=
  bind (path_iter b) (fun cs => concat_clause_iters cs (nvars b)).

(* owned iterators: `From<Owned...> for Bdd` returns the stored value, which no `next` modifies *)
Definition owned_back (b : bdd) (k : N) : bdd * bdd := (b, b).

(* ValuationsOfClauseIterator::empty(): next_valuation = None, nothing is yielded;
   new_unconstrained(nv) / the deprecated BddValuationIterator::new(nv) = the iterator of the empty clause *)
Definition clause_iter_empty : list (list bool) := [].
Definition unconstrained_iter (nv : N) : outcome (list (list bool)) := clause_iter [] nv.
(* k calls of next(), then what is left (observed through a clone(): Clone copies next_valuation and the clause) *)
Definition iter_split {T} (k : N) (l : list T) : list T * list T := (firstn (N.to_nat k) l, skipn (N.to_nat k) l).
