(* Model/Count.v — model counts, clause counts, floating-point cardinality, support set, size per variable
   (src/_impl_bdd/_impl_util.rs: exact_cardinality, exact_clause_cardinality, cardinality, support_set,
   size_per_variable).  Definitions only.

   Granularity.
   * exact_cardinality / exact_clause_cardinality / cardinality_f64: I/O-equivalent functional models with the
     SAME ARITHMETIC as the Rust.  The Rust fills a cache with an explicit stack (a memoised post-order walk from
     the root); the value stored for a node depends only on the values of its two children, so the walk is
     modelled as recursion from the root on explicit fuel (S nvars: every edge strictly increases the variable).
     Level-gap weights 2^(var child - var - 1), root offset 2^(var root), the early return for the constant
     false, terminals 0 and 1 — all as in the source.  Valid for any well-formed diagram (children need not
     precede parents).  u16 subtractions `child_var - node_var - 1` cannot underflow on a well-formed diagram
     (N subtraction truncates; the theorems assume wf).
   * support_set / size_per_variable: step-faithful folds over the node array skipping the two terminal slots
     (ALL remaining slots, reachable or not, exactly as the Rust iterates); HashSet/HashMap are modelled as
     strictly sorted key lists (the harness sorts the library's answer).

   Floating point — MODELLED, NOT VERIFIED.  IEEE binary64 is not formalised here (no Flocq: the development
   stays axiom-free).  Every intermediate of Bdd::cardinality is a non-negative integer-valued double, +inf or
   NaN, so a double is represented by `fl`: FFin n stands for the double whose value is the integer n, which
   must have at most 53 significant bits and be below 2^1024.  round53 = round-to-nearest, ties-to-even, to 53
   significant bits, overflowing to +inf when the rounded value reaches 2^1024; fadd/fmul = round53 of the exact
   integer result with IEEE propagation of inf/NaN (0 * inf = NaN); pow2 k = 2.0_f64.powi(k) (exact power of
   two, +inf from 2^1024).  That these definitions coincide with the hardware's binary64 on the values that
   occur is validated only by the correspondence check (bit patterns of the library's result are compared with
   this model on every run); it is not a theorem. *)
From Coq Require Import List NArith Bool.
Import ListNotations.
From BddVerif Require Import Model.Bdd.
Open Scope N_scope.

(* ---- exact counts ---- *)
Fixpoint card_fuel (fuel : nat) (b : bdd) (p : N) : N :=
  match fuel with
  | O => 0
  | S f =>
    if p <? 2 then p                                      (* cache[0] = 0, cache[1] = 1 *)
    else let n := get b p in
         card_fuel f b (nlow n) * 2 ^ (var_of b (nlow n) - nvar n - 1)
         + card_fuel f b (nhigh n) * 2 ^ (var_of b (nhigh n) - nvar n - 1)
  end.
Definition count_fuel (b : bdd) : nat := S (N.to_nat (nvars b)).
Definition cardp (b : bdd) (p : N) : N := card_fuel (count_fuel b) b p.
Definition exact_cardinality (b : bdd) : N :=
  if is_false b then 0 else cardp b (size b - 1) * 2 ^ var_of b (size b - 1).

Fixpoint clause_fuel (fuel : nat) (b : bdd) (p : N) : N :=
  match fuel with
  | O => 0
  | S f => if p <? 2 then p
           else clause_fuel f b (nlow (get b p)) + clause_fuel f b (nhigh (get b p))
  end.
Definition exact_clause_cardinality (b : bdd) : N :=
  if is_false b then 0 else clause_fuel (count_fuel b) b (size b - 1).

(* root-to-1 paths (low branch first), each a list of (variable, value): what sat_clauses enumerates *)
Fixpoint paths_fuel (fuel : nat) (b : bdd) (p : N) : list (list (N * bool)) :=
  match fuel with
  | O => []
  | S f => if p =? 0 then [] else if p =? 1 then [[]]
           else let n := get b p in
                map (cons (nvar n, false)) (paths_fuel f b (nlow n)) ++
                map (cons (nvar n, true)) (paths_fuel f b (nhigh n))
  end.
Definition paths (b : bdd) : list (list (N * bool)) := paths_fuel (count_fuel b) b (size b - 1).

(* ---- binary64 restricted to non-negative integer values, +inf, NaN (modelled, not verified) ---- *)
Inductive fl := FNaN | FInf | FFin (n : N).

(* number of binary digits (N.size, restated so that extraction introduces no name clash) *)
Fixpoint pos_bits (p : positive) : N :=
  match p with xH => 1 | xO q => N.succ (pos_bits q) | xI q => N.succ (pos_bits q) end.
Definition bitlen (n : N) : N := match n with N0 => 0 | Npos p => pos_bits p end.

Definition round53 (n : N) : fl :=
  let k := bitlen n in
  if k <=? 53 then FFin n
  else let sh := k - 53 in
       let q := N.shiftr n sh in
       let r := n - N.shiftl q sh in
       let half := 2 ^ (sh - 1) in
       let q' := if r <? half then q
                 else if half <? r then q + 1
                 else if N.even q then q else q + 1 in
       let m := N.shiftl q' sh in
       if 2 ^ 1024 <=? m then FInf else FFin m.

Definition fadd (x y : fl) : fl :=
  match x, y with
  | FNaN, _ | _, FNaN => FNaN
  | FInf, _ | _, FInf => FInf            (* only +inf occurs *)
  | FFin a, FFin b => round53 (a + b)
  end.
Definition fmul (x y : fl) : fl :=
  match x, y with
  | FNaN, _ | _, FNaN => FNaN
  | FInf, FInf => FInf
  | FInf, FFin a | FFin a, FInf => if a =? 0 then FNaN else FInf
  | FFin a, FFin b => round53 (a * b)
  end.
Definition pow2 (k : N) : fl := if k <=? 1023 then FFin (2 ^ k) else FInf.     (* 2.0_f64.powi(k) *)
Definition fis_zero (x : fl) : bool := match x with FFin 0 => true | _ => false end.   (* count == 0.0 *)
(* the closure `scale`: an empty child stays empty *)
Definition fscale (count : fl) (gap : N) : fl := if fis_zero count then FFin 0 else fmul count (pow2 gap).

Fixpoint cardf_fuel (fuel : nat) (b : bdd) (p : N) : fl :=
  match fuel with
  | O => FNaN
  | S f =>
    if p <? 2 then FFin p
    else let n := get b p in
         fadd (fscale (cardf_fuel f b (nlow n)) (var_of b (nlow n) - nvar n - 1))
              (fscale (cardf_fuel f b (nhigh n)) (var_of b (nhigh n) - nvar n - 1))
  end.
Definition cardfp (b : bdd) (p : N) : fl := cardf_fuel (count_fuel b) b p.
Definition cardinality_f64 (b : bdd) : fl :=
  if is_false b then FFin 0
  else let root_count := cardfp b (size b - 1) in
       if fis_zero root_count then FFin 0                     (* if root_count == 0.0 { return 0.0 } *)
       else let r := fmul root_count (pow2 (var_of b (size b - 1))) in
            match r with FNaN => FInf | _ => r end.           (* if r.is_nan() { INFINITY } else { r } *)

(* ---- support set and size per variable ---- *)
Definition decision_vars (b : bdd) : list N := map nvar (skipn 2 b).
Fixpoint insert_var (x : N) (l : list N) : list N :=
  match l with
  | [] => [x]
  | y :: r => if x <? y then x :: l else if x =? y then l else y :: insert_var x r
  end.
Definition support_set (b : bdd) : list N := fold_left (fun acc x => insert_var x acc) (decision_vars b) [].

Fixpoint bump (x : N) (l : list (N * N)) : list (N * N) :=
  match l with
  | [] => [(x, 1)]
  | (y, c) :: r => if x <? y then (x, 1) :: l else if x =? y then (y, c + 1) :: r else (y, c) :: bump x r
  end.
Definition size_per_variable (b : bdd) : list (N * N) := fold_left (fun acc x => bump x acc) (decision_vars b) [].
