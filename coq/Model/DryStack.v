(* Model/DryStack.v — STEP-FAITHFUL small-step model of the explicit-stack loop of `estimated_apply_complexity`
   (src/_impl_bdd/_impl_boolean_ops.rs lines 397-501, `while let Some(on_stack) = stack.pop()`).  Definitions only;
   Proofs/DryStack.v proves dry_run_stack = dry_run (the recursive model `dry` of Model/Apply.v).
   Unlike the apply loops this loop POPS the task at the head of every iteration, never re-visits a task and keeps a
   visited SET (`finished: HashSet<Task>`); both sub-tasks are pushed unconditionally, so the task pushed LAST is
   visited FIRST together with everything below it (depth-first, pre-order).
   Granularity: one `dstep` = one iteration of the `while` body.  A configuration is either running (task stack, head =
   top, and the record `dst` of Model/Apply.v: visited = `finished`, dcount = `finished.len()`, dflag = `is_not_empty`)
   or `DStop` = the early `return None` of line 453 was taken (absorbing).  `drun d` iterates `dstep` at most 2^d times. *)
From Coq Require Import List NArith Bool.
Import ListNotations.
From BddVerif Require Import Model.Bdd Model.Apply.
Open Scope N_scope.

Inductive dconf := DRun (stk : list task) (s : dst) | DStop.

Section DryStack.
  Variables (A B : bdd) (fa fb fo : option N) (op : op2) (limit : N).

  (* one iteration of the `while` body (lines 436-498); on the empty stack (loop exit) and after the early return the
     configuration is left unchanged *)
  Definition dstep (c : dconf) : dconf :=
    match c with
    | DStop => DStop
    | DRun [] _ => c
    | DRun (on_stack :: rest) s =>                              (* 436: stack.pop() *)
      match op (as_bool (fst on_stack)) (as_bool (snd on_stack)) with   (* 437 *)
      | Some b =>
        (* 438-441: is_not_empty = is_not_empty || (lookup == Some(true)); continue *)
        DRun rest (mkD (visited s) (dcount s) (dflag s || b))
      | None =>
        if tmem on_stack (visited s) then DRun rest s           (* 442-444: already visited; continue *)
        else
          (* 450: finished.insert(on_stack) — the set grows by exactly one element *)
          let s1 := mkD (on_stack :: visited s) (dcount s + 1) (dflag s) in
          if limit <? dcount s1 then DStop                      (* 451-454: finished.len() > limit: return None *)
          else
            let l := fst on_stack in                            (* 456 *)
            let r := snd on_stack in
            let decision_var := N.min (var_of A l) (var_of B r) in   (* 459-460 *)
            let '(l_low, l_high) := kids A fa l decision_var in (* 464-470 *)
            let '(r_low, r_high) := kids B fb r decision_var in (* 471-477 *)
            let comp_low := (l_low, r_low) in                   (* 480-483 *)
            let comp_high := (l_high, r_high) in                (* 484-487 *)
            if oeq fo decision_var                              (* 489 *)
            then DRun (comp_low :: comp_high :: rest) s1        (* 491-492: push high, push low: low on top *)
            else DRun (comp_high :: comp_low :: rest) s1        (* 494-495: push low, push high: high on top *)
      end
    end.

  Definition dconf_done (c : dconf) : bool := match c with DRun [] _ => true | DStop => true | _ => false end.

  (* iterate dstep until the loop is left (empty stack or early return), at most 2^d times *)
  Fixpoint drun (d : nat) (c : dconf) : dconf :=
    match d with
    | O => dstep c
    | S d' => let c' := drun d' c in if dconf_done c' then c' else drun d' c'
    end.

  (* lines 421-434 (flag, root task on the stack, empty set), the loop, line 500.
     None = iteration bound reached (excluded by the theorems); Some None = the Rust `None` *)
  Definition dry_run_stack : option (option (bool * N)) :=
    match drun (S (S (S (N.to_nat (nvars A))))) (DRun [root A B] (mkD [] 0 false)) with
    | DStop => Some None                                        (* 453 *)
    | DRun [] s => Some (Some (dflag s, dcount s))              (* 500 *)
    | DRun (_ :: _) _ => None
    end.
End DryStack.

(* lines 409-419: the variable-count check and the three flip-bound checks = Apply.guard2 *)
Definition check_fused_binary_flip_op_stack (limit : N) (A B : bdd) (fa fb fo : option N) (op : op2) : outcome (option (bool * N)) :=
  guard2 A B fa fb fo (of_option (dry_run_stack A B fa fb fo op limit)).
Definition check_binary_op_stack (limit : N) (A B : bdd) (op : op2) : outcome (option (bool * N)) :=
  check_fused_binary_flip_op_stack limit A B None None None op.
