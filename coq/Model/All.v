(* Model/All.v — re-exports every model file (one line per area); Extract.v imports only this. *)
From BddVerif Require Export Model.Bdd Model.Apply Model.Ops Model.Count Model.ApplyFast Model.Select Model.Paths Model.Rename Model.Valuation Model.Expr Model.VarSet Model.Dot Model.Serial Model.ApplyStack Model.Restrict Model.Apply3 Model.Nested Model.CountFast Model.Substitute Model.Dnf.
