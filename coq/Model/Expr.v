(* Model/Expr.v — Boolean expressions: tokenizer, recursive-descent parser, printer, evaluation to
   diagrams and export of a diagram as an expression.  Definitions only.
   Granularity:
   * tokenize_group / parse_at are STEP-FAITHFUL to boolean_expression/_impl_parser.rs: characters are
     Unicode code points (N), the tokenizer recursion follows `tokenize_group` (one recursive call per
     parenthesis group, names are maximal runs of non-whitespace non-reserved characters), the parser
     follows parse_formula -> iff -> imp -> cond -> or -> and -> xor -> terminal with a split at the
     FIRST occurrence of the operator token; every slice `data[a..b]` is `slice` (None = the Rust slice
     panic) and reaches the result as PPanic.  The `Vec` accumulator of the tokenizer is modelled by
     consing on the way back (errors carry no payload, so the first error wins either way).
     Recursion is on explicit fuel (TFuel / PFuel = exhausted; excluded by the theorems).
   * show is Display for BooleanExpression, character by character.
   * safe_eval_expr / eval_expr are the library's own structural recursion over the PROVED operators
     of Model/Ops.v and Model/Apply.v (early return on the first unknown variable, like `?`).
   * to_expr is step-faithful to Bdd::to_boolean_expression (results vector in index order, the five
     node shapes, Vec indexing and the explicit panic! as Panic). *)
From Coq Require Import List NArith Bool.
Import ListNotations.
From BddVerif Require Import Model.Bdd Model.Apply Model.Ops.
Open Scope N_scope.

Definition name := list N.   (* a string as the list of its code points *)

Inductive expr :=
| EConst (c : bool) | EVar (x : name) | ENot (a : expr)
| EAnd (a b : expr) | EOr (a b : expr) | EXor (a b : expr) | EImp (a b : expr) | EIff (a b : expr)
| ECond (a b c : expr).

Inductive token :=
| TNot | TAnd | TOr | TXor | TImp | TIff | TColon | TQuestion
| TId (x : name) | TGroup (ts : list token).

(* char::is_whitespace = the Unicode White_Space property *)
Definition is_ws (c : N) : bool :=
  ((9 <=? c) && (c <=? 13)) || (c =? 32) || (c =? 133) || (c =? 160) || (c =? 5760) ||
  ((8192 <=? c) && (c <=? 8202)) || (c =? 8232) || (c =? 8233) || (c =? 8239) || (c =? 8287) || (c =? 12288).
(* NOT_IN_VAR_NAME = ! & | ^ = < > ( ) ? : *)
Definition reserved (c : N) : bool :=
  (c =? 33) || (c =? 38) || (c =? 124) || (c =? 94) || (c =? 61) || (c =? 60) || (c =? 62) ||
  (c =? 40) || (c =? 41) || (c =? 63) || (c =? 58).
Definition delim (c : N) : bool := is_ws c || reserved c.

Fixpoint take_name (s : list N) : list N * list N :=
  match s with
  | [] => ([], [])
  | c :: r => if delim c then ([], s) else let '(n, r') := take_name r in (c :: n, r')
  end.

Inductive tres := TOk (ts : list token) (rest : list N) | TErr | TFuel.
Definition tcons (t : token) (r : tres) : tres := match r with TOk ts rest => TOk (t :: ts) rest | e => e end.

Fixpoint tokenize_group (fuel : nat) (s : list N) (top : bool) : tres :=
  match fuel with O => TFuel | S f =>
  match s with
  | [] => if top then TOk [] [] else TErr
  | c :: r =>
    if is_ws c then tokenize_group f r top
    else if c =? 33 then tcons TNot (tokenize_group f r top)
    else if c =? 38 then tcons TAnd (tokenize_group f r top)
    else if c =? 124 then tcons TOr (tokenize_group f r top)
    else if c =? 94 then tcons TXor (tokenize_group f r top)
    else if c =? 58 then tcons TColon (tokenize_group f r top)
    else if c =? 63 then tcons TQuestion (tokenize_group f r top)
    else if c =? 61 then
      match r with
      | c2 :: r2 => if c2 =? 62 then tcons TImp (tokenize_group f r2 top) else TErr
      | [] => TErr
      end
    else if c =? 60 then
      match r with
      | c2 :: r2 =>
        if c2 =? 61 then
          match r2 with
          | c3 :: r3 => if c3 =? 62 then tcons TIff (tokenize_group f r3 top) else TErr
          | [] => TErr
          end
        else TErr
      | [] => TErr
      end
    else if c =? 62 then TErr
    else if c =? 41 then (if top then TErr else TOk [] r)
    else if c =? 40 then
      match tokenize_group f r false with
      | TOk inner rest => tcons (TGroup inner) (tokenize_group f rest top)
      | e => e
      end
    else let '(n, r') := take_name r in tcons (TId (c :: n)) (tokenize_group f r' top)
  end end.

Definition tokenize (s : list N) : tres := tokenize_group (S (length s)) s true.

(* ---- parser ---- *)
Inductive pres := POk (e : expr) | PErr | PPanic | PFuel.
Definition pbind (r : pres) (k : expr -> pres) : pres := match r with POk e => k e | x => x end.

Definition is_not t := match t with TNot => true | _ => false end.
Definition is_and t := match t with TAnd => true | _ => false end.
Definition is_or t := match t with TOr => true | _ => false end.
Definition is_xor t := match t with TXor => true | _ => false end.
Definition is_imp t := match t with TImp => true | _ => false end.
Definition is_iff t := match t with TIff => true | _ => false end.
Definition is_colon t := match t with TColon => true | _ => false end.
Definition is_question t := match t with TQuestion => true | _ => false end.

(* data.iter().position(..) *)
Fixpoint index_of (p : token -> bool) (ts : list token) : option nat :=
  match ts with
  | [] => None
  | t :: r => if p t then Some O else match index_of p r with Some i => Some (S i) | None => None end
  end.

(* &data[a..b]; None = the slice panics (a > b or b > len) *)
Definition slice (ts : list token) (a b : nat) : option (list token) :=
  if (Nat.leb a b) && (Nat.leb b (length ts)) then Some (firstn (b - a) (skipn a ts)) else None.
Definition with_slice (ts : list token) (a b : nat) (k : list token -> pres) : pres :=
  match slice ts a b with Some l => k l | None => PPanic end.

Fixpoint name_eqb (a b : name) : bool :=
  match a, b with
  | [], [] => true
  | x :: a', y :: b' => (x =? y) && name_eqb a' b'
  | _, _ => false
  end.
Definition s_true : name := [116; 114; 117; 101].
Definition s_false : name := [102; 97; 108; 115; 101].

Inductive level := LFormula | LIff | LImp | LCond | LOr | LAnd | LXor | LTerm.

Fixpoint parse_at (fuel : nat) (lv : level) (ts : list token) : pres :=
  match fuel with O => PFuel | S f =>
  let binary (p : token -> bool) (mk : expr -> expr -> expr) (next : level) : pres :=
    match index_of p ts with
    | Some i =>
      with_slice ts O i (fun l => pbind (parse_at f next l) (fun a =>
      with_slice ts (S i) (length ts) (fun r => pbind (parse_at f lv r) (fun b => POk (mk a b)))))
    | None => parse_at f next ts
    end in
  match lv with
  | LFormula => match ts with [TGroup _] => parse_at f LTerm ts | _ => parse_at f LIff ts end
  | LIff => binary is_iff EIff LImp
  | LImp => binary is_imp EImp LCond
  | LCond =>
    match index_of is_question ts, index_of is_colon ts with
    | None, None => parse_at f LOr ts
    | Some q, Some c =>
      with_slice ts O q (fun s1 => pbind (parse_at f LOr s1) (fun a =>
      with_slice ts (S q) c (fun s2 => pbind (parse_at f LOr s2) (fun b =>
      with_slice ts (S c) (length ts) (fun s3 => pbind (parse_at f LOr s3) (fun d => POk (ECond a b d)))))))
    | _, _ => PErr
    end
  | LOr => binary is_or EOr LAnd
  | LAnd => binary is_and EAnd LXor
  | LXor => binary is_xor EXor LTerm
  | LTerm =>
    match ts with
    | [] => PErr
    | t :: rest =>
      if is_not t then pbind (parse_at f LTerm rest) (fun a => POk (ENot a))
      else match rest with
           | _ :: _ => PErr
           | [] => match t with
                   | TId x => POk (if name_eqb x s_true then EConst true
                                   else if name_eqb x s_false then EConst false else EVar x)
                   | TGroup inner => parse_at f LFormula inner
                   | _ => PErr     (* the arm that was `unreachable!()` before the D6 fix *)
                   end
           end
    end
  end end.

(* total number of tokens including the nested ones, a group counting as one more *)
Fixpoint tweight_tok (t : token) : nat :=
  match t with
  | TGroup l => S ((fix go (l : list token) : nat := match l with [] => O | x :: r => (tweight_tok x + go r)%nat end) l)
  | _ => 1%nat
  end.
Definition tweight (ts : list token) : nat := fold_right (fun t n => (tweight_tok t + n)%nat) O ts.
Definition parse_fuel (ts : list token) : nat := (9 * tweight ts + 9)%nat.

Definition parse_tokens (ts : list token) : pres := parse_at (parse_fuel ts) LFormula ts.
Definition parse_string (s : list N) : pres :=
  match tokenize s with
  | TOk ts _ => parse_tokens ts
  | TErr => PErr
  | TFuel => PFuel
  end.

(* ---- Display ---- *)
Fixpoint show (e : expr) : list N :=
  match e with
  | EConst c => if c then s_true else s_false
  | EVar x => x
  | ENot a => 33 :: show a
  | EAnd a b => 40 :: show a ++ [32; 38; 32] ++ show b ++ [41]
  | EOr a b => 40 :: show a ++ [32; 124; 32] ++ show b ++ [41]
  | EXor a b => 40 :: show a ++ [32; 94; 32] ++ show b ++ [41]
  | EImp a b => 40 :: show a ++ [32; 61; 62; 32] ++ show b ++ [41]
  | EIff a b => 40 :: show a ++ [32; 60; 61; 62; 32] ++ show b ++ [41]
  | ECond a b c => 40 :: show a ++ [32; 63; 32] ++ show b ++ [32; 58; 32] ++ show c ++ [41]
  end.

(* ---- pointwise meaning ---- *)
Fixpoint esem (e : expr) (rho : name -> bool) : bool :=
  match e with
  | EConst c => c
  | EVar x => rho x
  | ENot a => negb (esem a rho)
  | EAnd a b => esem a rho && esem b rho
  | EOr a b => esem a rho || esem b rho
  | EXor a b => xorb (esem a rho) (esem b rho)
  | EImp a b => implb (esem a rho) (esem b rho)
  | EIff a b => Bool.eqb (esem a rho) (esem b rho)
  | ECond a b c => if esem a rho then esem b rho else esem c rho
  end.

(* ---- BddVariableSet: names in declaration order; ex_var_by_name is a HashMap lookup, the builder
        rejects duplicates and reserved characters, so "first match" is "the match" ---- *)
Fixpoint lookup_from (i : N) (names : list name) (x : name) : option N :=
  match names with
  | [] => None
  | y :: r => if name_eqb x y then Some i else lookup_from (i + 1) r x
  end.
Definition ex_var_by_name (names : list name) (x : name) : option N := lookup_from 0 names x.
Definition nvars_of (names : list name) : N := N.of_nat (length names).

Fixpoint names_ok (seen names : list name) : bool :=
  match names with
  | [] => true
  | x :: r => negb (existsb (name_eqb x) seen) && negb (existsb reserved x) && names_ok (x :: seen) r
  end.
(* BddVariableSet::from(Vec<String>): the builder panics on a duplicate or a reserved character *)
Definition ex_vs_new (names : list name) : outcome (list name) := if names_ok [] names then Ok names else Panic.

Definition lift2 (names : list name) (ev : expr -> outcome (option bdd)) (l r : expr) (op : op2) : outcome (option bdd) :=
  bind (ev l) (fun ol => match ol with None => Ok None | Some L =>
  bind (ev r) (fun or_ => match or_ with None => Ok None | Some R =>
  bind (binary_op L R op) (fun x => Ok (Some x)) end) end).

Fixpoint safe_eval_expr (names : list name) (e : expr) : outcome (option bdd) :=
  match e with
  | EConst c => Ok (Some (if c then mk_true (nvars_of names) else mk_false (nvars_of names)))
  | EVar x => match ex_var_by_name names x with
              | Some i => bind (vs_mk_literal (nvars_of names) i true) (fun b => Ok (Some b))
              | None => Ok None
              end
  | ENot a => bind (safe_eval_expr names a) (fun o => Ok (option_map bdd_not o))
  | EAnd l r => lift2 names (safe_eval_expr names) l r op_and
  | EOr l r => lift2 names (safe_eval_expr names) l r op_or
  | EXor l r => lift2 names (safe_eval_expr names) l r op_xor
  | EImp l r => lift2 names (safe_eval_expr names) l r op_imp
  | EIff l r => lift2 names (safe_eval_expr names) l r op_iff
  | ECond a b c =>
    bind (safe_eval_expr names a) (fun oa => match oa with None => Ok None | Some A =>
    bind (safe_eval_expr names b) (fun ob => match ob with None => Ok None | Some B =>
    bind (safe_eval_expr names c) (fun oc => match oc with None => Ok None | Some C =>
    bind (if_then_else A B C) (fun x => Ok (Some x)) end) end) end)
  end.

(* eval_expression = safe_eval_expression(..).unwrap() *)
Definition eval_expr (names : list name) (e : expr) : outcome bdd :=
  bind (safe_eval_expr names e) (fun o => match o with Some b => Ok b | None => Panic end).

(* ---- Bdd::to_boolean_expression ---- *)
Definition res_at (results : list expr) (p : N) : outcome expr :=
  match nth_error results (N.to_nat p) with Some e => Ok e | None => Panic end.

Definition to_expr_node (names : list name) (results : list expr) (n : node) : outcome expr :=
  match nth_error names (N.to_nat (nvar n)) with
  | None => Panic
  | Some x =>
    let lo := nlow n in
    let hi := nhigh n in
    if (lo <? 2) && (hi <? 2) then
      if (hi =? 1) && (lo =? 0) then Ok (EVar x)
      else if (hi =? 0) && (lo =? 1) then Ok (ENot (EVar x))
      else Panic
    else if lo <? 2 then
      bind (res_at results hi) (fun h => Ok (if lo =? 0 then EAnd (EVar x) h else EOr (ENot (EVar x)) h))
    else if hi <? 2 then
      bind (res_at results lo) (fun l => Ok (if hi =? 0 then EAnd (ENot (EVar x)) l else EOr (EVar x) l))
    else
      bind (res_at results hi) (fun h => bind (res_at results lo) (fun l =>
        Ok (EOr (EAnd (EVar x) h) (EAnd (ENot (EVar x)) l))))
  end.

Fixpoint to_expr_loop (names : list name) (nodes : list node) (results : list expr) : outcome (list expr) :=
  match nodes with
  | [] => Ok results
  | n :: r => bind (to_expr_node names results n) (fun e => to_expr_loop names r (results ++ [e]))
  end.

Definition to_expr (names : list name) (b : bdd) : outcome expr :=
  if is_false b then Ok (EConst false)
  else if is_true b then Ok (EConst true)
  else bind (to_expr_loop names (skipn 2 b) [EConst false; EConst true])
         (fun rs => Ok (last rs (EConst true))).

(* ---- bdd! macro: operator symbol -> method (the table of _macro_bdd.rs) ---- *)
Inductive msym := MNot | MAnd | MOr | MIff | MImp | MXor.
Definition macro_binary (s : msym) : option op2 :=
  match s with
  | MNot => None | MAnd => Some op_and | MOr => Some op_or | MIff => Some op_iff | MImp => Some op_imp | MXor => Some op_xor
  end.
