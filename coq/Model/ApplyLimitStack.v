(* Model/ApplyLimitStack.v — STEP-FAITHFUL small-step model of the explicit-stack loop of
   `apply_with_flip_and_limit` (src/_impl_bdd/_impl_boolean_ops.rs lines 508-673).  Definitions only;
   Proofs/ApplyLimitStack.v proves apply2_limit_stack = apply2_limit (the recursive model of Model/Apply.v).
   The loop is the loop of `apply_with_flip` (Model/ApplyStack.v) plus
     * the `limit == 0` pre-check (lines 533-535),
     * `if result.size() > limit { return None }` directly after `result.push_node(node)` (lines 629-632): the function
       returns from the middle of the loop body, BEFORE `existing.insert` / `finished.insert` / `stack.pop()`,
     * the final `result.size() > limit` check in the `is_not_empty` epilogue (lines 660-672).
   Granularity: one `lstep` = one iteration of the `while` body.  A configuration is either running (task stack, head =
   `stack.last()`, and the store record `st` of Model/Apply.v) or `LStop` = the early `return None` was taken (absorbing).
   `lrun d` iterates `lstep` at most 2^d times, exactly like ApplyStack.srun. *)
From Coq Require Import List NArith Bool.
Import ListNotations.
From BddVerif Require Import Model.Bdd Model.Apply Model.ApplyStack.
Open Scope N_scope.

Inductive lconf := LRun (stk : list task) (s : st) | LStop.

Section ApplyLimitStack.
  Variables (A B : bdd) (fa fb fo : option N) (op : op2) (limit : N).

  (* lines 609-636, "both values are computed"; None = `return None` (line 631):
       610-612  if new_low.is_one() || new_high.is_one() { is_not_empty = true }
       614-616  if new_low == new_high { finished.insert( *on_stack, new_low) }
       619-623  node = if flip_out_if == Some(decision_var) { mk_node(dv, new_high, new_low) } else { mk_node(dv, new_low, new_high) }
       624-626  if let Some(index) = existing.get(&node) { finished.insert( *on_stack, *index) }
       629      result.push_node(node);
       630-632  if result.size() > limit { return None }
       633-634  existing.insert(node, result.root_pointer()); finished.insert( *on_stack, result.root_pointer()) *)
  Definition resolve_l (t : task) (dv new_low new_high : N) (s : st) : option st :=
    let s1 := set_ne s ((new_low =? 1) || (new_high =? 1)) in
    if new_low =? new_high then Some (memo s1 t new_low)
    else
      let n := if oeq fo dv then mkNode dv new_high new_low else mkNode dv new_low new_high in
      match nfind n (existing s1) with
      | Some index => Some (memo s1 t index)
      | None =>
        let '(p, s2) := push s1 n in                       (* 629 (and 633: the binding in `existing`) *)
        if limit <? size (nodes s2) then None              (* 630-632 *)
        else Some (memo s2 t p)                            (* 634 *)
      end.

  (* one iteration of the `while` body (lines 562-657); on the empty stack (loop exit) and after the early return the
     configuration is left unchanged *)
  Definition lstep (c : lconf) : lconf :=
    match c with
    | LStop => LStop
    | LRun [] _ => c
    | LRun ((on_stack :: rest) as stk) s =>
      match tfind on_stack (finished s) with
      | Some _ => LRun rest s                                 (* 563-564: finished.contains_key(on_stack): pop *)
      | None =>
        let l := fst on_stack in                              (* 567 *)
        let r := snd on_stack in
        let decision_var := N.min (var_of A l) (var_of B r) in (* 570-571 *)
        let '(l_low, l_high) := kids A fa l decision_var in   (* 575-581 *)
        let '(r_low, r_high) := kids B fb r decision_var in   (* 582-588 *)
        let comp_low := (l_low, r_low) in                     (* 591-594 *)
        let comp_high := (l_high, r_high) in                  (* 595-598 *)
        let new_low := lookup op comp_low s in                (* 601-603 *)
        let new_high := lookup op comp_high s in              (* 604-606 *)
        match new_low, new_high with
        | Some nl, Some nh =>
          match resolve_l on_stack decision_var nl nh s with
          | None => LStop                                     (* 631: return None *)
          | Some s' => LRun rest s'                           (* 637: stack.pop() *)
          end
        | _, _ =>
          if oeq fo decision_var                              (* 640 *)
          then LRun (push_unknown new_low comp_low (push_unknown new_high comp_high stk)) s    (* 642-647 *)
          else LRun (push_unknown new_high comp_high (push_unknown new_low comp_low stk)) s    (* 649-654 *)
        end
      end
    end.

  Definition lconf_done (c : lconf) : bool := match c with LRun [] _ => true | LStop => true | _ => false end.

  (* iterate lstep until the loop is left (empty stack or early return), at most 2^d times *)
  Fixpoint lrun (d : nat) (c : lconf) : lconf :=
    match d with
    | O => lstep c
    | S d' => let c' := lrun d' c in if lconf_done c' then c' else lrun d' c'
    end.

  (* None = iteration bound reached (excluded by the theorems); Some None = the Rust `None` *)
  Definition apply2_limit_stack : option (option bdd) :=
    if limit =? 0 then Some None else                         (* 533-535 *)
    match lrun (S (S (S (S (N.to_nat (nvars A)))))) (LRun [root A B] (s0 A)) with
    | LStop => Some None                                      (* 631 *)
    | LRun [] s =>
      Some (if nonempty s                                     (* 660 *)
            then (if limit <? size (nodes s) then None else Some (nodes s))   (* 661-668 *)
            else Some [zero A])                               (* 671 *)
    | LRun (_ :: _) _ => None
    end.
End ApplyLimitStack.

(* lines 520-530: the variable-count check and the three flip-bound checks = Apply.guard2 *)
Definition fused_binary_flip_op_with_limit_stack (limit : N) (A B : bdd) (fa fb fo : option N) (op : op2) : outcome (option bdd) :=
  guard2 A B fa fb fo (of_option (apply2_limit_stack A B fa fb fo op limit)).
Definition binary_op_with_limit_stack (limit : N) (A B : bdd) (op : op2) : outcome (option bdd) :=
  fused_binary_flip_op_with_limit_stack limit A B None None None op.
