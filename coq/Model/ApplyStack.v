(* Model/ApplyStack.v — STEP-FAITHFUL small-step model of the explicit-stack loop of apply_with_flip
   (src/_impl_bdd/_impl_boolean_ops.rs, `while let Some(on_stack) = stack.last()`).  Definitions only;
   Proofs/ApplyStack.v proves apply2_stack = apply2 (the recursive engine of Model/Apply.v).
   Granularity: one `sstep` = one iteration of the `while` body.  The machine state is the task stack
   (head of the list = top = `stack.last()`) and the same store record `st` as Model/Apply.v
   (nodes = `result`, existing = `existing`, finished = `finished`, nonempty = `is_not_empty`).
   The hash maps are association lists where the most recent binding wins (= `insert` overwrites).
   The Rust loop has no iteration bound; `srun d` iterates `sstep` until the stack is empty, at most
   2^d times (a balanced binary tree of depth d, so the bound is never materialised as a unary number);
   the theorems show that the bound used by apply2_stack is never reached. *)
From Coq Require Import List NArith Bool.
Import ListNotations.
From BddVerif Require Import Model.Bdd Model.Apply.
Open Scope N_scope.

(* `if new_x.is_none() { stack.push(comp_x) }` *)
Definition push_unknown (known : option N) (t : task) (stk : list task) : list task :=
  match known with None => t :: stk | Some _ => stk end.

Section ApplyStack.
  Variables (A B : bdd) (fa fb fo : option N) (op : op2).

  (* terminal_lookup(l.as_bool(), r.as_bool()).map(BddPointer::from_bool).or_else(|| finished.get(&task).cloned()) *)
  Definition lookup (t : task) (s : st) : option N :=
    match op (as_bool (fst t)) (as_bool (snd t)) with
    | Some c => Some (of_bool c)
    | None => tfind t (finished s)
    end.

  (* "both values are computed": flag, collapse or hash-cons / push, memoise *)
  Definition resolve (t : task) (dv new_low new_high : N) (s : st) : st :=
    let s1 := set_ne s ((new_low =? 1) || (new_high =? 1)) in
    if new_low =? new_high then memo s1 t new_low
    else
      let n := if oeq fo dv then mkNode dv new_high new_low else mkNode dv new_low new_high in
      match nfind n (existing s1) with
      | Some index => memo s1 t index
      | None => let '(p, s2) := push s1 n in memo s2 t p
      end.

  (* one iteration of the `while` body; on the empty stack (loop exit) the state is left unchanged *)
  Definition sstep (c : list task * st) : list task * st :=
    let '(stk, s) := c in
    match stk with
    | [] => c
    | on_stack :: rest =>
      match tfind on_stack (finished s) with
      | Some _ => (rest, s)                                   (* finished.contains_key(on_stack): pop *)
      | None =>
        let l := fst on_stack in
        let r := snd on_stack in
        let decision_var := N.min (var_of A l) (var_of B r) in
        let '(l_low, l_high) := kids A fa l decision_var in
        let '(r_low, r_high) := kids B fb r decision_var in
        let comp_low := (l_low, r_low) in
        let comp_high := (l_high, r_high) in
        let new_low := lookup comp_low s in
        let new_high := lookup comp_high s in
        match new_low, new_high with
        | Some nl, Some nh => (rest, resolve on_stack decision_var nl nh s)      (* ...; stack.pop() *)
        | _, _ =>
          if oeq fo decision_var
          then (push_unknown new_low comp_low (push_unknown new_high comp_high stk), s)
          else (push_unknown new_high comp_high (push_unknown new_low comp_low stk), s)
        end
      end
    end.

  Definition stack_empty (c : list task * st) : bool := match fst c with [] => true | _ => false end.

  (* iterate sstep until the stack is empty, at most 2^d times *)
  Fixpoint srun (d : nat) (c : list task * st) : list task * st :=
    match d with
    | O => sstep c
    | S d' => let c' := srun d' c in if stack_empty c' then c' else srun d' c'
    end.

  (* None = iteration bound reached (excluded by the theorems) *)
  Definition apply2_stack : option bdd :=
    let '(stk, s) := srun (S (S (S (S (N.to_nat (nvars A)))))) ([root A B], s0 A) in
    match stk with
    | [] => Some (if nonempty s then nodes s else [zero A])
    | _ :: _ => None
    end.
End ApplyStack.

Definition fused_binary_flip_op_stack (A B : bdd) (fa fb fo : option N) (op : op2) : outcome bdd :=
  guard2 A B fa fb fo (of_option (apply2_stack A B fa fb fo op)).
Definition binary_op_stack (A B : bdd) (op : op2) : outcome bdd := fused_binary_flip_op_stack A B None None None op.
