(* Model/CountFast.v — memoised executable twins of the counting functions of Model/Count.v
   (src/_impl_bdd/_impl_util.rs: exact_cardinality, exact_clause_cardinality, cardinality), plus a
   linear-time twin of the well-formedness checker wfb.  Definitions only; Proofs/CountFast.v proves
     wf b -> exact_cardinality_fast b = exact_cardinality b        (same for the clause count and cardinality_f64),
     wfb_fast b = wfb b                                             (no hypotheses),
     exact_cardinality_auto b = exact_cardinality b                 (no hypotheses; same for the other two),
   so every theorem about the reference functions transfers.

   Granularity: closer to the Rust than Model/Count.v.  The Rust keeps a per-node `cache` (a Vec<Option<_>> with
   cache[0] = 0 and cache[1] = 1 pre-seeded) and an explicit stack; a node is computed once, when both children are
   cached (the HIGH child is on top of the stack, so it is completed first), and the root's entry is the answer.
   Here: the operand is loaded once into a PositiveMap (ApplyFast.load / aget, key N.succ_pos p, a missing key reads
   as dnode like `nth _ _ dnode`); `memo_walk` is a depth-first walk from the root that threads the cache (a
   PositiveMap pre-seeded at 0 and 1) through the two recursive calls, high child first, looks every node up
   BEFORE descending and stores every computed node, so each node is computed at most once: the number of
   `step`s is at most the number of reachable decision nodes, where Model/Count.v re-walks shared sub-diagrams
   (3^24 paths for a conjunction of 24 three-literal clauses).  The explicit stack is modelled by the recursion
   (depth bounded by the fuel S nvars, as in Model/Count.v: every edge of a well-formed diagram strictly
   increases the variable).  Same arithmetic as Model/Count.v in all three instances: level-gap weights
   2^(var child - var - 1), root offset 2^(var root), early return for the constant false, the `scale` closure
   and the is_nan test of `cardinality`.

   On a diagram that is NOT well-formed the un-memoised recursion's value at a node may depend on the remaining
   fuel, which a cache cannot reproduce; the `_auto` functions therefore test wfb_fast first and fall back on the
   reference functions of Model/Count.v (the Rust itself loops or panics on such arrays). *)
From Coq Require Import List NArith Bool FMapPositive.
Import ListNotations.
From BddVerif Require Import Model.Bdd Model.Apply Model.ApplyFast Model.Count.
Open Scope N_scope.

(* ---- the memoised walk, generic in the cached value ---- *)
Section Memo.
  Variable V : Type.
  Variable M : arr.                                  (* the operand, loaded *)
  Variable exhausted : V.                            (* what the reference recursion answers without fuel *)
  Variable step : node -> N -> N -> V -> V -> V.     (* node, var of low, var of high, cache[low], cache[high] *)

  Fixpoint memo_walk (fuel : nat) (p : N) (c : PositiveMap.t V) : V * PositiveMap.t V :=
    match fuel with
    | O => (exhausted, c)
    | S f =>
      match PositiveMap.find (pkey p) c with
      | Some v => (v, c)                                             (* cache[node].is_some() *)
      | None =>
        let n := aget M p in
        let '(vh, c1) := memo_walk f (nhigh n) c in                  (* high is pushed last: completed first *)
        let '(vl, c2) := memo_walk f (nlow n) c1 in
        let v := step n (nvar (aget M (nlow n))) (nvar (aget M (nhigh n))) vl vh in
        (v, PositiveMap.add (pkey p) v c2)                           (* cache[node] = Some(..) *)
      end
    end.
End Memo.

(* cache[0] = Some(zero); cache[1] = Some(one) *)
Definition seed {V : Type} (zero one : V) : PositiveMap.t V :=
  PositiveMap.add (pkey 1) one (PositiveMap.add (pkey 0) zero (PositiveMap.empty V)).

(* value cached for the root (the last node) after the walk *)
Definition root_value {V : Type} (sz : N) (M : arr) (exhausted zero one : V) (step : node -> N -> N -> V -> V -> V) : V :=
  fst (memo_walk V M exhausted step (S (N.to_nat (nvar (aget M 0)))) (sz - 1) (seed zero one)).

(* ---- the three instances ---- *)
Definition card_step (n : node) (vl vh : N) (cl ch : N) : N :=
  cl * 2 ^ (vl - nvar n - 1) + ch * 2 ^ (vh - nvar n - 1).
Definition exact_cardinality_fast (b : bdd) : N :=
  let '(sz, M) := load b 0 (PositiveMap.empty node) in
  if sz =? 1 then 0
  else root_value sz M 0 0 1 card_step * 2 ^ nvar (aget M (sz - 1)).

Definition clause_step (n : node) (vl vh : N) (cl ch : N) : N := cl + ch.
Definition exact_clause_cardinality_fast (b : bdd) : N :=
  let '(sz, M) := load b 0 (PositiveMap.empty node) in
  if sz =? 1 then 0 else root_value sz M 0 0 1 clause_step.

Definition cardf_step (n : node) (vl vh : N) (cl ch : fl) : fl :=
  fadd (fscale cl (vl - nvar n - 1)) (fscale ch (vh - nvar n - 1)).
Definition cardinality_f64_fast (b : bdd) : fl :=
  let '(sz, M) := load b 0 (PositiveMap.empty node) in
  if sz =? 1 then FFin 0
  else let root_count := root_value sz M FNaN (FFin 0) (FFin 1) cardf_step in
       if fis_zero root_count then FFin 0
       else let r := fmul root_count (pow2 (nvar (aget M (sz - 1)))) in
            match r with FNaN => FInf | _ => r end.

(* ---- well-formedness in (quasi-)linear time: wfb with every `get` served by the loaded map ---- *)
Definition wf_nodeF (M : arr) (sz nv p : N) : bool :=
  let n := aget M p in
  (nvar n <? nv) && (nlow n <? sz) && (nhigh n <? sz) &&
  (nvar n <? nvar (aget M (nlow n))) && (nvar n <? nvar (aget M (nhigh n))).

(* forallb (wf_nodeF M sz nv) over the indices i, i+1, ... of the slots of l (binary counter instead of idxs) *)
Fixpoint wf_fromF (M : arr) (sz nv : N) (l : list node) (i : N) : bool :=
  match l with
  | [] => true
  | _ :: r => wf_nodeF M sz nv i && wf_fromF M sz nv r (N.succ i)
  end.

Definition wfb_fast (b : bdd) : bool :=
  let '(sz, M) := load b 0 (PositiveMap.empty node) in
  let nv := nvar (aget M 0) in
  (1 <=? sz) &&
  node_eqb (aget M 0) (mkNode nv 0 0) &&
  ((sz <? 2) || node_eqb (aget M 1) (mkNode nv 1 1)) &&
  wf_fromF M sz nv (skipn 2 b) 2.

(* ---- what the correspondence driver calls: memoised on well-formed operands, reference otherwise ---- *)
Definition exact_cardinality_auto (b : bdd) : N :=
  if wfb_fast b then exact_cardinality_fast b else exact_cardinality b.
Definition exact_clause_cardinality_auto (b : bdd) : N :=
  if wfb_fast b then exact_clause_cardinality_fast b else exact_clause_cardinality b.
Definition cardinality_f64_auto (b : bdd) : fl :=
  if wfb_fast b then cardinality_f64_fast b else cardinality_f64 b.
