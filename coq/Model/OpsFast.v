(* Model/OpsFast.v — executable shortcuts proved equal to the reference models (used by the driver where the
   reference is too slow).  Definitions only. *)
From Coq Require Import List NArith Bool.
Import ListNotations.
From BddVerif Require Import Model.Bdd Model.Apply Model.Ops.
Open Scope N_scope.

(* mk_sat_exactly_k / mk_sat_up_to_k iterate k rounds; once k exceeds the number of distinct listed variables the
   answer is the constant (false for exactly-k, true for up-to-k): the driver uses this for thresholds like 65,536 *)
Definition mk_sat_k_fast (upto : bool) (nv k : N) (vars : list N) : outcome bdd :=
  if forallb (fun x => x <? nv) vars && (N.of_nat (length (nodup N.eq_dec vars)) <? k)
  then Ok (if upto then mk_true nv else mk_false nv)
  else mk_sat_k upto nv k vars.
