(* Model/Select.v — witnesses and extremal selectors: all of _impl_bdd/_impl_valuation_utils.rs and
   sat_witness / is_clause / is_valuation of _impl_bdd/_impl_util.rs.   Definitions only.

   Granularity: STEP-FAITHFUL.  Every Rust loop is transcribed iteration by iteration:
   * the root walks (`while !node.is_terminal()` / `while !node.is_one()`) are recursion on explicit fuel
     S(nvars): on a valid (ordered) diagram a walk takes at most nvars steps; exhaustion is `OutOfFuel`
     (the Rust loop would not terminate on a cyclic array) and is excluded by the theorems;
   * the bottom-up folds (`for i in self.pointers().skip(2)`) are structural recursion over `skipn 2 b`, the
     cache being a list grown by one entry per node, read with a bounds check (`cache[link]` panics when a child
     does not precede its parent): `cget`;
   * `Vec<bool>` writes `v[i] = c` are `vset` (Panic when i >= len); BddPartialValuation::set_value grows the
     vector on demand (`pv_set` of Model/Ops.v, never panics);
   * `rng.gen_bool(0.5)` consumes one script bit (`next_bit`), in the order of the Rust calls;
   * the `panic!("Non canonical BDD.")` and `unreachable!()` arms are explicit `Panic` outcomes.
   Numbers are unbounded N (u16/usize arithmetic cannot overflow on a valid diagram: every quantity is bounded by
   the variable count); `a - b` on N is truncated, which coincides with the Rust value whenever the diagram is
   ordered (child variable > parent variable).  Reading a link that is out of range yields the default node
   (the Rust would panic on the index); on valid diagrams links are in range.
   random_valuation writes every position 0..nvars-1 exactly once in increasing order, so the model builds the
   vector front to back instead of overwriting `all_false`. *)
From Coq Require Import List NArith Bool.
Import ListNotations.
From BddVerif Require Import Model.Bdd Model.Apply Model.Ops.
Open Scope N_scope.

(* ---- vectors ---- *)
Fixpoint list_set {T} (l : list T) (k : nat) (c : T) : list T :=
  match l, k with
  | [], _ => []
  | _ :: r, O => c :: r
  | a :: r, S k' => a :: list_set r k' c
  end.
Definition vset (l : list bool) (x : N) (c : bool) : outcome (list bool) :=
  if x <? N.of_nat (length l) then Ok (list_set l (N.to_nat x) c) else Panic.
Definition vget (l : list bool) (x : N) : outcome bool :=
  match nth_error l (N.to_nat x) with Some c => Ok c | None => Panic end.
Definition all_same (nv : N) (c : bool) : list bool := repeat c (N.to_nat nv).
Definition cset (pv : pval) (x : N) (c : bool) : outcome pval := Ok (pv_set pv (N.to_nat x) (Some c)).

Definition root (b : bdd) : N := size b - 1.
Definition low_zero (b : bdd) (p : N) : bool := nlow (get b p) =? 0.
Definition high_zero (b : bdd) (p : N) : bool := nhigh (get b p) =? 0.
Definition child (b : bdd) (p : N) (c : bool) : N := if c then nhigh (get b p) else nlow (get b p).
Definition wfuel (b : bdd) : nat := S (N.to_nat (nvars b)).

(* ---- the root walk: `while !node.is_terminal() { c = choose(node); record(var_of(node), c); node = child }` ---- *)
Fixpoint walk {A : Type} (fuel : nat) (b : bdd) (choose : N -> outcome bool) (record : A -> N -> bool -> outcome A)
         (p : N) (acc : A) : outcome A :=
  match fuel with
  | O => OutOfFuel
  | S f =>
    if p <? 2 then Ok acc
    else if size b <=? p then Panic
    else bind (choose p) (fun c =>
         bind (record acc (var_of b p) c) (fun acc' =>
         walk f b choose record (child b p c) acc'))
  end.

Definition some_of {T} (o : outcome T) : outcome (option T) := bind o (fun x => Ok (Some x)).

(* first_valuation: all_false; low link zero => set(var), go high; else go low *)
Definition first_valuation (b : bdd) : outcome (option (list bool)) :=
  if is_false b then Ok None else
  some_of (walk (wfuel b) b (fun p => Ok (low_zero b p))
                (fun acc x c => if c then vset acc x true else Ok acc) (root b) (all_same (nvars b) false)).

(* last_valuation: all_true; high link zero => clear(var), go low; else go high *)
Definition last_valuation (b : bdd) : outcome (option (list bool)) :=
  if is_false b then Ok None else
  some_of (walk (wfuel b) b (fun p => Ok (negb (high_zero b p)))
                (fun acc x c => if c then Ok acc else vset acc x false) (root b) (all_same (nvars b) true)).

Definition first_clause (b : bdd) : outcome (option pval) :=
  if is_false b then Ok None else
  some_of (walk (wfuel b) b (fun p => Ok (low_zero b p)) cset (root b) []).

Definition last_clause (b : bdd) : outcome (option pval) :=
  if is_false b then Ok None else
  some_of (walk (wfuel b) b (fun p => Ok (negb (high_zero b p))) cset (root b) []).

(* ---- bottom-up folds ---- *)
Definition cache := list (N * bool).
Definition cget (c : cache) (p : N) : outcome (N * bool) :=
  match nth_error c (N.to_nat p) with Some x => Ok x | None => Panic end.
Fixpoint dp_build (step : cache -> node -> outcome (N * bool)) (nodes : list node) (c : cache) : outcome cache :=
  match nodes with
  | [] => Ok c
  | n :: r => bind (step c n) (fun x => dp_build step r (c ++ [x]))
  end.
Definition dp_cache (b : bdd) (step : cache -> node -> outcome (N * bool)) : outcome cache :=
  dp_build step (skipn 2 b) [(0, true); (0, true)].
Definition choose_cached (c : cache) (p : N) : outcome bool := bind (cget c p) (fun x => Ok (snd x)).

(* most_positive_valuation *)
Definition mp_step (b : bdd) (c : cache) (n : node) : outcome (N * bool) :=
  bind (cget c (nlow n)) (fun cl =>
  bind (cget c (nhigh n)) (fun ch =>
    let ld := fst cl + ((var_of b (nlow n) - nvar n) - 1) in
    let hd := fst ch + ((var_of b (nhigh n) - nvar n) - 1) in
    if (nlow n =? 0) && (nhigh n =? 0) then Panic
    else if nlow n =? 0 then Ok (hd + 1, true)
    else if nhigh n =? 0 then Ok (ld, false)
    else if ld <? hd + 1 then Ok (hd + 1, true)      (* high_link_diff + 1 > low_link_diff *)
    else Ok (ld, false))).
Definition most_positive_valuation (b : bdd) : outcome (option (list bool)) :=
  if is_false b then Ok None else
  bind (dp_cache b (mp_step b)) (fun c =>
  some_of (walk (wfuel b) b (choose_cached c)
                (fun acc x ch => if ch then Ok acc else vset acc x false) (root b) (all_same (nvars b) true))).

(* most_negative_valuation *)
Definition mn_step (b : bdd) (c : cache) (n : node) : outcome (N * bool) :=
  bind (cget c (nlow n)) (fun cl =>
  bind (cget c (nhigh n)) (fun ch =>
    let ld := fst cl + ((var_of b (nlow n) - nvar n) - 1) in
    let hd := fst ch + ((var_of b (nhigh n) - nvar n) - 1) in
    if (nlow n =? 0) && (nhigh n =? 0) then Panic
    else if nlow n =? 0 then Ok (hd, true)
    else if nhigh n =? 0 then Ok (ld + 1, false)
    else if ld + 1 <? hd then Ok (hd, true)          (* high_link_diff > low_link_diff + 1 *)
    else Ok (ld + 1, false))).
Definition most_negative_valuation (b : bdd) : outcome (option (list bool)) :=
  if is_false b then Ok None else
  bind (dp_cache b (mn_step b)) (fun c =>
  some_of (walk (wfuel b) b (choose_cached c)
                (fun acc x ch => if ch then vset acc x true else Ok acc) (root b) (all_same (nvars b) false))).

(* derived order of (usize, bool): lexicographic, false < true *)
Definition pair_lt (x y : N * bool) : bool :=
  (fst x <? fst y) || ((fst x =? fst y) && negb (snd x) && snd y).

(* most_fixed_clause: cache[high] > cache[low] *)
Definition mfix_step (c : cache) (n : node) : outcome (N * bool) :=
  bind (cget c (nlow n)) (fun cl =>
  bind (cget c (nhigh n)) (fun ch =>
    if (nlow n =? 0) && (nhigh n =? 0) then Panic
    else if nlow n =? 0 then Ok (fst ch + 1, true)
    else if nhigh n =? 0 then Ok (fst cl + 1, false)
    else if pair_lt cl ch then Ok (fst ch + 1, true)
    else Ok (fst cl + 1, false))).
Definition most_fixed_clause (b : bdd) : outcome (option pval) :=
  if is_false b then Ok None else
  bind (dp_cache b mfix_step) (fun c => some_of (walk (wfuel b) b (choose_cached c) cset (root b) [])).

(* most_free_clause: cache[high] < cache[low] *)
Definition mfree_step (c : cache) (n : node) : outcome (N * bool) :=
  bind (cget c (nlow n)) (fun cl =>
  bind (cget c (nhigh n)) (fun ch =>
    if (nlow n =? 0) && (nhigh n =? 0) then Panic
    else if nlow n =? 0 then Ok (fst ch + 1, true)
    else if nhigh n =? 0 then Ok (fst cl + 1, false)
    else if pair_lt ch cl then Ok (fst ch + 1, true)
    else Ok (fst cl + 1, false))).
Definition most_free_clause (b : bdd) : outcome (option pval) :=
  if is_false b then Ok None else
  bind (dp_cache b mfree_step) (fun c => some_of (walk (wfuel b) b (choose_cached c) cset (root b) [])).

(* ---- random selectors ---- *)
(* child = if low zero {true} else if high zero {false} else {rng.gen_bool(0.5)} *)
Definition random_child (b : bdd) (p : N) (script : list bool) : bool * list bool :=
  if low_zero b p then (true, script) else if high_zero b p then (false, script) else next_bit script.

(* for i_var in 0..num_vars : k iterations left, current variable i *)
Fixpoint random_valuation_loop (k : nat) (b : bdd) (i : N) (p : N) (script : list bool) : outcome (list bool) :=
  match k with
  | O => Ok []
  | S k' =>
    if size b <=? p then Panic
    else if negb (var_of b p =? i) then
      let '(c, s') := next_bit script in
      bind (random_valuation_loop k' b (i + 1) p s') (fun r => Ok (c :: r))
    else
      let '(c, s') := random_child b p script in
      bind (random_valuation_loop k' b (i + 1) (child b p c) s') (fun r => Ok (c :: r))
  end.
Definition random_valuation (b : bdd) (script : list bool) : outcome (option (list bool)) :=
  if is_false b then Ok None else some_of (random_valuation_loop (N.to_nat (nvars b)) b 0 (root b) script).

(* while !node.is_one() *)
Fixpoint random_clause_walk (fuel : nat) (b : bdd) (p : N) (script : list bool) (acc : pval) : outcome pval :=
  match fuel with
  | O => OutOfFuel
  | S f =>
    if p =? 1 then Ok acc
    else if size b <=? p then Panic
    else let '(c, s') := random_child b p script in
         random_clause_walk f b (child b p c) s' (pv_set acc (N.to_nat (var_of b p)) (Some c))
  end.
Definition random_clause (b : bdd) (script : list bool) : outcome (option pval) :=
  if is_false b then Ok None else some_of (random_clause_walk (wfuel b) b (root b) script []).

(* ---- sat_witness: forward scan of the array looking for a parent of `find` ---- *)
Fixpoint sat_witness_scan (nodes : list node) (i : N) (find : N) (acc : list bool) : outcome (list bool) :=
  match nodes with
  | [] => Ok acc
  | n :: r =>
    bind (if nlow n =? find then bind (vset acc (nvar n) false) (fun a => Ok (a, i)) else Ok (acc, find)) (fun s1 =>
    bind (if nhigh n =? snd s1 then bind (vset (fst s1) (nvar n) true) (fun a => Ok (a, i)) else Ok s1) (fun s2 =>
    sat_witness_scan r (i + 1) (snd s2) (fst s2)))
  end.
Definition sat_witness (b : bdd) : outcome (option (list bool)) :=
  if is_false b then Ok None else some_of (sat_witness_scan (skipn 2 b) 2 1 (all_same (nvars b) false)).

(* ---- is_clause / is_valuation ---- *)
Fixpoint is_clause_walk (fuel : nat) (b : bdd) (p : N) : outcome bool :=
  match fuel with
  | O => OutOfFuel
  | S f =>
    if p =? 1 then Ok true
    else if p =? 0 then Ok false
    else if size b <=? p then Panic
    else if low_zero b p then is_clause_walk f b (nhigh (get b p))
    else if high_zero b p then is_clause_walk f b (nlow (get b p))
    else Ok false
  end.
Definition is_clause (b : bdd) : outcome bool := is_clause_walk (wfuel b) b (root b).

Fixpoint is_valuation_walk (fuel : nat) (b : bdd) (p : N) (expected : N) : outcome bool :=
  match fuel with
  | O => OutOfFuel
  | S f =>
    if size b <=? p then Panic
    else if p =? 1 then Ok (var_of b p =? expected)
    else if p =? 0 then Ok false
    else if negb (var_of b p =? expected) then Ok false
    else if low_zero b p then is_valuation_walk f b (nhigh (get b p)) (expected + 1)
    else if high_zero b p then is_valuation_walk f b (nlow (get b p)) (expected + 1)
    else Ok false
  end.
Definition is_valuation (b : bdd) : outcome bool := is_valuation_walk (wfuel b) b (root b) 0.

(* ---- necessary_clause ---- *)
(* for i in &mut seen_any[0..top] { *i = true }   (the slice panics when top > len) *)
Definition fill_prefix (l : list bool) (top : N) : outcome (list bool) :=
  if top <=? N.of_nat (length l) then Ok (repeat true (N.to_nat top) ++ skipn (N.to_nat top) l) else Panic.

(* pass 1: both links non-zero => seen_any[var] = true *)
Fixpoint nc_pass1 (nodes : list node) (any : list bool) : outcome (list bool) :=
  match nodes with
  | [] => Ok any
  | n :: r => if negb ((nlow n =? 0) || (nhigh n =? 0)) then bind (vset any (nvar n) true) (nc_pass1 r)
              else nc_pass1 r any
  end.

(* for v in lo..lo+k { seen_any[v] = true } *)
Fixpoint set_range (any : list bool) (lo : N) (k : nat) : outcome (list bool) :=
  match k with
  | O => Ok any
  | S k' => bind (vset any lo true) (fun a => set_range a (lo + 1) k')
  end.

(* pass 2, inner loop for one variable `var` (with its `break`) *)
Fixpoint nc_inner (b : bdd) (nodes : list node) (var : N) (any : list bool) : outcome (list bool) :=
  match nodes with
  | [] => Ok any
  | n :: r =>
    let vi := nvar n in
    let hv := var_of b (nhigh n) in
    let lv := var_of b (nlow n) in
    bind (if nhigh n =? 0 then Ok (any, (vi + 1, lv))
          else if nlow n =? 0 then Ok (any, (vi + 1, hv))
          else bind (vset any vi true) (fun a => Ok (a, (vi, N.max hv lv)))) (fun s =>
    let any1 := fst s in let lo := fst (snd s) in let hi := snd (snd s) in
    if (lo <=? var) && (var <? hi) then set_range any1 lo (N.to_nat (hi - lo))
    else nc_inner b r var any1)
  end.

(* pass 2, outer loop: for var in 0..num_vars *)
Fixpoint nc_pass2 (b : bdd) (k : nat) (var : N) (any : list bool) : outcome (list bool) :=
  match k with
  | O => Ok any
  | S k' =>
    bind (vget any var) (fun seen =>
    if seen then nc_pass2 b k' (var + 1) any
    else bind (nc_inner b (skipn 2 b) var any) (nc_pass2 b k' (var + 1)))
  end.

(* pass 3: nodes of variables not seen as free designate ones/zeroes *)
Fixpoint nc_pass3 (nodes : list node) (any zero one : list bool) : outcome (list bool * list bool) :=
  match nodes with
  | [] => Ok (zero, one)
  | n :: r =>
    bind (vget any (nvar n)) (fun seen =>
    if seen then nc_pass3 r any zero one
    else if nhigh n =? 0 then bind (vset zero (nvar n) true) (fun z => nc_pass3 r any z one)
    else if nlow n =? 0 then bind (vset one (nvar n) true) (fun o => nc_pass3 r any zero o)
    else nc_pass3 r any zero one)
  end.

(* final match (seen_zero[i], seen_one[i], seen_any[i]) *)
Fixpoint nc_result (k : nat) (i : N) (zero one any : list bool) (acc : pval) : outcome pval :=
  match k with
  | O => Ok acc
  | S k' =>
    bind (vget zero i) (fun z => bind (vget one i) (fun o => bind (vget any i) (fun a =>
    if a || (z && o) then nc_result k' (i + 1) zero one any acc
    else if z then nc_result k' (i + 1) zero one any (pv_set acc (N.to_nat i) (Some false))
    else if o then nc_result k' (i + 1) zero one any (pv_set acc (N.to_nat i) (Some true))
    else Panic (* unreachable!() *))))
  end.

Definition necessary_clause (b : bdd) : outcome (option pval) :=
  if is_false b then Ok None
  else if is_true b then Ok (Some [])
  else
    let nv := nvars b in
    let f := all_same nv false in
    bind (fill_prefix f (var_of b (root b))) (fun any0 =>
    bind (nc_pass1 (skipn 2 b) any0) (fun any1 =>
    bind (nc_pass2 b (N.to_nat nv) 0 any1) (fun any2 =>
    bind (nc_pass3 (skipn 2 b) any2 f f) (fun zo =>
    some_of (nc_result (N.to_nat nv) 0 (fst zo) (snd zo) any2 []))))).
