(* Model/Serial.v — serialisation: binary / text writers and readers over scripted I/O, from_nodes, validate.
   Definitions only (no proofs).

   Granularity: STEP-FAITHFUL.
   * Every index (`buf[i]`, `node_items[i]`, `data[p]`, `visited[p]`), every parse and every narrowing of the Rust
     (src/_impl_bdd/_impl_serialisation.rs, src/_impl_bdd/_impl_util.rs: from_nodes / validate) is an explicit
     outcome: `Panic` (Model/Apply.v's `outcome`) for an out-of-range index, `RErr` (type `result`) for `Err(..)`.
     "never panics" is therefore a theorem about the model, not an artefact of Gallina totality.
   * Bytes and Unicode scalar values are numbers in `N`; u16/u32 are unbounded `N` with explicit range checks where
     the Rust has them (`parse::<u16>`, `parse::<u32>`) and an explicit wrap where the Rust narrows (`as u32`).
   * I/O: the reader / writer handed to the library is a *scripted stream* (harness/src/area_serial.rs) driven by a
     schedule of events:
       EChunk k  — the next k bytes of the stream become available / can be accepted; a call whose buffer is
                   shorter takes a prefix and leaves `EChunk (k - n)` at the head of the schedule (so the byte
                   stream and its chunk boundaries do not depend on the buffer sizes std chooses); k = 0 makes the
                   call return Ok(0);
       EIntr     — the call returns Err(ErrorKind::Interrupted);
       EFail e   — the call returns an error of kind e;
       schedule exhausted — every call delivers / accepts as much as the buffer allows (a reader then returns 0 =
                   end of input once the data is used up).
     One recursion step of `read_exact`, `read_to_end`, `write_all` below is one call of `Read::read` /
     `Write::write` inside the std default method of the same name (`read_exact`: retry on Interrupted, Ok(0) =>
     UnexpectedEof; `read_to_end`/`read_to_string`: retry on Interrupted, Ok(0) => done; `write_all`: retry on
     Interrupted, Ok(0) => WriteZero).  These std bodies are modelled, not verified (DESIGN.md §8).
     Where an event is only partly used by a call the loop either ends at once (buffer full / everything written)
     or the data is exhausted, in which case the following call finds the rest of the chunk and no data and returns 0:
     that following call is folded into the same step, which keeps the recursion structural on the schedule.
   * Text: `read_to_string` = read_to_end + strict UTF-8 validation (`utf8_decode`: no overlong forms, no surrogates,
     at most U+10FFFF); `char::is_whitespace` = the Unicode White_Space set (`is_ws`, complete);
     `str::parse::<uN>` = optional leading '+', at least one ASCII digit, overflow => Err (`parse_uint`). *)
From Coq Require Import List NArith Bool.
Import ListNotations.
From BddVerif Require Import Model.Bdd Model.Apply.
Open Scope N_scope.

Inductive result (T : Type) := ROk (x : T) | RErr.
Arguments ROk {T} x. Arguments RErr {T}.

Definition obind {T U} (o : outcome T) (k : T -> outcome U) : outcome U :=
  match o with Ok x => k x | Panic => Panic | OutOfFuel => OutOfFuel end.

Definition len {A} (l : list A) : N := N.of_nat (length l).

(* slice index with the bounds check of the Rust *)
Definition idx {A} (l : list A) (i : nat) : outcome A :=
  match nth_error l i with Some x => Ok x | None => Panic end.

(* Vec index by a (possibly huge) pointer: never converts the pointer to unary *)
Fixpoint nth_N {A} (l : list A) (p : N) : option A :=
  match l with [] => None | x :: r => if p =? 0 then Some x else nth_N r (N.pred p) end.
Definition getp (b : bdd) (p : N) : outcome node :=
  match nth_N b p with Some n => Ok n | None => Panic end.

(* up to k elements from the front *)
Fixpoint take (k : N) (l : list N) : list N * list N :=
  match l with
  | [] => ([], [])
  | x :: r => if k =? 0 then ([], l) else let (a, b) := take (N.pred k) r in (x :: a, b)
  end.

(* ------------------------------------------------------------------ scripted I/O *)
Inductive ekind := KInterrupted | KUnexpectedEof | KOther.
Inductive event := EChunk (k : N) | EIntr | EFail (e : ekind).
Definition is_intr (e : ekind) : bool := match e with KInterrupted => true | _ => false end.

(* one call of the scripted reader with a buffer of `n` > 0 bytes (reference semantics of the harness object) *)
Inductive rd := RdData (bytes : list N) | RdErr (e : ekind).
Definition read_call (n : N) (data : list N) (sched : list event) : rd * (list N * list event) :=
  match sched with
  | [] => let (a, rest) := take n data in (RdData a, (rest, []))
  | EIntr :: r => (RdErr KInterrupted, (data, r))
  | EFail e :: r => (RdErr e, (data, r))
  | EChunk k :: r => let (a, rest) := take (N.min k n) data in
                     (RdData a, (rest, if len a <? k then EChunk (k - len a) :: r else r))
  end.
(* one call of the scripted writer with a non-empty buffer: number of bytes accepted or an error *)
Definition write_call (buf : list N) (sched : list event) : (result (list N)) * list event :=
  match sched with
  | [] => (ROk buf, [])
  | EIntr :: r => (RErr, r)
  | EFail e :: r => (RErr, r)
  | EChunk k :: r => let (a, _) := take k buf in (ROk a, if len a <? k then EChunk (k - len a) :: r else r)
  end.

(* std::io::Read::read_exact on a buffer of `need` bytes (default_read_exact) *)
Inductive rx := RxFull (bytes : list N) | RxErr (e : ekind).
Fixpoint read_exact (need : N) (acc data : list N) (sched : list event) {struct sched}
  : rx * (list N * list event) :=
  match sched with
  | [] =>
      let (a, rest) := take need data in
      if len a =? need then (RxFull (acc ++ a), (rest, []))
      else (RxErr KUnexpectedEof, (rest, []))                      (* short read, then Ok(0) *)
  | EIntr :: r => read_exact need acc data r
  | EFail e :: r => if is_intr e then read_exact need acc data r else (RxErr e, (data, r))
  | EChunk k :: r =>
      let (a, rest) := take (N.min k need) data in
      let la := len a in
      if la =? 0 then (RxErr KUnexpectedEof, (rest, if k =? 0 then r else sched))          (* Ok(0) *)
      else if la =? need then (RxFull (acc ++ a), (rest, if la <? k then EChunk (k - la) :: r else r))
      else if la <? k then (RxErr KUnexpectedEof, (rest, EChunk (k - la) :: r))   (* data exhausted: next call Ok(0) *)
      else read_exact (need - la) (acc ++ a) rest r
  end.

(* std::io::Read::read_to_end (acc is kept reversed); None = Err *)
Fixpoint read_to_end (acc data : list N) (sched : list event) {struct sched} : result (list N) :=
  match sched with
  | [] => ROk (rev_append acc data)                                (* everything, then Ok(0) *)
  | EIntr :: r => read_to_end acc data r
  | EFail e :: r => if is_intr e then read_to_end acc data r else RErr
  | EChunk k :: r =>
      let (a, rest) := take k data in
      let la := len a in
      if la =? 0 then ROk (rev_append acc [])                      (* Ok(0) *)
      else if la <? k then ROk (rev_append (rev_append a acc) [])  (* data exhausted: next call Ok(0) *)
      else read_to_end (rev_append a acc) rest r
  end.

(* std::io::Write::write_all; `out` = bytes accepted so far, reversed.  false = Err *)
Fixpoint write_all (buf : list N) (sched : list event) (out : list N) {struct sched}
  : bool * (list event * list N) :=
  match buf with
  | [] => (true, (sched, out))
  | _ :: _ =>
    match sched with
    | [] => (true, ([], rev_append buf out))
    | EIntr :: r => write_all buf r out
    | EFail e :: r => if is_intr e then write_all buf r out else (false, (r, out))
    | EChunk k :: r =>
        if k =? 0 then (false, (r, out))                           (* Ok(0) => WriteZero *)
        else let (a, rest) := take k buf in
             match rest with
             | [] => (true, ((if len a <? k then EChunk (k - len a) :: r else r), rev_append a out))
             | _ :: _ => write_all rest r (rev_append a out)
             end
    end
  end.

(* a sequence of write_all calls joined by `?` *)
Fixpoint write_pieces (ps : list (list N)) (sched : list event) (out : list N) : bool * (list event * list N) :=
  match ps with
  | [] => (true, (sched, out))
  | p :: r => match write_all p sched out with
              | (true, (s, o)) => write_pieces r s o
              | failed => failed
              end
  end.

(* ------------------------------------------------------------------ binary format *)
Definition le_bytes2 (x : N) : list N := [x mod 256; (x / 256) mod 256].
Definition le_bytes4 (x : N) : list N := [x mod 256; (x / 256) mod 256; (x / 65536) mod 256; (x / 16777216) mod 256].
Definition le2 (a b : N) : N := a + 256 * b.
Definition le4 (a b c d : N) : N := a + 256 * (b + 256 * (c + 256 * d)).

Definition node_byte_pieces (n : node) : list (list N) := [le_bytes2 (nvar n); le_bytes4 (nlow n); le_bytes4 (nhigh n)].
Definition write_bytes (b : bdd) : list N := concat (flat_map node_byte_pieces b).
(* Bdd::write_as_bytes into the scripted writer: (Ok?, bytes the writer accepted) *)
Definition write_bytes_sched (b : bdd) (sched : list event) : bool * list N :=
  let '(ok, (_, o)) := write_pieces (flat_map node_byte_pieces b) sched [] in (ok, rev_append o []).

Definition decode_record (buf : list N) : outcome node :=
  obind (idx buf 0) (fun b0 => obind (idx buf 1) (fun b1 => obind (idx buf 2) (fun b2 =>
  obind (idx buf 3) (fun b3 => obind (idx buf 4) (fun b4 => obind (idx buf 5) (fun b5 =>
  obind (idx buf 6) (fun b6 => obind (idx buf 7) (fun b7 => obind (idx buf 8) (fun b8 =>
  obind (idx buf 9) (fun b9 =>
  Ok (mkNode (le2 b0 b1) (le4 b2 b3 b4 b5) (le4 b6 b7 b8 b9)))))))))))).

(* the loop of Bdd::read_as_bytes; acc = nodes pushed so far, reversed *)
Fixpoint read_bytes_loop (fuel : nat) (acc : list node) (data : list N) (sched : list event) : outcome (result bdd) :=
  match fuel with
  | O => OutOfFuel
  | S f =>
    match read_exact 10 [] data sched with
    | (RxFull buf, (data', sched')) =>
        obind (decode_record buf) (fun nd => read_bytes_loop f (nd :: acc) data' sched')
    | (RxErr KUnexpectedEof, _) => Ok (ROk (rev_append acc []))
    | (RxErr _, _) => Ok RErr
    end
  end.
Definition read_bytes_sched (data : list N) (sched : list event) : outcome (result bdd) :=
  read_bytes_loop (S (length data)) [] data sched.
Definition read_bytes (data : list N) : outcome (result bdd) := read_bytes_sched data [].

(* ------------------------------------------------------------------ text format *)
(* decimal rendering of an unsigned number (ASCII digits, most significant first) *)
Fixpoint dec_aux (fuel : nat) (x : N) (acc : list N) : list N :=
  match fuel with
  | O => acc
  | S f => let acc' := (48 + x mod 10) :: acc in if x <? 10 then acc' else dec_aux f (x / 10) acc'
  end.
Definition dec (x : N) : list N := dec_aux (S (N.size_nat x)) x [].

Definition node_text_pieces (n : node) : list (list N) := [dec (nvar n); [44]; dec (nlow n); [44]; dec (nhigh n); [124]].
Definition write_text_pieces (b : bdd) : list (list N) := [124] :: flat_map node_text_pieces b.
Definition write_text (b : bdd) : list N := concat (write_text_pieces b).
Definition write_text_sched (b : bdd) (sched : list event) : bool * list N :=
  let '(ok, (_, o)) := write_pieces (write_text_pieces b) sched [] in (ok, rev_append o []).

(* strict UTF-8 (core::str::from_utf8): the scalar values, or None *)
Definition cont (b : N) : bool := (128 <=? b) && (b <=? 191).
Fixpoint utf8_decode (s : list N) : option (list N) :=
  match s with
  | [] => Some []
  | b0 :: r0 =>
    if b0 <? 128 then option_map (cons b0) (utf8_decode r0)
    else if (194 <=? b0) && (b0 <=? 223) then
      match r0 with
      | b1 :: r1 => if cont b1 then option_map (cons ((b0 - 192) * 64 + (b1 - 128))) (utf8_decode r1) else None
      | _ => None
      end
    else if (224 <=? b0) && (b0 <=? 239) then
      match r0 with
      | b1 :: b2 :: r2 =>
          if cont b1 && cont b2 && (negb (b0 =? 224) || (160 <=? b1)) && (negb (b0 =? 237) || (b1 <=? 159))
          then option_map (cons ((b0 - 224) * 4096 + (b1 - 128) * 64 + (b2 - 128))) (utf8_decode r2) else None
      | _ => None
      end
    else if (240 <=? b0) && (b0 <=? 244) then
      match r0 with
      | b1 :: b2 :: b3 :: r3 =>
          if cont b1 && cont b2 && cont b3 && (negb (b0 =? 240) || (144 <=? b1)) && (negb (b0 =? 244) || (b1 <=? 143))
          then option_map (cons ((b0 - 240) * 262144 + (b1 - 128) * 4096 + (b2 - 128) * 64 + (b3 - 128))) (utf8_decode r3)
          else None
      | _ => None
      end
    else None
  end.

(* char::is_whitespace: Unicode White_Space *)
Definition is_ws (c : N) : bool :=
  ((9 <=? c) && (c <=? 13)) || (c =? 32) || (c =? 133) || (c =? 160) || (c =? 5760) ||
  ((8192 <=? c) && (c <=? 8202)) || (c =? 8232) || (c =? 8233) || (c =? 8239) || (c =? 8287) || (c =? 12288).

(* str::split(sep): the pieces between separators, empty ones included *)
Fixpoint split_on (sep : N) (l : list N) : list (list N) :=
  match l with
  | [] => [[]]
  | c :: r => if c =? sep then [] :: split_on sep r
              else match split_on sep r with p :: ps => (c :: p) :: ps | [] => [[c]] end
  end.

(* str::parse::<uN>() with N::MAX = bound - 1 *)
Definition is_digit (c : N) : bool := (48 <=? c) && (c <=? 57).
Fixpoint parse_digits (bound : N) (l : list N) (acc : N) : option N :=
  match l with
  | [] => Some acc
  | c :: r => if is_digit c
              then let acc' := acc * 10 + (c - 48) in if bound <=? acc' then None else parse_digits bound r acc'
              else None
  end.
Definition parse_uint (bound : N) (s : list N) : option N :=
  match s with
  | [] => None
  | [c] => if (c =? 43) || (c =? 45) then None else parse_digits bound s 0
  | c :: r => if c =? 43 then parse_digits bound r 0 else parse_digits bound s 0
  end.

Definition u16_bound : N := 65536.
Definition u32_bound : N := 4294967296.

(* the body of the `for node_string in ...` loop *)
Definition parse_record (piece : list N) : outcome (result node) :=
  let items := split_on 44 piece in
  if len items <? 3 then Ok RErr else
  obind (idx items 0) (fun f0 => match parse_uint u16_bound f0 with None => Ok RErr | Some v =>
  obind (idx items 1) (fun f1 => match parse_uint u32_bound f1 with None => Ok RErr | Some l =>
  obind (idx items 2) (fun f2 => match parse_uint u32_bound f2 with None => Ok RErr | Some h =>
  Ok (ROk (mkNode v (l mod u32_bound) (h mod u32_bound))) end) end) end).   (* `as usize` then `as u32` *)

Fixpoint parse_records (pieces : list (list N)) : outcome (result bdd) :=
  match pieces with
  | [] => Ok (ROk [])
  | [] :: ps => parse_records ps                                   (* .filter(|s| !s.is_empty()) *)
  | p :: ps =>
    match parse_record p with
    | Ok (ROk nd) => match parse_records ps with Ok (ROk l) => Ok (ROk (nd :: l)) | other => other end
    | Ok RErr => Ok RErr
    | Panic => Panic
    | OutOfFuel => OutOfFuel
    end
  end.

(* everything after read_to_string, on the scalar values of the text *)
Definition read_text_cps (cps : list N) : outcome (result bdd) :=
  parse_records (split_on 124 (filter (fun c => negb (is_ws c)) cps)).

Definition read_text_sched (data : list N) (sched : list event) : outcome (result bdd) :=
  match read_to_end [] data sched with
  | RErr => Ok RErr
  | ROk bytes => match utf8_decode bytes with None => Ok RErr | Some cps => read_text_cps cps end
  end.
Definition read_text (data : list N) : outcome (result bdd) := read_text_sched data [].

(* ------------------------------------------------------------------ node lists *)
Definition to_nodes (b : bdd) : bdd := b.

Definition node_is_terminal (n : node) : bool := (nlow n =? nhigh n) && ((nlow n =? 1) || (nlow n =? 0)).
Definition node_is_one (n : node) : bool := node_is_terminal n && (nlow n =? 1).
Definition node_is_zero (n : node) : bool := node_is_terminal n && (nlow n =? 0).

Fixpoint from_nodes_loop (d : bdd) (n nv : N) (l : list node) : outcome (result unit) :=
  match l with
  | [] => Ok (ROk tt)
  | nd :: r =>
    if nv <=? nvar nd then Ok RErr
    else if n <=? nlow nd then Ok RErr
    else if n <=? nhigh nd then Ok RErr
    else obind (getp d (nlow nd)) (fun lc => if nvar lc <=? nvar nd then Ok RErr else
         obind (getp d (nhigh nd)) (fun hc => if nvar hc <=? nvar nd then Ok RErr else
         from_nodes_loop d n nv r))
  end.

Definition from_nodes (d : bdd) : outcome (result bdd) :=
  let n := size d in
  if n =? 0 then Ok RErr else
  obind (getp d 0) (fun n0 =>
  if negb (node_is_zero n0) then Ok RErr else
  obind (if 1 <? n then obind (getp d 1) (fun n1 => Ok (negb (node_is_one n1) || negb (nvar n1 =? nvar n0)))
         else Ok false) (fun bad1 =>
  if bad1 then Ok RErr else
  match from_nodes_loop d n (nvar n0) (skipn 2 d) with
  | Ok (ROk _) => Ok (ROk d)
  | Ok RErr => Ok RErr
  | Panic => Panic
  | OutOfFuel => OutOfFuel
  end)).

(* ------------------------------------------------------------------ validate *)
Fixpoint set_true (l : list bool) (p : N) : list bool :=
  match l with [] => [] | x :: r => if p =? 0 then true :: r else x :: set_true r (N.pred p) end.

(* first loop of validate: variables and links in range *)
Fixpoint validate_links (n nv : N) (l : list node) : bool :=
  match l with
  | [] => true
  | nd :: r => if nv <=? nvar nd then false else if n <=? nlow nd then false else if n <=? nhigh nd then false
               else validate_links n nv r
  end.

(* the `while let Some(top) = stack.pop()` loop; head of the list = top of the stack *)
Fixpoint validate_dfs (fuel : nat) (b : bdd) (visited : list bool) (stack : list N) : outcome (result (list bool)) :=
  match fuel with
  | O => OutOfFuel
  | S f =>
    match stack with
    | [] => Ok (ROk visited)
    | top :: rest =>
      match nth_N visited top with
      | None => Panic
      | Some true => validate_dfs f b visited rest
      | Some false =>
          obind (getp b top) (fun nd =>
          obind (getp b (nlow nd)) (fun lc =>
          obind (getp b (nhigh nd)) (fun hc =>
          if (nvar lc <=? nvar nd) || (nvar hc <=? nvar nd) then Ok RErr
          else validate_dfs f b (set_true visited top) (nhigh nd :: nlow nd :: rest))))
      end
    end
  end.

Definition validate (b : bdd) : outcome (result unit) :=
  match b with
  | [] => Ok RErr
  | [n0] => Ok (if node_eqb n0 (mkNode (nvar n0) 0 0) then ROk tt else RErr)
  | [n0; n1] => Ok (if node_eqb n0 (mkNode (nvar n0) 0 0) && node_eqb n1 (mkNode (nvar n0) 1 1) then ROk tt else RErr)
  | n0 :: n1 :: rest =>
    let nv := nvar n0 in
    let n := size b in
    if negb (node_eqb n0 (mkNode nv 0 0)) || negb (node_eqb n1 (mkNode nv 1 1)) then Ok RErr
    else if negb (validate_links n nv rest) then Ok RErr
    else match validate_dfs (2 * length b + 2) b (true :: true :: repeat false (length rest)) [n - 1] with
         | Ok (ROk visited) => Ok (if forallb (fun x => x) visited then ROk tt else RErr)
         | Ok RErr => Ok RErr
         | Panic => Panic
         | OutOfFuel => OutOfFuel
         end
  end.

(* ------------------------------------------------------------------ Bdd::eval_in as a walk with explicit outcomes *)
Fixpoint eval_walk (fuel : nat) (b : bdd) (p : N) (v : val) : outcome bool :=
  match fuel with
  | O => OutOfFuel
  | S f => if p <? 2 then Ok (p =? 1)
           else obind (getp b p) (fun n => eval_walk f b (if v (nvar n) then nhigh n else nlow n) v)
  end.
Definition eval_in (b : bdd) (v : val) : outcome bool :=
  if size b =? 0 then Panic else eval_walk (S (N.to_nat (nvars b))) b (size b - 1) v.
