(* Model/ApplyFast2.v — efficient executable versions of the SIZE-LIMITED binary engine and of the DRY RUN of
   Model/Apply.v (process_l / apply2_limit, dry / dry_run, i.e. the Rust loops apply_with_flip_and_limit and
   estimated_apply_complexity).  Definitions only; Proofs/ApplyFast2.v proves apply2_limit_fast = apply2_limit and
   dry_run_fast = dry_run WITHOUT hypotheses, so every theorem about the reference definitions transfers.
   Granularity: the same as Model/Apply.v (order-faithful functional); only the data structures differ, exactly
   as in Model/ApplyFast.v:
     * operands loaded once into PositiveMaps (ApplyFast.load / aget);
     * memo table `finished` = two-level PositiveMap, unique table `existing` = three-level PositiveMap;
     * result store = reversed list + size counter; the limit test compares the COUNTERS before/after `mk`
       (the reference compares list lengths);
     * the dry run's visited SET is a two-level PositiveMap to unit (the reference keeps a list and scans it
       with `tmem`). *)
From Coq Require Import List NArith Bool FMapPositive.
Import ListNotations.
From BddVerif Require Import Model.Bdd Model.Apply Model.ApplyFast.
Open Scope N_scope.

Inductive lresF := LAbortF | LFuelF | LOkF (p : N) (s : fstate).

Definition vset := PositiveMap.t (PositiveMap.t unit).
Definition tmemF (t : task) (m : vset) : bool :=
  match find2 (fst t) (snd t) m with Some _ => true | None => false end.
Definition vaddF (t : task) (m : vset) : vset := add2 (fst t) (snd t) tt m.

Record dstF := mkDF { fvisited : vset; fdcount : N; fdflag : bool }.
Inductive dresF := DAbortF | DFuelF | DOkF (s : dstF).

Section ApplyFast2.
  Variables (MA MB : arr) (fa fb fo : option N) (op : op2).

  Definition ensure_lF (proc : task -> fstate -> lresF) (t : task) (s : fstate) : lresF :=
    match op (as_bool (fst t)) (as_bool (snd t)) with
    | Some c => LOkF (of_bool c) s
    | None => match tfindF t (ffinished s) with Some p => LOkF p s | None => proc t s end
    end.

  Fixpoint process_lF (limit : N) (fuel : nat) (t : task) (s : fstate) : lresF :=
    match fuel with O => LFuelF | S f =>
      let dv := levelF MA MB t in
      let swap := oeq fo dv in
      let '(t1, t2) := if swap then (t_loF MA MB fa fb t, t_hiF MA MB fa fb t) else (t_hiF MA MB fa fb t, t_loF MA MB fa fb t) in
      match ensure_lF (process_lF limit f) t1 s with LAbortF => LAbortF | LFuelF => LFuelF | LOkF p1 s1 =>
      match ensure_lF (process_lF limit f) t2 s1 with LAbortF => LAbortF | LFuelF => LFuelF | LOkF p2 s2 =>
        let '(plo, phi) := if swap then (p1, p2) else (p2, p1) in
        let s3 := set_neF s2 ((plo =? 1) || (phi =? 1)) in
        let '(p, s4) := if swap then mkF_node s3 dv phi plo else mkF_node s3 dv plo phi in
        if (rsize s3 <? rsize s4) && (limit <? rsize s4) then LAbortF
        else LOkF p (memoF s4 t p)
      end end
    end.

  Fixpoint dryF (limit : N) (fuel : nat) (t : task) (s : dstF) : dresF :=
    match fuel with O => DFuelF | S f =>
      match op (as_bool (fst t)) (as_bool (snd t)) with
      | Some c => DOkF (mkDF (fvisited s) (fdcount s) (fdflag s || c))
      | None =>
        if tmemF t (fvisited s) then DOkF s else
        let s1 := mkDF (vaddF t (fvisited s)) (fdcount s + 1) (fdflag s) in
        if limit <? fdcount s1 then DAbortF else
        let swap := oeq fo (levelF MA MB t) in
        let '(t1, t2) := if swap then (t_loF MA MB fa fb t, t_hiF MA MB fa fb t) else (t_hiF MA MB fa fb t, t_loF MA MB fa fb t) in
        match dryF limit f t1 s1 with DAbortF => DAbortF | DFuelF => DFuelF | DOkF s2 => dryF limit f t2 s2 end
      end
    end.
End ApplyFast2.

Definition apply2_limit_fast (A B : bdd) (fa fb fo : option N) (op : op2) (limit : N) : option (option bdd) :=
  if limit =? 0 then Some None else
  let '(sa, MA) := load A 0 (PositiveMap.empty node) in
  let '(sb, MB) := load B 0 (PositiveMap.empty node) in
  let nv := nvar (aget MA 0) in
  let zero := mkNode nv 0 0 in
  let one := mkNode nv 1 1 in
  match process_lF MA MB fa fb fo op limit (S (S (N.to_nat nv))) (sa - 1, sb - 1) (s0F zero one) with
  | LFuelF => None
  | LAbortF => Some None
  | LOkF _ s => Some (if fnonempty s
                      then (if limit <? rsize s then None else Some (rev_append (rnodes s) []))
                      else Some [zero])
  end.

Definition dry_run_fast (A B : bdd) (fa fb fo : option N) (op : op2) (limit : N) : option (option (bool * N)) :=
  let '(sa, MA) := load A 0 (PositiveMap.empty node) in
  let '(sb, MB) := load B 0 (PositiveMap.empty node) in
  let nv := nvar (aget MA 0) in
  match dryF MA MB fa fb fo op limit (S (S (S (N.to_nat nv)))) (sa - 1, sb - 1) (mkDF (PositiveMap.empty _) 0 false) with
  | DFuelF => None
  | DAbortF => Some None
  | DOkF s => Some (Some (fdflag s, fdcount s))
  end.

(* API-level wrappers: the same guards as the reference ones *)
Definition fused_binary_flip_op_with_limit_fast (limit : N) (A B : bdd) (fa fb fo : option N) (op : op2) : outcome (option bdd) :=
  guard2 A B fa fb fo (of_option (apply2_limit_fast A B fa fb fo op limit)).
Definition check_fused_binary_flip_op_fast (limit : N) (A B : bdd) (fa fb fo : option N) (op : op2) : outcome (option (bool * N)) :=
  guard2 A B fa fb fo (of_option (dry_run_fast A B fa fb fo op limit)).
