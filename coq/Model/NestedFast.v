(* Model/NestedFast.v — an efficient executable version of the nested apply algorithm of Model/Nested.v
   (oproc / iproc / inner_apply / copy / fix_alignment / nested_apply_fn, i.e. the Rust nested_apply,
   inner_apply and fix_bdd_alignment).  Definitions only; Proofs/NestedFast.v proves nested_apply_fn_fast =
   nested_apply_fn (and the derived entry points) WITHOUT hypotheses, so every theorem about the reference
   algorithm transfers.
   Granularity: the same as Model/Nested.v (order-faithful functional); only the data structures differ:
     * the two operands are loaded once into PositiveMaps (ApplyFast.load / aget);
     * the GROWING result store, which the inner engine READS, is a PositiveMap from index to node plus its
       size as an N counter (random access in logarithmic time; a missing key reads as dnode exactly like
       `nth _ _ dnode`); no list is kept: the final array is produced by fix_alignment, which only reads;
     * node cache = three-level PositiveMap, the two task caches = two-level PositiveMaps;
     * fix_alignment: the pointer map `pfind` is a PositiveMap, the copy is accumulated as a reversed list plus
       its size and reversed once at the end. *)
From Coq Require Import List NArith Bool FMapPositive.
Import ListNotations.
From BddVerif Require Import Model.Bdd Model.Apply Model.ApplyFast Model.Nested.
Open Scope N_scope.

Record nstF := mkNF { fnarr : arr; fnsize : N; fnex : nmap; fnouter : tmap; fninner : tmap }.

Definition nmkF (s : nstF) (d lo hi : N) : N * nstF :=
  if lo =? hi then (lo, s) else
  let n := mkNode d lo hi in
  match nfindF n (fnex s) with
  | Some p => (p, s)
  | None => let p := fnsize s in
            (p, mkNF (PositiveMap.add (pkey p) n (fnarr s)) (N.succ p) (naddF n p (fnex s)) (fnouter s) (fninner s))
  end.
Definition imemoF (s : nstF) (t : task) (p : N) : nstF :=
  mkNF (fnarr s) (fnsize s) (fnex s) (fnouter s) (taddF t p (fninner s)).
Definition omemoF (s : nstF) (t : task) (p : N) : nstF :=
  mkNF (fnarr s) (fnsize s) (fnex s) (taddF t p (fnouter s)) (fninner s).

(* ---- inner_apply: both "operands" are the store itself ---- *)
Section InnerF.
  Variable inner : op2.

  Definition iensureF (proc : task -> nstF -> option (N * nstF)) (t : task) (s : nstF) : option (N * nstF) :=
    match inner (as_bool (fst t)) (as_bool (snd t)) with
    | Some c => Some (of_bool c, s)
    | None => match tfindF t (fninner s) with Some p => Some (p, s) | None => proc t s end
    end.

  Fixpoint iprocF (fuel : nat) (t : task) (s : nstF) : option (N * nstF) :=
    match fuel with O => None | S f =>
      let G := fnarr s in
      let dv := levelF G G t in
      let thi := t_hiF G G None None t in
      let tlo := t_loF G G None None t in
      match iensureF (iprocF f) thi s with None => None | Some (phi, s1) =>
      match iensureF (iprocF f) tlo s1 with None => None | Some (plo, s2) =>
        let '(p, s3) := nmkF s2 dv plo phi in
        Some (p, imemoF s3 t p)
      end end
    end.

  Definition inner_applyF (l r : N) (s : nstF) : option (N * nstF) :=
    match tfindF (l, r) (fninner s) with
    | Some p => Some (p, s)
    | None => iprocF (S (S (N.to_nat (nvar (aget (fnarr s) 0))))) (l, r) s
    end.
End InnerF.

(* ---- fix_bdd_alignment ---- *)
Definition pmapF := PositiveMap.t N.
Definition pfindF (k : N) (m : pmapF) : option N := PositiveMap.find (pkey k) m.

(* returns (new pointer, (reversed new array, (its size, pointer map))) *)
Fixpoint copyF (fuel : nat) (G : arr) (p : N) (racc : list node) (sz : N) (pm : pmapF)
  : option (N * (list node * (N * pmapF))) :=
  match fuel with O => None | S f =>
    if p <? 2 then Some (p, (racc, (sz, pm))) else
    match pfindF p pm with
    | Some q => Some (q, (racc, (sz, pm)))
    | None =>
      let n := aget G p in
      match copyF f G (nhigh n) racc sz pm with None => None | Some (qh, (racc1, (sz1, pm1))) =>
      match copyF f G (nlow n) racc1 sz1 pm1 with None => None | Some (ql, (racc2, (sz2, pm2))) =>
        Some (sz2, (mkNode (nvar n) ql qh :: racc2, (N.succ sz2, PositiveMap.add (pkey p) sz2 pm2)))
      end end
    end
  end.

Definition fix_alignmentF (G : arr) (root : N) : option bdd :=
  let nv := nvar (aget G 0) in
  if root =? 0 then Some (mk_false nv) else
  if root =? 1 then Some (mk_true nv) else
  match copyF (S (S (N.to_nat nv))) G root [mkNode nv 1 1; mkNode nv 0 0] 2 (PositiveMap.empty N) with
  | Some (_, (racc, _)) => Some (rev_append racc [])
  | None => None
  end.

(* ---- nested_apply ---- *)
Section NestedF.
  Variables (MA MB : arr) (trigger : N -> bool) (outer inner : op2).

  Definition oensureF (proc : task -> nstF -> option (N * nstF)) (t : task) (s : nstF) : option (N * nstF) :=
    match outer (as_bool (fst t)) (as_bool (snd t)) with
    | Some c => Some (of_bool c, s)
    | None => match tfindF t (fnouter s) with Some p => Some (p, s) | None => proc t s end
    end.

  Definition resolveF (dv plo phi : N) (s : nstF) : option (N * nstF) :=
    if plo =? phi then Some (plo, s)
    else if trigger dv then inner_applyF inner plo phi s
    else Some (nmkF s dv plo phi).

  Fixpoint oprocF (fuel : nat) (t : task) (s : nstF) : option (N * nstF) :=
    match fuel with O => None | S f =>
      let dv := levelF MA MB t in
      match oensureF (oprocF f) (t_hiF MA MB None None t) s with None => None | Some (phi, s1) =>
      match oensureF (oprocF f) (t_loF MA MB None None t) s1 with None => None | Some (plo, s2) =>
      match resolveF dv plo phi s2 with None => None | Some (p, s3) =>
        Some (p, omemoF s3 t p)
      end end end
    end.
End NestedF.

Definition n0F (zero one : node) : nstF :=
  mkNF (PositiveMap.add (pkey 1) one (PositiveMap.add (pkey 0) zero (PositiveMap.empty node))) 2
       (naddF zero 0 (naddF one 1 (PositiveMap.empty _))) (PositiveMap.empty _) (PositiveMap.empty _).

Definition nested_apply_fast (A B : bdd) (trigger : N -> bool) (outer inner : op2) : option bdd :=
  let '(sa, MA) := load A 0 (PositiveMap.empty node) in
  let '(sb, MB) := load B 0 (PositiveMap.empty node) in
  let nv := nvar (aget MA 0) in
  match oprocF MA MB trigger outer inner (S (S (N.to_nat nv))) (sa - 1, sb - 1) (n0F (mkNode nv 0 0) (mkNode nv 1 1)) with
  | None => None
  | Some (p, s) => fix_alignmentF (fnarr s) p
  end.

Definition nested_apply_fn_fast (A B : bdd) (trigger : N -> bool) (outer inner : op2) : outcome bdd :=
  if negb (nvars A =? nvars B) then Panic else of_option (nested_apply_fast A B trigger outer inner).

Definition nested_apply_faithful_fast (A B : bdd) (trig : list bool) (outer inner : op2) : outcome bdd :=
  nested_apply_fn_fast A B (fun x => nth (N.to_nat x) trig false) outer inner.
Definition binary_op_with_exists_faithful_fast (a b : bdd) (op : op2) (vars : list N) : outcome bdd :=
  nested_apply_fn_fast a b (mem_trigger vars) op op_or.
Definition binary_op_with_for_all_faithful_fast (a b : bdd) (op : op2) (vars : list N) : outcome bdd :=
  nested_apply_fn_fast a b (mem_trigger vars) op op_and.
Definition bdd_exists_faithful_fast (b : bdd) (vars : list N) : outcome bdd := binary_op_with_exists_faithful_fast b b op_and vars.
Definition bdd_for_all_faithful_fast (b : bdd) (vars : list N) : outcome bdd := binary_op_with_for_all_faithful_fast b b op_and vars.
