(* Model/Apply.v — the binary apply engine with three fused flips (apply_with_flip),
   its size-limited variant (apply_with_flip_and_limit) and the dry run
   (estimated_apply_complexity).  Definitions only.
   Granularity: order-faithful functional — "ensure first; ensure second; resolve" creates nodes in
   the same order as the Rust stack machine (push low, push high, pop high first; reversed under an
   output flip); the explicit stack is not modelled. *)
From Coq Require Import List NArith Bool.
Import ListNotations.
From BddVerif Require Import Model.Bdd.
Open Scope N_scope.

Definition task := (N * N)%type.
Definition task_eqb (a b : task) := (fst a =? fst b) && (snd a =? snd b).
Fixpoint tfind (k : task) (m : list (task * N)) : option N :=
  match m with [] => None | (k', v) :: r => if task_eqb k k' then Some v else tfind k r end.
Fixpoint nfind (k : node) (m : list (node * N)) : option N :=
  match m with [] => None | (k', v) :: r => if node_eqb k k' then Some v else nfind k r end.

Definition op2 := option bool -> option bool -> option bool.
Definition as_bool (p : N) : option bool := if p =? 0 then Some false else if p =? 1 then Some true else None.
Definition of_bool (b : bool) : N := if b then 1 else 0.
Definition oeq (o : option N) (x : N) := match o with Some y => y =? x | None => false end.

Record st := mkSt { nodes : list node; existing : list (node * N); finished : list (task * N); nonempty : bool }.

Definition push (s : st) (n : node) : N * st :=
  let p := size (nodes s) in
  (p, mkSt (nodes s ++ [n]) ((n, p) :: existing s) (finished s) (nonempty s)).
Definition memo (s : st) (t : task) (p : N) : st := mkSt (nodes s) (existing s) ((t, p) :: finished s) (nonempty s).
Definition set_ne (s : st) (b : bool) : st := mkSt (nodes s) (existing s) (finished s) (nonempty s || b).
Definition mk (s : st) (d lo hi : N) : N * st :=
  if lo =? hi then (lo, s) else
  let n := mkNode d lo hi in
  match nfind n (existing s) with Some p => (p, s) | None => push s n end.

Definition kids (G : bdd) (fl : option N) (p dv : N) : N * N :=
  let n := get G p in
  if negb (nvar n =? dv) then (p, p) else if oeq fl dv then (nhigh n, nlow n) else (nlow n, nhigh n).

Section Apply.
  Variables (A B : bdd) (fa fb fo : option N) (op : op2).

  Definition ensure_with (proc : task -> st -> option (N * st)) (t : task) (s : st) : option (N * st) :=
    match op (as_bool (fst t)) (as_bool (snd t)) with
    | Some c => Some (of_bool c, s)
    | None => match tfind t (finished s) with Some p => Some (p, s) | None => proc t s end
    end.

  Definition level (t : task) : N := N.min (var_of A (fst t)) (var_of B (snd t)).
  Definition t_lo (t : task) : task := let dv := level t in (fst (kids A fa (fst t) dv), fst (kids B fb (snd t) dv)).
  Definition t_hi (t : task) : task := let dv := level t in (snd (kids A fa (fst t) dv), snd (kids B fb (snd t) dv)).

  Fixpoint process (fuel : nat) (t : task) (s : st) : option (N * st) :=
    match fuel with O => None | S f =>
      let dv := level t in
      let swap := oeq fo dv in
      let '(t1, t2) := if swap then (t_lo t, t_hi t) else (t_hi t, t_lo t) in
      match ensure_with (process f) t1 s with None => None | Some (p1, s1) =>
      match ensure_with (process f) t2 s1 with None => None | Some (p2, s2) =>
        let '(plo, phi) := if swap then (p1, p2) else (p2, p1) in
        let s3 := set_ne s2 ((plo =? 1) || (phi =? 1)) in
        let '(p, s4) := if swap then mk s3 dv phi plo else mk s3 dv plo phi in
        Some (p, memo s4 t p)
      end end
    end.

  Definition zero := mkNode (nvars A) 0 0.
  Definition one  := mkNode (nvars A) 1 1.
  Definition s0 := mkSt [zero; one] [(zero, 0); (one, 1)] [] false.
  Definition root : task := (size A - 1, size B - 1).
  Definition apply2 : option bdd :=
    match process (S (S (N.to_nat (nvars A)))) root s0 with
    | None => None
    | Some (_, s) => Some (if nonempty s then nodes s else [zero])
    end.

  (* ---- size-limited variant: abort as soon as a pushed node makes the store exceed the limit ---- *)
  Inductive lres := LAbort | LFuel | LOk (p : N) (s : st).

  Definition ensure_l (proc : task -> st -> lres) (t : task) (s : st) : lres :=
    match op (as_bool (fst t)) (as_bool (snd t)) with
    | Some c => LOk (of_bool c) s
    | None => match tfind t (finished s) with Some p => LOk p s | None => proc t s end
    end.

  Fixpoint process_l (limit : N) (fuel : nat) (t : task) (s : st) : lres :=
    match fuel with O => LFuel | S f =>
      let dv := level t in
      let swap := oeq fo dv in
      let '(t1, t2) := if swap then (t_lo t, t_hi t) else (t_hi t, t_lo t) in
      match ensure_l (process_l limit f) t1 s with LAbort => LAbort | LFuel => LFuel | LOk p1 s1 =>
      match ensure_l (process_l limit f) t2 s1 with LAbort => LAbort | LFuel => LFuel | LOk p2 s2 =>
        let '(plo, phi) := if swap then (p1, p2) else (p2, p1) in
        let s3 := set_ne s2 ((plo =? 1) || (phi =? 1)) in
        let '(p, s4) := if swap then mk s3 dv phi plo else mk s3 dv plo phi in
        if (size (nodes s3) <? size (nodes s4)) && (limit <? size (nodes s4)) then LAbort
        else LOk p (memo s4 t p)
      end end
    end.

  (* None = fuel exhausted (excluded by the theorems); Some None = the Rust `None` *)
  Definition apply2_limit (limit : N) : option (option bdd) :=
    if limit =? 0 then Some None else
    match process_l limit (S (S (N.to_nat (nvars A)))) root s0 with
    | LFuel => None
    | LAbort => Some None
    | LOk _ s => Some (if nonempty s
                       then (if limit <? size (nodes s) then None else Some (nodes s))
                       else Some [zero])
    end.

  (* ---- dry run: count reachable non-terminal tasks, remember whether a terminal task answers true ---- *)
  Record dst := mkD { visited : list task; dcount : N; dflag : bool }.
  Inductive dres := DAbort | DFuel | DOk (s : dst).
  Definition tmem (t : task) (l : list task) := existsb (task_eqb t) l.

  Fixpoint dry (limit : N) (fuel : nat) (t : task) (s : dst) : dres :=
    match fuel with O => DFuel | S f =>
      match op (as_bool (fst t)) (as_bool (snd t)) with
      | Some c => DOk (mkD (visited s) (dcount s) (dflag s || c))
      | None =>
        if tmem t (visited s) then DOk s else
        let s1 := mkD (t :: visited s) (dcount s + 1) (dflag s) in
        if limit <? dcount s1 then DAbort else
        let swap := oeq fo (level t) in
        let '(t1, t2) := if swap then (t_lo t, t_hi t) else (t_hi t, t_lo t) in
        match dry limit f t1 s1 with DAbort => DAbort | DFuel => DFuel | DOk s2 => dry limit f t2 s2 end
      end
    end.

  Definition dry_run (limit : N) : option (option (bool * N)) :=
    match dry limit (S (S (S (N.to_nat (nvars A))))) root (mkD [] 0 false) with
    | DFuel => None
    | DAbort => Some None
    | DOk s => Some (Some (dflag s, dcount s))
    end.
End Apply.

(* ---- API-level wrapper with the two panics of the Rust entry points ---- *)
Inductive outcome (T : Type) := Ok (x : T) | Panic | OutOfFuel.
Arguments Ok {T} x. Arguments Panic {T}. Arguments OutOfFuel {T}.

Definition flip_ok (nv : N) (f : option N) : bool := match f with Some x => x <? nv | None => true end.

Definition guard2 {T} (A B : bdd) (fa fb fo : option N) (k : outcome T) : outcome T :=
  if negb (nvars A =? nvars B) then Panic
  else if negb (flip_ok (nvars A) fa && flip_ok (nvars A) fb && flip_ok (nvars A) fo) then Panic
  else k.

Definition of_option {T} (o : option T) : outcome T := match o with Some x => Ok x | None => OutOfFuel end.

Definition fused_binary_flip_op (A B : bdd) (fa fb fo : option N) (op : op2) : outcome bdd :=
  guard2 A B fa fb fo (of_option (apply2 A B fa fb fo op)).
Definition binary_op (A B : bdd) (op : op2) : outcome bdd := fused_binary_flip_op A B None None None op.
Definition fused_binary_flip_op_with_limit (limit : N) (A B : bdd) (fa fb fo : option N) (op : op2) : outcome (option bdd) :=
  guard2 A B fa fb fo (of_option (apply2_limit A B fa fb fo op limit)).
Definition check_fused_binary_flip_op (limit : N) (A B : bdd) (fa fb fo : option N) (op : op2) : outcome (option (bool * N)) :=
  guard2 A B fa fb fo (of_option (dry_run A B fa fb fo op limit)).

(* ---- operator tables (op_function.rs) ---- *)
Definition op_and (l r : option bool) : option bool :=
  match l, r with
  | Some true, Some true => Some true
  | Some false, _ => Some false
  | _, Some false => Some false
  | _, _ => None end.
Definition op_or (l r : option bool) : option bool :=
  match l, r with
  | Some false, Some false => Some false
  | Some true, _ => Some true
  | _, Some true => Some true
  | _, _ => None end.
Definition op_imp (l r : option bool) : option bool :=
  match l, r with
  | Some true, Some false => Some false
  | Some false, _ => Some true
  | _, Some true => Some true
  | _, _ => None end.
Definition op_iff (l r : option bool) : option bool :=
  match l, r with Some a, Some b => Some (Bool.eqb a b) | _, _ => None end.
Definition op_xor (l r : option bool) : option bool :=
  match l, r with Some a, Some b => Some (xorb a b) | _, _ => None end.
Definition op_and_not (l r : option bool) : option bool :=
  match l, r with
  | Some false, _ => Some false
  | _, Some true => Some false
  | Some true, Some false => Some true
  | _, _ => None end.

(* a table given as 9 entries, index 3*i(l)+i(r) with i(None)=0, i(Some false)=1, i(Some true)=2 *)
Definition oidx (x : option bool) : nat := match x with None => 0 | Some false => 1 | Some true => 2 end.
Definition op_of_table (t : list (option bool)) : op2 := fun l r => nth (3 * oidx l + oidx r) t None.
(* the lazy table of a connective: answers only on total inputs *)
Definition lazy_op (f : bool -> bool -> bool) : op2 :=
  fun l r => match l, r with Some a, Some b => Some (f a b) | _, _ => None end.
