(* Model/Conc.v — interleaving model for C19: a shared immutable pool, n threads each executing a
   list of operations that read the pool and the thread's own earlier results and append one
   result to the thread's local store; any thread may take the next step.
   Granularity: abstract state machine. The premise it encodes — an operation's result is a function of
   (pool, own locals, operation) and nothing is written to shared state — is NOT proved about the Rust;
   it is validated on every run by the source scan, the Send+Sync assertions and the dynamic
   correspondence (threads vs sequential vs repeated runs, operand bytes before/after). *)
From Coq Require Import List.
Import ListNotations.

Section Conc.
  Variables (value op : Type).
  Variable exec : list value -> list value -> op -> value.   (* pool, own locals so far, operation *)

  Definition thread := (list value * list op)%type.          (* local results (oldest first), remaining program *)
  Definition config := list thread.

  Definition step_thread (pool : list value) (t : thread) : thread :=
    match snd t with
    | [] => t
    | o :: r => (fst t ++ [exec pool (fst t) o], r)
    end.

  Fixpoint step_at (pool : list value) (i : nat) (c : config) : config :=
    match c, i with
    | [], _ => []
    | t :: r, O => step_thread pool t :: r
    | t :: r, S k => t :: step_at pool k r
    end.

  (* a schedule is the sequence of thread indices that take a step; indices out of range or of finished threads are no-ops *)
  Fixpoint run_sched (pool : list value) (sched : list nat) (c : config) : config :=
    match sched with
    | [] => c
    | i :: r => run_sched pool r (step_at pool i c)
    end.

  Fixpoint run_seq (pool : list value) (locals : list value) (prog : list op) : list value :=
    match prog with
    | [] => locals
    | o :: r => run_seq pool (locals ++ [exec pool locals o]) r
    end.

  Definition init (progs : list (list op)) : config := map (fun p => ([], p)) progs.
  Definition finished (c : config) : Prop := forall t, In t c -> snd t = [].
End Conc.
