(* Model/VarSet.v — BddVariableSetBuilder / BddVariableSet: names <-> variables.
   Definitions only.  Granularity: step-faithful.
   * names are byte strings (`list N`, the UTF-8 bytes of the Rust `&str`).  The forbidden-character test of the
     Rust (`name.chars().any(|c| NOT_IN_VAR_NAME.contains(&c))`) ranges over code points, but all eleven forbidden
     characters are ASCII and a UTF-8 multi-byte sequence never contains an ASCII byte, so the test on bytes is the
     same test.  The empty name is NOT rejected by the Rust, hence not here.
   * `Vec<String>` = list in declaration order; `HashSet<String>` (builder) = membership in that list (the two
     private fields are only ever updated together); `HashMap<String,u16>` = association list with replacing
     insert (`smap_insert`), built by the same sequence of inserts as the Rust loop / `collect`.
   * every panic of the Rust is an explicit `Panic`: the size limit `len >= u16::MAX - 1` (= 65534), a duplicate
     name, a forbidden character, `HashMap::len != Vec::len` in `BddVariableSet::new`, the index in `name_of`,
     the `unwrap_or_else(panic)` of `mk_var_by_name`.  The narrowing casts `as u16` are modelled as `mod 65536`.
   * `format!("x_{}", i)` and Display: decimal printing of an index is `decimal` (most significant digit first,
     "0" for zero), recursion on explicit fuel (the bit length of the number; never exhausted: Proofs/VarSet.v dec_value_decimal). *)
From Coq Require Import List NArith Bool.
Import ListNotations.
From BddVerif Require Import Model.Bdd Model.Apply Model.Ops.
Open Scope N_scope.

Definition name := list N.

Fixpoint name_eqb (a b : name) : bool :=
  match a, b with
  | [], [] => true
  | x :: a', y :: b' => (x =? y) && name_eqb a' b'
  | _, _ => false
  end.
Definition name_mem (s : name) (l : list name) : bool := existsb (name_eqb s) l.

(* lib.rs: const NOT_IN_VAR_NAME: [char; 11] = ['!', '&', '|', '^', '=', '<', '>', '(', ')', '?', ':'] *)
Definition NOT_IN_VAR_NAME : list N := [33; 38; 124; 94; 61; 60; 62; 40; 41; 63; 58].
Definition name_bad (s : name) : bool := existsb (fun c => existsb (N.eqb c) NOT_IN_VAR_NAME) s.

(* (u16::MAX - 1) as usize *)
Definition MAX_VARS : N := 65534.
Definition as_u16 (x : N) : N := x mod 65536.

(* ---- decimal printing (Display for integers) ---- *)
Fixpoint dec_fuel (fuel : nat) (n : N) (acc : list N) : list N :=
  match fuel with
  | O => acc
  | S f => let acc' := (48 + n mod 10) :: acc in
           if n / 10 =? 0 then acc' else dec_fuel f (n / 10) acc'
  end.
Fixpoint dec_pos_bits (p : positive) : nat := match p with xH => 1%nat | xO q | xI q => S (dec_pos_bits q) end.
Definition dec_nbits (n : N) : nat := match n with N0 => O | Npos p => dec_pos_bits p end.      (* bit length *)
Definition decimal (n : N) : list N := dec_fuel (S (dec_nbits n)) n [].

(* ---- the builder ---- *)
Definition builder := list name.           (* var_names; var_names_set = the same elements *)
Definition builder_new : builder := [].

Definition make_variable (bl : builder) (s : name) : outcome (builder * N) :=
  let id := N.of_nat (length bl) in
  if MAX_VARS <=? id then Panic
  else if name_mem s bl then Panic
  else if name_bad s then Panic
  else Ok (bl ++ [s], as_u16 id).

(* names.iter().map(|name| self.make_variable(name)).collect(): stops at the first panic *)
Fixpoint make_variables (bl : builder) (ss : list name) : outcome (builder * list N) :=
  match ss with
  | [] => Ok (bl, [])
  | s :: r => bind (make_variable bl s) (fun bi =>
              bind (make_variables (fst bi) r) (fun bis => Ok (fst bis, snd bi :: snd bis)))
  end.

(* a sequence of make_variable calls each under its own catch_unwind: a panicking call leaves the builder
   unchanged (both checks precede the two inserts) *)
Fixpoint make_variable_steps (bl : builder) (ss : list name) : builder * list (outcome N) :=
  match ss with
  | [] => (bl, [])
  | s :: r => match make_variable bl s with
              | Ok bi => let '(b', os) := make_variable_steps (fst bi) r in (b', Ok (snd bi) :: os)
              | Panic => let '(b', os) := make_variable_steps bl r in (b', Panic :: os)
              | OutOfFuel => let '(b', os) := make_variable_steps bl r in (b', OutOfFuel :: os)
              end
  end.

(* ---- HashMap<String, u16> ----
   association list, newest binding first: `insert` conses (an older binding of the same key becomes unreachable),
   `get` returns the first match, `len` counts the distinct keys *)
Definition smap := list (name * N).
Definition smap_insert (m : smap) (k : name) (v : N) : smap := (k, v) :: m.
Fixpoint smap_get (m : smap) (k : name) : option N :=
  match m with
  | [] => None
  | (k', v') :: r => if name_eqb k k' then Some v' else smap_get r k
  end.
Fixpoint distinct (l : list name) : list name :=
  match l with
  | [] => []
  | s :: r => if name_mem s r then distinct r else s :: distinct r
  end.
Definition smap_len (m : smap) : N := N.of_nat (length (distinct (map fst m))).
(* for name_index in 0..len { mapping.insert(name, name_index as u16) } *)
Fixpoint build_map_from (i : N) (names : list name) (m : smap) : smap :=
  match names with
  | [] => m
  | s :: r => build_map_from (i + 1) r (smap_insert m s (as_u16 i))
  end.
Definition build_map (names : list name) : smap := build_map_from 0 names [].

Record varset := mkVarSet { vs_num : N; vs_names : list name; vs_map : smap }.

Definition build (bl : builder) : varset :=
  mkVarSet (as_u16 (N.of_nat (length bl))) bl (build_map bl).

(* BddVariableSet::from(Vec<String>) / from_iter: the builder fed with every name, then build *)
Definition vs_from (names : list name) : outcome varset :=
  bind (make_variables builder_new names) (fun bis => Ok (build (fst bis))).

(* BddVariableSet::new(&[&str]) *)
Definition vs_new (names : list name) : outcome varset :=
  let n := N.of_nat (length names) in
  if MAX_VARS <=? n then Panic
  else if existsb name_bad names then Panic
  else let m := build_map names in
       if negb (smap_len m =? N.of_nat (length names)) then Panic
       else Ok (mkVarSet (as_u16 n) names m).

(* BddVariableSet::new_anonymous(num_vars: u16) *)
Definition anon_name (i : N) : name := [120; 95] ++ decimal i.           (* "x_{i}" *)
Fixpoint nrange (k : nat) (i : N) : list N := match k with O => [] | S k' => i :: nrange k' (i + 1) end.   (* i .. i+k-1 *)
Definition anon_names (n : N) : list name := map anon_name (nrange (N.to_nat n) 0).
Definition new_anonymous (n : N) : outcome varset :=
  if MAX_VARS <=? n then Panic
  else Ok (mkVarSet n (anon_names n) (build_map (anon_names n))).

(* ---- queries ---- *)
Definition num_vars (vs : varset) : N := vs_num vs.
Definition var_by_name (vs : varset) (s : name) : option N := smap_get (vs_map vs) s.
Definition variables (vs : varset) : list N := nrange (N.to_nat (vs_num vs)) 0.
Definition variable_names (vs : varset) : list name := vs_names vs.
Definition name_of (vs : varset) (v : N) : outcome name :=
  match nth_error (vs_names vs) (N.to_nat v) with Some s => Ok s | None => Panic end.
Definition mk_var_by_name (vs : varset) (s : name) (c : bool) : outcome bdd :=
  match var_by_name vs s with
  | Some v => vs_mk_literal (vs_num vs) v c
  | None => Panic
  end.

(* Display: "[]" or "[n0,n1,...]" *)
Definition display (vs : varset) : list N :=
  match vs_names vs with
  | [] => [91; 93]
  | s :: r => [91] ++ s ++ flat_map (fun t => 44 :: t) r ++ [93]
  end.
