(* Model/Hash.v — the derived `Hash` of `Bdd(Vec<BddNode>)` (src/lib.rs: `#[derive(Clone, Debug, Eq, Hash, PartialEq)]
   pub struct Bdd(Vec<BddNode>)`, `#[derive(.., Hash, ..)] pub struct BddNode { var: BddVariable, low_link: BddPointer,
   high_link: BddPointer }`, `BddVariable(u16)`, `BddPointer(u32)`, all with derived Hash).   Definitions only.

   Granularity: STEP-FAITHFUL in the sequence of `Hasher::write_*` calls (the Hasher itself is the caller's).
   * the derive on the tuple struct hashes its single field: `Vec<T>::hash` = `<[T]>::hash` = `state.write_length_prefix(len)`
     (= `write_usize(len)`) followed by `Hash::hash_slice`, which for a non-primitive element type calls `hash` on every
     element in order;
   * the derive on BddNode hashes the fields in declaration order: `var` (`write_u16`), `low_link` (`write_u32`),
     `high_link` (`write_u32`).
   As in Model/Valuation.v (`pv_hash_stream`) each call is recorded as the separator `hash_sep` (0xfe) followed by the
   native-endian bytes of the written integer (little endian on the checked platform; usize = 8 bytes).  The numbers are
   unbounded N: `le_bytes k` keeps the low k bytes, which is the stored value whenever the diagram is in range
   (var < 2^16, links < 2^32, length < 2^64). *)
From Coq Require Import List NArith Bool.
Import ListNotations.
From BddVerif Require Import Model.Bdd Model.Valuation.
Open Scope N_scope.

Definition hash_call (width : nat) (x : N) : list N := hash_sep :: le_bytes width x.
Definition node_hash_calls (n : node) : list N :=
  hash_call 2 (nvar n) ++ hash_call 4 (nlow n) ++ hash_call 4 (nhigh n).
Definition bdd_hash_stream (b : bdd) : list N := hash_call 8 (size b) ++ flat_map node_hash_calls b.

(* `==` (derived PartialEq/Eq on the same vector) is `bdd_eqb` of Model/OptDnf.v. *)
