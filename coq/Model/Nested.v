(* Model/Nested.v — the library's nested apply algorithm (src/_impl_bdd/_impl_nested_ops.rs):
   nested_apply (outer engine over pairs of pointers into the two operands), inner_apply (inner
   engine over pairs of pointers into the GROWING result store, task cache shared by all inner
   invocations) and fix_bdd_alignment (DFS post-order copy of the part reachable from the final
   root, high child first).  Definitions only.
   Granularity: order-faithful functional — "ensure high; ensure low; resolve" creates nodes in the
   same order as the Rust stack machines (push low, push high, pop high first); the explicit stacks
   are not modelled.  Differences to the binary engine of Model/Apply.v, all taken from the Rust:
   no flips, no `is_not_empty` flag, the resolve step of the outer engine calls the inner engine
   when the two sub-results differ and the trigger holds for the decision variable, the root task of
   either engine gets a cache lookup but no terminal-table lookup, and the result array is rebuilt by
   fix_alignment (constants handled separately). *)
From Coq Require Import List NArith Bool.
Import ListNotations.
From BddVerif Require Import Model.Bdd Model.Apply.
Open Scope N_scope.

(* result store, node cache, outer task cache, inner task cache *)
Record nst := mkN { nn : list node; nex : list (node * N); nouter : list (task * N); ninner : list (task * N) }.

(* "if new_low == new_high {skip} else if let Some(index) = node_cache.get(&node) {..} else {push_node}" *)
Definition nmk (s : nst) (d lo hi : N) : N * nst :=
  if lo =? hi then (lo, s) else
  let n := mkNode d lo hi in
  match nfind n (nex s) with
  | Some p => (p, s)
  | None => let p := size (nn s) in (p, mkN (nn s ++ [n]) ((n, p) :: nex s) (nouter s) (ninner s))
  end.
Definition imemo (s : nst) (t : task) (p : N) : nst := mkN (nn s) (nex s) (nouter s) ((t, p) :: ninner s).
Definition omemo (s : nst) (t : task) (p : N) : nst := mkN (nn s) (nex s) ((t, p) :: nouter s) (ninner s).

(* ---- inner_apply: both "operands" are the store itself ---- *)
Section Inner.
  Variable inner : op2.

  Definition iensure (proc : task -> nst -> option (N * nst)) (t : task) (s : nst) : option (N * nst) :=
    match inner (as_bool (fst t)) (as_bool (snd t)) with
    | Some c => Some (of_bool c, s)
    | None => match tfind t (ninner s) with Some p => Some (p, s) | None => proc t s end
    end.

  Fixpoint iproc (fuel : nat) (t : task) (s : nst) : option (N * nst) :=
    match fuel with O => None | S f =>
      let G := nn s in
      let dv := level G G t in
      let thi := t_hi G G None None t in
      let tlo := t_lo G G None None t in
      match iensure (iproc f) thi s with None => None | Some (phi, s1) =>
      match iensure (iproc f) tlo s1 with None => None | Some (plo, s2) =>
        let '(p, s3) := nmk s2 dv plo phi in
        Some (p, imemo s3 t p)
      end end
    end.

  (* the root task: cache lookup, NO terminal lookup *)
  Definition inner_apply (l r : N) (s : nst) : option (N * nst) :=
    match tfind (l, r) (ninner s) with
    | Some p => Some (p, s)
    | None => iproc (S (S (N.to_nat (nvars (nn s))))) (l, r) s
    end.
End Inner.

(* ---- fix_bdd_alignment ---- *)
Fixpoint pfind (k : N) (m : list (N * N)) : option N :=
  match m with [] => None | (k', v) :: r => if k =? k' then Some v else pfind k r end.

(* returns (new pointer, new array, pointer map) *)
Fixpoint copy (fuel : nat) (G : bdd) (p : N) (acc : list node) (pm : list (N * N))
  : option (N * (list node * list (N * N))) :=
  match fuel with O => None | S f =>
    if p <? 2 then Some (p, (acc, pm)) else
    match pfind p pm with
    | Some q => Some (q, (acc, pm))
    | None =>
      let n := get G p in
      match copy f G (nhigh n) acc pm with None => None | Some (qh, (acc1, pm1)) =>
      match copy f G (nlow n) acc1 pm1 with None => None | Some (ql, (acc2, pm2)) =>
        let q := size acc2 in
        Some (q, (acc2 ++ [mkNode (nvar n) ql qh], (p, q) :: pm2))
      end end
    end
  end.

Definition fix_alignment (G : bdd) (root : N) : option bdd :=
  let nv := nvars G in
  if root =? 0 then Some (mk_false nv) else
  if root =? 1 then Some (mk_true nv) else
  match copy (S (S (N.to_nat nv))) G root (mk_true nv) [] with
  | Some (_, (acc, _)) => Some acc
  | None => None
  end.

(* ---- nested_apply ---- *)
Section Nested.
  Variables (A B : bdd) (trigger : N -> bool) (outer inner : op2).

  Definition oensure (proc : task -> nst -> option (N * nst)) (t : task) (s : nst) : option (N * nst) :=
    match outer (as_bool (fst t)) (as_bool (snd t)) with
    | Some c => Some (of_bool c, s)
    | None => match tfind t (nouter s) with Some p => Some (p, s) | None => proc t s end
    end.

  Definition resolve (dv plo phi : N) (s : nst) : option (N * nst) :=
    if plo =? phi then Some (plo, s)
    else if trigger dv then inner_apply inner plo phi s
    else Some (nmk s dv plo phi).

  Fixpoint oproc (fuel : nat) (t : task) (s : nst) : option (N * nst) :=
    match fuel with O => None | S f =>
      let dv := level A B t in
      match oensure (oproc f) (t_hi A B None None t) s with None => None | Some (phi, s1) =>
      match oensure (oproc f) (t_lo A B None None t) s1 with None => None | Some (plo, s2) =>
      match resolve dv plo phi s2 with None => None | Some (p, s3) =>
        Some (p, omemo s3 t p)
      end end end
    end.

  Definition n0 : nst := mkN [zero A; one A] [(zero A, 0); (one A, 1)] [] [].

  Definition nested_run : option (N * nst) := oproc (S (S (N.to_nat (nvars A)))) (root A B) n0.

  Definition nested_apply : option bdd :=
    match nested_run with
    | None => None
    | Some (p, s) => fix_alignment (nn s) p
    end.

  (* the "Var count mismatch" panic of nested_apply *)
  Definition nested_apply_fn : outcome bdd :=
    if negb (nvars A =? nvars B) then Panic else of_option nested_apply.
End Nested.

(* Bdd::binary_op_nested with the trigger predicate given as a bit list (variables beyond it are not triggered) *)
Definition nested_apply_faithful (A B : bdd) (trig : list bool) (outer inner : op2) : outcome bdd :=
  nested_apply_fn A B (fun x => nth (N.to_nat x) trig false) outer inner.

(* Bdd::binary_op_with_exists / binary_op_with_for_all / exists / for_all : trigger = membership in the variable list *)
Definition mem_trigger (vars : list N) (x : N) : bool := existsb (N.eqb x) vars.
Definition binary_op_with_exists_faithful (a b : bdd) (op : op2) (vars : list N) : outcome bdd :=
  nested_apply_fn a b (mem_trigger vars) op op_or.
Definition binary_op_with_for_all_faithful (a b : bdd) (op : op2) (vars : list N) : outcome bdd :=
  nested_apply_fn a b (mem_trigger vars) op op_and.
Definition bdd_exists_faithful (b : bdd) (vars : list N) : outcome bdd := binary_op_with_exists_faithful b b op_and vars.
Definition bdd_for_all_faithful (b : bdd) (vars : list N) : outcome bdd := binary_op_with_for_all_faithful b b op_and vars.
