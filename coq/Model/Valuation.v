(* Model/Valuation.v — BddPartialValuation (src/_impl_bdd_partial_valuation.rs), the conversions of
   BddValuation (src/_impl_bdd_valuation.rs) and the comparators of src/_impl_bdd/_impl_sort.rs.
   Granularity: step-faithful for set_value/unset_value/IndexMut (mut_cell pads the vector with None up to the
   index for BOTH set and unset: `pv_set` of Model/Ops.v), get_value, to_values, last_fixed_variable, cardinality,
   the Hash stream (the exact sequence of Hasher::write calls: `write_usize(var)` then `write_u8(value)` for every
   fixed cell in ascending order; each call is recorded as the separator 0xfe followed by the native-endian bytes,
   usize = 8 bytes little-endian on the checked platform), the conversions and `extends`
   (BddPartialValuation::extends runs over the usize length; BddValuation::num_vars() is `len as u16`, modelled as
   `len mod 65536`; TryFrom rejects vectors longer than u16::MAX first);
   I/O-equivalent for PartialEq and the two `extends` (loops without side effects over indices, here one structural
   recursion walking the vectors in step) and for
   cmp_structural (Iterator::cmp of the (var, low, high) triples = lexicographic order, a proper prefix is Less).
   cmp_cardinality(_strict) are parametrised by the count function (`exact_cardinality` is modelled elsewhere); the
   correspondence driver instantiates them with `Count.exact_cardinality` (through the memoised, proved-equal
   `CountFast.exact_cardinality_auto`); `card_bf` below is a brute-force count kept for small cross-checks.
   Definitions only. *)
From Coq Require Import List NArith Bool.
Import ListNotations.
From BddVerif Require Import Model.Bdd Model.Apply Model.Ops.
Open Scope N_scope.

(* ---- construction ---- *)
Definition pv_empty : pval := [].
Definition pv_set_value (p : pval) (x : N) (c : bool) : pval := pv_set p (N.to_nat x) (Some c).
Definition pv_unset_value (p : pval) (x : N) : pval := pv_set p (N.to_nat x) None.
Definition pv_of_valuation (v : list bool) : pval := map Some v.          (* From<BddValuation> *)

(* one step of a construction history *)
Inductive pv_op := OpSet (x : N) (c : bool) | OpUnset (x : N) | OpIndex (x : N) (c : option bool).
Definition pv_step (p : pval) (o : pv_op) : pval :=
  match o with
  | OpSet x c => pv_set_value p x c
  | OpUnset x => pv_unset_value p x
  | OpIndex x c => pv_set p (N.to_nat x) c
  end.
Definition pv_run (start : pval) (ops : list pv_op) : pval := fold_left pv_step ops start.

(* ---- observers ---- *)
Definition is_none (c : option bool) : bool := match c with None => true | Some _ => false end.
Definition pv_is_empty (p : pval) : bool := forallb is_none p.
Definition count_some (p : pval) : N := N.of_nat (length (filter (fun c => negb (is_none c)) p)).
(* u16::try_from(count).unwrap() *)
Definition pv_cardinality (p : pval) : outcome N := let n := count_some p in if n <? 65536 then Ok n else Panic.
Fixpoint last_fixed_from (i : N) (p : pval) (acc : option N) : option N :=
  match p with
  | [] => acc
  | c :: r => last_fixed_from (i + 1) r (if is_none c then acc else Some i)
  end.
Definition pv_last_fixed_variable (p : pval) : option N := last_fixed_from 0 p None.
Definition pv_has_value (p : pval) (x : N) : bool := negb (is_none (pv_get p x)).
Definition pv_to_values (p : pval) : list (N * bool) := pv_cells p.
Fixpoint val_cells_from (i : N) (v : list bool) : list (N * bool) :=
  match v with [] => [] | c :: r => (i, c) :: val_cells_from (i + 1) r end.
Definition val_to_values (v : list bool) : list (N * bool) := val_cells_from 0 v.

(* ---- PartialEq ---- *)
Definition cell_eqb (a b : option bool) : bool :=
  match a, b with
  | None, None => true
  | Some x, Some y => Bool.eqb x y
  | _, _ => false
  end.
Fixpoint pv_eq (a b : pval) : bool :=
  match a, b with
  | [], _ => forallb is_none b
  | _, [] => forallb is_none a
  | x :: a', y :: b' => cell_eqb x y && pv_eq a' b'
  end.

(* ---- Hash ---- *)
Fixpoint le_bytes (n : nat) (x : N) : list N :=
  match n with O => [] | S k => (x mod 256) :: le_bytes k (x / 256) end.
Definition hash_sep : N := 254.
Fixpoint pv_hash_from (i : N) (p : pval) : list N :=
  match p with
  | [] => []
  | None :: r => pv_hash_from (i + 1) r
  | Some c :: r => (hash_sep :: le_bytes 8 i) ++ [hash_sep; if c then 1 else 0] ++ pv_hash_from (i + 1) r
  end.
Definition pv_hash_stream (p : pval) : list N := pv_hash_from 0 p.

(* ---- conversions ---- *)
Definition len16 {T} (l : list T) : N := N.of_nat (length l) mod 65536.        (* `len as u16` *)
Fixpoint all_some (p : pval) : option (list bool) :=
  match p with
  | [] => Some []
  | None :: _ => None
  | Some c :: r => match all_some r with Some l => Some (c :: l) | None => None end
  end.
(* TryFrom<BddPartialValuation> for BddValuation: Some v = Ok(v), None = Err(()) *)
Definition valuation_of_pv (p : pval) : option (list bool) :=
  if 65535 <? N.of_nat (length p) then None else all_some (firstn (N.to_nat (len16 p)) p).

(* ---- extends ---- *)
(* `for var_id in 0..valuation.0.len()`: both vectors are walked in step; get_value beyond the end of `self` is None *)
Definition fixed_agrees (mine : option bool) (expected : option bool) : bool :=
  match expected with Some c => cell_eqb mine (Some c) | None => true end.
Fixpoint pv_extends (self other : pval) : bool :=
  match other with
  | [] => true
  | e :: r => fixed_agrees (hd None self) e && pv_extends (tl self) r
  end.
(* BddValuation::extends: `for var_id in 0..self.num_vars()` with num_vars() = `len as u16` *)
Fixpoint val_extends_cells (self : list bool) (p : pval) : bool :=
  match self, p with
  | [], _ => true
  | _, [] => true
  | b :: r, c :: p' => (match c with Some v => Bool.eqb v b | None => true end) && val_extends_cells r p'
  end.
Definition val_extends (self : list bool) (p : pval) : bool :=
  val_extends_cells (firstn (N.to_nat (len16 self)) self) p.

(* ---- comparators ---- *)
Definition ord_of (c : comparison) : ord := match c with Lt => OLt | Eq => OEq | Gt => OGt end.
Definition cmp_size (a b : bdd) : ord := ord_of (size a ?= size b).
Definition then_cmp (c : comparison) (k : comparison) : comparison := match c with Eq => k | _ => c end.
Definition node_cmp (x y : node) : comparison :=
  then_cmp (nvar x ?= nvar y) (then_cmp (nlow x ?= nlow y) (nhigh x ?= nhigh y)).
Fixpoint struct_cmp (a b : bdd) : comparison :=
  match a, b with
  | [], [] => Eq
  | [], _ :: _ => Lt
  | _ :: _, [] => Gt
  | x :: a', y :: b' => then_cmp (node_cmp x y) (struct_cmp a' b')
  end.
Definition cmp_structural (a b : bdd) : ord := ord_of (struct_cmp a b).

Definition cmp_cardinality_with (card : bdd -> N) (a b : bdd) : ord := ord_of (card a ?= card b).
Definition cmp_cardinality_strict_with (card : bdd -> N) (a b : bdd) : option ord :=
  if nvars a =? nvars b then Some (cmp_cardinality_with card a b) else None.

(* brute-force model count over the diagram's own variable count (the specification of exact_cardinality) *)
Fixpoint all_vals (n : nat) : list (list bool) :=
  match n with
  | O => [[]]
  | S k => map (cons false) (all_vals k) ++ map (cons true) (all_vals k)
  end.
Definition card_bf (b : bdd) : N :=
  N.of_nat (length (filter (fun l => eval b (val_of_list l)) (all_vals (N.to_nat (nvars b))))).
Definition cmp_cardinality (a b : bdd) : ord := cmp_cardinality_with card_bf a b.
Definition cmp_cardinality_strict (a b : bdd) : option ord := cmp_cardinality_strict_with card_bf a b.
