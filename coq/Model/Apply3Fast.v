(* Model/Apply3Fast.v — an efficient executable version of the ternary apply engine of Model/Apply3.v
   (process3 / apply3 / fused_ternary_flip_op_faithful, i.e. the Rust loop `ternary_apply`).  Definitions only;
   Proofs/Apply3Fast.v proves apply3_fast = apply3 and fused_ternary_flip_op_faithful_fast =
   fused_ternary_flip_op_faithful WITHOUT hypotheses, so every theorem about the reference engine transfers.
   Granularity: the same as Model/Apply3.v (order-faithful functional); only the data structures differ, as in
   Model/ApplyFast.v: the three operands are loaded once into PositiveMaps, the memo table `finished` is a
   THREE-level PositiveMap keyed by the task triple, the unique table `existing` a three-level PositiveMap
   keyed by (variable, low, high), the result store a reversed list plus its length. *)
From Coq Require Import List NArith Bool FMapPositive.
Import ListNotations.
From BddVerif Require Import Model.Bdd Model.Apply Model.Ops Model.ApplyFast Model.Apply3.
Open Scope N_scope.

(* a task triple is stored in a three-level map exactly like a node triple *)
Definition t3node (t : task3) : node := mkNode (t3a t) (t3b t) (t3c t).
Definition tfind3F (t : task3) (m : nmap) : option N := nfindF (t3node t) m.
Definition tadd3F (t : task3) (v : N) (m : nmap) : nmap := naddF (t3node t) v m.

Record fstate3 := mkF3 { rnodes3 : list node; rsize3 : N; fexisting3 : nmap; ffinished3 : nmap; fnonempty3 : bool }.

Definition pushF3 (s : fstate3) (n : node) : N * fstate3 :=
  let p := rsize3 s in
  (p, mkF3 (n :: rnodes3 s) (N.succ p) (naddF n p (fexisting3 s)) (ffinished3 s) (fnonempty3 s)).
Definition memoF3 (s : fstate3) (t : task3) (p : N) : fstate3 :=
  mkF3 (rnodes3 s) (rsize3 s) (fexisting3 s) (tadd3F t p (ffinished3 s)) (fnonempty3 s).
Definition set_neF3 (s : fstate3) (b : bool) : fstate3 :=
  mkF3 (rnodes3 s) (rsize3 s) (fexisting3 s) (ffinished3 s) (fnonempty3 s || b).
Definition mkF3_node (s : fstate3) (d lo hi : N) : N * fstate3 :=
  if lo =? hi then (lo, s) else
  let n := mkNode d lo hi in
  match nfindF n (fexisting3 s) with Some p => (p, s) | None => pushF3 s n end.

Section Apply3Fast.
  Variables (MA MB MC : arr) (fa fb fc fo : option N) (op : op3).

  Definition ensure_with3F (proc : task3 -> fstate3 -> option (N * fstate3)) (t : task3) (s : fstate3) : option (N * fstate3) :=
    match op (as_bool (t3a t)) (as_bool (t3b t)) (as_bool (t3c t)) with
    | Some c => Some (of_bool c, s)
    | None => match tfind3F t (ffinished3 s) with Some p => Some (p, s) | None => proc t s end
    end.

  Definition level3F (t : task3) : N :=
    N.min (nvar (aget MA (t3a t))) (N.min (nvar (aget MB (t3b t))) (nvar (aget MC (t3c t)))).
  Definition t_lo3F (t : task3) : task3 :=
    let dv := level3F t in
    (fst (kidsF MA fa (t3a t) dv), fst (kidsF MB fb (t3b t) dv), fst (kidsF MC fc (t3c t) dv)).
  Definition t_hi3F (t : task3) : task3 :=
    let dv := level3F t in
    (snd (kidsF MA fa (t3a t) dv), snd (kidsF MB fb (t3b t) dv), snd (kidsF MC fc (t3c t) dv)).

  Fixpoint process3F (fuel : nat) (t : task3) (s : fstate3) : option (N * fstate3) :=
    match fuel with O => None | S f =>
      let dv := level3F t in
      let swap := oeq fo dv in
      let '(t1, t2) := if swap then (t_lo3F t, t_hi3F t) else (t_hi3F t, t_lo3F t) in
      match ensure_with3F (process3F f) t1 s with None => None | Some (p1, s1) =>
      match ensure_with3F (process3F f) t2 s1 with None => None | Some (p2, s2) =>
        let '(plo, phi) := if swap then (p1, p2) else (p2, p1) in
        let s3 := set_neF3 s2 ((plo =? 1) || (phi =? 1)) in
        let '(p, s4) := if swap then mkF3_node s3 dv phi plo else mkF3_node s3 dv plo phi in
        Some (p, memoF3 s4 t p)
      end end
    end.
End Apply3Fast.

Definition s0F3 (zero one : node) : fstate3 :=
  mkF3 [one; zero] 2 (naddF zero 0 (naddF one 1 (PositiveMap.empty _))) (PositiveMap.empty _) false.

Definition apply3_fast (A B C : bdd) (fa fb fc fo : option N) (op : op3) : option bdd :=
  let '(sa, MA) := load A 0 (PositiveMap.empty node) in
  let '(sb, MB) := load B 0 (PositiveMap.empty node) in
  let '(sc, MC) := load C 0 (PositiveMap.empty node) in
  let nv := nvar (aget MA 0) in
  let zero := mkNode nv 0 0 in
  let one := mkNode nv 1 1 in
  match process3F MA MB MC fa fb fc fo op (S (S (N.to_nat nv))) (sa - 1, sb - 1, sc - 1) (s0F3 zero one) with
  | None => None
  | Some (_, s) => Some (if fnonempty3 s then rev_append (rnodes3 s) [] else [zero])
  end.

(* same guards as the reference wrappers *)
Definition fused_ternary_flip_op_faithful_fast (A B C : bdd) (fa fb fc fo : option N) (op : op3) : outcome bdd :=
  guard3 A B C fa fb fc fo (of_option (apply3_fast A B C fa fb fc fo op)).
Definition ternary_op_faithful_fast (A B C : bdd) (op : op3) : outcome bdd :=
  fused_ternary_flip_op_faithful_fast A B C None None None None op.
Definition if_then_else_faithful_fast (A B C : bdd) : outcome bdd := ternary_op_faithful_fast A B C ite_function.
