(* Model/Bdd.v — diagrams as node arrays, evaluation, structural checkers.
   Definitions only (no proofs): the model must still run when a proof breaks.
   Granularity: step-faithful for eval (Bdd::eval_in walks from the root exactly like sem);
   the checkers wfb/reducedb/layoutb are specification-side and have no Rust counterpart. *)
From Coq Require Import List NArith Bool.
Import ListNotations.
Open Scope N_scope.

Record node := mkNode { nvar : N; nlow : N; nhigh : N }.
Definition node_eqb (a b : node) := (nvar a =? nvar b) && (nlow a =? nlow b) && (nhigh a =? nhigh b).

Definition bdd := list node.
Definition dnode := mkNode 0 0 0.
Definition get (b : bdd) (p : N) : node := nth (N.to_nat p) b dnode.
Definition size (b : bdd) : N := N.of_nat (length b).
Definition nvars (b : bdd) : N := nvar (get b 0).
Definition var_of b p := nvar (get b p).

Definition val := N -> bool.
Definition upd (v : val) (x : N) (c : bool) : val := fun y => if y =? x then c else v y.
Definition flipv (v : val) (x : N) : val := upd v x (negb (v x)).
Definition oflip (o : option N) (v : val) : val := match o with Some x => flipv v x | None => v end.

Fixpoint sem_fuel (fuel : nat) (b : bdd) (p : N) (v : val) : bool :=
  match fuel with
  | O => false
  | S f => if p <? 2 then (p =? 1)
           else let n := get b p in sem_fuel f b (if v (nvar n) then nhigh n else nlow n) v
  end.
Definition sem (b : bdd) (p : N) (v : val) := sem_fuel (S (N.to_nat (nvars b))) b p v.
Definition eval (b : bdd) (v : val) := sem b (size b - 1) v.

(* valuation given as a list of booleans (BddValuation); missing positions read as false *)
Definition val_of_list (l : list bool) : val := fun x => nth (N.to_nat x) l false.

(* ---- structural layout checker: DFS post-order, high child first, root last, nothing unreachable ---- *)
Fixpoint chk (fuel : nat) (G : bdd) (lim p : N) : option N :=
  match fuel with O => None | S f =>
    if p <? lim then Some lim else
    match chk f G lim (nhigh (get G p)) with None => None | Some l1 =>
    match chk f G l1 (nlow (get G p)) with None => None | Some l2 =>
    if p =? l2 then Some (l2 + 1) else None end end end.

Definition layoutb (b : bdd) : bool :=
  (size b =? 1) ||
  match chk (S (N.to_nat (nvars b))) b 2 (size b - 1) with Some l => l =? size b | None => false end.

(* indices 2 .. size-1 *)
Definition idxs (b : bdd) : list N := map N.of_nat (seq 2 (length b - 2)).

Definition wf_nodeb (b : bdd) (nv : N) (p : N) : bool :=
  let n := get b p in
  (nvar n <? nv) && (nlow n <? size b) && (nhigh n <? size b) &&
  (nvar n <? var_of b (nlow n)) && (nvar n <? var_of b (nhigh n)).

Definition wfb (b : bdd) : bool :=
  (1 <=? size b) &&
  node_eqb (get b 0) (mkNode (nvars b) 0 0) &&
  ((size b <? 2) || node_eqb (get b 1) (mkNode (nvars b) 1 1)) &&
  forallb (wf_nodeb b (nvars b)) (idxs b).

Definition reducedb (b : bdd) : bool :=
  forallb (fun p => negb (nlow (get b p) =? nhigh (get b p))) (idxs b) &&
  forallb (fun p => forallb (fun q => negb (node_eqb (get b p) (get b q)) || (p =? q)) (idxs b)) (idxs b).

Definition canonicalb (b : bdd) : bool := wfb b && reducedb b && layoutb b.

(* terminals *)
Definition mk_false (nv : N) : bdd := [mkNode nv 0 0].
Definition mk_true (nv : N) : bdd := [mkNode nv 0 0; mkNode nv 1 1].
Definition is_false (b : bdd) : bool := size b =? 1.
Definition is_true (b : bdd) : bool := size b =? 2.
