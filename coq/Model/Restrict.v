(* Model/Restrict.v — the dedicated single-pass restriction algorithm of
   src/_impl_bdd/_impl_relation_ops.rs (`fn restriction`, used by Bdd::restrict / Bdd::var_restrict).
   Definitions only.
   Granularity: ORDER-FAITHFUL functional.  The Rust runs an explicit DFS stack over the pointers of the
   operand with three pieces of state, all of which are modelled:
     * `output`      — the result node array, starts as Bdd::mk_true(num_vars)        (rnodes)
     * `node_cache`  — HashMap<BddNode, BddPointer>, seeded with the two terminals     (rcache, an
                       association list searched with Apply.nfind, newest first, like `existing`)
     * `new_id`      — Vec<Option<BddPointer>> old pointer -> new pointer, seeded 0->0, 1->1   (rmemo)
   `rnode fuel p st` is "make new_id[p] known": a pointer whose new_id is set is skipped; a node whose
   variable is fixed by the partial valuation follows ONLY the selected child and inherits its new pointer
   (no node is created); any other node resolves its HIGH child completely, then its LOW child (the order
   of the current source, after the fix: commit that made the result use the library's DFS post-order),
   collapses when both new links are equal, else looks the triple (var, new_low, new_high) up in the node
   cache and pushes it when absent.  The recursion creates nodes and fills the tables in exactly the order
   of the stack machine (push top; push child; continue  ==  recursive call, then re-examine top); the
   explicit stack itself is not modelled.  `values[var]` beyond the valuation's length reads None (Index impl
   of BddPartialValuation) = Ops.pv_get.  Fuel = number of variables + 1 bounds the recursion depth on every
   well-formed operand (Proofs/Restrict.v excludes exhaustion); `None` = out of fuel.
   Epilogue as in the Rust: a new root 0 returns Bdd::mk_false(num_vars), otherwise the output store. *)
From Coq Require Import List NArith Bool.
Import ListNotations.
From BddVerif Require Import Model.Bdd Model.Apply Model.Ops.
Open Scope N_scope.

Record rst := mkR { rnodes : list node; rcache : list (node * N); rmemo : list (N * N) }.

Fixpoint mfind (k : N) (m : list (N * N)) : option N :=
  match m with [] => None | (k', v) :: r => if k =? k' then Some v else mfind k r end.

(* new_id[p] = Some(q) *)
Definition rset (s : rst) (p q : N) : rst := mkR (rnodes s) (rcache s) ((p, q) :: rmemo s).
(* output.push_node(n); node_cache.insert(n, ptr) *)
Definition rpush (s : rst) (n : node) : N * rst :=
  let q := size (rnodes s) in (q, mkR (rnodes s ++ [n]) ((n, q) :: rcache s) (rmemo s)).
(* the tail of the unrestricted branch: collapse, else hash-cons, else push *)
Definition rmk (s : rst) (d lo hi : N) : N * rst :=
  if hi =? lo then (hi, s) else
  let n := mkNode d lo hi in
  match nfind n (rcache s) with Some q => (q, s) | None => rpush s n end.

Section Restriction.
  Variables (b : bdd) (pv : pval).

  Fixpoint rnode (fuel : nat) (p : N) (s : rst) : option (N * rst) :=
    match fuel with O => None | S f =>
      match mfind p (rmemo s) with
      | Some q => Some (q, s)                                   (* new_id[top].is_some(): skip *)
      | None =>
        let n := get b p in
        match pv_get pv (nvar n) with
        | Some c =>                                             (* restricted: only the selected child *)
          match rnode f (if c then nhigh n else nlow n) s with
          | None => None
          | Some (q, s1) => Some (q, rset s1 p q)
          end
        | None =>                                               (* unrestricted: high first, then low *)
          match rnode f (nhigh n) s with None => None | Some (qh, s1) =>
          match rnode f (nlow n) s1 with None => None | Some (ql, s2) =>
            let '(q, s3) := rmk s2 (nvar n) ql qh in Some (q, rset s3 p q)
          end end
        end
      end
    end.

  Definition rzero := mkNode (nvars b) 0 0.
  Definition rone := mkNode (nvars b) 1 1.
  Definition rs0 : rst := mkR (mk_true (nvars b)) [(rzero, 0); (rone, 1)] [(0, 0); (1, 1)].

  Definition restriction : option bdd :=
    if is_true b || is_false b then Some b else
    match rnode (S (N.to_nat (nvars b))) (size b - 1) rs0 with
    | None => None
    | Some (q, s) => Some (if q =? 0 then mk_false (nvars b) else rnodes s)
    end.
End Restriction.

(* Bdd::restrict(&[(var, value)]) = restriction(self, &BddPartialValuation::from_values(..)) *)
Definition restrict_faithful (b : bdd) (lits : list (N * bool)) : option bdd :=
  restriction b (pv_from_values lits).
Definition var_restrict_faithful (b : bdd) (x : N) (c : bool) : option bdd := restrict_faithful b [(x, c)].
