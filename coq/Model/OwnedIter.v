(* Model/OwnedIter.v — the owned iterators as state machines (src/_impl_bdd_path_iterator.rs, src/_impl_bdd_satisfying_valuations.rs,
   src/_impl_iterator_valuations_of_clause.rs).   Definitions only.

   Granularity: STEP-FAITHFUL, one transition = one call of `next()`.
   * `OwnedBddPathIterator { bdd, stack }`: the state is the pair (bdd, stack); `new` is `OwnedBddPathIterator::new` /
     `From<Bdd>` / `Bdd::into_sat_clauses`; `next` is the body of `Iterator::next` — the code is the copy of the borrowed
     iterator's, so it is the same `path_iter_next` of Model/Paths.v applied to the stored diagram; `From<OwnedBddPathIterator>
     for Bdd` returns the `bdd` field.
   * `ValuationsOfClauseIterator { next_valuation, clause }`: `empty`, `new` (first valuation; index panic of `flip_value`),
     `next` (compute `valuation.next(&clause)`, swap it in, return the old one).
   * `OwnedBddSatisfyingValuations { num_vars, paths, valuations }`: `Bdd::into_sat_valuations` (which already calls
     `paths.next()` once) and `Iterator::next` (valuations.next(), else paths.next() + a fresh clause iterator + its first
     item); `From<OwnedBddSatisfyingValuations> for Bdd` is `value.paths.into()`.
   `*_drain` calls `next()` until it answers None (what `collect()` does) and returns the items together with the final
   state; the fuel bounds the number of calls (`OutOfFuel` when exhausted). *)
From Coq Require Import List NArith Bool.
Import ListNotations.
From BddVerif Require Import Model.Bdd Model.Apply Model.Ops Model.Paths.
Open Scope N_scope.

(* ---- OwnedBddPathIterator ---- *)
Definition owned_paths := (bdd * list N)%type.
Definition owned_paths_new (b : bdd) : outcome owned_paths := bind (path_iter_new b) (fun st => Ok (b, st)).
Definition owned_paths_next (s : owned_paths) : outcome (option pval * owned_paths) :=
  match path_iter_next (fst s) (snd s) with
  | Ok None => Ok (None, s)
  | Ok (Some (item, st')) => Ok (Some item, (fst s, st'))
  | Panic => Panic
  | OutOfFuel => OutOfFuel
  end.
Definition owned_paths_into_bdd (s : owned_paths) : bdd := fst s.

Fixpoint owned_paths_drain (fuel : nat) (s : owned_paths) : outcome (list pval * owned_paths) :=
  match fuel with
  | O => OutOfFuel
  | S f => bind (owned_paths_next s) (fun r =>
           match fst r with
           | None => Ok ([], snd r)
           | Some item => bind (owned_paths_drain f (snd r)) (fun r' => Ok (item :: fst r', snd r'))
           end)
  end.
(* k calls of next() (each may answer None), the answers and the state afterwards *)
Fixpoint owned_paths_steps (k : nat) (s : owned_paths) : outcome (list (option pval) * owned_paths) :=
  match k with
  | O => Ok ([], s)
  | S k' => bind (owned_paths_next s) (fun r =>
            bind (owned_paths_steps k' (snd r)) (fun r' => Ok (fst r :: fst r', snd r')))
  end.

(* ---- ValuationsOfClauseIterator ---- *)
Definition clause_it := (option (list bool) * pval)%type.
Definition clause_it_empty : clause_it := (None, []).
Definition clause_it_new (clause : pval) (nv : N) : outcome clause_it :=
  bind (first_valuation clause nv) (fun v => Ok (Some v, clause)).
Definition clause_it_next (c : clause_it) : outcome (option (list bool) * clause_it) :=
  match fst c with
  | None => Ok (None, c)
  | Some v => bind (val_next v (snd c)) (fun nx => Ok (Some v, (nx, snd c)))
  end.

(* ---- OwnedBddSatisfyingValuations ---- *)
Definition owned_vals := (N * owned_paths * clause_it)%type.
Definition owned_vals_new (b : bdd) : outcome owned_vals :=
  let nv := nvars b in
  bind (owned_paths_new b) (fun p =>
  bind (owned_paths_next p) (fun r =>
    match fst r with
    | Some first => bind (clause_it_new first nv) (fun ci => Ok (nv, snd r, ci))
    | None => Ok (nv, snd r, clause_it_empty)
    end)).
Definition owned_vals_next (s : owned_vals) : outcome (option (list bool) * owned_vals) :=
  let nv := fst (fst s) in let p := snd (fst s) in let ci := snd s in
  bind (clause_it_next ci) (fun r =>
    match fst r with
    | Some v => Ok (Some v, (nv, p, snd r))
    | None =>
      bind (owned_paths_next p) (fun rp =>
        match fst rp with
        | Some next_path =>
            bind (clause_it_new next_path nv) (fun ci2 =>
            bind (clause_it_next ci2) (fun r2 => Ok (fst r2, (nv, snd rp, snd r2))))
        | None => Ok (None, (nv, snd rp, snd r))
        end)
    end).
Definition owned_vals_into_bdd (s : owned_vals) : bdd := owned_paths_into_bdd (snd (fst s)).

Fixpoint owned_vals_drain (fuel : nat) (s : owned_vals) : outcome (list (list bool) * owned_vals) :=
  match fuel with
  | O => OutOfFuel
  | S f => bind (owned_vals_next s) (fun r =>
           match fst r with
           | None => Ok ([], snd r)
           | Some item => bind (owned_vals_drain f (snd r)) (fun r' => Ok (item :: fst r', snd r'))
           end)
  end.
Fixpoint owned_vals_steps (k : nat) (s : owned_vals) : outcome (list (option (list bool)) * owned_vals) :=
  match k with
  | O => Ok ([], s)
  | S k' => bind (owned_vals_next s) (fun r =>
            bind (owned_vals_steps k' (snd r)) (fun r' => Ok (fst r :: fst r', snd r')))
  end.
