(* Model/Dnf.v — the library's OWN normal-form algorithms (src/_impl_bdd/_impl_dnf.rs, _impl_cnf.rs).
   Definitions only.

   Granularity
   * `mk_dnf_faithful` / `mk_cnf_faithful`: ORDER-FAITHFUL transcription of `Bdd::mk_dnf::_rec` / `Bdd::mk_cnf::_rec`:
     the `loop` over the variable index (`var += 1; continue` when no clause fixes the variable) and the three
     recursive calls are one recursion on explicit fuel (`S nv` suffices: `var` only grows and stops at `num_vars`);
     the base cases (`dnf.is_empty()`; `var == num_vars || dnf.len() == 1` with the `assert_eq!( *cx, c)` over the
     remaining clauses — `BddPartialValuation::eq`, i.e. `pv_eq` of Model/Valuation.v), the `assert!(var < num_vars)`,
     the single pass that pushes every clause to `dont_care` / `has_true` / `has_false` (`split3`), the order of
     the three recursive calls (dont_care, has_true, has_false) and the combination
     `dont_care.or(&has_true).or(&has_false)` (resp. `.and`) through the model of `Bdd::or` / `Bdd::and`
     (`bdd_or` / `bdd_and` = `binary_op`) are all as in the Rust.
     NOTE (the code as it is): the DNF base case calls `Bdd::mk_partial_valuation(num_vars, c)`, which carries NO
     range assertion, so a clause mentioning a variable >= num_vars is not rejected (a malformed diagram is built
     and fed to `or`); the CNF base case calls `ctx.mk_disjunctive_clause(c)`, which asserts `index < num_vars`
     (after the `clause.is_empty()` shortcut) and panics.
   * `to_dnf_faithful`: STEP-FAITHFUL model of the `while let Some((node, go_low)) = stack.pop()` loop of
     `Bdd::to_dnf`: one call of `to_dnf_loop` = one iteration; the stack is a list (top = head), `path` is the
     mutable `BddPartialValuation` (`path[var] = Some(..)` is `IndexMut` = `mut_cell`, which pads the vector with
     `None` up to the index — `pv_set`; `unset_value` pads as well), `results.push(path.clone())` copies the vector
     with whatever trailing `None` cells it has accumulated.  `var_of` / `low_link_of` / `high_link_of` index the
     node vector: an index outside it is a `Panic`; so is `root_pointer()` of an empty vector (`len() - 1`).
     Fuel: the number of iterations, computed beforehand by `dnf_steps` (3 per decision node visit, 1 per terminal);
     it bounds the run and never changes a result (an exhausted run is `OutOfFuel`).
   * `to_cnf_faithful`: ORDER-FAITHFUL transcription of the recursion `build_recursive` of `Bdd::to_cnf`
     (path and result vector threaded through; `set_value` / `unset_value` = `pv_set`; fuel = recursion depth).
   * `pv_trim` drops trailing unset cells: the normal form under which `BddPartialValuation::eq` (and the
     transcript encoding of clauses) compares.  The I/O-equivalent lists `to_dnf` / `to_cnf` of Model/Paths.v are
     trimmed; the faithful machines hand out the padded vectors. *)
From Coq Require Import List NArith Bool.
Import ListNotations.
From BddVerif Require Import Model.Bdd Model.Apply Model.Ops Model.Paths Model.Valuation.
Open Scope N_scope.

(* ======================================================================================== *)
(* mk_dnf / mk_cnf                                                                           *)

(* for c in dnf { match c.get_value(var) { None => dont_care.push, Some(true) => has_true.push, Some(false) => has_false.push } } *)
Fixpoint split3 (x : N) (cs : list pval) : list pval * list pval * list pval :=
  match cs with
  | [] => ([], [], [])
  | c :: r =>
    let '(dc, ht, hf) := split3 x r in
    match pv_get c x with
    | None => (c :: dc, ht, hf)
    | Some true => (dc, c :: ht, hf)
    | Some false => (dc, ht, c :: hf)
    end
  end.

Definition is_nil {T} (l : list T) : bool := match l with [] => true | _ => false end.

Fixpoint dnf_rec (fuel : nat) (var nv : N) (cs : list pval) : outcome bdd :=
  match fuel with
  | O => OutOfFuel
  | S f =>
    match cs with
    | [] => Ok (mk_false nv)                                        (* dnf.is_empty() *)
    | c :: rest =>
      if (var =? nv) || is_nil rest then                            (* var == num_vars || dnf.len() == 1 *)
        if forallb (fun cx => pv_eq cx c) rest                      (* for cx in &dnf[1..] { assert_eq!( *cx, c) } *)
        then Ok (mk_partial_valuation nv c)                         (* no range assertion in here *)
        else Panic
      else if negb (var <? nv) then Panic                           (* assert!(var < num_vars) *)
      else if negb (existsb (fun c' => pv_has_value c' var) cs)     (* !should_branch *)
      then dnf_rec f (var + 1) nv cs                                (* var += 1; continue *)
      else
        let '(dc, ht, hf) := split3 var cs in
        bind (dnf_rec f (var + 1) nv dc) (fun r_dc =>
        bind (dnf_rec f (var + 1) nv ht) (fun r_ht =>
        bind (dnf_rec f (var + 1) nv hf) (fun r_hf =>
        bind (bdd_or r_dc r_ht) (fun r => bdd_or r r_hf))))         (* dont_care.or(&has_true).or(&has_false) *)
    end
  end.
Definition mk_dnf_faithful (nv : N) (cs : list pval) : outcome bdd := dnf_rec (S (N.to_nat nv)) 0 nv cs.

Fixpoint cnf_rec (fuel : nat) (var nv : N) (cs : list pval) : outcome bdd :=
  match fuel with
  | O => OutOfFuel
  | S f =>
    match cs with
    | [] => Ok (mk_true nv)                                         (* cnf.is_empty() => ctx.mk_true() *)
    | c :: rest =>
      if (var =? nv) || is_nil rest then
        if forallb (fun cx => pv_eq cx c) rest
        then mk_disjunctive_clause nv c                             (* asserts index < num_vars for a non-empty clause *)
        else Panic
      else if negb (var <? nv) then Panic
      else if negb (existsb (fun c' => pv_has_value c' var) cs)
      then cnf_rec f (var + 1) nv cs
      else
        let '(dc, ht, hf) := split3 var cs in
        bind (cnf_rec f (var + 1) nv dc) (fun r_dc =>
        bind (cnf_rec f (var + 1) nv ht) (fun r_ht =>
        bind (cnf_rec f (var + 1) nv hf) (fun r_hf =>
        bind (bdd_and r_dc r_ht) (fun r => bdd_and r r_hf))))       (* dont_care.and(&has_true).and(&has_false) *)
    end
  end.
Definition mk_cnf_faithful (nv : N) (cs : list pval) : outcome bdd := cnf_rec (S (N.to_nat nv)) 0 nv cs.

(* ======================================================================================== *)
(* to_dnf: the explicit-stack loop                                                           *)
Definition frame := (N * option bool)%type.                         (* (BddPointer, Option<bool>) *)

Fixpoint to_dnf_loop (fuel : nat) (b : bdd) (stack : list frame) (path : pval) (results : list pval)
  : outcome (list pval) :=
  match fuel with
  | O => OutOfFuel
  | S f =>
    match stack with
    | [] => Ok (rev results)                                        (* `results` is kept newest first *)
    | (node, go_low) :: rest =>
      if node =? 0 then to_dnf_loop f b rest path results           (* an unsatisfied clause *)
      else if node =? 1 then to_dnf_loop f b rest path (path :: results)   (* results.push(path.clone()) *)
      else if negb (node <? size b) then Panic                      (* self.0[node.to_index()] *)
      else
        let n := get b node in
        let x := N.to_nat (nvar n) in
        match go_low with
        | Some true =>                                              (* push (node, Some(false)); path[var] = Some(false); push low *)
          to_dnf_loop f b ((nlow n, Some true) :: (node, Some false) :: rest) (pv_set path x (Some false)) results
        | Some false =>                                             (* push (node, None); path[var] = Some(true); push high *)
          to_dnf_loop f b ((nhigh n, Some true) :: (node, None) :: rest) (pv_set path x (Some true)) results
        | None =>                                                   (* path.unset_value(node_var) *)
          to_dnf_loop f b rest (pv_set path x None) results
        end
    end
  end.

(* number of loop iterations spent on the sub-diagram below p (entered with phase Some(true)) *)
Fixpoint dnf_steps (fuel : nat) (b : bdd) (p : N) : nat :=
  match fuel with
  | O => 1
  | S f => if p <? 2 then 1
           else 3 + dnf_steps f b (nlow (get b p)) + dnf_steps f b (nhigh (get b p))
  end.

Definition to_dnf_faithful (b : bdd) : outcome (list pval) :=
  if size b =? 0 then Panic                                         (* root_pointer(): self.0.len() - 1 *)
  else to_dnf_loop (S (dnf_steps (path_fuel b) b (root b))) b [(root b, Some true)] [] [].

(* ======================================================================================== *)
(* to_cnf: the recursion build_recursive(bdd, path, node, results)                           *)
Definition unset_after (x : nat) (o : outcome (pval * list pval)) : outcome (pval * list pval) :=
  bind o (fun pr => Ok (pv_set (fst pr) x None, snd pr)).           (* path.unset_value(var) *)

Fixpoint to_cnf_rec (fuel : nat) (b : bdd) (node : N) (path : pval) (results : list pval)
  : outcome (pval * list pval) :=
  match fuel with
  | O => OutOfFuel
  | S f =>
    if node <? 2 then Ok (path, if node =? 0 then path :: results else results)
    else if negb (node <? size b) then Panic                        (* bdd.var_of(node) *)
    else
      let n := get b node in
      let x := N.to_nat (nvar n) in
      bind (if nlow n =? 1 then Ok (path, results)                  (* if !low.is_one() { set true; rec; unset } *)
            else unset_after x (to_cnf_rec f b (nlow n) (pv_set path x (Some true)) results)) (fun pr =>
      if nhigh n =? 1 then Ok pr                                    (* if !high.is_one() { set false; rec; unset } *)
      else unset_after x (to_cnf_rec f b (nhigh n) (pv_set (fst pr) x (Some false)) (snd pr)))
  end.

Definition to_cnf_faithful (b : bdd) : outcome (list pval) :=
  if size b =? 0 then Panic
  else bind (to_cnf_rec (path_fuel b) b (root b) [] []) (fun pr => Ok (rev (snd pr))).

(* ======================================================================================== *)
(* trailing unset cells dropped *)
Fixpoint pv_trim (p : pval) : pval :=
  match p with
  | [] => []
  | c :: r => match c, pv_trim r with
              | None, [] => []
              | _, r' => c :: r'
              end
  end.
