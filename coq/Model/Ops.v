(* Model/Ops.v — operations defined on top of the binary engine.
   Granularity: `bdd_not` is step-faithful (terminal-link flip in place). The ternary operators are
   I/O-equivalent functional models: the result is the canonical diagram of the pointwise ternary
   connective, built as a Shannon composition of four binary applies; by canonicity
   (canonical_unique) this is the array any correct implementation must return. Definitions only. *)
From Coq Require Import List NArith Bool.
Import ListNotations.
From BddVerif Require Import Model.Bdd Model.Apply.
Open Scope N_scope.

(* ---- Bdd::not ---- *)
Definition flip_term (p : N) : N := if p =? 0 then 1 else if p =? 1 then 0 else p.
Definition bdd_not (b : bdd) : bdd :=
  if is_true b then mk_false (nvars b)
  else if is_false b then mk_true (nvars b)
  else match b with
       | z :: o :: rest => z :: o :: map (fun n => mkNode (nvar n) (flip_term (nlow n)) (flip_term (nhigh n))) rest
       | _ => b
       end.

(* ---- ternary ---- *)
Definition op3 := option bool -> option bool -> option bool -> option bool.
Definition oidx3 (a b c : option bool) : nat := 9 * oidx a + 3 * oidx b + oidx c.
Definition op3_of_table (t : list (option bool)) : op3 := fun a b c => nth (oidx3 a b c) t None.
Definition conn3 (op : op3) (a b c : bool) : bool :=
  match op (Some a) (Some b) (Some c) with Some r => r | None => false end.

Definition bind {T U} (o : outcome T) (k : T -> outcome U) : outcome U :=
  match o with Ok x => k x | Panic => Panic | OutOfFuel => OutOfFuel end.

Definition guard3 {T} (A B C : bdd) (fa fb fc fo : option N) (k : outcome T) : outcome T :=
  if negb ((nvars A =? nvars B) && (nvars B =? nvars C)) then Panic
  else if negb (flip_ok (nvars A) fa && flip_ok (nvars A) fb && flip_ok (nvars A) fc && flip_ok (nvars A) fo) then Panic
  else k.

Definition fused_ternary_flip_op (A B C : bdd) (fa fb fc fo : option N) (op : op3) : outcome bdd :=
  guard3 A B C fa fb fc fo
    (bind (fused_binary_flip_op B C fb fc None (lazy_op (conn3 op true))) (fun g1 =>
     bind (fused_binary_flip_op B C fb fc None (lazy_op (conn3 op false))) (fun g0 =>
     bind (fused_binary_flip_op A g1 fa None None (lazy_op andb)) (fun t1 =>
     bind (fused_binary_flip_op A g0 fa None None (lazy_op (fun x y => negb x && y))) (fun t0 =>
     fused_binary_flip_op t1 t0 None None fo (lazy_op orb)))))).

Definition ternary_op (A B C : bdd) (op : op3) : outcome bdd := fused_ternary_flip_op A B C None None None None op.

Definition ite_function (a b c : option bool) : option bool :=
  match a, b, c with
  | Some true, _, _ => b
  | Some false, _, _ => c
  | None, Some false, Some false => Some false
  | None, Some true, Some true => Some true
  | None, _, _ => None
  end.
Definition if_then_else (A B C : bdd) : outcome bdd := ternary_op A B C ite_function.
