(* Model/Ops.v — operations defined on top of the binary engine.
   Granularity: `bdd_not` is step-faithful (terminal-link flip in place). The ternary operators are
   I/O-equivalent functional models: the result is the canonical diagram of the pointwise ternary
   connective, built as a Shannon composition of four binary applies; by canonicity
   (canonical_unique) this is the array any correct implementation must return. Definitions only. *)
From Coq Require Import List NArith Bool.
Import ListNotations.
From BddVerif Require Import Model.Bdd Model.Apply.
Open Scope N_scope.

(* ---- Bdd::not ---- *)
Definition flip_term (p : N) : N := if p =? 0 then 1 else if p =? 1 then 0 else p.
Definition bdd_not (b : bdd) : bdd :=
  if is_true b then mk_false (nvars b)
  else if is_false b then mk_true (nvars b)
  else match b with
       | z :: o :: rest => z :: o :: map (fun n => mkNode (nvar n) (flip_term (nlow n)) (flip_term (nhigh n))) rest
       | _ => b
       end.

(* ---- ternary ---- *)
Definition op3 := option bool -> option bool -> option bool -> option bool.
Definition oidx3 (a b c : option bool) : nat := 9 * oidx a + 3 * oidx b + oidx c.
Definition op3_of_table (t : list (option bool)) : op3 := fun a b c => nth (oidx3 a b c) t None.
Definition conn3 (op : op3) (a b c : bool) : bool :=
  match op (Some a) (Some b) (Some c) with Some r => r | None => false end.

Definition bind {T U} (o : outcome T) (k : T -> outcome U) : outcome U :=
  match o with Ok x => k x | Panic => Panic | OutOfFuel => OutOfFuel end.

Definition guard3 {T} (A B C : bdd) (fa fb fc fo : option N) (k : outcome T) : outcome T :=
  if negb ((nvars A =? nvars B) && (nvars B =? nvars C)) then Panic
  else if negb (flip_ok (nvars A) fa && flip_ok (nvars A) fb && flip_ok (nvars A) fc && flip_ok (nvars A) fo) then Panic
  else k.

Definition fused_ternary_flip_op (A B C : bdd) (fa fb fc fo : option N) (op : op3) : outcome bdd :=
  guard3 A B C fa fb fc fo
    (bind (fused_binary_flip_op B C fb fc None (lazy_op (conn3 op true))) (fun g1 =>
     bind (fused_binary_flip_op B C fb fc None (lazy_op (conn3 op false))) (fun g0 =>
     bind (fused_binary_flip_op A g1 fa None None (lazy_op andb)) (fun t1 =>
     bind (fused_binary_flip_op A g0 fa None None (lazy_op (fun x y => negb x && y))) (fun t0 =>
     fused_binary_flip_op t1 t0 None None fo (lazy_op orb)))))).

Definition ternary_op (A B C : bdd) (op : op3) : outcome bdd := fused_ternary_flip_op A B C None None None None op.

Definition ite_function (a b c : option bool) : option bool :=
  match a, b, c with
  | Some true, _, _ => b
  | Some false, _, _ => c
  | None, Some false, Some false => Some false
  | None, Some true, Some true => Some true
  | None, _, _ => None
  end.
Definition if_then_else (A B C : bdd) : outcome bdd := ternary_op A B C ite_function.

(* ======================================================================================== *)
(* Constructors (step-faithful: these are straight-line node pushes in the Rust)            *)
Definition mk_var (nv x : N) : bdd := [mkNode nv 0 0; mkNode nv 1 1; mkNode x 0 1].
Definition mk_not_var (nv x : N) : bdd := [mkNode nv 0 0; mkNode nv 1 1; mkNode x 1 0].
Definition mk_literal (nv x : N) (c : bool) : bdd := if c then mk_var nv x else mk_not_var nv x.
(* BddVariableSet::mk_var & co. carry a debug_assert on the variable id *)
Definition vs_mk_literal (nv x : N) (c : bool) : outcome bdd := if x <? nv then Ok (mk_literal nv x c) else Panic.

(* partial valuations: list of cells, index = variable *)
Definition pval := list (option bool).
Fixpoint pv_cells_from (i : N) (pv : pval) : list (N * bool) :=
  match pv with
  | [] => []
  | None :: r => pv_cells_from (i + 1) r
  | Some c :: r => (i, c) :: pv_cells_from (i + 1) r
  end.
Definition pv_cells (pv : pval) : list (N * bool) := pv_cells_from 0 pv.   (* to_values: ascending *)
Fixpoint pv_set (pv : pval) (x : nat) (c : option bool) : pval :=
  match x, pv with
  | O, [] => [c]
  | O, _ :: r => c :: r
  | S k, [] => None :: pv_set [] k c
  | S k, a :: r => a :: pv_set r k c
  end.
Definition pv_from_values (l : list (N * bool)) : pval :=
  fold_left (fun pv xc => pv_set pv (N.to_nat (fst xc)) (Some (snd xc))) l [].
Definition pv_get (pv : pval) (x : N) : option bool := nth (N.to_nat x) pv None.

(* chain of nodes for a conjunction of literals, cells in DEscending variable order *)
Fixpoint conj_chain (cells : list (N * bool)) (acc : bdd) : bdd :=
  match cells with
  | [] => acc
  | (x, c) :: r => let root := size acc - 1 in
                   conj_chain r (acc ++ [if c then mkNode x 0 root else mkNode x root 0])
  end.
Definition mk_partial_valuation (nv : N) (pv : pval) : bdd := conj_chain (rev (pv_cells pv)) (mk_true nv).
Definition cells_in_range (nv : N) (pv : pval) : bool := forallb (fun xc => fst xc <? nv) (pv_cells pv).
Definition mk_conjunctive_clause (nv : N) (pv : pval) : outcome bdd :=
  if cells_in_range nv pv then Ok (mk_partial_valuation nv pv) else Panic.

Fixpoint disj_chain (cells : list (N * bool)) (shadow : N) (acc : bdd) : bdd :=
  match cells with
  | [] => acc
  | (x, c) :: r => let acc' := acc ++ [if c then mkNode x shadow 1 else mkNode x 1 shadow] in
                   disj_chain r (size acc' - 1) acc'
  end.
Definition mk_disjunctive_clause (nv : N) (pv : pval) : outcome bdd :=
  match pv_cells pv with
  | [] => Ok (mk_false nv)
  | _ => if cells_in_range nv pv then Ok (disj_chain (rev (pv_cells pv)) 0 (mk_true nv)) else Panic
  end.

Definition of_valuation (v : list bool) : bdd :=
  mk_partial_valuation (N.of_nat (length v)) (map Some v).

(* ======================================================================================== *)
(* Named binary operators                                                                    *)
Definition bdd_and (a b : bdd) := binary_op a b op_and.
Definition bdd_or (a b : bdd) := binary_op a b op_or.
Definition bdd_and_not (a b : bdd) := binary_op a b op_and_not.
Definition bdd_iff (a b : bdd) := binary_op a b op_iff.

(* ======================================================================================== *)
(* Quantification.  var_exists/var_for_all are the library's own composition (fused flip).
   exists/for_all/binary_op_with_*/binary_op_nested are I/O-equivalent models: the nested apply
   of the Rust is modelled by "operate, then project the triggered variables one at a time";
   by canonicity the arrays must coincide. *)
Definition var_exists (b : bdd) (x : N) : outcome bdd := fused_binary_flip_op b b None (Some x) None op_or.
Definition var_for_all (b : bdd) (x : N) : outcome bdd := fused_binary_flip_op b b None (Some x) None op_and.

Fixpoint fold_vars (f : bdd -> N -> outcome bdd) (vars : list N) (b : bdd) : outcome bdd :=
  match vars with
  | [] => Ok b
  | x :: r => bind (f b x) (fold_vars f r)
  end.
(* variables outside the diagram's range are never decision variables, hence never triggered *)
Definition in_range (b : bdd) (vars : list N) : list N := filter (fun x => x <? nvars b) vars.
Definition project (univ : bool) (b : bdd) (vars : list N) : outcome bdd :=
  fold_vars (if univ then var_for_all else var_exists) (in_range b vars) b.
Definition binary_op_with_exists (a b : bdd) (op : op2) (vars : list N) : outcome bdd :=
  bind (binary_op a b op) (fun r => project false r vars).
Definition binary_op_with_for_all (a b : bdd) (op : op2) (vars : list N) : outcome bdd :=
  bind (binary_op a b op) (fun r => project true r vars).
Definition bdd_exists (b : bdd) (vars : list N) := binary_op_with_exists b b op_and vars.
Definition bdd_for_all (b : bdd) (vars : list N) := binary_op_with_for_all b b op_and vars.
(* trigger predicate given as a bit list over the variables; inner operator is `or` (false) or `and` (true) *)
Fixpoint triggered_from (i : N) (trig : list bool) : list N :=
  match trig with [] => [] | t :: r => (if t then [i] else []) ++ triggered_from (i + 1) r end.
Definition binary_op_nested (a b : bdd) (trig : list bool) (outer : op2) (inner_is_and : bool) : outcome bdd :=
  bind (binary_op a b outer) (fun r => project inner_is_and r (triggered_from 0 trig)).

(* ======================================================================================== *)
(* select / restrict / pick                                                                  *)
Definition var_select (b : bdd) (x : N) (c : bool) : outcome bdd := bdd_and b (mk_literal (nvars b) x c).
Definition select (b : bdd) (lits : list (N * bool)) : outcome bdd :=
  bdd_and b (mk_partial_valuation (nvars b) (pv_from_values lits)).
(* restriction: I/O-equivalent model  b[x:=c] = exists x. (b /\ x=c) *)
Definition var_restrict1 (b : bdd) (xc : N * bool) : outcome bdd :=
  bind (var_select b (fst xc) (snd xc)) (fun s => var_exists s (fst xc)).
Fixpoint restrict_cells (cells : list (N * bool)) (b : bdd) : outcome bdd :=
  match cells with [] => Ok b | xc :: r => bind (var_restrict1 b xc) (restrict_cells r) end.
Definition restrict (b : bdd) (lits : list (N * bool)) : outcome bdd :=
  if is_true b || is_false b then Ok b
  else bind (bdd_and b b) (* canonical form of b: the Rust rebuilds the diagram with hash-consing *)
         (restrict_cells (filter (fun xc => fst xc <? nvars b) (pv_cells (pv_from_values lits)))).
Definition var_restrict (b : bdd) (x : N) (c : bool) := restrict b [(x, c)].

Definition var_pick_pref (b : bdd) (x : N) (pref : bool) : outcome bdd :=
  bind (var_select b x pref) (fun s => fused_binary_flip_op b s None (Some x) None op_and_not).
Definition var_pick (b : bdd) (x : N) := var_pick_pref b x false.
(* gen_bool(0.5) consumes one script bit; exhausted script reads true *)
Definition next_bit (script : list bool) : bool * list bool :=
  match script with [] => (true, []) | c :: r => (c, r) end.
Definition var_pick_random (b : bdd) (x : N) (script : list bool) : outcome bdd * list bool :=
  let '(c, rest) := next_bit script in (var_pick_pref b x c, rest).

(* insertion sort (BddVariable order) keeping duplicates, like slice::sort *)
Fixpoint insert_sorted (x : N) (l : list N) : list N :=
  match l with [] => [x] | y :: r => if x <=? y then x :: l else y :: insert_sorted x r end.
Definition sort_vars (l : list N) : list N := fold_right insert_sorted [] l.

(* r_pick over the sorted list, last variable first; `rvars` is the list reversed *)
Fixpoint r_pick (rvars : list N) (set : bdd) : outcome bdd :=
  match rvars with
  | [] => Ok set
  | x :: rest =>
    bind (var_exists set x) (fun ex =>
    bind (r_pick rest ex) (fun picked =>
    bind (var_pick set x) (fun vp => bdd_and picked vp)))
  end.
Definition pick (b : bdd) (vars : list N) : outcome bdd := r_pick (rev (sort_vars vars)) b.

Fixpoint r_pick_random (rvars : list N) (set : bdd) (script : list bool) : outcome bdd * list bool :=
  match rvars with
  | [] => (Ok set, script)
  | x :: rest =>
    match var_exists set x with
    | Ok ex =>
      let '(picked, script1) := r_pick_random rest ex script in
      let '(vp, script2) := var_pick_random set x script1 in
      (bind picked (fun p => bind vp (fun v => bdd_and p v)), script2)
    | Panic => (Panic, script) | OutOfFuel => (OutOfFuel, script)
    end
  end.
Definition pick_random (b : bdd) (vars : list N) (script : list bool) : outcome bdd :=
  fst (r_pick_random (rev (sort_vars vars)) b script).

(* ======================================================================================== *)
(* substitute: I/O-equivalent model  f[x := g] = (g /\ f[x:=1]) \/ (~g /\ f[x:=0])           *)
Definition support (b : bdd) : list N := map nvar (skipn 2 b).
Definition mem (x : N) (l : list N) : bool := existsb (N.eqb x) l.
Definition substitute (f : bdd) (x : N) (g : bdd) : outcome bdd :=
  if negb (mem x (support f)) then Ok f
  else if negb (nvars f =? nvars g) then Panic
  else
    bind (var_restrict f x true) (fun f1 =>
    bind (var_restrict f x false) (fun f0 =>
    bind (bdd_and g f1) (fun t1 =>
    bind (binary_op g f0 (lazy_op (fun a b => negb a && b))) (fun t0 =>
    bdd_or t1 t0)))).

(* ======================================================================================== *)
(* Normal-form constructors (I/O-equivalent: fold of the clause diagrams)                    *)
Fixpoint mk_dnf_fold (nv : N) (cs : list pval) (acc : bdd) : outcome bdd :=
  match cs with
  | [] => Ok acc
  | c :: r => bind (mk_conjunctive_clause nv c) (fun cb => bind (bdd_or acc cb) (mk_dnf_fold nv r))
  end.
Definition mk_dnf (nv : N) (cs : list pval) : outcome bdd := mk_dnf_fold nv cs (mk_false nv).
Fixpoint mk_cnf_fold (nv : N) (cs : list pval) (acc : bdd) : outcome bdd :=
  match cs with
  | [] => Ok acc
  | c :: r => bind (mk_disjunctive_clause nv c) (fun cb => bind (bdd_and acc cb) (mk_cnf_fold nv r))
  end.
Definition mk_cnf (nv : N) (cs : list pval) : outcome bdd := mk_cnf_fold nv cs (mk_true nv).

(* ======================================================================================== *)
(* Threshold constructors: the library's own double loop over proved operators               *)
Definition all_false_clause (vars : list N) : pval := pv_from_values (map (fun x => (x, false)) vars).
Fixpoint sat_round (nv : N) (vars : list N) (result acc : bdd) : outcome bdd :=
  match vars with
  | [] => Ok acc
  | x :: r =>
    bind (vs_mk_literal nv x false) (fun nx =>
    bind (fused_binary_flip_op result nx None None (Some x) op_and) (fun prop =>
    bind (bdd_or acc prop) (fun acc' => sat_round nv r result acc')))
  end.
Fixpoint sat_iter (k : nat) (nv : N) (vars : list N) (upto : bool) (result : bdd) : outcome bdd :=
  match k with
  | O => Ok result
  | S k' => bind (sat_round nv vars result (if upto then result else mk_false nv)) (sat_iter k' nv vars upto)
  end.
Definition mk_sat_k (upto : bool) (nv k : N) (vars : list N) : outcome bdd :=
  bind (mk_conjunctive_clause nv (all_false_clause vars)) (sat_iter (N.to_nat k) nv vars upto).

(* ======================================================================================== *)
(* cmp_implies: the library's own composition of two limit-2 implications                    *)
Inductive ord := OLt | OEq | OGt.
Definition cmp_implies (a b : bdd) : outcome (option ord) :=
  if nvars a =? nvars b then
    bind (fused_binary_flip_op_with_limit 2 a b None None None op_imp) (fun ab =>
    bind (fused_binary_flip_op_with_limit 2 b a None None None op_imp) (fun ba =>
      let ab' := match ab with Some r => r | None => mk_false (nvars a) end in
      let ba' := match ba with Some r => r | None => mk_false (nvars a) end in
      Ok (if is_true ab' && is_true ba' then Some OEq
          else if is_true ab' then Some OLt
          else if is_true ba' then Some OGt else None)))
  else Ok None.
