(* Model/NestedStack.v — STEP-FAITHFUL small-step model of the three explicit-stack loops of the nested apply
   (src/_impl_bdd/_impl_nested_ops.rs):
     * inner_apply        (lines 76-170,  `while let Some(on_stack) = stack.last()`, lines 93-167)      = istep / irun
     * nested_apply       (lines 234-380, `while let Some(on_stack) = outer_stack.last()`, 287-376)     = ostep / orun
     * fix_bdd_alignment  (lines 177-231, `while let Some(top) = stack.last()`, lines 196-228)          = cstep / crun
   Definitions only; Proofs/NestedStack.v proves that the machines compute exactly what the recursive engines of
   Model/Nested.v compute (iproc / inner_apply, oproc / nested_run, copy / fix_alignment).
   Granularity: one `istep` / `ostep` / `cstep` = one iteration of the respective `while` body.  The call of
   `inner_apply` inside the outer loop body (lines 340-347) is a complete nested run of the inner machine inside ONE
   outer step.  The machine state is the task stack (head of the list = top = `stack.last()`), the `output` variable
   and the same record `nst` as Model/Nested.v (nn = `result` / `bdd`, nex = `node_cache`, nouter = `outer_cache`,
   ninner = `inner_cache` / `task_cache`).  The hash maps are association lists where the most recent binding wins
   (= `insert` overwrites).  Unlike the loops of apply_with_flip / ternary_apply these three loops have no flips, no
   `is_not_empty` flag, and their first test is a cache lookup of the task on top that also SETS `output`.
   The Rust loops have no iteration bound; `irun d` / `orun d` / `crun d` iterate the step until the stack is empty,
   at most 2^d times (balanced binary tree of depth d, the bound is never materialised as a unary number); the
   theorems show that the bounds used by the entry points are never reached (None = bound reached). *)
From Coq Require Import List NArith Bool.
Import ListNotations.
From BddVerif Require Import Model.Bdd Model.Apply Model.ApplyStack Model.Nested.
Open Scope N_scope.

(* ====================================================================================================== *)
(* inner_apply (lines 76-170): both operands are the growing store `bdd` itself                            *)
Section InnerStack.
  Variable inner : op2.

  (* lines 128-133: op(l.as_bool(), r.as_bool()).map(BddPointer::from_bool).or_else(|| task_cache.get(&comp).cloned()) *)
  Definition ilookup (t : task) (s : nst) : option N :=
    match inner (as_bool (fst t)) (as_bool (snd t)) with
    | Some c => Some (of_bool c)
    | None => tfind t (ninner s)
    end.

  (* lines 137-156, "both values are computed"; returns the new `output` and the new state:
       137-140  if new_low == new_high { task_cache.insert( *on_stack, new_low); new_low }
       143      node = BddNode::mk_node(decision_var, new_low, new_high)
       144-147  if let Some(index) = node_cache.get(&node) { task_cache.insert( *on_stack, *index); *index }
       150-154  else { bdd.push_node(node); id = bdd.root_pointer(); node_cache.insert(node, id);
                       task_cache.insert( *on_stack, id); id } *)
  Definition iresolve (t : task) (dv new_low new_high : N) (s : nst) : N * nst :=
    if new_low =? new_high then (new_low, imemo s t new_low)
    else
      let n := mkNode dv new_low new_high in
      match nfind n (nex s) with
      | Some index => (index, imemo s t index)
      | None =>
        let id := size (nn s) in
        (id, imemo (mkN (nn s ++ [n]) ((n, id) :: nex s) (nouter s) (ninner s)) t id)
      end.

  (* one iteration of the `while` body (lines 93-166); configuration = (stack, output, state);
     on the empty stack (loop exit) the configuration is left unchanged *)
  Definition istep (c : list task * N * nst) : list task * N * nst :=
    let '(stk, output, s) := c in
    match stk with
    | [] => c
    | on_stack :: rest =>
      match tfind on_stack (ninner s) with
      | Some saved => (rest, saved, s)                (* 94-96: output = *saved; stack.pop() *)
      | None =>
        let l := fst on_stack in                      (* 98 *)
        let r := snd on_stack in
        let G := nn s in                              (* `bdd`, as it is NOW (it grows between two visits of a task) *)
        let decision_var := N.min (var_of G l) (var_of G r) in   (* 101-102 *)
        (* 106-115: advance the pointers that sit on the decision variable (kids without a flip) *)
        let '(l_low, l_high) := kids G None l decision_var in
        let '(r_low, r_high) := kids G None r decision_var in
        let comp_low := (l_low, r_low) in             (* 118-121 *)
        let comp_high := (l_high, r_high) in          (* 122-125 *)
        let new_low := ilookup comp_low s in          (* 128-130 *)
        let new_high := ilookup comp_high s in        (* 131-133 *)
        match new_low, new_high with
        | Some nl, Some nh =>                         (* 136-157: output = ...; stack.pop() *)
          let '(out, s') := iresolve on_stack decision_var nl nh s in (rest, out, s')
        | _, _ =>                                     (* 159-164: push low (if unknown), then high (if unknown): high on top *)
          (push_unknown new_high comp_high (push_unknown new_low comp_low stk), output, s)
        end
      end
    end.

  Definition iempty (c : list task * N * nst) : bool := match fst (fst c) with [] => true | _ => false end.

  (* iterate istep until the stack is empty, at most 2^d times *)
  Fixpoint irun (d : nat) (c : list task * N * nst) : list task * N * nst :=
    match d with
    | O => istep c
    | S d' => let c' := irun d' c in if iempty c' then c' else irun d' c'
    end.

  (* lines 88-91 (output = zero, the task (left, right) on the stack), the loop, line 169 (return output).
     None = iteration bound reached (excluded by the theorems) *)
  Definition inner_apply_stack (l r : N) (s : nst) : option (N * nst) :=
    let '(stk, output, s') := irun (S (S (S (S (N.to_nat (nvars (nn s))))))) ([(l, r)], 0, s) in
    match stk with
    | [] => Some (output, s')
    | _ :: _ => None
    end.
End InnerStack.

(* ====================================================================================================== *)
(* fix_bdd_alignment (lines 177-231)                                                                       *)

(* `if new_x.is_none() { stack.push(old_x) }` (lines 221-226) *)
Definition push_unknown_p (known : option N) (p : N) (stk : list N) : list N :=
  match known with None => p :: stk | Some _ => stk end.

(* `pointer_map` (lines 189-191): a vector of options with the entries 0 and 1 preset; here the two preset entries
   plus the association list of the entries written by line 218 *)
Definition plook (p : N) (pm : list (N * N)) : option N := if p <? 2 then Some p else pfind p pm.

Section FixStack.
  Variable G : bdd.

  (* one iteration of the `while` body (lines 196-227); configuration = (stack, (result, pointer_map)) *)
  Definition cstep (c : list N * (list node * list (N * N))) : list N * (list node * list (N * N)) :=
    let '(stk, (acc, pm)) := c in
    match stk with
    | [] => c
    | top :: rest =>
      match plook top pm with
      | Some _ => (rest, (acc, pm))                   (* 197-203: already translated: stack.pop(); continue *)
      | None =>
        let old_low := nlow (get G top) in            (* 204 *)
        let old_high := nhigh (get G top) in          (* 205 *)
        let new_low := plook old_low pm in            (* 209 *)
        let new_high := plook old_high pm in          (* 210 *)
        match new_low, new_high with
        | Some nl, Some nh =>                         (* 212-219: push_node; pointer_map[top] = root_pointer; pop *)
          (rest, (acc ++ [mkNode (var_of G top) nl nh], (top, size acc) :: pm))
        | _, _ =>                                     (* 221-226: push low (if unknown), then high (if unknown) *)
          (push_unknown_p new_high old_high (push_unknown_p new_low old_low stk), (acc, pm))
        end
      end
    end.

  Definition cempty (c : list N * (list node * list (N * N))) : bool := match fst c with [] => true | _ => false end.

  Fixpoint crun (d : nat) (c : list N * (list node * list (N * N))) : list N * (list node * list (N * N)) :=
    match d with
    | O => cstep c
    | S d' => let c' := crun d' c in if cempty c' then c' else crun d' c'
    end.
End FixStack.

(* lines 178-183 (constants), 186-194 (result = mk_true, empty pointer map, root on the stack), the loop, 230 *)
Definition fix_alignment_stack (G : bdd) (root : N) : option bdd :=
  let nv := nvars G in
  if root =? 0 then Some (mk_false nv) else
  if root =? 1 then Some (mk_true nv) else
  let '(stk, (acc, _)) := crun G (S (S (S (S (N.to_nat nv))))) ([root], (mk_true nv, [])) in
  match stk with
  | [] => Some acc
  | _ :: _ => None
  end.

(* ====================================================================================================== *)
(* nested_apply (lines 234-380)                                                                            *)
Section OuterStack.
  Variables (A B : bdd) (trigger : N -> bool) (outer inner : op2).

  (* lines 322-327: outer_op(l.as_bool(), r.as_bool()).map(BddPointer::from_bool).or_else(|| outer_cache.get(&comp).cloned()) *)
  Definition olookup (t : task) (s : nst) : option N :=
    match outer (as_bool (fst t)) (as_bool (snd t)) with
    | Some c => Some (of_bool c)
    | None => tfind t (nouter s)
    end.

  (* lines 331-365, "both values are computed"; returns the new `output` and the new state
     (None: the nested run of the inner machine hit its iteration bound):
       331-334  if new_low == new_high { outer_cache.insert( *on_stack, new_low); new_low }
       338-349  if trigger(decision_var) { inner_result = inner_apply(&mut result, new_low, new_high, &mut node_cache,
                                           &mut inner_cache, &inner_op); outer_cache.insert( *on_stack, inner_result) }
       351-355  node = mk_node(decision_var, new_low, new_high); if let Some(index) = node_cache.get(&node) {...}
       358-362  else { result.push_node(node); id = result.root_pointer(); node_cache.insert(node, id);
                       outer_cache.insert( *on_stack, id); id } *)
  Definition oresolve (t : task) (dv new_low new_high : N) (s : nst) : option (N * nst) :=
    if new_low =? new_high then Some (new_low, omemo s t new_low)
    else if trigger dv then
      match inner_apply_stack inner new_low new_high s with
      | None => None
      | Some (inner_result, s') => Some (inner_result, omemo s' t inner_result)
      end
    else
      let n := mkNode dv new_low new_high in
      match nfind n (nex s) with
      | Some index => Some (index, omemo s t index)
      | None =>
        let id := size (nn s) in
        Some (id, omemo (mkN (nn s ++ [n]) ((n, id) :: nex s) (nouter s) (ninner s)) t id)
      end.

  (* one iteration of the `while` body (lines 287-375) *)
  Definition ostep (c : list task * N * nst) : option (list task * N * nst) :=
    let '(stk, output, s) := c in
    match stk with
    | [] => Some c
    | on_stack :: rest =>
      match tfind on_stack (nouter s) with
      | Some saved => Some (rest, saved, s)           (* 288-290: output = *saved; outer_stack.pop() *)
      | None =>
        let l := fst on_stack in                      (* 292 *)
        let r := snd on_stack in
        let decision_var := N.min (var_of A l) (var_of B r) in   (* 295-296 *)
        let '(l_low, l_high) := kids A None l decision_var in    (* 300-304 *)
        let '(r_low, r_high) := kids B None r decision_var in    (* 305-309 *)
        let comp_low := (l_low, r_low) in             (* 312-315 *)
        let comp_high := (l_high, r_high) in          (* 316-319 *)
        let new_low := olookup comp_low s in          (* 322-324 *)
        let new_high := olookup comp_high s in        (* 325-327 *)
        match new_low, new_high with
        | Some nl, Some nh =>                         (* 330-366: output = ...; outer_stack.pop() *)
          match oresolve on_stack decision_var nl nh s with
          | None => None
          | Some (out, s') => Some (rest, out, s')
          end
        | _, _ =>                                     (* 368-373: push low (if unknown), then high (if unknown) *)
          Some (push_unknown new_high comp_high (push_unknown new_low comp_low stk), output, s)
        end
      end
    end.

  (* iterate ostep until the stack is empty, at most 2^d times *)
  Fixpoint orun (d : nat) (c : list task * N * nst) : option (list task * N * nst) :=
    match d with
    | O => ostep c
    | S d' =>
      match orun d' c with
      | None => None
      | Some c' => if iempty c' then Some c' else orun d' c'
      end
    end.

  (* lines 259-285 (result = mk_true, output = zero, node_cache with the two terminals, empty caches, the root task
     on the stack) and the loop *)
  Definition nested_run_stack : option (N * nst) :=
    match orun (S (S (S (S (N.to_nat (nvars A)))))) ([root A B], 0, n0 A) with
    | Some ([], output, s) => Some (output, s)
    | _ => None
    end.

  (* ... and line 379: fix_bdd_alignment(&result, output) *)
  Definition nested_apply_machine : option bdd :=
    match nested_run_stack with
    | None => None
    | Some (p, s) => fix_alignment_stack (nn s) p
    end.

  (* lines 250-257: the "Var count mismatch" panic *)
  Definition nested_apply_fn_stack : outcome bdd :=
    if negb (nvars A =? nvars B) then Panic else of_option nested_apply_machine.
End OuterStack.

(* ---- API-level wrappers, mirroring the `_faithful` entry points of Model/Nested.v ---- *)
(* the function `nested_apply` with the trigger predicate given as a bit list *)
Definition nested_apply_stack (A B : bdd) (trig : list bool) (outer inner : op2) : outcome bdd :=
  nested_apply_fn_stack A B (fun x => nth (N.to_nat x) trig false) outer inner.
(* Bdd::binary_op_nested (lines 54-67) only forwards to nested_apply *)
Definition binary_op_nested_stack (A B : bdd) (trig : list bool) (outer inner : op2) : outcome bdd :=
  nested_apply_stack A B trig outer inner.
(* Bdd::binary_op_with_exists (28-42) / binary_op_with_for_all (10-24): trigger = membership in the variable set *)
Definition binary_op_with_exists_stack (a b : bdd) (op : op2) (vars : list N) : outcome bdd :=
  nested_apply_fn_stack a b (mem_trigger vars) op op_or.
Definition binary_op_with_for_all_stack (a b : bdd) (op : op2) (vars : list N) : outcome bdd :=
  nested_apply_fn_stack a b (mem_trigger vars) op op_and.
Definition bdd_exists_stack (b : bdd) (vars : list N) : outcome bdd := binary_op_with_exists_stack b b op_and vars.
Definition bdd_for_all_stack (b : bdd) (vars : list N) : outcome bdd := binary_op_with_for_all_stack b b op_and vars.
