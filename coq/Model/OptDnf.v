(* Model/OptDnf.v — Bdd::to_optimized_dnf (src/_impl_bdd/_impl_dnf.rs, `_to_optimized_dnf` with the never-failing
   interrupt of `to_optimized_dnf`).  Definitions only.

   Granularity: STEP-FAITHFUL transcription of the recursive helper `_rec(bdd, partial_clause, results, interrupt)`
   over the existing operator models; every Bdd operation the Rust calls is the model of that very operation:
     bdd.support_set() collected and sorted     = Count.support_set (strictly ascending list)
     bdd.var_for_all(v) / var_exists(v)         = Ops.var_for_all / Ops.var_exists (the library's fused flip apply)
     core.exact_cardinality()                   = CountFast.exact_cardinality_auto (memoised; = Count.exact_cardinality)
     bdd.and_not(&core) / simplified.or(&core)  = Ops.bdd_and_not / Ops.bdd_or
     bdd.var_restrict(v, c)                     = Restrict.var_restrict_faithful (the single-pass `restriction`)
     bdd_t.size()                               = Bdd.size;  is_false / is_true = Bdd.is_false / Bdd.is_true
     `&simplified.or(&best_core) == bdd`        = `bdd_eqb`: derived PartialEq of Vec<BddNode>, i.e. array equality
   Control flow, in the order of the source:
     * the two constant tests; `assert!(!support.is_empty())` is an explicit `Panic`;
     * "largest common core": `best_core` is the `for var in &support` loop, started from `(support[0], 0)`, replaced
       only on a STRICTLY greater cardinality (`core_cardinality > best_core.1`), so the first variable wins a tie;
     * if the best cardinality is not zero: `var_for_all` is computed AGAIN for the winner (as the source does), `_rec` is
       called on the core with the SAME partial clause, then `remaining = bdd.and_not(&best_core)`,
       `assert!(!remaining.is_false())` is an explicit `Panic`, then `simplify_remaining` is the loop over the sorted
       support of the core (`simplified = remaining.var_exists(var)`; kept only if `simplified.or(&best_core) == bdd`,
       the ORIGINAL diagram of this call);
     * `best_split` is the second `for var in &support` loop (the support of the ORIGINAL diagram of this call, while the
       restrictions are taken on the remainder), started from `(support[0], usize::MAX)` and replaced only on a STRICTLY
       smaller `bdd_t.size() + bdd_f.size()`; `usize::MAX` is modelled by `None` (above every size a Vec can have);
     * `partial_clause[var] = Some(true)`, recursion on the true restriction, `partial_clause[var] = Some(false)`,
       recursion on the false restriction, `partial_clause[var] = None`: `IndexMut` = `mut_cell` pads the vector with
       `None` up to the index (also for the final `= None`), which is `Ops.pv_set`; `results.push(partial_clause.clone())`
       copies the vector with whatever trailing unset cells it has accumulated.
   State: `ost = (partial_clause, results)`, `results` kept newest first and reversed once at the end (as Model/Dnf.v).
   Fuel: the recursion depth; every recursive call is on a diagram whose support is strictly smaller, so
   `S (length (support_set b))` suffices (Proofs/OptDnfSem.v excludes `OutOfFuel` and both `Panic`s for every canonical
   operand).  The `interrupt` closure of `to_optimized_dnf` always answers `Ok(())` and is not modelled. *)
From Coq Require Import List NArith Bool.
Import ListNotations.
From BddVerif Require Import Model.Bdd Model.Apply Model.Ops Model.Count Model.CountFast Model.Restrict.
Open Scope N_scope.

(* Vec<BddNode> == Vec<BddNode> *)
Fixpoint bdd_eqb (a b : bdd) : bool :=
  match a, b with
  | [], [] => true
  | x :: r, y :: s => node_eqb x y && bdd_eqb r s
  | _, _ => false
  end.

(* bdd.var_restrict(var, value) *)
Definition var_restrict_o (b : bdd) (x : N) (c : bool) : outcome bdd := of_option (var_restrict_faithful b x c).

(* for var in &support { let core = bdd.var_for_all( *var); let c = core.exact_cardinality(); if c > best.1 { best = ( *var, c) } } *)
Fixpoint best_core (b : bdd) (vars : list N) (best : N * N) : outcome (N * N) :=
  match vars with
  | [] => Ok best
  | x :: r =>
    bind (var_for_all b x) (fun core =>
    let card := exact_cardinality_auto core in
    best_core b r (if snd best <? card then (x, card) else best))
  end.

(* for var in core_support { let simplified = remaining.var_exists(var); if &simplified.or(&best_core) == bdd { remaining = simplified } } *)
Fixpoint simplify_remaining (b core : bdd) (vars : list N) (remaining : bdd) : outcome bdd :=
  match vars with
  | [] => Ok remaining
  | x :: r =>
    bind (var_exists remaining x) (fun simplified =>
    bind (bdd_or simplified core) (fun u =>
    simplify_remaining b core r (if bdd_eqb u b then simplified else remaining)))
  end.

(* size < best.1 with best.1 : usize, None = usize::MAX *)
Definition below (sz : N) (bound : option N) : bool := match bound with None => true | Some m => sz <? m end.

(* for var in &support { let t = bdd.var_restrict( *var, true); let f = bdd.var_restrict( *var, false);
                         let size = t.size() + f.size(); if size < best.1 { best = ( *var, size) } } *)
Fixpoint best_split (b : bdd) (vars : list N) (best : N * option N) : outcome (N * option N) :=
  match vars with
  | [] => Ok best
  | x :: r =>
    bind (var_restrict_o b x true) (fun bt =>
    bind (var_restrict_o b x false) (fun bf =>
    let sz := size bt + size bf in
    best_split b r (if below sz (snd best) then (x, Some sz) else best)))
  end.

Definition ost := (pval * list pval)%type.                          (* (partial_clause, results newest first) *)

Fixpoint opt_rec (fuel : nat) (b : bdd) (st : ost) : outcome ost :=
  match fuel with
  | O => OutOfFuel
  | S f =>
    if is_false b then Ok st                                         (* if bdd.is_false() { return Ok(()) } *)
    else if is_true b then Ok (fst st, fst st :: snd st)             (* results.push(partial_clause.clone()) *)
    else
      match support_set b with
      | [] => Panic                                                  (* assert!(!support.is_empty()) *)
      | x0 :: _ =>
        let support := support_set b in
        bind (best_core b support (x0, 0)) (fun bc =>
        bind (if snd bc =? 0 then Ok (b, st)                         (* bdd.clone() *)
              else
                bind (var_for_all b (fst bc)) (fun core =>
                bind (opt_rec f core st) (fun st1 =>                 (* _rec(&best_core, partial_clause, results) *)
                bind (bdd_and_not b core) (fun remaining =>
                if is_false remaining then Panic                     (* assert!(!remaining.is_false()) *)
                else bind (simplify_remaining b core (support_set core) remaining) (fun rem => Ok (rem, st1))))))
             (fun bs =>
        let b' := fst bs in
        let st1 := snd bs in
        bind (best_split b' support (x0, None)) (fun best =>
        let x := fst best in
        let k := N.to_nat x in
        let pc1 := pv_set (fst st1) k (Some true) in                 (* partial_clause[var] = Some(true) *)
        bind (var_restrict_o b' x true) (fun bt =>
        bind (opt_rec f bt (pc1, snd st1)) (fun st2 =>
        let pc2 := pv_set (fst st2) k (Some false) in                (* partial_clause[var] = Some(false) *)
        bind (var_restrict_o b' x false) (fun bf =>
        bind (opt_rec f bf (pc2, snd st2)) (fun st3 =>
        Ok (pv_set (fst st3) k None, snd st3))))))))                 (* partial_clause[var] = None *)
      end
  end.

Definition opt_fuel (b : bdd) : nat := S (length (support_set b)).

Definition to_optimized_dnf (b : bdd) : outcome (list pval) :=
  if is_false b then Ok []                                           (* Ok(Vec::new()) *)
  else if is_true b then Ok [[]]                                     (* Ok(vec![BddPartialValuation::empty()]) *)
  else bind (opt_rec (opt_fuel b) b ([], [])) (fun st => Ok (rev (snd st))).
