(* C03 — quantification and nested apply equal operate-then-project. *)
From Coq Require Import List NArith Bool. Import ListNotations.
From BddVerif Require Import Model.Bdd Model.Apply Model.Ops Model.Nested Model.Alias Proofs.Sem Proofs.Canon Proofs.ApplySem Proofs.ApplyTop Proofs.QuantSem Proofs.NestedSem.
Open Scope N_scope.

Theorem C03_var_exists : forall b x, wf b -> x < nvars b ->
  exists r, var_exists b x = Ok r /\ Canonical r /\ nvars r = nvars b /\
    forall v, eval r v = true <-> exists c, eval b (upd v x c) = true.
Proof. exact var_exists_spec. Qed.
Print Assumptions C03_var_exists.

Theorem C03_var_for_all : forall b x, wf b -> x < nvars b ->
  exists r, var_for_all b x = Ok r /\ Canonical r /\ nvars r = nvars b /\
    forall v, eval r v = true <-> forall c, eval b (upd v x c) = true.
Proof. exact var_for_all_spec. Qed.
Print Assumptions C03_var_for_all.

(* a valuation satisfies exists(vars) iff some re-assignment of the listed variables satisfies the operand;
   any list: arbitrary order, repetitions, even variables outside the range *)
Theorem C03_exists : forall b vars, wf b ->
  exists r, bdd_exists b vars = Ok r /\ Canonical r /\ wf r /\ nvars r = nvars b /\
    forall v, eval r v = true <-> exists w, (forall y, ~ In y vars -> w y = v y) /\ eval b w = true.
Proof. exact bdd_exists_correct. Qed.
Print Assumptions C03_exists.

Theorem C03_for_all : forall b vars, wf b ->
  exists r, bdd_for_all b vars = Ok r /\ Canonical r /\ wf r /\ nvars r = nvars b /\
    forall v, eval r v = true <-> forall w, (forall y, ~ In y vars -> w y = v y) -> eval b w = true.
Proof. exact bdd_for_all_correct. Qed.
Print Assumptions C03_for_all.

Theorem C03_binary_op_with_exists : forall A B op vars,
  wf A -> wf B -> nvars A = nvars B -> total2 op -> consistent2 op ->
  exists r, binary_op_with_exists A B op vars = Ok r /\ Canonical r /\ wf r /\ nvars r = nvars A /\
    forall v, eval r v = true <-> exists w, (forall y, ~ In y vars -> w y = v y) /\ bop_of op (eval A w) (eval B w) = true.
Proof. exact binary_op_with_exists_correct. Qed.
Print Assumptions C03_binary_op_with_exists.

Theorem C03_binary_op_with_for_all : forall A B op vars,
  wf A -> wf B -> nvars A = nvars B -> total2 op -> consistent2 op ->
  exists r, binary_op_with_for_all A B op vars = Ok r /\ Canonical r /\ wf r /\ nvars r = nvars A /\
    forall v, eval r v = true <-> forall w, (forall y, ~ In y vars -> w y = v y) -> bop_of op (eval A w) (eval B w) = true.
Proof. exact binary_op_with_for_all_correct. Qed.
Print Assumptions C03_binary_op_with_for_all.

(* nested application with a trigger predicate and inner or / and projects exactly the triggered variables *)
Theorem C03_nested : forall A B trig outer inner_is_and,
  wf A -> wf B -> nvars A = nvars B -> total2 outer -> consistent2 outer ->
  exists r, binary_op_nested A B trig outer inner_is_and = Ok r /\ Canonical r /\ wf r /\ nvars r = nvars A /\
    forall v, eval r v = true <-> qspec inner_is_and (triggered_from 0 trig) (fun w => bop_of outer (eval A w) (eval B w)) v.
Proof. exact binary_op_nested_correct. Qed.
Print Assumptions C03_nested.

(* the result does not depend on the quantified variables *)
Theorem C03_independent : forall u b vars r, wf b -> project u b vars = Ok r ->
  forall x, In x vars -> forall v c, eval r (upd v x c) = eval r v.
Proof. exact project_indep. Qed.
Print Assumptions C03_independent.

(* the result depends only on the set of listed variables (order and repetition are irrelevant) *)
Theorem C03_order_repetition_irrelevant : forall u b vars1 vars2, Canonical b ->
  (forall y, In y vars1 <-> In y vars2) -> project u b vars1 = project u b vars2.
Proof. exact project_set_ext. Qed.
Print Assumptions C03_order_repetition_irrelevant.

(* ======================================================================================== *)
(* The library's nested apply ALGORITHM (Model/Nested.v: outer engine over the two operands, inner engine on
   the growing result store with a shared task cache, fix_bdd_alignment), not only its input/output behaviour.
   sok nv G = "G is a hash-consed store": terminals at 0/1, children at smaller indices with larger variables,
   no redundant test; nodup G = no two equal decision nodes. *)

(* fix_bdd_alignment: the DFS copy from a pointer is canonical and denotes the pointer's function *)
Theorem C03_nested_engine_fix_alignment : forall nv G p, sok nv G -> nodup G -> p < size G ->
  exists r, fix_alignment G p = Some r /\ Canonical r /\ nvars r = nvars G /\ forall v, eval r v = sem G p v.
Proof. exact fix_alignment_correct. Qed.
Print Assumptions C03_nested_engine_fix_alignment.

(* inner_apply: on two pointers of the store it returns a pointer denoting the pointwise connective, extends the
   store append-only (old pointers keep their meaning) and preserves the state invariant NInv (store is sok,
   node cache = store, both task caches sound; OG = any extension-stable promise of the outer cache) *)
Theorem C03_nested_engine_inner_apply : forall nv inner ibop (OG : list node -> task -> N -> Prop),
  (forall a b, inner (Some a) (Some b) = Some (ibop a b)) ->
  (forall x y r, inner x y = Some r -> forall a b, refines a x -> refines b y -> ibop a b = r) ->
  (forall G l t p, sok nv G -> sok nv (G ++ l) -> OG G t p -> OG (G ++ l) t p) ->
  forall s l r, NInv nv ibop OG s -> l < size (nn s) -> r < size (nn s) ->
  exists p s', inner_apply inner l r s = Some (p, s') /\ NInv nv ibop OG s' /\
    (exists ext, nn s' = nn s ++ ext) /\ p < size (nn s') /\
    (forall q v, q < size (nn s) -> sem (nn s') q v = sem (nn s) q v) /\
    forall v, sem (nn s') p v = ibop (sem (nn s) l v) (sem (nn s) r v).
Proof. exact inner_apply_correct. Qed.
Print Assumptions C03_nested_engine_inner_apply.

(* nested_apply with an arbitrary trigger predicate; inner table = any consistent table of and (u = true) / or *)
Theorem C03_nested_engine_fn : forall A B trigger outer inner (u : bool),
  wf A -> wf B -> nvars A = nvars B -> total2 outer -> consistent2 outer ->
  builtin_ok inner (if u then andb else orb) ->
  exists r, nested_apply_fn A B trigger outer inner = Ok r /\ Canonical r /\ wf r /\ nvars r = nvars A /\
    forall v, eval r v = true <-> qtr trigger u (fun w => bop_of outer (eval A w) (eval B w)) v.
Proof. exact nested_fn_correct. Qed.
Print Assumptions C03_nested_engine_fn.

Theorem C03_nested_engine_panic_iff : forall A B trigger outer inner,
  nested_apply_fn A B trigger outer inner = Panic <-> nvars A <> nvars B.
Proof. exact nested_fn_panic_iff. Qed.
Print Assumptions C03_nested_engine_panic_iff.

(* the faithful engine satisfies the statement of C03_nested ... *)
Theorem C03_nested_engine_correct : forall A B trig outer inner (u : bool),
  wf A -> wf B -> nvars A = nvars B -> total2 outer -> consistent2 outer ->
  builtin_ok inner (if u then andb else orb) ->
  exists r, nested_apply_faithful A B trig outer inner = Ok r /\ Canonical r /\ wf r /\ nvars r = nvars A /\
    forall v, eval r v = true <-> qspec u (triggered_from 0 trig) (fun w => bop_of outer (eval A w) (eval B w)) v.
Proof. exact nested_faithful_correct. Qed.
Print Assumptions C03_nested_engine_correct.

(* ... hence returns the same ARRAY as the compositional model used in the theorems above *)
Theorem C03_nested_engine_eq_model : forall A B trig outer inner (u : bool),
  wf A -> wf B -> nvars A = nvars B -> total2 outer -> consistent2 outer ->
  builtin_ok inner (if u then andb else orb) ->
  nested_apply_faithful A B trig outer inner = binary_op_nested A B trig outer u.
Proof. exact nested_faithful_eq_model. Qed.
Print Assumptions C03_nested_engine_eq_model.

Theorem C03_nested_engine_bin_exists_eq : forall A B op vars,
  wf A -> wf B -> nvars A = nvars B -> total2 op -> consistent2 op ->
  binary_op_with_exists_faithful A B op vars = binary_op_with_exists A B op vars.
Proof. exact binary_op_with_exists_faithful_eq. Qed.
Print Assumptions C03_nested_engine_bin_exists_eq.

Theorem C03_nested_engine_bin_for_all_eq : forall A B op vars,
  wf A -> wf B -> nvars A = nvars B -> total2 op -> consistent2 op ->
  binary_op_with_for_all_faithful A B op vars = binary_op_with_for_all A B op vars.
Proof. exact binary_op_with_for_all_faithful_eq. Qed.
Print Assumptions C03_nested_engine_bin_for_all_eq.

Theorem C03_nested_engine_exists_eq : forall b vars, wf b -> bdd_exists_faithful b vars = bdd_exists b vars.
Proof. exact bdd_exists_faithful_eq. Qed.
Print Assumptions C03_nested_engine_exists_eq.

Theorem C03_nested_engine_for_all_eq : forall b vars, wf b -> bdd_for_all_faithful b vars = bdd_for_all b vars.
Proof. exact bdd_for_all_faithful_eq. Qed.
Print Assumptions C03_nested_engine_for_all_eq.

(* hypotheses are satisfiable on a non-trivial instance: x0 /\ x1 over 3 variables, exists x1 / forall x0 *)
Example C03_nested_engine_example :
  nested_apply_faithful [mkNode 3 0 0; mkNode 3 1 1; mkNode 1 0 1; mkNode 0 0 2]
                        [mkNode 3 0 0; mkNode 3 1 1; mkNode 1 0 1; mkNode 0 0 2] [false; true] op_or op_or
  = Ok [mkNode 3 0 0; mkNode 3 1 1; mkNode 0 0 1].
Proof. vm_compute. reflexivity. Qed.
Print Assumptions C03_nested_engine_example.

(* ---- the efficient version of the nested apply (Model/NestedFast.v: PositiveMap operands, the growing store that the
   inner engine reads as a PositiveMap keyed by index plus a size counter, PositiveMap caches, PositiveMap pointer map
   in fix_alignment) that the correspondence driver runs on operands above 300 nodes computes exactly the reference
   algorithm's outcome, for ALL inputs (no hypotheses) ---- *)
From BddVerif Require Import Model.NestedFast Proofs.NestedFast.

Theorem C03_nested_fast_engine_refines : forall A B trigger outer inner,
  nested_apply_fn_fast A B trigger outer inner = nested_apply_fn A B trigger outer inner.
Proof. exact nested_apply_fn_fast_eq. Qed.
Print Assumptions C03_nested_fast_engine_refines.

Theorem C03_nested_fast_refines : forall A B trig outer inner,
  nested_apply_faithful_fast A B trig outer inner = nested_apply_faithful A B trig outer inner.
Proof. exact nested_apply_faithful_fast_eq. Qed.
Print Assumptions C03_nested_fast_refines.

Theorem C03_nested_fast_bin_exists_refines : forall a b op vars,
  binary_op_with_exists_faithful_fast a b op vars = binary_op_with_exists_faithful a b op vars.
Proof. exact binary_op_with_exists_faithful_fast_eq. Qed.
Print Assumptions C03_nested_fast_bin_exists_refines.

Theorem C03_nested_fast_bin_for_all_refines : forall a b op vars,
  binary_op_with_for_all_faithful_fast a b op vars = binary_op_with_for_all_faithful a b op vars.
Proof. exact binary_op_with_for_all_faithful_fast_eq. Qed.
Print Assumptions C03_nested_fast_bin_for_all_refines.

Theorem C03_nested_fast_exists_refines : forall b vars, bdd_exists_faithful_fast b vars = bdd_exists_faithful b vars.
Proof. exact bdd_exists_faithful_fast_eq. Qed.
Print Assumptions C03_nested_fast_exists_refines.

Theorem C03_nested_fast_for_all_refines : forall b vars, bdd_for_all_faithful_fast b vars = bdd_for_all_faithful b vars.
Proof. exact bdd_for_all_faithful_fast_eq. Qed.
Print Assumptions C03_nested_fast_for_all_refines.

Theorem C03_nested_fast_correct : forall A B trigger outer inner (u : bool),
  wf A -> wf B -> nvars A = nvars B -> total2 outer -> consistent2 outer ->
  builtin_ok inner (if u then andb else orb) ->
  exists r, nested_apply_fn_fast A B trigger outer inner = Ok r /\ Canonical r /\ wf r /\ nvars r = nvars A /\
    forall v, eval r v = true <-> qtr trigger u (fun w => bop_of outer (eval A w) (eval B w)) v.
Proof. exact nested_fn_fast_correct. Qed.
Print Assumptions C03_nested_fast_correct.

Example C03_nested_fast_example :
  nested_apply_faithful_fast [mkNode 3 0 0; mkNode 3 1 1; mkNode 1 0 1; mkNode 0 0 2]
                             [mkNode 3 0 0; mkNode 3 1 1; mkNode 1 0 1; mkNode 0 0 2] [false; true] op_or op_or
  = Ok [mkNode 3 0 0; mkNode 3 1 1; mkNode 0 0 1].
Proof. exact nested_fast_example. Qed.
Print Assumptions C03_nested_fast_example.

(* the deprecated aliases project / var_project (Model/Alias.v) are exists / var_exists *)
Theorem C03_project_alias : forall b vars, wf b ->
  exists r, bdd_project_alias b vars = Ok r /\ Canonical r /\ wf r /\ nvars r = nvars b /\
    forall v, eval r v = true <-> exists w, (forall y, ~ In y vars -> w y = v y) /\ eval b w = true.
Proof. exact bdd_exists_correct. Qed.
Print Assumptions C03_project_alias.
Theorem C03_var_project_alias : forall b x, wf b -> x < nvars b ->
  exists r, var_project_alias b x = Ok r /\ Canonical r /\ nvars r = nvars b /\
    forall v, eval r v = true <-> exists c, eval b (upd v x c) = true.
Proof. exact var_exists_spec. Qed.
Print Assumptions C03_var_project_alias.

(* ---- order / repetition / independence for the PUBLIC entry points (C03_independent and
   C03_order_repetition_irrelevant above are about the internal `project`).  Operands merely well-formed; the lists may
   differ in order, repetitions and out-of-range entries as long as they list the same set. ---- *)
From BddVerif Require Proofs.GapsQuant.

Theorem C03_exists_set_only : forall b vs vs', wf b -> (forall y, In y vs <-> In y vs') ->
  bdd_exists b vs = bdd_exists b vs'.
Proof. exact GapsQuant.exists_set_only. Qed.
Print Assumptions C03_exists_set_only.

Theorem C03_for_all_set_only : forall b vs vs', wf b -> (forall y, In y vs <-> In y vs') ->
  bdd_for_all b vs = bdd_for_all b vs'.
Proof. exact GapsQuant.for_all_set_only. Qed.
Print Assumptions C03_for_all_set_only.

Theorem C03_bin_exists_set_only : forall A B op vs vs',
  wf A -> wf B -> nvars A = nvars B -> total2 op -> consistent2 op -> (forall y, In y vs <-> In y vs') ->
  binary_op_with_exists A B op vs = binary_op_with_exists A B op vs'.
Proof. exact GapsQuant.bin_exists_set_only. Qed.
Print Assumptions C03_bin_exists_set_only.

Theorem C03_bin_for_all_set_only : forall A B op vs vs',
  wf A -> wf B -> nvars A = nvars B -> total2 op -> consistent2 op -> (forall y, In y vs <-> In y vs') ->
  binary_op_with_for_all A B op vs = binary_op_with_for_all A B op vs'.
Proof. exact GapsQuant.bin_for_all_set_only. Qed.
Print Assumptions C03_bin_for_all_set_only.

(* `project` itself for a merely well-formed operand (strengthens C03_order_repetition_irrelevant) *)
Theorem C03_project_set_only_wf : forall u b vs vs', wf b -> (forall y, In y vs <-> In y vs') ->
  project u b vs = project u b vs'.
Proof. exact GapsQuant.project_set_only_wf. Qed.
Print Assumptions C03_project_set_only_wf.

(* the result does not depend on any quantified variable *)
Theorem C03_exists_independent : forall b vs r, wf b -> bdd_exists b vs = Ok r ->
  forall x, In x vs -> forall v c, eval r (upd v x c) = eval r v.
Proof. exact GapsQuant.exists_independent. Qed.
Print Assumptions C03_exists_independent.

Theorem C03_for_all_independent : forall b vs r, wf b -> bdd_for_all b vs = Ok r ->
  forall x, In x vs -> forall v c, eval r (upd v x c) = eval r v.
Proof. exact GapsQuant.for_all_independent. Qed.
Print Assumptions C03_for_all_independent.

Theorem C03_bin_exists_independent : forall A B op vs r,
  wf A -> wf B -> nvars A = nvars B -> total2 op -> consistent2 op -> binary_op_with_exists A B op vs = Ok r ->
  forall x, In x vs -> forall v c, eval r (upd v x c) = eval r v.
Proof. exact GapsQuant.bin_exists_independent. Qed.
Print Assumptions C03_bin_exists_independent.

Theorem C03_bin_for_all_independent : forall A B op vs r,
  wf A -> wf B -> nvars A = nvars B -> total2 op -> consistent2 op -> binary_op_with_for_all A B op vs = Ok r ->
  forall x, In x vs -> forall v c, eval r (upd v x c) = eval r v.
Proof. exact GapsQuant.bin_for_all_independent. Qed.
Print Assumptions C03_bin_for_all_independent.

(* n: valid, not canonical (duplicated node); permuted / repeated / out-of-range lists *)
Example C03_set_only_example :
  let n := [mkNode 3 0 0; mkNode 3 1 1; mkNode 1 0 1; mkNode 1 0 1; mkNode 0 2 3] in
  let a := [mkNode 3 0 0; mkNode 3 1 1; mkNode 2 0 1; mkNode 0 0 2] in
  wfb n = true /\ canonicalb n = false /\
  bdd_exists n [0; 2] = bdd_exists n [2; 0; 2; 0] /\
  bdd_exists n [0; 2] = Ok [mkNode 3 0 0; mkNode 3 1 1; mkNode 1 0 1] /\
  bdd_for_all n [0; 7] = bdd_for_all n [7; 7; 0] /\
  bdd_for_all n [0; 7] = Ok [mkNode 3 0 0; mkNode 3 1 1; mkNode 1 0 1] /\
  binary_op_with_exists n a op_and [2; 1] = binary_op_with_exists n a op_and [1; 2; 1] /\
  binary_op_with_exists n a op_and [2; 1] = Ok [mkNode 3 0 0; mkNode 3 1 1; mkNode 0 0 1] /\
  binary_op_with_for_all n a op_or [2] = binary_op_with_for_all n a op_or [2; 2] /\
  binary_op_with_for_all n a op_or [2] = Ok [mkNode 3 0 0; mkNode 3 1 1; mkNode 1 0 1].
Proof. exact GapsQuant.quant_set_only_example. Qed.
Print Assumptions C03_set_only_example.

(* ---- the STEP-FAITHFUL explicit-stack machines of the three `while` loops of the nested apply (Model/NestedStack.v: one
   ostep / istep / cstep = one iteration of the loop body of nested_apply / inner_apply / fix_bdd_alignment; the inner loop
   runs to completion inside one outer step; `output` variable, outer cache, shared inner cache, node cache as in the Rust).
   Proofs/NestedStack.v: equal to the faithful recursion of Model/Nested.v for valid operands and two tables that answer on
   total inputs (no consistency, no or/and shape, any trigger) ---- *)
From BddVerif Require Import Model.NestedStack Proofs.NestedStack.

Theorem C03_nested_stack_machine_refines : forall A B trig outer inner, wf A -> wf B -> total2 outer -> total2 inner ->
  nested_apply_stack A B trig outer inner = nested_apply_faithful A B trig outer inner.
Proof. exact nested_apply_stack_eq. Qed.
Print Assumptions C03_nested_stack_machine_refines.

Theorem C03_exists_stack_machine_refines : forall b vars, wf b -> bdd_exists_stack b vars = bdd_exists_faithful b vars.
Proof. exact bdd_exists_stack_eq. Qed.
Print Assumptions C03_exists_stack_machine_refines.

Theorem C03_for_all_stack_machine_refines : forall b vars, wf b -> bdd_for_all_stack b vars = bdd_for_all_faithful b vars.
Proof. exact bdd_for_all_stack_eq. Qed.
Print Assumptions C03_for_all_stack_machine_refines.

Theorem C03_bin_exists_stack_machine_refines : forall a b op vars, wf a -> wf b -> total2 op ->
  binary_op_with_exists_stack a b op vars = binary_op_with_exists_faithful a b op vars.
Proof. exact binary_op_with_exists_stack_eq. Qed.
Print Assumptions C03_bin_exists_stack_machine_refines.

Theorem C03_bin_for_all_stack_machine_refines : forall a b op vars, wf a -> wf b -> total2 op ->
  binary_op_with_for_all_stack a b op vars = binary_op_with_for_all_faithful a b op vars.
Proof. exact binary_op_with_for_all_stack_eq. Qed.
Print Assumptions C03_bin_for_all_stack_machine_refines.

(* the inner loop alone, on any hash-consed store (store_ok: the structural invariant of every state the outer loop reaches) *)
Theorem C03_inner_stack_machine_refines : forall nv inner s l r, total2 inner -> store_ok nv s ->
  l < size (nn s) -> r < size (nn s) -> inner_apply_stack inner l r s = inner_apply inner l r s.
Proof. exact inner_apply_stack_eq. Qed.
Print Assumptions C03_inner_stack_machine_refines.

(* the copy loop of fix_bdd_alignment alone *)
Theorem C03_fix_alignment_stack_machine_refines : forall nv G p, sok nv G -> p < size G ->
  fix_alignment_stack G p = fix_alignment G p.
Proof. exact fix_alignment_stack_eq. Qed.
Print Assumptions C03_fix_alignment_stack_machine_refines.

(* the statement of C03_nested / C03_nested_engine_correct, for the machine *)
Theorem C03_nested_stack_machine_correct : forall A B trig outer inner (u : bool),
  wf A -> wf B -> nvars A = nvars B -> total2 outer -> consistent2 outer ->
  builtin_ok inner (if u then andb else orb) ->
  exists r, nested_apply_stack A B trig outer inner = Ok r /\ Canonical r /\ wf r /\ nvars r = nvars A /\
    forall v, eval r v = true <->
      qspec u (triggered_from 0 trig) (fun w => bop_of outer (eval A w) (eval B w)) v.
Proof. exact nested_stack_correct. Qed.
Print Assumptions C03_nested_stack_machine_correct.

(* the machines run differently from the recursion (tasks pushed twice, cache hits that only set `output`), and the totality
   of the INNER table is what makes the inner loop terminate *)
Example C03_nested_stack_machine_steps_example :
  let tr := fun x => nth (N.to_nat x) [false; true; true; false] false in
  let run k := outer_stack_iter nsx_A nsx_B tr op_iff op_or k (Some ([root nsx_A nsx_B], 0, n0 nsx_A)) in
  let stack_of o := match o with Some (stk, _, _) => stk | None => [] end in
  let out_of o := match o with Some (_, out, _) => out | None => 0 end in
  let inner_of o := match o with Some (_, _, s) => ninner s | None => [] end in
  oempty_o (run 17%nat) = false /\ oempty_o (run 18%nat) = true /\
  stack_of (run 3%nat) = [(2, 1); (3, 1); (4, 1); (2, 1); (5, 1); (6, 6); (7, 7)] /\
  stack_of (run 6%nat) = [(2, 1); (5, 1); (6, 6); (7, 7)] /\
  stack_of (run 7%nat) = [(5, 1); (6, 6); (7, 7)] /\ out_of (run 6%nat) = 1 /\ out_of (run 7%nat) = 2 /\
  inner_of (run 5%nat) = [] /\ inner_of (run 6%nat) = [((3, 2), 1)] /\
  match run 18%nat with Some (_, out, s) => nested_run nsx_A nsx_B tr op_iff op_or = Some (out, s) | None => False end.
Proof. exact nested_stack_example_steps. Qed.
Print Assumptions C03_nested_stack_machine_steps_example.
