(* C03 — quantification and nested apply equal operate-then-project. *)
From Coq Require Import List NArith Bool. Import ListNotations.
From BddVerif Require Import Model.Bdd Model.Apply Model.Ops Proofs.Sem Proofs.Canon Proofs.ApplySem Proofs.ApplyTop Proofs.QuantSem.
Open Scope N_scope.

Theorem C03_var_exists : forall b x, wf b -> x < nvars b ->
  exists r, var_exists b x = Ok r /\ Canonical r /\ nvars r = nvars b /\
    forall v, eval r v = true <-> exists c, eval b (upd v x c) = true.
Proof. exact var_exists_spec. Qed.
Print Assumptions C03_var_exists.

Theorem C03_var_for_all : forall b x, wf b -> x < nvars b ->
  exists r, var_for_all b x = Ok r /\ Canonical r /\ nvars r = nvars b /\
    forall v, eval r v = true <-> forall c, eval b (upd v x c) = true.
Proof. exact var_for_all_spec. Qed.
Print Assumptions C03_var_for_all.

(* a valuation satisfies exists(vars) iff some re-assignment of the listed variables satisfies the operand;
   any list: arbitrary order, repetitions, even variables outside the range *)
Theorem C03_exists : forall b vars, wf b ->
  exists r, bdd_exists b vars = Ok r /\ Canonical r /\ wf r /\ nvars r = nvars b /\
    forall v, eval r v = true <-> exists w, (forall y, ~ In y vars -> w y = v y) /\ eval b w = true.
Proof. exact bdd_exists_correct. Qed.
Print Assumptions C03_exists.

Theorem C03_for_all : forall b vars, wf b ->
  exists r, bdd_for_all b vars = Ok r /\ Canonical r /\ wf r /\ nvars r = nvars b /\
    forall v, eval r v = true <-> forall w, (forall y, ~ In y vars -> w y = v y) -> eval b w = true.
Proof. exact bdd_for_all_correct. Qed.
Print Assumptions C03_for_all.

Theorem C03_binary_op_with_exists : forall A B op vars,
  wf A -> wf B -> nvars A = nvars B -> total2 op -> consistent2 op ->
  exists r, binary_op_with_exists A B op vars = Ok r /\ Canonical r /\ wf r /\ nvars r = nvars A /\
    forall v, eval r v = true <-> exists w, (forall y, ~ In y vars -> w y = v y) /\ bop_of op (eval A w) (eval B w) = true.
Proof. exact binary_op_with_exists_correct. Qed.
Print Assumptions C03_binary_op_with_exists.

Theorem C03_binary_op_with_for_all : forall A B op vars,
  wf A -> wf B -> nvars A = nvars B -> total2 op -> consistent2 op ->
  exists r, binary_op_with_for_all A B op vars = Ok r /\ Canonical r /\ wf r /\ nvars r = nvars A /\
    forall v, eval r v = true <-> forall w, (forall y, ~ In y vars -> w y = v y) -> bop_of op (eval A w) (eval B w) = true.
Proof. exact binary_op_with_for_all_correct. Qed.
Print Assumptions C03_binary_op_with_for_all.

(* nested application with a trigger predicate and inner or / and projects exactly the triggered variables *)
Theorem C03_nested : forall A B trig outer inner_is_and,
  wf A -> wf B -> nvars A = nvars B -> total2 outer -> consistent2 outer ->
  exists r, binary_op_nested A B trig outer inner_is_and = Ok r /\ Canonical r /\ wf r /\ nvars r = nvars A /\
    forall v, eval r v = true <-> qspec inner_is_and (triggered_from 0 trig) (fun w => bop_of outer (eval A w) (eval B w)) v.
Proof. exact binary_op_nested_correct. Qed.
Print Assumptions C03_nested.

(* the result does not depend on the quantified variables *)
Theorem C03_independent : forall u b vars r, wf b -> project u b vars = Ok r ->
  forall x, In x vars -> forall v c, eval r (upd v x c) = eval r v.
Proof. exact project_indep. Qed.
Print Assumptions C03_independent.

(* the result depends only on the set of listed variables (order and repetition are irrelevant) *)
Theorem C03_order_repetition_irrelevant : forall u b vars1 vars2, Canonical b ->
  (forall y, In y vars1 <-> In y vars2) -> project u b vars1 = project u b vars2.
Proof. exact project_set_ext. Qed.
Print Assumptions C03_order_repetition_irrelevant.
