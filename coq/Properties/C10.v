(* C10 — normal-form construction and extraction preserve the function.

   Constructors (Model/Ops.v): mk_dnf / mk_cnf are I/O-equivalent models (fold of the clause diagrams with or / and;
   the Rust recursion on the variable index returns the same canonical array by C02), mk_conjunctive_clause /
   mk_disjunctive_clause are step-faithful node chains.  Extraction (Model/Paths.v): to_dnf = clauses of the
   root-to-1 paths in DFS order, to_cnf = root-to-0 paths with inverted literals.  to_optimized_dnf is a greedy heuristic:
   the relation of the property validates every list the implementation returns at run time with the proved constructor
   (C10_optimized_dnf_checked is the soundness of that check), so a different but valid clause list is never an alarm.
   The algorithm itself is inside the model as well (Model/OptDnf.v, step-faithful transcription of `_rec` over the
   operator models; proofs in Proofs/OptDnfSem.v): on every canonical diagram it terminates within its fuel, neither
   `assert!` can fire, its clauses stay inside the variable set, their disjunction is the function
   (C10_optimized_dnf_sem, C10_optimized_dnf_total) and mk_dnf rebuilds the identical array
   (C10_optimized_dnf_roundtrip).  The driver reports the model's list; the judge compares it with the implementation's
   as evidence only.

   The library's OWN algorithms are inside the model as well (Model/Dnf.v, proofs in Proofs/DnfSem.v) and are what the
   correspondence driver reports (the fold / DFS-list models are recomputed alongside; a difference on in-range clauses /
   a wfb operand is the hard error BAD:dnf-models-disagree):  mk_dnf_faithful / mk_cnf_faithful = the recursion on the
   variable index with the three-way split (dont_care / has_true / has_false), the duplicate-clause assert_eq!, the
   `dont_care.or(&has_true).or(&has_false)` combination (theorems C10_mk_dnf_faithful_..., C10_mk_cnf_faithful_...);  to_dnf_faithful =
   the explicit-stack loop with the mutable path vector, to_cnf_faithful = the recursion with the threaded path
   (theorems C10_to_dnf_faithful_..., C10_to_cnf_faithful_...).  The mutable path pads itself with unset cells, so the vectors handed
   out may carry trailing `None`s (C10_to_dnf_faithful_padding_example): the equation with the DFS list holds after
   pv_trim, equivalently clause by clause under BddPartialValuation::eq (pv_eq). *)
From Coq Require Import List NArith Bool. Import ListNotations.
From BddVerif Require Import Model.Bdd Model.Apply Model.Ops Model.Paths Model.Valuation Model.Dnf Model.OptDnf Proofs.Sem Proofs.Canon
  Proofs.Reflect Proofs.PvalSem Proofs.NormalForms Proofs.Paths Proofs.DnfSem Proofs.OptDnfSem Model.Alias.
Open Scope N_scope.

(* clause_sat v c: v satisfies the conjunction of the literals of c;  dclause_sat v c: their disjunction *)
Theorem C10_clause_sat_def : forall v c,
  clause_sat v c = forallb (fun xc => Bool.eqb (v (fst xc)) (snd xc)) (pv_cells c) /\
  dclause_sat v c = existsb (fun xc => Bool.eqb (v (fst xc)) (snd xc)) (pv_cells c).
Proof. intros; split; reflexivity. Qed.
Print Assumptions C10_clause_sat_def.

(* mk_dnf returns the disjunction of the given conjunctive clauses, for ANY list of clauses over the variable set
   (empty list, empty clause, duplicates, overlapping and complementary clauses are ordinary cases) *)
Theorem C10_mk_dnf : forall nv cs, (forall c, In c cs -> cells_in_range nv c = true) ->
  exists r, mk_dnf nv cs = Ok r /\ wf r /\ nvars r = nv /\
            (forall v, eval r v = existsb (clause_sat v) cs) /\ Canonical r.
Proof. exact mk_dnf_correct. Qed.
Print Assumptions C10_mk_dnf.

Theorem C10_mk_cnf : forall nv cs, (forall c, In c cs -> cells_in_range nv c = true) ->
  exists r, mk_cnf nv cs = Ok r /\ wf r /\ nvars r = nv /\
            (forall v, eval r v = forallb (dclause_sat v) cs) /\ Canonical r.
Proof. exact mk_cnf_correct. Qed.
Print Assumptions C10_mk_cnf.

(* the model panics exactly when some clause mentions a variable outside the set *)
Theorem C10_mk_dnf_panic_iff : forall nv cs, mk_dnf nv cs = Panic <-> exists c, In c cs /\ cells_in_range nv c = false.
Proof. exact mk_dnf_panic_iff. Qed.
Print Assumptions C10_mk_dnf_panic_iff.

Theorem C10_mk_cnf_panic_iff : forall nv cs, mk_cnf nv cs = Panic <-> exists c, In c cs /\ cells_in_range nv c = false.
Proof. exact mk_cnf_panic_iff. Qed.
Print Assumptions C10_mk_cnf_panic_iff.

(* the clause constructors return the single clause *)
Theorem C10_mk_conjunctive_clause : forall nv pv, cells_in_range nv pv = true ->
  exists r, mk_conjunctive_clause nv pv = Ok r /\ wf r /\ nvars r = nv /\
            (forall v, eval r v = clause_sat v pv) /\ Canonical r.
Proof. exact mk_conjunctive_clause_correct. Qed.
Print Assumptions C10_mk_conjunctive_clause.

Theorem C10_mk_disjunctive_clause : forall nv pv, cells_in_range nv pv = true ->
  exists r, mk_disjunctive_clause nv pv = Ok r /\ wf r /\ nvars r = nv /\
            (forall v, eval r v = dclause_sat v pv) /\ Canonical r.
Proof. exact mk_disjunctive_clause_correct. Qed.
Print Assumptions C10_mk_disjunctive_clause.

(* extraction: the DNF / CNF read off a valid diagram denotes its function *)
Theorem C10_to_dnf_sem : forall b, wf b -> forall v, eval b v = existsb (clause_sat v) (to_dnf b).
Proof. exact to_dnf_sem. Qed.
Print Assumptions C10_to_dnf_sem.

Theorem C10_to_cnf_sem : forall b, wf b -> forall v, eval b v = forallb (dclause_sat v) (to_cnf b).
Proof. exact to_cnf_sem. Qed.
Print Assumptions C10_to_cnf_sem.

(* rebuilding from to_dnf() / to_cnf() returns a Bdd equal to b (the identical array) *)
Theorem C10_dnf_roundtrip : forall b, Canonical b -> mk_dnf (nvars b) (to_dnf b) = Ok b.
Proof. exact dnf_roundtrip. Qed.
Print Assumptions C10_dnf_roundtrip.

Theorem C10_cnf_roundtrip : forall b, Canonical b -> mk_cnf (nvars b) (to_cnf b) = Ok b.
Proof. exact cnf_roundtrip. Qed.
Print Assumptions C10_cnf_roundtrip.

(* to_optimized_dnf: the run-time check of the correspondence (`model mk_dnf (nvars b) cs = b` for the list cs returned by
   the implementation) is sound: it implies that the disjunction of cs is the function of b.  Together with C10_mk_dnf
   (a correct mk_dnf then rebuilds a canonical diagram of that function) and C02_canonical_unique this is
   "rebuilding from to_optimized_dnf() returns a Bdd equal to b" for every list that passes the check. *)
Theorem C10_optimized_dnf_checked : forall b cs, mk_dnf (nvars b) cs = Ok b -> forall v, eval b v = existsb (clause_sat v) cs.
Proof. exact optimized_dnf_checked. Qed.
Print Assumptions C10_optimized_dnf_checked.

Theorem C10_cnf_checked : forall b cs, mk_cnf (nvars b) cs = Ok b -> forall v, eval b v = forallb (dclause_sat v) cs.
Proof. exact cnf_checked. Qed.
Print Assumptions C10_cnf_checked.

(* conversely the check never rejects a correct answer: any in-range list denoting a canonical b rebuilds exactly b *)
Theorem C10_check_complete : forall b cs, Canonical b -> (forall c, In c cs -> cells_in_range (nvars b) c = true) ->
  (forall v, eval b v = existsb (clause_sat v) cs) -> mk_dnf (nvars b) cs = Ok b.
Proof. exact dnf_check_complete. Qed.
Print Assumptions C10_check_complete.

(* non-trivial instance: (x0 /\ x2) \/ (~x0 /\ x1) over 4 variables; an optimized-style list with a merged clause *)
Definition ex10 : bdd := [mkNode 4 0 0; mkNode 4 1 1; mkNode 2 0 1; mkNode 1 0 1; mkNode 0 3 2].
Example C10_example : canonicalb ex10 = true /\
  to_dnf ex10 = [[Some false; Some true]; [Some true; None; Some true]] /\
  to_cnf ex10 = [[Some true; Some true]; [Some false; None; Some true]] /\
  mk_dnf 4 (to_dnf ex10) = Ok ex10 /\ mk_cnf 4 (to_cnf ex10) = Ok ex10 /\
  mk_dnf 4 [[None; Some true; Some true]; [Some true; Some false; Some true]; [Some false; Some true; Some false]; []; []] <> Ok ex10 /\
  mk_dnf 4 [[None; Some true; Some true]; [Some true; Some false; Some true]; [Some false; Some true; Some false]] = Ok ex10.
Proof. vm_compute. repeat split. discriminate. Qed.
Print Assumptions C10_example.

(* ============================================================================================================== *)
(* The library's own algorithms (Model/Dnf.v)                                                                      *)

(* Bdd::mk_dnf's recursion: for clauses over the variable set no assertion fires, fuel suffices, and the result is the
   canonical diagram of the disjunction of the clauses *)
Theorem C10_mk_dnf_faithful_correct : forall nv cs, (forall c, In c cs -> cells_in_range nv c = true) ->
  exists r, mk_dnf_faithful nv cs = Ok r /\ Canonical r /\ nvars r = nv /\
            forall v, eval r v = existsb (clause_sat v) cs.
Proof. exact mk_dnf_faithful_correct. Qed.
Print Assumptions C10_mk_dnf_faithful_correct.

(* ... hence the very array of the fold model *)
Theorem C10_mk_dnf_faithful_eq_model : forall nv cs, (forall c, In c cs -> cells_in_range nv c = true) ->
  mk_dnf_faithful nv cs = mk_dnf nv cs.
Proof. exact mk_dnf_faithful_eq_model. Qed.
Print Assumptions C10_mk_dnf_faithful_eq_model.

(* panics: none inside the variable set; outside it the code as it is does NOT reject a clause (the base case calls
   Bdd::mk_partial_valuation, which has no range assertion): a single clause is returned as a diagram whatever it mentions,
   whereas the fold model (and BddVariableSet::mk_conjunctive_clause) panics — see C10_mk_dnf_faithful_out_of_range_example *)
Theorem C10_mk_dnf_faithful_panic_only_out_of_range : forall nv cs,
  mk_dnf_faithful nv cs = Panic -> exists c, In c cs /\ cells_in_range nv c = false.
Proof. exact mk_dnf_faithful_panic_only_out_of_range. Qed.
Print Assumptions C10_mk_dnf_faithful_panic_only_out_of_range.

Theorem C10_mk_dnf_faithful_single : forall nv c, mk_dnf_faithful nv [c] = Ok (mk_partial_valuation nv c).
Proof. exact mk_dnf_faithful_single. Qed.
Print Assumptions C10_mk_dnf_faithful_single.

(* Bdd::mk_cnf's recursion (its leaves go through the asserting mk_disjunctive_clause) *)
Theorem C10_mk_cnf_faithful_correct : forall nv cs, (forall c, In c cs -> cells_in_range nv c = true) ->
  exists r, mk_cnf_faithful nv cs = Ok r /\ Canonical r /\ nvars r = nv /\
            forall v, eval r v = forallb (dclause_sat v) cs.
Proof. exact mk_cnf_faithful_correct. Qed.
Print Assumptions C10_mk_cnf_faithful_correct.

Theorem C10_mk_cnf_faithful_panic_iff : forall nv cs,
  mk_cnf_faithful nv cs = Panic <-> exists c, In c cs /\ cells_in_range nv c = false.
Proof. exact mk_cnf_faithful_panic_iff. Qed.
Print Assumptions C10_mk_cnf_faithful_panic_iff.

(* the CNF recursion equals the fold model on EVERY input *)
Theorem C10_mk_cnf_faithful_eq_model : forall nv cs, mk_cnf_faithful nv cs = mk_cnf nv cs.
Proof. exact mk_cnf_faithful_eq_model. Qed.
Print Assumptions C10_mk_cnf_faithful_eq_model.

(* Bdd::to_dnf's stack machine on a valid diagram: terminates without panic and yields the DFS list, clause by clause in the
   same order, up to the trailing unset cells of the mutable path vector *)
Theorem C10_to_dnf_faithful_eq : forall b, wf b -> exists l, to_dnf_faithful b = Ok l /\ map pv_trim l = to_dnf b.
Proof. exact to_dnf_faithful_eq. Qed.
Print Assumptions C10_to_dnf_faithful_eq.

Theorem C10_to_dnf_faithful_pv_eq : forall b, wf b ->
  exists l, to_dnf_faithful b = Ok l /\ Forall2 (fun r c => pv_eq r c = true) l (to_dnf b).
Proof. exact to_dnf_faithful_pv_eq. Qed.
Print Assumptions C10_to_dnf_faithful_pv_eq.

Theorem C10_to_cnf_faithful_eq : forall b, wf b -> exists l, to_cnf_faithful b = Ok l /\ map pv_trim l = to_cnf b.
Proof. exact to_cnf_faithful_eq. Qed.
Print Assumptions C10_to_cnf_faithful_eq.

Theorem C10_to_cnf_faithful_pv_eq : forall b, wf b ->
  exists l, to_cnf_faithful b = Ok l /\ Forall2 (fun r c => pv_eq r c = true) l (to_cnf b).
Proof. exact to_cnf_faithful_pv_eq. Qed.
Print Assumptions C10_to_cnf_faithful_pv_eq.

(* end to end on the library's own algorithms: to_dnf() then mk_dnf() (to_cnf() then mk_cnf()) returns the identical array *)
Theorem C10_dnf_faithful_roundtrip : forall b, Canonical b ->
  exists l, to_dnf_faithful b = Ok l /\ mk_dnf_faithful (nvars b) l = Ok b.
Proof. exact dnf_faithful_roundtrip. Qed.
Print Assumptions C10_dnf_faithful_roundtrip.

Theorem C10_cnf_faithful_roundtrip : forall b, Canonical b ->
  exists l, to_cnf_faithful b = Ok l /\ mk_cnf_faithful (nvars b) l = Ok b.
Proof. exact cnf_faithful_roundtrip. Qed.
Print Assumptions C10_cnf_faithful_roundtrip.

(* instances: the faithful machines on ex10 (duplicate clause, three-way split on x0 and x1); the padding of the path vector
   (!x0 & x1 | x0: the second clause is handed out as [Some true; None]); behaviour outside the variable set *)
Example C10_faithful_example :
  to_dnf_faithful ex10 = Ok (to_dnf ex10) /\ to_cnf_faithful ex10 = Ok (to_cnf ex10) /\
  mk_dnf_faithful 4 [[None; Some true; Some true]; [Some true; Some false; Some true]; [Some false; Some true; Some false];
                     [Some true; Some false; Some true]] = Ok ex10 /\
  mk_cnf_faithful 4 (to_cnf ex10) = Ok ex10.
Proof. vm_compute. repeat split. Qed.
Print Assumptions C10_faithful_example.

Example C10_to_dnf_faithful_padding_example :
  canonicalb ex_pad = true /\
  to_dnf_faithful ex_pad = Ok [[Some false; Some true]; [Some true; None]] /\
  to_dnf ex_pad = [[Some false; Some true]; [Some true]].
Proof. exact to_dnf_faithful_padding. Qed.
Print Assumptions C10_to_dnf_faithful_padding_example.

Example C10_mk_dnf_faithful_out_of_range_example :
  mk_dnf_faithful 1 [[None; Some true]] = Ok [mkNode 1 0 0; mkNode 1 1 1; mkNode 1 0 1] /\
  mk_dnf 1 [[None; Some true]] = Panic /\
  mk_dnf_faithful 1 [[None; Some true]; [None; Some false]] = Panic /\
  mk_cnf_faithful 1 [[None; Some true]] = Panic.
Proof. exact mk_dnf_faithful_out_of_range. Qed.
Print Assumptions C10_mk_dnf_faithful_out_of_range_example.

(* ============================================================================================================== *)
(* Bdd::to_optimized_dnf itself (Model/OptDnf.v: largest common core first, remainder simplified under the `==` guard,   *)
(* then the branching variable with the smallest restrictions; mutable partial clause threaded through)                 *)

(* on a canonical diagram the recursion ends with a clause list (no panic: both assert! are dead; the fuel
   S |support| suffices), every clause only mentions variables of the diagram, and the disjunction of the clauses is the
   function of the diagram *)
Theorem C10_optimized_dnf_sem : forall b, Canonical b ->
  exists cs, to_optimized_dnf b = Ok cs /\
    (forall c, In c cs -> cells_in_range (nvars b) c = true) /\
    forall v, eval b v = existsb (clause_sat v) cs.
Proof. exact opt_dnf_sem. Qed.
Print Assumptions C10_optimized_dnf_sem.

Theorem C10_optimized_dnf_total : forall b, Canonical b -> to_optimized_dnf b <> Panic /\ to_optimized_dnf b <> OutOfFuel.
Proof. exact opt_dnf_total. Qed.
Print Assumptions C10_optimized_dnf_total.

(* rebuilding from to_optimized_dnf() returns a Bdd equal to b (the identical array) *)
Theorem C10_optimized_dnf_roundtrip : forall b, Canonical b ->
  exists cs, to_optimized_dnf b = Ok cs /\ mk_dnf (nvars b) cs = Ok b.
Proof. exact optimized_dnf_roundtrip. Qed.
Print Assumptions C10_optimized_dnf_roundtrip.

(* ... also through the library's own mk_dnf recursion *)
Theorem C10_optimized_dnf_faithful_roundtrip : forall b, Canonical b ->
  exists cs, to_optimized_dnf b = Ok cs /\ mk_dnf_faithful (nvars b) cs = Ok b.
Proof. exact optimized_dnf_faithful_roundtrip. Qed.
Print Assumptions C10_optimized_dnf_faithful_roundtrip.

(* instance: ex10 has the common core x1 /\ x2 (for all x0), then the two branches on x0 *)
Example C10_optimized_dnf_example :
  canonicalb ex10 = true /\
  to_optimized_dnf ex10 = Ok [[None; Some true; Some true]; [Some true; Some false; Some true]; [Some false; Some true; Some false]] /\
  mk_dnf 4 [[None; Some true; Some true]; [Some true; Some false; Some true]; [Some false; Some true; Some false]] = Ok ex10.
Proof. exact opt_dnf_example. Qed.
Print Assumptions C10_optimized_dnf_example.

(* _to_optimized_dnf with an interrupt that never fails (Model/Alias.v) is to_optimized_dnf: same round trip *)
Theorem C10_optimized_dnf_uninterrupted_roundtrip : forall b, Canonical b ->
  exists cs, to_optimized_dnf_uninterrupted b = Ok cs /\ mk_dnf (nvars b) cs = Ok b.
Proof. exact optimized_dnf_roundtrip. Qed.
Print Assumptions C10_optimized_dnf_uninterrupted_roundtrip.

(* ============================================================================================================== *)
(* the panic condition of the library's own mk_dnf recursion on ARBITRARY clause lists (Proofs/Gaps3Dnf.v).
   (The CNF twin is exact already: C10_mk_cnf_faithful_panic_iff — its leaves go through the asserting
   mk_disjunctive_clause, so it panics exactly on an out-of-range clause.)

   The only assertion of the DNF recursion that can fire is the duplicate check of the base case, reached with
   var == num_vars by two clauses the three-way split never separated: `clash nv cs` = two clauses of the list
   that agree on every variable below nv and are different partial valuations (so they differ on a variable >= nv).
   `one_cell nv cs` = the out-of-range clauses of the list pairwise agree below nv (they all fall in one cell). *)
From BddVerif Require Import Proofs.Gaps3Dnf.

Theorem C10_clash_def : forall nv cs,
  (clash nv cs <-> exists c1 c2, In c1 cs /\ In c2 cs /\ (forall x, x < nv -> pv_get c1 x = pv_get c2 x) /\ pv_eq c1 c2 = false) /\
  (one_cell nv cs <-> forall c1 c2, In c1 cs -> In c2 cs -> cells_in_range nv c1 = false -> cells_in_range nv c2 = false ->
                        forall x, x < nv -> pv_get c1 x = pv_get c2 x).
Proof. intros; split; reflexivity. Qed.
Print Assumptions C10_clash_def.

(* exact, whenever the out-of-range clauses lie in one cell of the split — in particular for every list with a single
   out-of-range clause (the asymmetric case), and trivially for in-range lists (no clash, no panic) *)
Theorem C10_mk_dnf_faithful_panic_iff : forall nv cs, one_cell nv cs ->
  (mk_dnf_faithful nv cs = Panic <-> clash nv cs).
Proof. exact mk_dnf_faithful_panic_iff. Qed.
Print Assumptions C10_mk_dnf_faithful_panic_iff.

(* the asymmetric case spelled out: one out-of-range clause c0 (possibly repeated) among in-range clauses is rejected
   exactly when some other clause, different from it, agrees with it on all variables below nv; alone in its cell it is
   accepted (and a malformed diagram is built), whereas the fold model panics (C10_mk_dnf_panic_iff) *)
Theorem C10_mk_dnf_faithful_panic_iff_single : forall nv cs c0, In c0 cs -> cells_in_range nv c0 = false ->
  (forall c, In c cs -> cells_in_range nv c = false -> pv_eq c c0 = true) ->
  (mk_dnf_faithful nv cs = Panic <->
   exists c, In c cs /\ (forall x, x < nv -> pv_get c x = pv_get c0 x) /\ pv_eq c c0 = false).
Proof. exact mk_dnf_faithful_panic_iff_single. Qed.
Print Assumptions C10_mk_dnf_faithful_panic_iff_single.

(* arbitrary lists, no hypothesis: the two-sided sandwich.  Panic implies a clash; a clash excludes Ok (the answer is
   Panic or OutOfFuel); OutOfFuel and clash both need an out-of-range clause *)
Theorem C10_mk_dnf_faithful_panic_sandwich : forall nv cs,
  (mk_dnf_faithful nv cs = Panic -> clash nv cs) /\
  (clash nv cs -> mk_dnf_faithful nv cs = Panic \/ mk_dnf_faithful nv cs = OutOfFuel) /\
  ((exists r, mk_dnf_faithful nv cs = Ok r) -> ~ clash nv cs) /\
  (mk_dnf_faithful nv cs = OutOfFuel -> exists c, In c cs /\ cells_in_range nv c = false) /\
  (clash nv cs -> exists c, In c cs /\ cells_in_range nv c = false).
Proof.
  intros nv cs. destruct (mk_dnf_faithful_outcomes nv cs) as (H1 & H2 & H3 & H4).
  split; [exact H1|]. split; [exact (mk_dnf_faithful_clash_not_ok nv cs)|]. split; [exact H2|]. split; [exact H3|exact H4].
Qed.
Print Assumptions C10_mk_dnf_faithful_panic_sandwich.

(* the asymmetric case on a concrete list (x0 /\ x2 over the two variables x0, x1) *)
Example C10_mk_dnf_faithful_asymmetric_example :
  let far := [Some true; None; Some true] in
  cells_in_range 2 far = false /\
  (exists r, mk_dnf_faithful 2 [far] = Ok r) /\ mk_dnf 2 [far] = Panic /\
  (exists r, mk_dnf_faithful 2 [[Some false; Some true]; far] = Ok r) /\ ~ clash 2 [[Some false; Some true]; far] /\
  mk_dnf_faithful 2 [[Some false; Some true]; far; [Some true]] = Panic /\ clash 2 [[Some false; Some true]; far; [Some true]].
Proof. exact mk_dnf_faithful_asymmetric. Qed.
Print Assumptions C10_mk_dnf_faithful_asymmetric_example.

(* the UNCONDITIONAL `Panic <-> clash` is false for the model: the cells are evaluated in the order dont_care,
   has_true, has_false, and the two malformed leaves of has_true = {c1, c2} (x3 > num_vars) make `or` exhaust its fuel
   (the Rust apply loop re-pushes the same task forever on such operands) before the clash of has_false = {c3, c4} is
   reached; nor does the absence of a clash give Ok *)
Example C10_mk_dnf_faithful_panic_iff_refuted :
  let c1 := [Some true; Some true; None; Some true] in
  let c2 := [Some true; Some false; None; Some true] in
  let c3 := [Some false; None; Some true] in
  let c4 := [Some false; None; Some false] in
  clash 2 [c1; c2; c3; c4] /\ mk_dnf_faithful 2 [c1; c2; c3; c4] = OutOfFuel /\
  mk_dnf_faithful 2 [c3; c4; c1; c2] = OutOfFuel /\ mk_dnf_faithful 2 [c3; c4] = Panic /\
  ~ one_cell 2 [c1; c2; c3; c4] /\
  ~ clash 2 [c1; c2] /\ mk_dnf_faithful 2 [c1; c2] = OutOfFuel.
Proof. exact mk_dnf_faithful_panic_iff_refuted. Qed.
Print Assumptions C10_mk_dnf_faithful_panic_iff_refuted.
