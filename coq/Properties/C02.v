(* C02 — equal functions have identical Bdds: canonical form through any history. *)
From Coq Require Import List NArith Bool. Import ListNotations.
From BddVerif Require Import Model.Bdd Model.Apply Model.Ops Model.Restrict Proofs.Sem Proofs.Canon Proofs.Reflect
  Proofs.ApplySem Proofs.ApplyTop Proofs.TernSem Proofs.NotSem Proofs.QuantSem Proofs.History Proofs.Restrict.
Open Scope N_scope.

(* Canonical b: valid ordered diagram (variables strictly increase along edges, links in range),
   reduced (no redundant test, no duplicate decision node), laid out in DFS post-order with the high
   child first, root last, nothing unreachable.  Two canonical diagrams over the same variable
   count that denote the same function are the same array — hence equal under ==, Hash, text, bytes
   (all of which are functions of the array). *)
Theorem C02_canonical_unique : forall a b,
  Canonical a -> Canonical b -> nvars a = nvars b -> (forall v, eval a v = eval b v) -> a = b.
Proof. exact canonical_unique. Qed.
Print Assumptions C02_canonical_unique.

(* the executable checker the correspondence runs on every Bdd the implementation produces decides Canonical *)
Theorem C02_checker_decides : forall b, canonicalb b = true <-> Canonical b.
Proof. exact canonicalb_iff. Qed.
Print Assumptions C02_checker_decides.

(* a contradiction has exactly one node, a tautology exactly two: is_false / is_true are exact *)
Theorem C02_is_false_exact : forall b, Canonical b -> (is_false b = true <-> forall v, eval b v = false).
Proof. exact is_false_correct. Qed.
Print Assumptions C02_is_false_exact.
Theorem C02_is_true_exact : forall b, Canonical b -> (is_true b = true <-> forall v, eval b v = true).
Proof. exact is_true_correct. Qed.
Print Assumptions C02_is_true_exact.

(* binary, ternary and nested operators return the canonical form even when their operands are
   merely valid (so `b.and(true)` canonicalises b) *)
Theorem C02_binary_canonicalises : forall A B fa fb fo op,
  wf A -> wf B -> nvars A = nvars B -> flips_ok (nvars A) fa fb fo = true -> total2 op -> consistent2 op ->
  exists r, fused_binary_flip_op A B fa fb fo op = Ok r /\ Canonical r /\ nvars r = nvars A /\
    forall v, eval r v = bop_of op (eval A (oflip fa (oflip fo v))) (eval B (oflip fb (oflip fo v))).
Proof. exact fused_binary_flip_op_correct. Qed.
Print Assumptions C02_binary_canonicalises.

Theorem C02_ternary_canonicalises : forall A B C fa fb fc fo op,
  wf A -> wf B -> wf C -> nvars A = nvars B -> nvars B = nvars C ->
  flip_ok (nvars A) fa && flip_ok (nvars A) fb && flip_ok (nvars A) fc && flip_ok (nvars A) fo = true ->
  exists r, fused_ternary_flip_op A B C fa fb fc fo op = Ok r /\ Canonical r /\ nvars r = nvars A /\
    forall v, eval r v = conn3 op (eval A (oflip fa (oflip fo v))) (eval B (oflip fb (oflip fo v))) (eval C (oflip fc (oflip fo v))).
Proof. exact fused_ternary_flip_op_correct. Qed.
Print Assumptions C02_ternary_canonicalises.

Theorem C02_nested_canonicalises : forall A B trig outer inner_is_and,
  wf A -> wf B -> nvars A = nvars B -> total2 outer -> consistent2 outer ->
  exists r, binary_op_nested A B trig outer inner_is_and = Ok r /\ Canonical r /\ wf r /\ nvars r = nvars A /\
    forall v, eval r v = true <-> qspec inner_is_and (triggered_from 0 trig) (fun w => bop_of outer (eval A w) (eval B w)) v.
Proof. exact binary_op_nested_correct. Qed.
Print Assumptions C02_nested_canonicalises.

(* producers that do not go through the engine keep canonical form *)
Theorem C02_not_canonical : forall b, Canonical b -> Canonical (bdd_not b).
Proof. exact not_canonical. Qed.
Print Assumptions C02_not_canonical.

Theorem C02_projection_canonical : forall u b vars, Canonical b ->
  exists r, project u b vars = Ok r /\ Canonical r /\ nvars r = nvars b /\
    (forall v, eval r v = true <-> qspec u vars (eval b) v).
Proof. exact project_canonical. Qed.
Print Assumptions C02_projection_canonical.

(* the dedicated single-pass restriction (order-faithful model of `fn restriction`, Model/Restrict.v): the
   layout argument that a fix: commit had to repair in the Rust (high child resolved before the low child) is
   a theorem — lock-step of the DFS with the structural checker chk; reducedness from collapse + node cache *)
Theorem C02_restrict_canonical : forall b pv r, Canonical b -> restriction b pv = Some r -> Canonical r.
Proof. exact restriction_canonical. Qed.
Print Assumptions C02_restrict_canonical.

(* ... and it canonicalises: a merely valid operand suffices (unreachable and duplicate nodes disappear) *)
Theorem C02_restrict_canonicalises : forall b pv, wf b ->
  exists r, restriction b pv = Some r /\ Canonical r /\ nvars r = nvars b /\
    forall v, eval r v = eval b (fun y => match pv_get pv y with Some c => c | None => v y end).
Proof. exact restriction_full. Qed.
Print Assumptions C02_restrict_canonicalises.

(* Through any history: `hop` is a language of operation histories over the model's producers (constants,
   literals, clauses, valuations, dnf/cnf, thresholds, fused binary / ternary / ite, not, exists / for_all,
   binary-with-quantifier, nested, select / restrict, var_pick / pick, substitute), operands being earlier
   results; `run` executes it. Every Bdd a history produces is Canonical, hence two results over the same
   variable count denoting the same function are the same array. *)
Theorem C02_history_canonical : forall h rs, run h = Ok rs -> Forall Canonical rs.
Proof. exact history_canonical. Qed.
Print Assumptions C02_history_canonical.

Theorem C02_history_equal : forall h rs i j a b, run h = Ok rs ->
  nth_error rs i = Some a -> nth_error rs j = Some b -> nvars a = nvars b ->
  (forall v, eval a v = eval b v) -> a = b.
Proof. exact history_equal. Qed.
Print Assumptions C02_history_equal.

(* non-vacuity: a canonical and a valid-but-non-canonical diagram of the same function *)
Example C02_nonvacuous :
  let c := [mkNode 3 0 0; mkNode 3 1 1; mkNode 1 0 1; mkNode 0 0 2] in
  let n := [mkNode 3 0 0; mkNode 3 1 1; mkNode 1 0 1; mkNode 1 0 1; mkNode 0 0 3] in
  canonicalb c = true /\ wfb n = true /\ canonicalb n = false /\ binary_op n (mk_true 3) op_and = Ok c.
Proof. vm_compute. repeat split; reflexivity. Qed.
Print Assumptions C02_nonvacuous.

(* ---- gaps closed (Model/Hash.v, Proofs/Gaps2Canon.v) ---- *)
From BddVerif Require Import Model.Hash Model.Serial Model.OptDnf Proofs.SerialBytes Proofs.Gaps2Canon.

(* "equal under ==, hash equally and serialize to the same text and bytes": == is bdd_eqb (derived PartialEq of the node
   vector), the Hash is the stream of Hasher::write_* calls of the derived impl (Model/Hash.v), text and bytes are the
   writers of Model/Serial.v *)
Theorem C02_equal_function_same_observations : forall a b,
  Canonical a -> Canonical b -> nvars a = nvars b -> (forall v, eval a v = eval b v) ->
  a = b /\ bdd_eqb a b = true /\ bdd_hash_stream a = bdd_hash_stream b /\
  write_text a = write_text b /\ write_bytes a = write_bytes b.
Proof. exact equal_function_same_observations. Qed.
Print Assumptions C02_equal_function_same_observations.

Theorem C02_history_same_observations : forall h rs i j a b, run h = Ok rs ->
  nth_error rs i = Some a -> nth_error rs j = Some b -> nvars a = nvars b -> (forall v, eval a v = eval b v) ->
  a = b /\ bdd_eqb a b = true /\ bdd_hash_stream a = bdd_hash_stream b /\
  write_text a = write_text b /\ write_bytes a = write_bytes b.
Proof. exact history_same_observations. Qed.
Print Assumptions C02_history_same_observations.

(* conversely each observation determines the array, for diagrams whose fields fit u16 / u32 (every Bdd the Rust stores):
   comparing hashes-streams, texts or bytes is comparing arrays *)
Theorem C02_observations_iff : forall a b, in_range a -> in_range b ->
  (bdd_eqb a b = true <-> a = b) /\ (bdd_hash_stream a = bdd_hash_stream b <-> a = b) /\
  (write_text a = write_text b <-> a = b) /\ (write_bytes a = write_bytes b <-> a = b).
Proof. exact observations_iff. Qed.
Print Assumptions C02_observations_iff.

(* "reduced and ordered, stores children before parents with the root last, and contains no unreachable nodes",
   in terms of the array only *)
Theorem C02_canonical_structure : forall b, Canonical b ->
  (1 <= size b /\ get b 0 = mkNode (nvars b) 0 0 /\ (2 <= size b -> get b 1 = mkNode (nvars b) 1 1)) /\
  (forall p, 2 <= p -> p < size b -> nlow (get b p) < p /\ nhigh (get b p) < p) /\
  (forall q, 1 <= q -> q < size b - 1 -> exists j, 2 <= j /\ q < j /\ j < size b /\ (nlow (get b j) = q \/ nhigh (get b j) = q)) /\
  (forall p, 2 <= p -> p < size b -> exists ps, edge_chain b (size b - 1) ps p) /\
  (forall p q, 2 <= p -> p < size b -> 2 <= q -> q < size b ->
     nvar (get b p) = nvar (get b q) -> nlow (get b p) = nlow (get b q) -> nhigh (get b p) = nhigh (get b q) -> p = q) /\
  (forall p, 2 <= p -> p < size b -> nlow (get b p) <> nhigh (get b p)) /\
  (forall p, 2 <= p -> p < size b ->
     nvar (get b p) < nvars b /\ nlow (get b p) < size b /\ nhigh (get b p) < size b /\
     nvar (get b p) < nvar (get b (nlow (get b p))) /\ nvar (get b p) < nvar (get b (nhigh (get b p)))).
Proof. exact canonical_structure. Qed.
Print Assumptions C02_canonical_structure.

(* the history theorems are not vacuous: fifteen operations of eleven different kinds run to Ok; the function
   (x0 /\ x1) \/ x2 is reached along six routes and every time as the same array, hash stream, text and bytes *)
Example C02_history_nonvacuous :
  let h := [ HLit 4 0 true; HLit 4 1 true; HLit 4 2 true;                      (* 0..2 literals *)
             HBin op_and None None None 0 1;                                    (* 3  x0 /\ x1 *)
             HBin op_or None None None 3 2;                                     (* 4  route 1 *)
             HDnf 4 [[Some true; Some true]; [None; None; Some true]];          (* 5  route 2: mk_dnf *)
             HTrue 4;                                                           (* 6 *)
             HIte 2 6 3;                                                        (* 7  route 3: if x2 then 1 else x0 /\ x1 *)
             HNot 4; HNot 8;                                                    (* 8, 9  route 4: double negation *)
             HClause 4 [None; None; None; Some true];                           (* 10 x3 *)
             HBinExists op_and 4 10 [3];                                        (* 11 route 5: exists x3. (4) /\ x3 *)
             HVarSelect 4 3 true; HExists 12 [3];                               (* 12, 13 route 6 *)
             HRestrict 4 [(2, false)] ] in                                      (* 14 (x0 /\ x1) with x2 := 0 *)
  let t := [mkNode 4 0 0; mkNode 4 1 1; mkNode 2 0 1; mkNode 1 2 1; mkNode 0 2 3] in
  exists rs, run h = Ok rs /\ length rs = 15%nat /\ forallb canonicalb rs = true /\
    map (nth_error rs) [4; 5; 7; 9; 11; 13]%nat = repeat (Some t) 6 /\
    nth_error rs 14 = nth_error rs 3 /\
    bdd_hash_stream t = [254; 5;0;0;0;0;0;0;0;  254;4;0; 254;0;0;0;0; 254;0;0;0;0;  254;4;0; 254;1;0;0;0; 254;1;0;0;0;
                         254;2;0; 254;0;0;0;0; 254;1;0;0;0;  254;1;0; 254;2;0;0;0; 254;1;0;0;0;  254;0;0; 254;2;0;0;0; 254;3;0;0;0] /\
    write_text t = [124; 52;44;48;44;48;124; 52;44;49;44;49;124; 50;44;48;44;49;124; 49;44;50;44;49;124; 48;44;50;44;51;124].
Proof.
  eexists. split; [vm_compute; reflexivity|]. repeat split; vm_compute; reflexivity.
Qed.
Print Assumptions C02_history_nonvacuous.

(* ---- the history language extended by the remaining producers of the property text (Proofs/Gaps2History.v): `hop2` embeds
   `hop` and adds var_exists / var_for_all, rename_variable / rename_variables / set_num_vars / transfer_from, reading back
   the text / bytes written for an earlier result, eval_expr, and the size-limited binary operator; `run2` appends a result
   whenever the library answers with a Bdd (None answers add nothing) ---- *)
From BddVerif Require Import Model.Rename Model.Expr Proofs.Gaps2History.
Theorem C02_history2_canonical : forall h rs, run2 h = Ok rs -> Forall Canonical rs.
Proof. exact history2_canonical. Qed.
Print Assumptions C02_history2_canonical.

Theorem C02_history2_equal : forall h rs i j a b, run2 h = Ok rs ->
  nth_error rs i = Some a -> nth_error rs j = Some b -> nvars a = nvars b ->
  (forall v, eval a v = eval b v) -> a = b.
Proof. exact history2_equal. Qed.
Print Assumptions C02_history2_equal.

Theorem C02_history2_embeds : forall h, run2 (map H1 h) = run h.
Proof. exact run2_embeds. Qed.
Print Assumptions C02_history2_embeds.

(* deserialisation of library output is the identity on the array *)
Theorem C02_history2_read_back : forall rs i r,
  (step2 rs (HReadText i) = Ok (Some r) \/ step2 rs (HReadBytes i) = Ok (Some r)) -> nth_error rs i = Some r.
Proof. exact step2_read_back. Qed.
Print Assumptions C02_history2_read_back.

Example C02_history2_nonvacuous :
  exists rs, run2 ex_history2 = Ok rs /\ length rs = 14%nat /\ forallb canonicalb rs = true /\
    map (nth_error rs) [8; 9; 10; 11]%nat = repeat (nth_error rs 2) 4 /\
    nth_error rs 2 = Some [mkNode 3 0 0; mkNode 3 1 1; mkNode 1 0 1; mkNode 0 0 2] /\
    nth_error rs 13 = nth_error rs 7 /\ nth_error rs 7 = Some [mkNode 3 0 0; mkNode 3 1 1; mkNode 2 0 1; mkNode 1 0 2] /\
    nth_error rs 4 = Some (mk_false 3).
Proof. exact history2_example. Qed.
Print Assumptions C02_history2_nonvacuous.
