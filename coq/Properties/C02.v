(* C02 — equal functions have identical Bdds: canonical form through any history. *)
From Coq Require Import List NArith Bool. Import ListNotations.
From BddVerif Require Import Model.Bdd Model.Apply Model.Ops Model.Restrict Proofs.Sem Proofs.Canon Proofs.Reflect
  Proofs.ApplySem Proofs.ApplyTop Proofs.TernSem Proofs.NotSem Proofs.QuantSem Proofs.History Proofs.Restrict.
Open Scope N_scope.

(* Canonical b: valid ordered diagram (variables strictly increase along edges, links in range),
   reduced (no redundant test, no duplicate decision node), laid out in DFS post-order with the high
   child first, root last, nothing unreachable.  Two canonical diagrams over the same variable
   count that denote the same function are the same array — hence equal under ==, Hash, text, bytes
   (all of which are functions of the array). *)
Theorem C02_canonical_unique : forall a b,
  Canonical a -> Canonical b -> nvars a = nvars b -> (forall v, eval a v = eval b v) -> a = b.
Proof. exact canonical_unique. Qed.
Print Assumptions C02_canonical_unique.

(* the executable checker the correspondence runs on every Bdd the implementation produces decides Canonical *)
Theorem C02_checker_decides : forall b, canonicalb b = true <-> Canonical b.
Proof. exact canonicalb_iff. Qed.
Print Assumptions C02_checker_decides.

(* a contradiction has exactly one node, a tautology exactly two: is_false / is_true are exact *)
Theorem C02_is_false_exact : forall b, Canonical b -> (is_false b = true <-> forall v, eval b v = false).
Proof. exact is_false_correct. Qed.
Print Assumptions C02_is_false_exact.
Theorem C02_is_true_exact : forall b, Canonical b -> (is_true b = true <-> forall v, eval b v = true).
Proof. exact is_true_correct. Qed.
Print Assumptions C02_is_true_exact.

(* binary, ternary and nested operators return the canonical form even when their operands are
   merely valid (so `b.and(true)` canonicalises b) *)
Theorem C02_binary_canonicalises : forall A B fa fb fo op,
  wf A -> wf B -> nvars A = nvars B -> flips_ok (nvars A) fa fb fo = true -> total2 op -> consistent2 op ->
  exists r, fused_binary_flip_op A B fa fb fo op = Ok r /\ Canonical r /\ nvars r = nvars A /\
    forall v, eval r v = bop_of op (eval A (oflip fa (oflip fo v))) (eval B (oflip fb (oflip fo v))).
Proof. exact fused_binary_flip_op_correct. Qed.
Print Assumptions C02_binary_canonicalises.

Theorem C02_ternary_canonicalises : forall A B C fa fb fc fo op,
  wf A -> wf B -> wf C -> nvars A = nvars B -> nvars B = nvars C ->
  flip_ok (nvars A) fa && flip_ok (nvars A) fb && flip_ok (nvars A) fc && flip_ok (nvars A) fo = true ->
  exists r, fused_ternary_flip_op A B C fa fb fc fo op = Ok r /\ Canonical r /\ nvars r = nvars A /\
    forall v, eval r v = conn3 op (eval A (oflip fa (oflip fo v))) (eval B (oflip fb (oflip fo v))) (eval C (oflip fc (oflip fo v))).
Proof. exact fused_ternary_flip_op_correct. Qed.
Print Assumptions C02_ternary_canonicalises.

Theorem C02_nested_canonicalises : forall A B trig outer inner_is_and,
  wf A -> wf B -> nvars A = nvars B -> total2 outer -> consistent2 outer ->
  exists r, binary_op_nested A B trig outer inner_is_and = Ok r /\ Canonical r /\ wf r /\ nvars r = nvars A /\
    forall v, eval r v = true <-> qspec inner_is_and (triggered_from 0 trig) (fun w => bop_of outer (eval A w) (eval B w)) v.
Proof. exact binary_op_nested_correct. Qed.
Print Assumptions C02_nested_canonicalises.

(* producers that do not go through the engine keep canonical form *)
Theorem C02_not_canonical : forall b, Canonical b -> Canonical (bdd_not b).
Proof. exact not_canonical. Qed.
Print Assumptions C02_not_canonical.

Theorem C02_projection_canonical : forall u b vars, Canonical b ->
  exists r, project u b vars = Ok r /\ Canonical r /\ nvars r = nvars b /\
    (forall v, eval r v = true <-> qspec u vars (eval b) v).
Proof. exact project_canonical. Qed.
Print Assumptions C02_projection_canonical.

(* the dedicated single-pass restriction (order-faithful model of `fn restriction`, Model/Restrict.v): the
   layout argument that a fix: commit had to repair in the Rust (high child resolved before the low child) is
   a theorem — lock-step of the DFS with the structural checker chk; reducedness from collapse + node cache *)
Theorem C02_restrict_canonical : forall b pv r, Canonical b -> restriction b pv = Some r -> Canonical r.
Proof. exact restriction_canonical. Qed.
Print Assumptions C02_restrict_canonical.

(* ... and it canonicalises: a merely valid operand suffices (unreachable and duplicate nodes disappear) *)
Theorem C02_restrict_canonicalises : forall b pv, wf b ->
  exists r, restriction b pv = Some r /\ Canonical r /\ nvars r = nvars b /\
    forall v, eval r v = eval b (fun y => match pv_get pv y with Some c => c | None => v y end).
Proof. exact restriction_full. Qed.
Print Assumptions C02_restrict_canonicalises.

(* Through any history: `hop` is a language of operation histories over the model's producers (constants,
   literals, clauses, valuations, dnf/cnf, thresholds, fused binary / ternary / ite, not, exists / for_all,
   binary-with-quantifier, nested, select / restrict, var_pick / pick, substitute), operands being earlier
   results; `run` executes it. Every Bdd a history produces is Canonical, hence two results over the same
   variable count denoting the same function are the same array. *)
Theorem C02_history_canonical : forall h rs, run h = Ok rs -> Forall Canonical rs.
Proof. exact history_canonical. Qed.
Print Assumptions C02_history_canonical.

Theorem C02_history_equal : forall h rs i j a b, run h = Ok rs ->
  nth_error rs i = Some a -> nth_error rs j = Some b -> nvars a = nvars b ->
  (forall v, eval a v = eval b v) -> a = b.
Proof. exact history_equal. Qed.
Print Assumptions C02_history_equal.

(* non-vacuity: a canonical and a valid-but-non-canonical diagram of the same function *)
Example C02_nonvacuous :
  let c := [mkNode 3 0 0; mkNode 3 1 1; mkNode 1 0 1; mkNode 0 0 2] in
  let n := [mkNode 3 0 0; mkNode 3 1 1; mkNode 1 0 1; mkNode 1 0 1; mkNode 0 0 3] in
  canonicalb c = true /\ wfb n = true /\ canonicalb n = false /\ binary_op n (mk_true 3) op_and = Ok c.
Proof. vm_compute. repeat split; reflexivity. Qed.
Print Assumptions C02_nonvacuous.
