(* C01 — Logical operators compute the pointwise Boolean function of their operands.
   Only statements, each closed by `exact`; the proofs live in Proofs/. *)
From Coq Require Import List NArith Bool. Import ListNotations.
From BddVerif Require Import Model.Bdd Model.Apply Model.Ops Proofs.Sem Proofs.Canon Proofs.ApplySem Proofs.ApplyTop Proofs.TernSem Proofs.NotSem.
From BddVerif Require Import Model.ApplyFast Proofs.ApplyFast.
From BddVerif Require Model.ApplyStack Proofs.ApplyStack.
Open Scope N_scope.
From BddVerif Require Import Generated.Tables.

(* binary_op / fused_binary_flip_op driven by any consistent partial-operator table: for valid operands
   over the same variable count (any shape, also non-canonical), the call does not panic and the
   result evaluates in every valuation to the connective applied to the operands' values *)
Theorem C01_binary_pointwise : forall A B fa fb fo op,
  wf A -> wf B -> nvars A = nvars B -> flips_ok (nvars A) fa fb fo = true ->
  total2 op -> consistent2 op ->
  exists r, fused_binary_flip_op A B fa fb fo op = Ok r /\ Canonical r /\ nvars r = nvars A /\
    forall v, eval r v = bop_of op (eval A (oflip fa (oflip fo v))) (eval B (oflip fb (oflip fo v))).
Proof. exact fused_binary_flip_op_correct. Qed.
Print Assumptions C01_binary_pointwise.

(* the efficient engine (PositiveMap operands and memo tables, reversed store) that the correspondence
   driver runs on operands above 300 nodes computes exactly the reference engine's outcome, for ALL
   inputs (no hypotheses): every statement about fused_binary_flip_op holds of it verbatim *)
Theorem C01_fast_engine_refines : forall A B fa fb fo op,
  fused_binary_flip_op_fast A B fa fb fo op = fused_binary_flip_op A B fa fb fo op.
Proof. exact fused_binary_flip_op_fast_eq. Qed.
Print Assumptions C01_fast_engine_refines.

(* the explicit-stack loop of apply_with_flip, modelled iteration by iteration (Model/ApplyStack.v: one sstep = one
   pass through the `while let Some(on_stack) = stack.last()` body, same store record), computes exactly what the
   recursive reference engine computes — for valid operands over the same variable count and any table that
   answers on total inputs (no range condition on the flips, no consistency of the table) *)
Theorem C01_stack_machine_refines : forall A B fa fb fo op,
  wf A -> wf B -> nvars A = nvars B -> total2 op ->
  ApplyStack.apply2_stack A B fa fb fo op = apply2 A B fa fb fo op.
Proof. exact Proofs.ApplyStack.apply2_stack_eq. Qed.
Print Assumptions C01_stack_machine_refines.

(* hence the pointwise theorem holds of the stack machine verbatim *)
Theorem C01_stack_machine_pointwise : forall A B fa fb fo op,
  wf A -> wf B -> nvars A = nvars B -> flips_ok (nvars A) fa fb fo = true ->
  total2 op -> consistent2 op ->
  exists r, ApplyStack.fused_binary_flip_op_stack A B fa fb fo op = Ok r /\ Canonical r /\ nvars r = nvars A /\
    forall v, eval r v = bop_of op (eval A (oflip fa (oflip fo v))) (eval B (oflip fb (oflip fo v))).
Proof. exact Proofs.ApplyStack.fused_binary_flip_op_stack_correct. Qed.
Print Assumptions C01_stack_machine_pointwise.

(* eager (short-circuiting) and lazy tables of the same connective give the same result *)
Theorem C01_eager_lazy_same : forall A B fa fb fo op1 op2',
  wf A -> wf B -> nvars A = nvars B -> flips_ok (nvars A) fa fb fo = true ->
  total2 op1 -> consistent2 op1 -> total2 op2' -> consistent2 op2' ->
  (forall a b, bop_of op1 a b = bop_of op2' a b) ->
  fused_binary_flip_op A B fa fb fo op1 = fused_binary_flip_op A B fa fb fo op2'.
Proof. exact eager_lazy_same. Qed.
Print Assumptions C01_eager_lazy_same.

(* the six built-in tables are total, never answer on partial information unless every
   completion agrees, and denote and/or/imp/iff/xor/and_not *)
Theorem C01_builtin_tables :
  builtin_ok op_and andb /\ builtin_ok op_or orb /\ builtin_ok op_imp implb /\
  builtin_ok op_iff Bool.eqb /\ builtin_ok op_xor xorb /\ builtin_ok op_and_not (fun a b => a && negb b).
Proof. exact (conj and_table_ok (conj or_table_ok (conj imp_table_ok (conj iff_table_ok (conj xor_table_ok and_not_table_ok))))). Qed.
Print Assumptions C01_builtin_tables.

(* ternary_op / fused_ternary_flip_op for any ternary table (only its total entries matter): pointwise *)
Theorem C01_ternary_pointwise : forall A B C fa fb fc fo op,
  wf A -> wf B -> wf C -> nvars A = nvars B -> nvars B = nvars C ->
  flip_ok (nvars A) fa && flip_ok (nvars A) fb && flip_ok (nvars A) fc && flip_ok (nvars A) fo = true ->
  exists r, fused_ternary_flip_op A B C fa fb fc fo op = Ok r /\ Canonical r /\ nvars r = nvars A /\
    forall v, eval r v = conn3 op (eval A (oflip fa (oflip fo v))) (eval B (oflip fb (oflip fo v))) (eval C (oflip fc (oflip fo v))).
Proof. exact fused_ternary_flip_op_correct. Qed.
Print Assumptions C01_ternary_pointwise.

(* eager and lazy ternary tables of one connective give the same result *)
Theorem C01_ternary_eager_lazy_same : forall A B C fa fb fc fo op1 op2,
  (forall a b c, conn3 op1 a b c = conn3 op2 a b c) ->
  fused_ternary_flip_op A B C fa fb fc fo op1 = fused_ternary_flip_op A B C fa fb fc fo op2.
Proof. exact ternary_eager_lazy_same_any. Qed.
Print Assumptions C01_ternary_eager_lazy_same.

Theorem C01_if_then_else : forall A B C, wf A -> wf B -> wf C -> nvars A = nvars B -> nvars B = nvars C ->
  exists r, if_then_else A B C = Ok r /\ Canonical r /\ nvars r = nvars A /\
    forall v, eval r v = if eval A v then eval B v else eval C v.
Proof. exact if_then_else_correct. Qed.
Print Assumptions C01_if_then_else.

(* the ite table is total and answers on partial information only when every completion agrees *)
Theorem C01_ite_table : total3 ite_function /\ consistent3 ite_function.
Proof. exact (conj ite_total3 ite_consistent3). Qed.
Print Assumptions C01_ite_table.

(* not: for every valid diagram, canonical or not *)
Theorem C01_not_pointwise : forall b, wf b -> wf (bdd_not b) /\ nvars (bdd_not b) = nvars b /\ forall v, eval (bdd_not b) v = negb (eval b v).
Proof. intros b W. exact (conj (not_wf b W) (conj (not_nvars b W) (not_sem b W))). Qed.
Print Assumptions C01_not_pointwise.

(* The tables as they stand in the Rust SOURCE: Generated/Tables.v is re-generated from src/op_function.rs and from
   `ite_function` in src/_impl_bdd/_impl_boolean_ops.rs by tools/gen_tables.py on every run of this check (arm-by-arm
   translation of the `match`); the translated source equals the model tables on all 9 (27) inputs, hence the
   totality/consistency theorems above are statements about the source tables. *)
Theorem C01_source_tables :
  (forall l r, src_and l r = op_and l r) /\ (forall l r, src_or l r = op_or l r) /\ (forall l r, src_imp l r = op_imp l r) /\
  (forall l r, src_iff l r = op_iff l r) /\ (forall l r, src_xor l r = op_xor l r) /\ (forall l r, src_and_not l r = op_and_not l r) /\
  (forall a b c, src_ite a b c = ite_function a b c).
Proof. exact (conj and_src_eq (conj or_src_eq (conj imp_src_eq (conj iff_src_eq (conj xor_src_eq (conj and_not_src_eq ite_src_eq)))))). Qed.
Print Assumptions C01_source_tables.

(* non-vacuity: a concrete non-trivial instance meets the hypotheses *)
Example C01_nonvacuous :
  let A := [mkNode 3 0 0; mkNode 3 1 1; mkNode 1 0 1; mkNode 0 0 2]%list in
  let B := [mkNode 3 0 0; mkNode 3 1 1; mkNode 2 1 0]%list in
  wfb A = true /\ wfb B = true /\ nvars A = nvars B /\ flips_ok (nvars A) (Some 1) None (Some 2) = true /\
  fused_binary_flip_op A B (Some 1) None (Some 2) op_xor =
    Ok [mkNode 3 0 0; mkNode 3 1 1; mkNode 2 0 1; mkNode 2 1 0; mkNode 1 3 2; mkNode 0 2 4]%list.
Proof. vm_compute. repeat split; reflexivity. Qed.
Print Assumptions C01_nonvacuous.

(* ---- the ternary ENGINE of the library (`ternary_apply`: its own explicit-stack loop over triples of pointers),
   modelled order-faithfully in Model/Apply3.v — not replaced by a composition of binary applies ---- *)
From BddVerif Require Import Model.Apply3 Proofs.Apply3Sem.

(* the engine itself: for any table that is total on total inputs and consistent with a connective bop3 (it is also
   consulted on PARTIAL inputs for early answers, like the Rust), the loop terminates within its fuel and returns the
   canonical diagram of the pointwise function, the three input flips and the output flip acting as bit inversions *)
Theorem C01_ternary_engine_pointwise : forall A B C fa fb fc fo (op : op3) (bop3 : bool -> bool -> bool -> bool),
  wf A -> wf B -> wf C -> nvars A = nvars B -> nvars B = nvars C ->
  (forall x, fa = Some x -> x < nvars A) ->
  (forall x, fb = Some x -> x < nvars A) ->
  (forall x, fc = Some x -> x < nvars A) ->
  (forall a b c, op (Some a) (Some b) (Some c) = Some (bop3 a b c)) ->
  (forall x y z r, op x y z = Some r ->
     forall a b c, refines a x -> refines b y -> refines c z -> bop3 a b c = r) ->
  exists r, apply3 A B C fa fb fc fo op = Some r /\ (Canonical r /\ nvars r = nvars A) /\
    forall v, eval r v = bop3 (eval A (oflip fa (oflip fo v))) (eval B (oflip fb (oflip fo v)))
                              (eval C (oflip fc (oflip fo v))).
Proof. exact apply3_full. Qed.
Print Assumptions C01_ternary_engine_pointwise.

(* API level (variable-count and flip-bound panics included) *)
Theorem C01_ternary_engine_api_pointwise : forall A B C fa fb fc fo op,
  wf A -> wf B -> wf C -> nvars A = nvars B -> nvars B = nvars C ->
  (flip_ok (nvars A) fa && flip_ok (nvars A) fb && flip_ok (nvars A) fc && flip_ok (nvars A) fo = true) ->
  total3 op -> consistent3 op ->
  exists r, fused_ternary_flip_op_faithful A B C fa fb fc fo op = Ok r /\ Canonical r /\ nvars r = nvars A /\
    forall v, eval r v = conn3 op (eval A (oflip fa (oflip fo v))) (eval B (oflip fb (oflip fo v)))
                                  (eval C (oflip fc (oflip fo v))).
Proof. exact fused_ternary_flip_op_faithful_correct. Qed.
Print Assumptions C01_ternary_engine_api_pointwise.

(* the faithful engine and the compositional (I/O-equivalent) model return the same outcome — same array, same panics —
   for every total consistent table; so every theorem above about fused_ternary_flip_op is a theorem about the engine *)
Theorem C01_ternary_engine_eq_compositional : forall A B C fa fb fc fo op,
  wf A -> wf B -> wf C -> total3 op -> consistent3 op ->
  fused_ternary_flip_op_faithful A B C fa fb fc fo op = fused_ternary_flip_op A B C fa fb fc fo op.
Proof. exact ternary_faithful_eq. Qed.
Print Assumptions C01_ternary_engine_eq_compositional.

Theorem C01_ternary_engine_if_then_else : forall A B C, wf A -> wf B -> wf C ->
  if_then_else_faithful A B C = if_then_else A B C.
Proof. exact if_then_else_faithful_eq. Qed.
Print Assumptions C01_ternary_engine_if_then_else.

(* the executable table check with which the driver decides when the two models are REQUIRED to agree *)
Theorem C01_ternary_engine_table_check : forall op, table3_okb op = true -> total3 op /\ consistent3 op.
Proof. exact table3_okb_sound. Qed.
Print Assumptions C01_ternary_engine_table_check.

Example C01_ternary_engine_nonvacuous :
  let A := [mkNode 3 0 0; mkNode 3 1 1; mkNode 1 0 1; mkNode 0 0 2]%list in
  let B := [mkNode 3 0 0; mkNode 3 1 1; mkNode 2 1 0]%list in
  let C := [mkNode 3 0 0; mkNode 3 1 1; mkNode 2 0 1; mkNode 1 2 1]%list in
  wfb A = true /\ wfb B = true /\ wfb C = true /\ table3_okb ite_function = true /\
  fused_ternary_flip_op_faithful A B C (Some 1) None (Some 0) (Some 2) ite_function =
    fused_ternary_flip_op A B C (Some 1) None (Some 0) (Some 2) ite_function /\
  fused_ternary_flip_op_faithful A B C (Some 1) None (Some 0) (Some 2) ite_function =
    Ok [mkNode 3 0 0; mkNode 3 1 1; mkNode 2 0 1; mkNode 1 2 1; mkNode 2 1 0; mkNode 1 4 1; mkNode 0 5 3]%list.
Proof. vm_compute. repeat split; reflexivity. Qed.
Print Assumptions C01_ternary_engine_nonvacuous.

(* ---- the efficient version of the ternary engine (Model/Apply3Fast.v: PositiveMap operands, memo table keyed by the task
   TRIPLE in a three-level PositiveMap, reversed store) that the correspondence driver runs on operands above 300 nodes
   computes exactly the reference engine's outcome, for ALL inputs (no hypotheses) ---- *)
From BddVerif Require Import Model.Apply3Fast Proofs.Apply3Fast.

Theorem C01_ternary_fast_engine_refines : forall A B C fa fb fc fo op,
  apply3_fast A B C fa fb fc fo op = apply3 A B C fa fb fc fo op.
Proof. exact apply3_fast_eq. Qed.
Print Assumptions C01_ternary_fast_engine_refines.

Theorem C01_ternary_fast_refines : forall A B C fa fb fc fo op,
  fused_ternary_flip_op_faithful_fast A B C fa fb fc fo op = fused_ternary_flip_op_faithful A B C fa fb fc fo op.
Proof. exact fused_ternary_flip_op_faithful_fast_eq. Qed.
Print Assumptions C01_ternary_fast_refines.

Theorem C01_ternary_fast_if_then_else_refines : forall A B C,
  if_then_else_faithful_fast A B C = if_then_else_faithful A B C.
Proof. exact if_then_else_faithful_fast_eq. Qed.
Print Assumptions C01_ternary_fast_if_then_else_refines.

Theorem C01_ternary_fast_pointwise : forall A B C fa fb fc fo op,
  wf A -> wf B -> wf C -> nvars A = nvars B -> nvars B = nvars C ->
  (flip_ok (nvars A) fa && flip_ok (nvars A) fb && flip_ok (nvars A) fc && flip_ok (nvars A) fo = true) ->
  total3 op -> consistent3 op ->
  exists r, fused_ternary_flip_op_faithful_fast A B C fa fb fc fo op = Ok r /\ Canonical r /\ nvars r = nvars A /\
    forall v, eval r v = conn3 op (eval A (oflip fa (oflip fo v))) (eval B (oflip fb (oflip fo v)))
                                  (eval C (oflip fc (oflip fo v))).
Proof. exact fused_ternary_flip_op_faithful_fast_correct. Qed.
Print Assumptions C01_ternary_fast_pointwise.

Example C01_ternary_fast_nonvacuous :
  let A := [mkNode 3 0 0; mkNode 3 1 1; mkNode 2 0 1; mkNode 0 0 2]%list in
  let B := [mkNode 3 0 0; mkNode 3 1 1; mkNode 2 0 1; mkNode 1 1 2; mkNode 0 2 3]%list in
  let C := [mkNode 3 0 0; mkNode 3 1 1; mkNode 1 1 0]%list in
  fused_ternary_flip_op_faithful_fast A B C (Some 0) None (Some 1) (Some 2) ite_function
    = fused_ternary_flip_op_faithful A B C (Some 0) None (Some 1) (Some 2) ite_function /\
  exists r, if_then_else_faithful_fast A B C = Ok r /\ 3 <= size r.
Proof. exact apply3_fast_example. Qed.
Print Assumptions C01_ternary_fast_nonvacuous.

(* ---- the explicit-stack loop of `ternary_apply`, modelled iteration by iteration (Model/Apply3Stack.v: one sstep3 = one
   pass through the `while let Some(on_stack) = stack.last()` body over task TRIPLES, same store record), computes exactly
   what the recursive order-faithful engine of Model/Apply3.v computes — for valid operands over the same variable count
   and any table that answers on total inputs (no range condition on the four flips, no consistency of the table) ---- *)
From BddVerif Require Model.Apply3Stack Proofs.Apply3Stack.

Theorem C01_ternary_stack_machine_refines : forall A B C fa fb fc fo op,
  wf A -> wf B -> wf C -> nvars A = nvars B -> nvars B = nvars C -> total3 op ->
  Apply3Stack.apply3_stack A B C fa fb fc fo op = apply3 A B C fa fb fc fo op.
Proof. exact Proofs.Apply3Stack.apply3_stack_eq. Qed.
Print Assumptions C01_ternary_stack_machine_refines.

(* hence the pointwise theorem holds of the stack machine verbatim *)
Theorem C01_ternary_stack_machine_pointwise : forall A B C fa fb fc fo op,
  wf A -> wf B -> wf C -> nvars A = nvars B -> nvars B = nvars C ->
  (flip_ok (nvars A) fa && flip_ok (nvars A) fb && flip_ok (nvars A) fc && flip_ok (nvars A) fo = true) ->
  total3 op -> consistent3 op ->
  exists r, Apply3Stack.fused_ternary_flip_op_stack A B C fa fb fc fo op = Ok r /\ Canonical r /\ nvars r = nvars A /\
    forall v, eval r v = conn3 op (eval A (oflip fa (oflip fo v))) (eval B (oflip fb (oflip fo v)))
                                  (eval C (oflip fc (oflip fo v))).
Proof. exact Proofs.Apply3Stack.fused_ternary_flip_op_stack_correct. Qed.
Print Assumptions C01_ternary_stack_machine_pointwise.

Theorem C01_ternary_stack_machine_if_then_else : forall A B C, wf A -> wf B -> wf C ->
  Apply3Stack.if_then_else_stack A B C = if_then_else A B C.
Proof. exact Proofs.Apply3Stack.if_then_else_stack_eq_model. Qed.
Print Assumptions C01_ternary_stack_machine_if_then_else.
