(* C11 — witness and clause selectors return real, extremal members.
   Vocabulary (Proofs/Select*.v):
     sat_list b l        l is a vector with one cell per variable and the function is true on it
     lex_le l l'         derived order of Vec<bool>: index 0 most significant, false < true
     count_pol c l       number of cells of l equal to c
     path b p ds t       ds = [(variable, branch); ...] are the decisions of a walk from node p to node t
     lits_of pv ds       the fixed cells of the clause pv are exactly the decisions ds
     is_path b pv        pv is the clause of a root-to-1 path of b
     diverges_with c ds ds'   ds and ds' share a prefix after which ds takes branch c and ds' the other one
     none_iff_false b o  the call o returns (no panic) and its result is None iff is_false b iff b is a contradiction
     Benign b            valid NON-REDUCED diagrams of the library's storage habits (section 5): wf b, no decision node with
                         two zero links (nz), children stored before parents (topo), root last and every decision node
                         reachable from it (all_reachable); redundant tests and duplicated nodes allowed; checker benignb *)
From Coq Require Import List NArith Bool. Import ListNotations.
From BddVerif Require Import Model.Bdd Model.Apply Model.Ops Model.Select Proofs.Sem Proofs.Canon Proofs.Reflect
  Proofs.SelectBase Proofs.SelectWalk Proofs.SelectWitness Proofs.SelectPred Proofs.SelectDP Proofs.SelectDPVal
  Proofs.SelectAll Proofs.SelectNec Proofs.SelectBenign Proofs.SelectCube.
Open Scope N_scope.

(* 1. every selector terminates without panic and returns None exactly on a contradiction (all RNG scripts) *)
Theorem C11_none_iff_false : forall b, Canonical b ->
  none_iff_false b (sat_witness b) /\ none_iff_false b (first_valuation b) /\ none_iff_false b (last_valuation b) /\
  none_iff_false b (most_positive_valuation b) /\ none_iff_false b (most_negative_valuation b) /\
  none_iff_false b (first_clause b) /\ none_iff_false b (last_clause b) /\
  none_iff_false b (most_fixed_clause b) /\ none_iff_false b (most_free_clause b) /\
  none_iff_false b (necessary_clause b) /\
  (forall script, none_iff_false b (random_valuation b script)) /\
  (forall script, none_iff_false b (random_clause b script)).
Proof. exact all_none_iff_false. Qed.
Print Assumptions C11_none_iff_false.

(* 2. walks *)
Theorem C11_first_valuation_sat_least : forall b, Canonical b -> is_false b = false ->
  exists l, first_valuation b = Ok (Some l) /\ sat_list b l /\ forall l', sat_list b l' -> lex_le l l'.
Proof. exact first_valuation_spec. Qed.
Print Assumptions C11_first_valuation_sat_least.

Theorem C11_last_valuation_sat_greatest : forall b, Canonical b -> is_false b = false ->
  exists l, last_valuation b = Ok (Some l) /\ sat_list b l /\ forall l', sat_list b l' -> lex_le l' l.
Proof. exact last_valuation_spec. Qed.
Print Assumptions C11_last_valuation_sat_greatest.

Theorem C11_sat_witness_sat : forall b, Canonical b -> is_false b = false ->
  exists l, sat_witness b = Ok (Some l) /\ sat_list b l.
Proof. exact sat_witness_spec. Qed.
Print Assumptions C11_sat_witness_sat.

Theorem C11_random_valuation_sat : forall b script, Canonical b -> is_false b = false ->
  exists l, random_valuation b script = Ok (Some l) /\ sat_list b l.
Proof. exact random_valuation_spec. Qed.
Print Assumptions C11_random_valuation_sat.

Theorem C11_first_clause_is_path : forall b, Canonical b -> is_false b = false ->
  exists pv ds, first_clause b = Ok (Some pv) /\ path b (root b) ds 1 /\ lits_of pv ds /\
    forall ds', path b (root b) ds' 1 -> ds' = ds \/ diverges_with false ds ds'.
Proof. exact first_clause_spec. Qed.
Print Assumptions C11_first_clause_is_path.

Theorem C11_last_clause_is_path : forall b, Canonical b -> is_false b = false ->
  exists pv ds, last_clause b = Ok (Some pv) /\ path b (root b) ds 1 /\ lits_of pv ds /\
    forall ds', path b (root b) ds' 1 -> ds' = ds \/ diverges_with true ds ds'.
Proof. exact last_clause_spec. Qed.
Print Assumptions C11_last_clause_is_path.

Theorem C11_random_clause_is_path : forall b script, Canonical b -> is_false b = false ->
  exists pv, random_clause b script = Ok (Some pv) /\ is_path b pv.
Proof. exact random_clause_spec. Qed.
Print Assumptions C11_random_clause_is_path.

(* the key fact behind the walks: in a reduced diagram every pointer other than 0 is satisfiable *)
Theorem C11_nonzero_satisfiable : forall b p, wf b -> reduced b -> valid b p -> p <> 0 -> exists v, sem b p v = true.
Proof. exact nonzero_sat. Qed.
Print Assumptions C11_nonzero_satisfiable.

(* 3. is_clause / is_valuation *)
Theorem C11_is_clause_iff : forall b, Canonical b ->
  exists r, is_clause b = Ok r /\ (r = true <-> unique_path b (root b)).
Proof. exact is_clause_iff. Qed.
Print Assumptions C11_is_clause_iff.

Theorem C11_is_valuation_iff : forall b, Canonical b ->
  exists r, is_valuation b = Ok r /\ (r = true <-> unique_sat_list b).
Proof. exact is_valuation_iff. Qed.
Print Assumptions C11_is_valuation_iff.

(* 3'. the SEMANTIC reading (Proofs/SelectCube.v): on a canonical diagram "exactly one root-to-1 path" is "the function is a
   single cube" — a satisfiable conjunction of literals over distinct variables: is_cube b := exists ds, NoDup (map fst ds) /\
   forall v, eval b v = true <-> follows v ds (no literals = the tautology is a cube, a contradiction is not).  Reducedness is
   essential (C11_is_clause_benign_refuted below).  The literals of a cube of a valid diagram are automatically < nvars b:
   is_cube_in adds that requirement and is equivalent (C11_is_cube_in_iff). *)
Theorem C11_is_clause_semantic : forall b, Canonical b ->
  exists r, is_clause b = Ok r /\ (r = true <-> is_cube b).
Proof. exact is_clause_semantic. Qed.
Print Assumptions C11_is_clause_semantic.

Theorem C11_is_clause_semantic_in : forall b, Canonical b ->
  exists r, is_clause b = Ok r /\ (r = true <-> is_cube_in b).
Proof. exact is_clause_semantic_in. Qed.
Print Assumptions C11_is_clause_semantic_in.

Theorem C11_is_cube_in_iff : forall b, wf b -> (is_cube_in b <-> is_cube b).
Proof. exact is_cube_in_iff. Qed.
Print Assumptions C11_is_cube_in_iff.

(* unique_sat_list (exactly one Vec<bool> of length nvars satisfies b) already is the semantic statement in the library's
   vocabulary; the same on functions: exactly one satisfying valuation up to the variables >= nvars b, which the diagram
   cannot read (unique_sat), equivalently the function is a minterm — a cube fixing exactly the variables < nvars b *)
Theorem C11_is_valuation_semantic : forall b, Canonical b ->
  exists r, is_valuation b = Ok r /\
    (r = true <-> exists v, eval b v = true /\ forall w, eval b w = true -> forall x, x < nvars b -> w x = v x).
Proof. exact is_valuation_semantic. Qed.
Print Assumptions C11_is_valuation_semantic.

Theorem C11_is_valuation_minterm : forall b, Canonical b ->
  exists r, is_valuation b = Ok r /\
    (r = true <-> exists ds : list dec, NoDup (map fst ds) /\ (forall x, In x (map fst ds) <-> x < nvars b) /\
                    forall v, eval b v = true <-> follows v ds).
Proof. exact is_valuation_minterm. Qed.
Print Assumptions C11_is_valuation_minterm.

(* x0 & !x2 & x4 over 5 variables: a canonical cube of 3 literals; ex_b below, (x0 & x2) | (!x0 & !x1), is canonical and not a cube *)
Definition ex_cube3 : bdd := [mkNode 5 0 0; mkNode 5 1 1; mkNode 4 0 1; mkNode 2 2 0; mkNode 0 0 3].
Definition ex_noncube : bdd := [mkNode 4 0 0; mkNode 4 1 1; mkNode 2 0 1; mkNode 1 1 0; mkNode 0 3 2].
Example C11_is_clause_examples :
  canonicalb ex_cube3 = true /\ is_clause ex_cube3 = Ok true /\ is_valuation ex_cube3 = Ok false /\
  canonicalb ex_noncube = true /\ is_clause ex_noncube = Ok false.
Proof. vm_compute. repeat split. Qed.
Print Assumptions C11_is_clause_examples.

(* ... hence, through the theorem: the first denotes a cube, the second does not *)
Example C11_is_clause_examples_semantic : is_cube ex_cube3 /\ ~ is_cube ex_noncube.
Proof.
  split.
  - destruct (is_clause_semantic ex_cube3) as (r & Hr & Hiff); [apply canonicalb_sound; vm_compute; reflexivity|].
    apply Hiff. vm_compute in Hr. congruence.
  - intros C. destruct (is_clause_semantic ex_noncube) as (r & Hr & Hiff); [apply canonicalb_sound; vm_compute; reflexivity|].
    apply Hiff in C. vm_compute in Hr. congruence.
Qed.
Print Assumptions C11_is_clause_examples_semantic.

(* 4. bottom-up selectors *)
Theorem C11_most_positive_spec : forall b, Canonical b -> is_false b = false ->
  exists l, most_positive_valuation b = Ok (Some l) /\ sat_list b l /\
    (forall l', sat_list b l' -> count_pol true l' <= count_pol true l) /\
    (forall l', sat_list b l' -> count_pol true l' = count_pol true l -> lex_le l l').
Proof. exact most_positive_spec. Qed.
Print Assumptions C11_most_positive_spec.

Theorem C11_most_negative_spec : forall b, Canonical b -> is_false b = false ->
  exists l, most_negative_valuation b = Ok (Some l) /\ sat_list b l /\
    (forall l', sat_list b l' -> count_pol false l' <= count_pol false l) /\
    (forall l', sat_list b l' -> count_pol false l' = count_pol false l -> lex_le l l').
Proof. exact most_negative_spec. Qed.
Print Assumptions C11_most_negative_spec.

Theorem C11_most_fixed_clause_spec : forall b, Canonical b -> is_false b = false ->
  exists pv ds, most_fixed_clause b = Ok (Some pv) /\ path b (root b) ds 1 /\ lits_of pv ds /\
    forall ds', path b (root b) ds' 1 -> (length ds' <= length ds)%nat.
Proof. exact most_fixed_clause_spec. Qed.
Print Assumptions C11_most_fixed_clause_spec.

Theorem C11_most_free_clause_spec : forall b, Canonical b -> is_false b = false ->
  exists pv ds, most_free_clause b = Ok (Some pv) /\ path b (root b) ds 1 /\ lits_of pv ds /\
    forall ds', path b (root b) ds' 1 -> (length ds <= length ds')%nat.
Proof. exact most_free_clause_spec. Qed.
Print Assumptions C11_most_free_clause_spec.

(* necessary_clause is exactly the set of literals shared by all satisfying valuations *)
Theorem C11_necessary_clause_spec : forall b, Canonical b -> is_false b = false ->
  exists pv, necessary_clause b = Ok (Some pv) /\
    forall x c, pv_get pv x = Some c <-> (x < nvars b /\ forall v, eval b v = true -> v x = c).
Proof. exact necessary_clause_spec. Qed.
Print Assumptions C11_necessary_clause_spec.

(* the unreachable!() arm of necessary_clause is never taken (nor any index panic) *)
Theorem C11_necessary_clause_no_panic : forall b, Canonical b -> exists r, necessary_clause b = Ok r.
Proof. exact necessary_clause_no_panic. Qed.
Print Assumptions C11_necessary_clause_no_panic.

(* the hypotheses are satisfiable on a non-trivial instance: f = (x0 & x2) | (!x0 & !x1) over 4 variables
   (a level gap below the root's high edge, a variable above the terminals that is never tested) *)
Definition ex_b : bdd := [mkNode 4 0 0; mkNode 4 1 1; mkNode 2 0 1; mkNode 1 1 0; mkNode 0 3 2].
Example C11_example_canonical : canonicalb ex_b = true.
Proof. vm_compute. reflexivity. Qed.
Print Assumptions C11_example_canonical.
Example C11_example_values :
  first_valuation ex_b = Ok (Some [false; false; false; false]) /\
  last_valuation ex_b = Ok (Some [true; true; true; true]) /\
  most_positive_valuation ex_b = Ok (Some [true; true; true; true]) /\
  most_negative_valuation ex_b = Ok (Some [false; false; false; false]) /\
  first_clause ex_b = Ok (Some [Some false; Some false]) /\
  last_clause ex_b = Ok (Some [Some true; None; Some true]) /\
  most_fixed_clause ex_b = Ok (Some [Some true; None; Some true]) /\
  necessary_clause ex_b = Ok (Some []) /\
  random_valuation ex_b [false; true] = Ok (Some [false; false; true; true]) /\
  is_clause ex_b = Ok false /\ is_valuation ex_b = Ok false.
Proof. vm_compute. repeat split. Qed.
Print Assumptions C11_example_values.

(* ======================================================================================================== *)
(* 5. non-reduced diagrams of the benign shape: every statement above holds with `Canonical b` replaced by `Benign b`
      (the proofs of Proofs/Select*.v are carried out for Benign; the Canonical versions are corollaries)          *)
Theorem C11_benignb_iff : forall b, benignb b = true <-> Benign b.
Proof. exact benignb_iff. Qed.
Print Assumptions C11_benignb_iff.

Theorem C11_benign_unfold : forall b, Benign b <->
  wf b /\
  (forall p, 2 <= p -> p < size b -> ~ (nlow (get b p) = 0 /\ nhigh (get b p) = 0)) /\
  (forall p, 2 <= p -> p < size b -> nlow (get b p) < p /\ nhigh (get b p) < p) /\
  (forall p, 2 <= p -> p < size b -> exists ds, path b (root b) ds p).
Proof. exact (fun b => conj (fun H => H) (fun H => H)). Qed.
Print Assumptions C11_benign_unfold.

Theorem C11_canonical_is_benign : forall b, Canonical b -> Benign b.
Proof. exact canonical_benign. Qed.
Print Assumptions C11_canonical_is_benign.

(* a benign diagram is one of the two constants or has a decision node *)
Theorem C11_benign_shape : forall b, Benign b -> b = mk_false (nvars b) \/ b = mk_true (nvars b) \/ 3 <= size b.
Proof. exact benign_shape. Qed.
Print Assumptions C11_benign_shape.

Theorem C11_none_iff_false_benign : forall b, Benign b ->
  none_iff_false b (sat_witness b) /\ none_iff_false b (first_valuation b) /\ none_iff_false b (last_valuation b) /\
  none_iff_false b (most_positive_valuation b) /\ none_iff_false b (most_negative_valuation b) /\
  none_iff_false b (first_clause b) /\ none_iff_false b (last_clause b) /\
  none_iff_false b (most_fixed_clause b) /\ none_iff_false b (most_free_clause b) /\
  none_iff_false b (necessary_clause b) /\
  (forall script, none_iff_false b (random_valuation b script)) /\
  (forall script, none_iff_false b (random_clause b script)).
Proof. exact all_none_iff_false_benign. Qed.
Print Assumptions C11_none_iff_false_benign.

(* is_false (node count = 1) stays exact: a benign diagram with a decision node is satisfiable *)
Theorem C11_is_false_exact_benign : forall b, Benign b -> (is_false b = true <-> forall v, eval b v = false).
Proof. exact is_false_correct_benign. Qed.
Print Assumptions C11_is_false_exact_benign.

Theorem C11_first_valuation_sat_least_benign : forall b, Benign b -> is_false b = false ->
  exists l, first_valuation b = Ok (Some l) /\ sat_list b l /\ forall l', sat_list b l' -> lex_le l l'.
Proof. exact first_valuation_spec_benign. Qed.
Print Assumptions C11_first_valuation_sat_least_benign.

Theorem C11_last_valuation_sat_greatest_benign : forall b, Benign b -> is_false b = false ->
  exists l, last_valuation b = Ok (Some l) /\ sat_list b l /\ forall l', sat_list b l' -> lex_le l' l.
Proof. exact last_valuation_spec_benign. Qed.
Print Assumptions C11_last_valuation_sat_greatest_benign.

Theorem C11_sat_witness_sat_benign : forall b, Benign b -> is_false b = false ->
  exists l, sat_witness b = Ok (Some l) /\ sat_list b l.
Proof. exact sat_witness_spec_benign. Qed.
Print Assumptions C11_sat_witness_sat_benign.

Theorem C11_random_valuation_sat_benign : forall b script, Benign b -> is_false b = false ->
  exists l, random_valuation b script = Ok (Some l) /\ sat_list b l.
Proof. exact random_valuation_spec_benign. Qed.
Print Assumptions C11_random_valuation_sat_benign.

Theorem C11_first_clause_is_path_benign : forall b, Benign b -> is_false b = false ->
  exists pv ds, first_clause b = Ok (Some pv) /\ path b (root b) ds 1 /\ lits_of pv ds /\
    forall ds', path b (root b) ds' 1 -> ds' = ds \/ diverges_with false ds ds'.
Proof. exact first_clause_spec_benign. Qed.
Print Assumptions C11_first_clause_is_path_benign.

Theorem C11_last_clause_is_path_benign : forall b, Benign b -> is_false b = false ->
  exists pv ds, last_clause b = Ok (Some pv) /\ path b (root b) ds 1 /\ lits_of pv ds /\
    forall ds', path b (root b) ds' 1 -> ds' = ds \/ diverges_with true ds ds'.
Proof. exact last_clause_spec_benign. Qed.
Print Assumptions C11_last_clause_is_path_benign.

Theorem C11_random_clause_is_path_benign : forall b script, Benign b -> is_false b = false ->
  exists pv, random_clause b script = Ok (Some pv) /\ is_path b pv.
Proof. exact random_clause_spec_benign. Qed.
Print Assumptions C11_random_clause_is_path_benign.

(* the key fact only needs: no decision node with two zero links *)
Theorem C11_nonzero_satisfiable_benign : forall b p, wf b -> nz b -> valid b p -> p <> 0 -> exists v, sem b p v = true.
Proof. exact nonzero_sat_benign. Qed.
Print Assumptions C11_nonzero_satisfiable_benign.

(* is_clause still decides "exactly one root-to-1 path" ... *)
Theorem C11_is_clause_iff_benign : forall b, Benign b ->
  exists r, is_clause b = Ok r /\ (r = true <-> unique_path b (root b)).
Proof. exact is_clause_iff_benign. Qed.
Print Assumptions C11_is_clause_iff_benign.

(* ... which on a non-reduced diagram is no longer "the function is a single cube": x0 with a redundant test of x1 below
   it is one cube with two paths, and is_clause answers false *)
Theorem C11_is_clause_benign_refuted :
  exists b, Benign b /\ is_clause b = Ok false /\ is_cube b /\
    (exists ds1 ds2, path b (root b) ds1 1 /\ path b (root b) ds2 1 /\ ds1 <> ds2).
Proof. exact is_clause_benign_refuted. Qed.
Print Assumptions C11_is_clause_benign_refuted.

Theorem C11_is_valuation_iff_benign : forall b, Benign b ->
  exists r, is_valuation b = Ok r /\ (r = true <-> unique_sat_list b).
Proof. exact is_valuation_iff_benign. Qed.
Print Assumptions C11_is_valuation_iff_benign.

Theorem C11_most_positive_spec_benign : forall b, Benign b -> is_false b = false ->
  exists l, most_positive_valuation b = Ok (Some l) /\ sat_list b l /\
    (forall l', sat_list b l' -> count_pol true l' <= count_pol true l) /\
    (forall l', sat_list b l' -> count_pol true l' = count_pol true l -> lex_le l l').
Proof. exact most_positive_spec_benign. Qed.
Print Assumptions C11_most_positive_spec_benign.

Theorem C11_most_negative_spec_benign : forall b, Benign b -> is_false b = false ->
  exists l, most_negative_valuation b = Ok (Some l) /\ sat_list b l /\
    (forall l', sat_list b l' -> count_pol false l' <= count_pol false l) /\
    (forall l', sat_list b l' -> count_pol false l' = count_pol false l -> lex_le l l').
Proof. exact most_negative_spec_benign. Qed.
Print Assumptions C11_most_negative_spec_benign.

Theorem C11_most_fixed_clause_spec_benign : forall b, Benign b -> is_false b = false ->
  exists pv ds, most_fixed_clause b = Ok (Some pv) /\ path b (root b) ds 1 /\ lits_of pv ds /\
    forall ds', path b (root b) ds' 1 -> (length ds' <= length ds)%nat.
Proof. exact most_fixed_clause_spec_benign. Qed.
Print Assumptions C11_most_fixed_clause_spec_benign.

Theorem C11_most_free_clause_spec_benign : forall b, Benign b -> is_false b = false ->
  exists pv ds, most_free_clause b = Ok (Some pv) /\ path b (root b) ds 1 /\ lits_of pv ds /\
    forall ds', path b (root b) ds' 1 -> (length ds <= length ds')%nat.
Proof. exact most_free_clause_spec_benign. Qed.
Print Assumptions C11_most_free_clause_spec_benign.

Theorem C11_necessary_clause_spec_benign : forall b, Benign b -> is_false b = false ->
  exists pv, necessary_clause b = Ok (Some pv) /\
    forall x c, pv_get pv x = Some c <-> (x < nvars b /\ forall v, eval b v = true -> v x = c).
Proof. exact necessary_clause_spec_benign. Qed.
Print Assumptions C11_necessary_clause_spec_benign.

Theorem C11_necessary_clause_no_panic_benign : forall b, Benign b -> exists r, necessary_clause b = Ok r.
Proof. exact necessary_clause_no_panic_benign. Qed.
Print Assumptions C11_necessary_clause_no_panic_benign.

(* the class is strictly larger than the canonical diagrams: ex_b with a redundant test of x3 spliced into the edge
   (x2) -high-> 1 is benign, not reduced, and the selectors return the same members as on ex_b (the clause selectors
   additionally report the redundant decision they walk through) *)
Definition ex_nr : bdd := [mkNode 4 0 0; mkNode 4 1 1; mkNode 3 1 1; mkNode 2 0 2; mkNode 1 1 0; mkNode 0 4 3].
Example C11_benign_nonvacuous :
  benignb ex_nr = true /\ reducedb ex_nr = false /\ canonicalb ex_nr = false /\
  (forall v, eval ex_nr v = eval ex_b v) /\
  first_valuation ex_nr = Ok (Some [false; false; false; false]) /\
  last_valuation ex_nr = Ok (Some [true; true; true; true]) /\
  sat_witness ex_nr = Ok (Some [true; false; true; false]) /\
  most_positive_valuation ex_nr = Ok (Some [true; true; true; true]) /\
  most_negative_valuation ex_nr = Ok (Some [false; false; false; false]) /\
  first_clause ex_nr = Ok (Some [Some false; Some false]) /\
  last_clause ex_nr = Ok (Some [Some true; None; Some true; Some true]) /\
  most_fixed_clause ex_nr = Ok (Some [Some true; None; Some true; Some false]) /\
  most_free_clause ex_nr = Ok (Some [Some false; Some false]) /\
  necessary_clause ex_nr = Ok (Some []) /\
  random_valuation ex_nr [false; true] = Ok (Some [false; false; true; true]) /\
  is_clause ex_nr = Ok false /\ is_valuation ex_nr = Ok false.
Proof.
  split; [vm_compute; reflexivity|]. split; [vm_compute; reflexivity|]. split; [vm_compute; reflexivity|].
  split; [|vm_compute; repeat split].
  exact ex_benign_same_function.
Qed.
Print Assumptions C11_benign_nonvacuous.
