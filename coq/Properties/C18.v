(* C18 — valuation types and comparators obey their equality/ordering contracts. *)
From Coq Require Import List NArith Bool. Import ListNotations.
From BddVerif Require Import Model.Bdd Model.Apply Model.Ops Model.Valuation Proofs.Sem Proofs.Canon Proofs.CmpSem
  Proofs.ValuationSem Proofs.ValuationCmp Model.Alias Proofs.Alias.
Open Scope N_scope.

(* == on partial valuations is equality of the finite maps var -> value, whatever the stored padding *)
Theorem C18_pv_eq_iff : forall a b, pv_eq a b = true <-> forall x, pv_get a x = pv_get b x.
Proof. exact pv_eq_iff. Qed.
Print Assumptions C18_pv_eq_iff.

Theorem C18_pv_eq_padding : forall a k, pv_eq a (a ++ repeat None k) = true.
Proof. exact pv_eq_padding. Qed.
Print Assumptions C18_pv_eq_padding.

(* values reached by ANY sequence of set_value / unset_value / IndexMut steps from any two starting values: the
   results are == exactly when the same steps applied to the finite maps give the same map *)
Theorem C18_set_get : forall p x c y, pv_get (pv_set_value p x c) y = if x =? y then Some c else pv_get p y.
Proof. exact set_get. Qed.
Print Assumptions C18_set_get.
Theorem C18_unset_get : forall p x y, pv_get (pv_unset_value p x) y = if x =? y then None else pv_get p y.
Proof. exact unset_get. Qed.
Print Assumptions C18_unset_get.
Theorem C18_history_get : forall p ops y, pv_get (pv_run p ops) y = fm_run (pv_get p) ops y.
Proof. exact pv_run_get. Qed.
Print Assumptions C18_history_get.
Theorem C18_history_eq_iff : forall s1 o1 s2 o2,
  pv_eq (pv_run s1 o1) (pv_run s2 o2) = true <-> forall y, fm_run (pv_get s1) o1 y = fm_run (pv_get s2) o2 y.
Proof. exact pv_history_eq_iff. Qed.
Print Assumptions C18_history_eq_iff.

(* equal valuations drive the Hasher through the identical sequence of write calls; conversely the sequence
   determines the valuation (vectors of at most 2^64 cells: every vector on the checked 64-bit platform) *)
Theorem C18_pv_hash_respects_eq : forall a b, pv_eq a b = true -> pv_hash_stream a = pv_hash_stream b.
Proof. exact pv_hash_respects_eq. Qed.
Print Assumptions C18_pv_hash_respects_eq.
Theorem C18_pv_hash_injective : forall a b, N.of_nat (length a) <= 2 ^ 64 -> N.of_nat (length b) <= 2 ^ 64 ->
  pv_hash_stream a = pv_hash_stream b -> pv_eq a b = true.
Proof. exact pv_hash_injective. Qed.
Print Assumptions C18_pv_hash_injective.

(* conversions *)
Theorem C18_valuation_pv_valuation : forall v, N.of_nat (length v) < 65536 -> valuation_of_pv (pv_of_valuation v) = Some v.
Proof. exact valuation_pv_valuation. Qed.
Print Assumptions C18_valuation_pv_valuation.
Theorem C18_pv_valuation_pv : forall p v,
  valuation_of_pv p = Some v <-> (N.of_nat (length p) < 65536 /\ p = pv_of_valuation v).
Proof. exact pv_valuation_pv. Qed.
Print Assumptions C18_pv_valuation_pv.
Theorem C18_from_values_to_values : forall p, pv_eq (pv_from_values (pv_to_values p)) p = true.
Proof. exact from_values_to_values. Qed.
Print Assumptions C18_from_values_to_values.
Theorem C18_to_values_in : forall p x c, In (x, c) (pv_to_values p) <-> pv_get p x = Some c.
Proof. exact pv_to_values_in. Qed.
Print Assumptions C18_to_values_in.
Theorem C18_val_to_values : forall v, val_to_values v = pv_to_values (pv_of_valuation v).
Proof. exact val_to_values_pv. Qed.
Print Assumptions C18_val_to_values.
Theorem C18_from_values_of_valuation : forall v, pv_eq (pv_from_values (val_to_values v)) (pv_of_valuation v) = true.
Proof. exact from_values_of_valuation. Qed.
Print Assumptions C18_from_values_of_valuation.
(* Bdd::from(valuation): canonical, over len variables, satisfied by exactly that valuation; and it is the
   conjunctive clause of the valuation's partial valuation *)
Theorem C18_of_valuation_inverse : forall v,
  Canonical (of_valuation v) /\ nvars (of_valuation v) = N.of_nat (length v) /\
  forall w, eval (of_valuation v) w = true <-> forall x, x < N.of_nat (length v) -> w x = val_of_list v x.
Proof. exact of_valuation_inverse. Qed.
Print Assumptions C18_of_valuation_inverse.
Theorem C18_of_valuation_via_pv : forall v,
  mk_conjunctive_clause (N.of_nat (length v)) (pv_of_valuation v) = Ok (of_valuation v).
Proof. exact of_valuation_via_pv. Qed.
Print Assumptions C18_of_valuation_via_pv.

(* extends *)
Theorem C18_extends_iff : forall a b,
  pv_extends a b = true <-> forall x c, pv_get b x = Some c -> pv_get a x = Some c.
Proof. exact extends_iff. Qed.
Print Assumptions C18_extends_iff.
Theorem C18_val_extends_iff : forall v p, N.of_nat (length v) < 65536 ->
  (val_extends v p = true <->
   forall x c, x < N.of_nat (length v) -> pv_get p x = Some c -> nth (N.to_nat x) v false = c).
Proof. exact val_extends_iff. Qed.
Print Assumptions C18_val_extends_iff.

(* comparators *)
Theorem C18_cmp_structural_total_order :
  (forall a, cmp_structural a a = OEq) /\
  (forall a b, cmp_structural a b = OEq <-> a = b) /\
  (forall a b, cmp_structural b a = ord_opp (cmp_structural a b)) /\
  (forall a b, cmp_structural a b <> OGt -> cmp_structural b a <> OGt -> a = b) /\
  (forall a b c, cmp_structural a b = OLt -> cmp_structural b c = OLt -> cmp_structural a c = OLt) /\
  (forall a b c, cmp_structural a b <> OGt -> cmp_structural b c <> OGt -> cmp_structural a c <> OGt) /\
  (forall a b, cmp_structural a b <> OGt \/ cmp_structural b a <> OGt).
Proof. exact cmp_structural_total_order. Qed.
Print Assumptions C18_cmp_structural_total_order.

Theorem C18_cmp_size_spec : forall a b,
  (cmp_size a b = OLt <-> size a < size b) /\ (cmp_size a b = OEq <-> size a = size b) /\ (cmp_size a b = OGt <-> size b < size a).
Proof. exact cmp_size_spec. Qed.
Print Assumptions C18_cmp_size_spec.

(* for whatever exact_cardinality computes (`card`): the comparator orders by it, and the strict variant refuses
   exactly the pairs over different variable counts *)
Theorem C18_cmp_cardinality_spec : forall (card : bdd -> N) a b,
  (cmp_cardinality_with card a b = OLt <-> card a < card b) /\
  (cmp_cardinality_with card a b = OEq <-> card a = card b) /\
  (cmp_cardinality_with card a b = OGt <-> card b < card a).
Proof. exact cmp_cardinality_spec. Qed.
Print Assumptions C18_cmp_cardinality_spec.
Theorem C18_cmp_cardinality_strict_none_iff : forall (card : bdd -> N) a b,
  cmp_cardinality_strict_with card a b = None <-> nvars a <> nvars b.
Proof. exact cmp_cardinality_strict_none_iff. Qed.
Print Assumptions C18_cmp_cardinality_strict_none_iff.
Theorem C18_cmp_cardinality_strict_some : forall (card : bdd -> N) a b, nvars a = nvars b ->
  cmp_cardinality_strict_with card a b = Some (cmp_cardinality_with card a b).
Proof. exact cmp_cardinality_strict_some. Qed.
Print Assumptions C18_cmp_cardinality_strict_some.
(* the count used on the model side of the correspondence: the number of satisfying assignments of nvars variables *)
Theorem C18_card_bf_spec : forall b, exists sat : list (list bool),
  card_bf b = N.of_nat (length sat) /\ NoDup sat /\
  forall l, In l sat <-> (length l = N.to_nat (nvars b) /\ eval b (val_of_list l) = true).
Proof. exact card_bf_spec. Qed.
Print Assumptions C18_card_bf_spec.

(* cmp_implies (proved for C05): None exactly for different variable counts or incomparable functions *)
Theorem C18_cmp_implies_spec : forall a b, wf a -> wf b ->
  exists o, cmp_implies a b = Ok o /\
    (nvars a <> nvars b -> o = None) /\
    (nvars a = nvars b ->
       (o = Some OEq <-> (implies a b /\ implies b a)) /\
       (o = Some OLt <-> (implies a b /\ ~ implies b a)) /\
       (o = Some OGt <-> (~ implies a b /\ implies b a)) /\
       (o = None <-> (~ implies a b /\ ~ implies b a))).
Proof. exact cmp_implies_spec. Qed.
Print Assumptions C18_cmp_implies_spec.

(* the hypotheses are satisfiable on non-trivial instances *)
Example C18_example_padding :
  let a := pv_run pv_empty [OpSet 1 true; OpUnset 6] in
  let b := pv_run pv_empty [OpSet 1 true] in
  length a = 7%nat /\ length b = 2%nat /\ pv_eq a b = true /\ pv_hash_stream a = pv_hash_stream b /\
  pv_extends a b = true /\ valuation_of_pv (pv_run pv_empty [OpSet 0 false; OpSet 1 true]) = Some [false; true] /\
  valuation_of_pv (pv_run pv_empty [OpSet 0 false; OpSet 1 true; OpUnset 2]) = None.
Proof. vm_compute. repeat split; reflexivity. Qed.
Print Assumptions C18_example_padding.
Example C18_example_cmp :
  cmp_structural (mk_var 3 1) (mk_var 3 2) = OLt /\ cmp_size (mk_true 3) (mk_var 3 2) = OLt /\
  cmp_cardinality (mk_var 3 1) (mk_true 2) = OEq /\ cmp_cardinality_strict (mk_var 3 1) (mk_true 2) = None.
Proof. vm_compute. repeat split; reflexivity. Qed.
Print Assumptions C18_example_cmp.

(* ---- total valuations (BddValuation; Model/Alias.v): every in-place mutator (set, clear, flip_value, set_value,
   IndexMut) succeeds exactly on an index inside the vector, keeps the length and rewrites that one cell; a history
   panics exactly when some step indexes beyond the (constant) length *)
Theorem C18_val_step : forall v o,
  match val_step v o with
  | Ok w => val_op_var o < N.of_nat (length v) /\ length w = length v /\
            forall y, val_value w y =
              if y =? val_op_var o then bind (val_value v y) (fun c => Ok (val_op_fun o c)) else val_value v y
  | Panic => N.of_nat (length v) <= val_op_var o
  | OutOfFuel => False
  end.
Proof. exact val_step_spec. Qed.
Print Assumptions C18_val_step.
Theorem C18_val_history_ok_iff : forall v ops,
  (exists w, val_run v ops = Ok w) <-> Forall (fun o => val_op_var o < N.of_nat (length v)) ops.
Proof. exact val_run_ok_iff. Qed.
Print Assumptions C18_val_history_ok_iff.
Theorem C18_val_flip_involutive : forall v x w u, val_step v (VFlip x) = Ok w -> val_step w (VFlip x) = Ok u -> u = v.
Proof. exact val_flip_flip. Qed.
Print Assumptions C18_val_flip_involutive.
Theorem C18_val_all_value : forall c n x, val_value (val_all c n) x = if x <? n then Ok c else Panic.
Proof. exact val_all_value. Qed.
Print Assumptions C18_val_all_value.
Theorem C18_val_all_num_vars : forall c n, n < 65536 -> val_num_vars (val_all c n) = n.
Proof. exact val_all_num_vars. Qed.
Print Assumptions C18_val_all_num_vars.

(* ---- gaps closed (Proofs/Gaps2Card.v) ---- *)
From BddVerif Require Import Model.Count Model.Select Proofs.Gaps2Card.
(* the brute-force count that instantiates cmp_cardinality is the library's exact_cardinality on every valid diagram *)
Theorem C18_card_bf_eq_exact : forall b, wf b -> exact_cardinality b = card_bf b.
Proof. exact card_bf_eq_exact. Qed.
Print Assumptions C18_card_bf_eq_exact.
Theorem C18_cmp_cardinality_by_exact_count : forall a b, wf a -> wf b ->
  cmp_cardinality a b = cmp_cardinality_with exact_cardinality a b /\
  (cmp_cardinality a b = OLt <-> exact_cardinality a < exact_cardinality b) /\
  (cmp_cardinality a b = OEq <-> exact_cardinality a = exact_cardinality b) /\
  (cmp_cardinality a b = OGt <-> exact_cardinality b < exact_cardinality a).
Proof. exact cmp_cardinality_by_exact_count. Qed.
Print Assumptions C18_cmp_cardinality_by_exact_count.
Theorem C18_cmp_cardinality_strict_by_exact_count : forall a b, wf a -> wf b ->
  cmp_cardinality_strict a b = cmp_cardinality_strict_with exact_cardinality a b /\
  (cmp_cardinality_strict a b = None <-> nvars a <> nvars b) /\
  (cmp_cardinality_strict a b = Some OLt <-> nvars a = nvars b /\ exact_cardinality a < exact_cardinality b) /\
  (cmp_cardinality_strict a b = Some OEq <-> nvars a = nvars b /\ exact_cardinality a = exact_cardinality b) /\
  (cmp_cardinality_strict a b = Some OGt <-> nvars a = nvars b /\ exact_cardinality b < exact_cardinality a).
Proof. exact cmp_cardinality_strict_by_exact_count. Qed.
Print Assumptions C18_cmp_cardinality_strict_by_exact_count.

(* Bdd::from(valuation) converts back: is_valuation answers true and every witness/selector function returns v itself;
   conversely a canonical Bdd accepted by is_valuation is Bdd::from of its witness *)
Theorem C18_of_valuation_back : forall v,
  is_valuation (of_valuation v) = Ok true /\
  sat_witness (of_valuation v) = Ok (Some v) /\
  first_valuation (of_valuation v) = Ok (Some v) /\
  last_valuation (of_valuation v) = Ok (Some v) /\
  most_positive_valuation (of_valuation v) = Ok (Some v) /\
  most_negative_valuation (of_valuation v) = Ok (Some v) /\
  forall script, random_valuation (of_valuation v) script = Ok (Some v).
Proof. exact of_valuation_back. Qed.
Print Assumptions C18_of_valuation_back.
Theorem C18_is_valuation_of_valuation : forall b, Canonical b -> is_valuation b = Ok true ->
  exists v, sat_witness b = Ok (Some v) /\ b = of_valuation v.
Proof. exact is_valuation_of_valuation. Qed.
Print Assumptions C18_is_valuation_of_valuation.
