(* C06 — selection, restriction and picking have their relational meaning. *)
From Coq Require Import List NArith Bool. Import ListNotations.
From BddVerif Require Import Model.Bdd Model.Apply Model.Ops Model.Restrict Proofs.Sem Proofs.Canon Proofs.ApplySem Proofs.ApplyTop
  Proofs.RelSem Proofs.PvalSem Proofs.PickSem Proofs.Restrict Proofs.GapsPick.
Open Scope N_scope.

(* select keeps exactly the valuations of the operand that agree with the literals (a repeated variable: last literal wins) *)
Theorem C06_select : forall b lits, wf b -> Forall (fun xc => fst xc < nvars b) lits ->
  exists r, select b lits = Ok r /\ Canonical r /\ nvars r = nvars b /\
    forall v, eval r v = true <-> eval b v = true /\ forall x c, last_value lits x = Some c -> v x = c.
Proof. exact select_true. Qed.
Print Assumptions C06_select.

Theorem C06_var_select : forall b x c, wf b -> x < nvars b ->
  exists r, var_select b x c = Ok r /\ Canonical r /\ nvars r = nvars b /\ forall v, eval r v = eval b v && Bool.eqb (v x) c.
Proof. exact var_select_correct. Qed.
Print Assumptions C06_var_select.

(* restrict: the operand's value at v overridden with the literals *)
Theorem C06_restrict : forall b lits, wf b ->
  exists r, restrict b lits = Ok r /\ Canonical r /\ nvars r = nvars b /\
    forall v, eval r v = eval b (fun y => match last_value lits y with Some c => c | None => v y end).
Proof. exact restrict_last_value. Qed.
Print Assumptions C06_restrict.

Theorem C06_var_restrict : forall b x c, wf b ->
  exists r, var_restrict b x c = Ok r /\ Canonical r /\ nvars r = nvars b /\ forall v, eval r v = eval b (upd v x c).
Proof. exact var_restrict_correct. Qed.
Print Assumptions C06_var_restrict.

Theorem C06_var_restrict_independent : forall b x c, wf b ->
  exists r, var_restrict b x c = Ok r /\ forall v d, eval r (upd v x d) = eval r v.
Proof. exact var_restrict_indep. Qed.
Print Assumptions C06_var_restrict_independent.

(* var_pick keeps the false-valued member whenever both members of a class are present *)
Theorem C06_var_pick : forall b x, wf b -> x < nvars b ->
  exists r, var_pick b x = Ok r /\ Canonical r /\ nvars r = nvars b /\
    forall v, eval r v = eval b v && negb (v x && eval b (upd v x false)).
Proof. exact var_pick_correct. Qed.
Print Assumptions C06_var_pick.

(* var_pick_random, for every RNG outcome `pref` *)
Theorem C06_var_pick_any_seed : forall b x pref, wf b -> x < nvars b ->
  exists r, var_pick_pref b x pref = Ok r /\ Canonical r /\ nvars r = nvars b /\
    forall v, eval r v = eval b v && negb (negb (Bool.eqb (v x) pref) && eval b (upd v x pref)).
Proof. exact var_pick_pref_correct. Qed.
Print Assumptions C06_var_pick_any_seed.

(* pick over a subset of the variables: a subset of the operand containing exactly one valuation from every
   non-empty class of operand valuations that agree outside vars *)
Theorem C06_pick : forall b vars, wf b -> NoDup vars -> Forall (fun x => x < nvars b) vars ->
  exists r, pick b vars = Ok r /\ wf r /\ (vars <> [] \/ Canonical b -> Canonical r) /\ nvars r = nvars b /\
    (forall v, eval r v = true -> eval b v = true) /\
    (forall v, eval b v = true -> exists w, agree_outside vars w v /\ eval r w = true) /\
    (forall v w1 w2, agree_outside vars w1 v -> agree_outside vars w2 v -> eval r w1 = true -> eval r w2 = true ->
       forall y, In y vars -> w1 y = w2 y).
Proof. exact pick_correct. Qed.
Print Assumptions C06_pick.

(* ---- the order-faithful model of the dedicated single-pass algorithm (`fn restriction`: DFS with the new_id
   table, the node cache, high child before low child; Model/Restrict.v).  It is the model the correspondence
   reports for restrict / var_restrict; the compositional model above is proved to return the same array. ---- *)

(* total on every well-formed operand; the result reads the operand at v overridden by the fixed cells of the
   partial valuation (cells of variables the operand does not have are irrelevant) *)
Theorem C06_restrict_faithful_sem : forall b pv, wf b ->
  exists r, restriction b pv = Some r /\ wf r /\ nvars r = nvars b /\
    forall v, eval r v = eval b (override v (filter (fun xc => fst xc <? nvars b) (pv_cells pv))).
Proof. exact restriction_sem. Qed.
Print Assumptions C06_restrict_faithful_sem.

Theorem C06_restrict_faithful_sem_all_cells : forall b pv, wf b ->
  exists r, restriction b pv = Some r /\ wf r /\ nvars r = nvars b /\
    forall v, eval r v = eval b (override v (pv_cells pv)).
Proof. exact restriction_sem_all. Qed.
Print Assumptions C06_restrict_faithful_sem_all_cells.

(* pointwise form, with canonicity of the result for a merely well-formed operand *)
Theorem C06_restrict_faithful_full : forall b pv, wf b ->
  exists r, restriction b pv = Some r /\ Canonical r /\ nvars r = nvars b /\
    forall v, eval r v = eval b (fun y => match pv_get pv y with Some c => c | None => v y end).
Proof. exact restriction_full. Qed.
Print Assumptions C06_restrict_faithful_full.

(* API level (Bdd::restrict): a repeated variable takes its last listed value *)
Theorem C06_restrict_faithful_last_value : forall b lits, wf b ->
  exists r, restrict_faithful b lits = Some r /\ Canonical r /\ nvars r = nvars b /\
    forall v, eval r v = eval b (fun y => match last_value lits y with Some c => c | None => v y end).
Proof. exact restrict_faithful_last_value. Qed.
Print Assumptions C06_restrict_faithful_last_value.

(* Bdd::var_restrict: both models return the same array, it is canonical and denotes b[x := c] *)
Theorem C06_restrict_faithful_var : forall b x c, wf b ->
  exists r, var_restrict_faithful b x c = Some r /\ var_restrict b x c = Ok r /\ Canonical r /\ nvars r = nvars b /\
    forall v, eval r v = eval b (upd v x c).
Proof. exact var_restrict_faithful_correct. Qed.
Print Assumptions C06_restrict_faithful_var.

(* the faithful algorithm returns exactly the array of the compositional model *)
Theorem C06_restrict_faithful_eq_model : forall b lits, Canonical b ->
  restriction b (pv_from_values lits) = match restrict b lits with Ok r => Some r | _ => None end.
Proof. exact restriction_eq_model. Qed.
Print Assumptions C06_restrict_faithful_eq_model.

(* ... even when the operand is merely well-formed (this is what the driver's cross-check relies on) *)
Theorem C06_restrict_faithful_eq_model_wf : forall b lits, wf b ->
  restriction b (pv_from_values lits) = match restrict b lits with Ok r => Some r | _ => None end.
Proof. exact restriction_eq_model_wf. Qed.
Print Assumptions C06_restrict_faithful_eq_model_wf.

(* non-vacuity: a canonical operand, a restriction to the constant false, a valid non-canonical operand *)
Example C06_restrict_faithful_nonvacuous :
  let f := [mkNode 3 0 0; mkNode 3 1 1; mkNode 1 0 1; mkNode 0 2 1] in
  let n := [mkNode 3 0 0; mkNode 3 1 1; mkNode 1 0 1; mkNode 1 0 1; mkNode 0 2 3] in
  canonicalb f = true /\
  restrict_faithful f [(0, true); (0, false); (5, true)] = Some [mkNode 3 0 0; mkNode 3 1 1; mkNode 1 0 1] /\
  restrict f [(0, true); (0, false); (5, true)] = Ok [mkNode 3 0 0; mkNode 3 1 1; mkNode 1 0 1] /\
  restrict_faithful f [(0, false); (1, false)] = Some [mkNode 3 0 0] /\
  wfb n = true /\ canonicalb n = false /\
  restrict_faithful n [(2, true)] = Some [mkNode 3 0 0; mkNode 3 1 1; mkNode 1 0 1].
Proof. vm_compute. repeat split; reflexivity. Qed.
Print Assumptions C06_restrict_faithful_nonvacuous.

(* pick_random over a subset of the variables, for EVERY script of RNG outcomes (any list of bits; a script that is
   too short reads `true` once exhausted — `next_bit []`): the same relational statement as C06_pick.  The bits
   are consumed in ascending variable order (the recursion on the prefix of the sorted list runs before
   `var_pick_random(last_var, rng)`). *)
Theorem C06_pick_random : forall b vars script, wf b -> NoDup vars -> Forall (fun x => x < nvars b) vars ->
  exists r, pick_random b vars script = Ok r /\ wf r /\ (vars <> [] \/ Canonical b -> Canonical r) /\ nvars r = nvars b /\
    (forall v, eval r v = true -> eval b v = true) /\
    (forall v, eval b v = true -> exists w, agree_outside vars w v /\ eval r w = true) /\
    (forall v w1 w2, agree_outside vars w1 v -> agree_outside vars w2 v -> eval r w1 = true -> eval r w2 = true ->
       forall y, In y vars -> w1 y = w2 y).
Proof. exact pick_random_correct. Qed.
Print Assumptions C06_pick_random.

(* b = x0 \/ x1 over 3 variables, picking over {x1, x0}: [false;false] is pick; [true;true] and the exhausted script
   keep x0=1,x1=1; [true;false] keeps x0=1,x1=0 (x0 draws first); a short script is completed with `true` *)
Example C06_pick_random_example :
  let b := [mkNode 3 0 0; mkNode 3 1 1; mkNode 1 0 1; mkNode 0 2 1] in
  wfb b = true /\
  pick_random b [1; 0] [false; false] = pick b [1; 0] /\
  pick_random b [1; 0] [false; false] = Ok [mkNode 3 0 0; mkNode 3 1 1; mkNode 1 0 1; mkNode 0 2 0] /\
  pick_random b [1; 0] [true; true] = Ok [mkNode 3 0 0; mkNode 3 1 1; mkNode 1 0 1; mkNode 0 0 2] /\
  pick_random b [1; 0] [] = pick_random b [1; 0] [true; true] /\
  pick_random b [1; 0] [false] = pick_random b [1; 0] [false; true] /\
  pick_random b [1; 0] [true; false] = Ok [mkNode 3 0 0; mkNode 3 1 1; mkNode 1 1 0; mkNode 0 0 2].
Proof. exact pick_random_example. Qed.
Print Assumptions C06_pick_random_example.
