(* C13 — deserialisers and validate() are safe on arbitrary input.
   Model: Model/Serial.v (step-faithful: every index / parse / narrowing of the Rust is an explicit Panic / RErr outcome).
   "Model counting agrees with evaluation" for accepted diagrams is C13_accepted_counts (C09's exact_cardinality_spec needs
   only `wf b`); the correspondence check additionally compares exact_cardinality with the enumeration on every accepted value. *)
From Coq Require Import List NArith Bool. Import ListNotations.
From BddVerif Require Import Model.Bdd Model.Apply Model.Serial Proofs.Sem Proofs.Canon Proofs.ApplyTop
  Proofs.SerialIO Proofs.SerialBytes Proofs.SerialText Proofs.SerialNodes Model.Count Proofs.CountSem.
Open Scope N_scope.

(* ---- never a panic (and the loops never run out of the fuel the model gives them), for ALL inputs and ALL schedules *)
Theorem C13_read_bytes_total : forall data sched,
  read_bytes_sched data sched <> Panic /\ read_bytes_sched data sched <> OutOfFuel.
Proof. exact read_bytes_total. Qed.
Print Assumptions C13_read_bytes_total.

Theorem C13_read_text_total : forall data sched,
  read_text_sched data sched <> Panic /\ read_text_sched data sched <> OutOfFuel.
Proof. exact read_text_total. Qed.
Print Assumptions C13_read_text_total.

Theorem C13_from_nodes_total : forall d, from_nodes d <> Panic /\ from_nodes d <> OutOfFuel.
Proof. exact from_nodes_total. Qed.
Print Assumptions C13_from_nodes_total.

Theorem C13_validate_total : forall b, validate b <> Panic /\ validate b <> OutOfFuel.
Proof. exact validate_total. Qed.
Print Assumptions C13_validate_total.

(* ---- accepted => well-formed ordered diagram over its declared variable count *)
Theorem C13_from_nodes_sound : forall d b, from_nodes d = Ok (ROk b) -> b = d /\ wf b.
Proof. exact from_nodes_sound. Qed.
Print Assumptions C13_from_nodes_sound.

(* from_nodes decides well-formedness exactly *)
Theorem C13_from_nodes_exact : forall d,
  (from_nodes d = Ok (ROk d) /\ wf d) \/ (from_nodes d = Ok RErr /\ ~ wf d).
Proof. exact from_nodes_char. Qed.
Print Assumptions C13_from_nodes_exact.

Theorem C13_validate_sound : forall b, validate b = Ok (ROk tt) ->
  wf b /\ forall p, 2 <= p -> p < size b -> reachable b p.
Proof. exact validate_sound. Qed.
Print Assumptions C13_validate_sound.

(* ---- consequences: Bdd::eval_in terminates (within nvars+1 steps, for every larger step budget too) without an index
   panic and returns the denotation; operators accept the diagram *)
Theorem C13_accepted_evaluates : forall b v, wf b ->
  eval_in b v = Ok (eval b v) /\
  forall fuel, (N.to_nat (nvars b) < fuel)%nat -> eval_walk fuel b (size b - 1) v = Ok (eval b v).
Proof. intros b v W. exact (wf_evaluates b v W). Qed.
Print Assumptions C13_accepted_evaluates.

Theorem C13_accepted_operators : forall a b op, wf a -> wf b -> nvars a = nvars b -> total2 op -> consistent2 op ->
  exists r, fused_binary_flip_op a b None None None op = Ok r /\ Canonical r /\ nvars r = nvars a /\
    forall v, eval r v = bop_of op (eval a v) (eval b v).
Proof. exact wf_operators. Qed.
Print Assumptions C13_accepted_operators.

(* model counting agrees with evaluation on every accepted diagram (C09's theorem needs only wf) *)
Theorem C13_accepted_counts : forall d b, from_nodes d = Ok (ROk b) ->
  exact_cardinality b = count (nvars b) (eval b).
Proof. intros d b H. apply exact_cardinality_spec. exact (proj2 (from_nodes_sound d b H)). Qed.
Print Assumptions C13_accepted_counts.

(* ---- numbers in accepted text are taken at face value: every accepted record has at least three fields, each of the
   first three is an optional '+' followed by ASCII digits whose UNBOUNDED decimal value is the stored number *)
Theorem C13_text_face_value : forall data sched b, read_text_sched data sched = Ok (ROk b) ->
  exists bytes cps, read_to_end [] data sched = ROk bytes /\ utf8_decode bytes = Some cps /\
                    Forall2 field_rel (text_fields cps) b.
Proof. exact text_face_value. Qed.
Print Assumptions C13_text_face_value.

Theorem C13_normal_text_roundtrip : forall b, in_range b -> read_text (write_text b) = Ok (ROk b).
Proof. exact normal_text_roundtrip. Qed.
Print Assumptions C13_normal_text_roundtrip.

Theorem C13_normal_text_reserialize : forall b0 b, in_range b0 -> read_text (write_text b0) = Ok (ROk b) ->
  write_text b = write_text b0.
Proof. exact normal_text_reserialize. Qed.
Print Assumptions C13_normal_text_reserialize.

(* the same with "normally formatted" defined syntactically: |n,n,n|n,n,n|...| where every n is a canonical decimal
   numeral (ASCII digits, no sign, no leading zero, no whitespace): if the reader accepts it, the writer reproduces it *)
Theorem C13_normal_text_reserialize_syntactic : forall recs b, Forall canon_rec recs ->
  read_text (render recs) = Ok (ROk b) -> write_text b = render recs.
Proof. exact normal_text_reserialize_syntactic. Qed.
Print Assumptions C13_normal_text_reserialize_syntactic.

(* ---- the hypotheses are satisfiable / the checks bite: the pre-fix witnesses of D3 and D4 *)
Example C13_ex_short_record : read_text [124; 51; 124] = Ok RErr.                       (* "|3|" *)
Proof. vm_compute. reflexivity. Qed.
Print Assumptions C13_ex_short_record.
Example C13_ex_self_loop :
  from_nodes [mkNode 3 0 0; mkNode 3 1 1; mkNode 0 2 2] = Ok RErr /\
  validate [mkNode 3 0 0; mkNode 100 1 1; mkNode 0 0 1] = Ok RErr /\
  validate [mkNode 2 0 0; mkNode 2 1 1; mkNode 1 0 1; mkNode 0 2 1] = Ok (ROk tt).
Proof. vm_compute. repeat split. Qed.
Print Assumptions C13_ex_self_loop.
