(* C14 — the expression parser is total and implements the documented grammar.
   Strings are lists of Unicode code points; `parse_string` = tokenize_group + parse_formula of
   boolean_expression/_impl_parser.rs, step by step, with every slice as a possible Panic. *)
From Coq Require Import List NArith Bool. Import ListNotations.
From BddVerif Require Import Model.Bdd Model.Apply Model.Ops Model.Expr Proofs.ExprParse Proofs.ExprShow Proofs.ExprLegacy Proofs.ExprGrammar Proofs.ExprTable Generated.ExprTables Proofs.ExprSource.

(* THE totality clause: for every input string (every list of code points), try_from returns Ok or Err:
   no slice is out of range, no `unreachable!` is reached, and the recursion bound is never hit *)
Theorem C14_parse_total : forall s, parse_string s <> PPanic.
Proof. exact (fun s => proj1 (parse_string_total s)). Qed.
Print Assumptions C14_parse_total.

Theorem C14_parse_terminates : forall s, parse_string s <> PFuel.
Proof. exact (fun s => proj2 (parse_string_total s)). Qed.
Print Assumptions C14_parse_terminates.

(* the same for the token-tree level, any token tree whatsoever (any nesting depth) *)
Theorem C14_parse_tokens_total : forall ts, parse_tokens ts <> PPanic /\ parse_tokens ts <> PFuel.
Proof. exact parse_tokens_total. Qed.
Print Assumptions C14_parse_tokens_total.

(* before the D6 fix the theorem was false: the old fragment panics on "a ? b : ?" and "a ? ? : b" *)
Theorem C14_prefix_parser_refuted :
  legacy_parse_string [97; 32; 63; 32; 98; 32; 58; 32; 63]%N = PPanic /\
  legacy_parse_string [97; 32; 63; 32; 63; 32; 58; 32; 98]%N = PPanic.
Proof. exact legacy_parse_total_refuted. Qed.
Print Assumptions C14_prefix_parser_refuted.

(* printing any expression whose variable names are parser-safe (non-empty, no whitespace, none of
   ! & | ^ = < > ( ) ? :, not `true`/`false`) and parsing the text returns the identical tree *)
Theorem C14_show_parse : forall e, safe_names e = true -> parse_string (show e) = POk e.
Proof. exact show_parse. Qed.
Print Assumptions C14_show_parse.

(* EXACTLY the documented grammar, with its precedence, right associativity and non-nesting conditional:
   `G lv ts e` (Proofs/ExprGrammar.v) is the inductive grammar over token trees
     iff ::= imp | imp <=> iff    imp ::= cnd | cnd => imp    cnd ::= or | or ? or : or
     or ::= and | and '|' or      and ::= xor | xor & and     xor ::= t | t ^ xor
     t ::= ! t | id | true | false | ( iff )
   with the expression tree built by each production; a token tree is accepted with result e iff it is derivable *)
Theorem C14_parse_grammar : forall ts e, parse_tokens ts = POk e <-> G LIff ts e.
Proof. exact parse_grammar. Qed.
Print Assumptions C14_parse_grammar.

Theorem C14_parse_string_grammar : forall s e,
  parse_string s = POk e <-> exists ts rest, tokenize s = TOk ts rest /\ G LIff ts e.
Proof. exact parse_string_grammar. Qed.
Print Assumptions C14_parse_string_grammar.

(* documented precedence ( ! tightest, then ^, &, |, ?:, =>, <=> ), right associativity, the non-nesting conditional *)
Example C14_precedence_examples :
  let a := EVar [97%N] in let b := EVar [98%N] in let c := EVar [99%N] in
  let d := EVar [100%N] in let e := EVar [101%N] in let f := EVar [102%N] in
  (* !a ^ !b & !c | !d => !e <=> !f *)
  parse_string [33; 97; 32; 94; 32; 33; 98; 32; 38; 32; 33; 99; 32; 124; 32; 33; 100; 32; 61; 62; 32; 33; 101; 32; 60; 61; 62; 32; 33; 102]%N
    = POk (EIff (EImp (EOr (EAnd (EXor (ENot a) (ENot b)) (ENot c)) (ENot d)) (ENot e)) (ENot f)) /\
  (* a & b & c *)
  parse_string [97; 32; 38; 32; 98; 32; 38; 32; 99]%N = POk (EAnd a (EAnd b c)) /\
  (* a => b => c *)
  parse_string [97; 32; 61; 62; 32; 98; 32; 61; 62; 32; 99]%N = POk (EImp a (EImp b c)) /\
  (* a ^ b ^ c | d *)
  parse_string [97; 32; 94; 32; 98; 32; 94; 32; 99; 32; 124; 32; 100]%N = POk (EOr (EXor a (EXor b c)) d) /\
  (* a ? b | c : d & e *)
  parse_string [97; 32; 63; 32; 98; 32; 124; 32; 99; 32; 58; 32; 100; 32; 38; 32; 101]%N = POk (ECond a (EOr b c) (EAnd d e)) /\
  (* a <=> b ? c : d => e *)
  parse_string [97; 32; 60; 61; 62; 32; 98; 32; 63; 32; 99; 32; 58; 32; 100; 32; 61; 62; 32; 101]%N = POk (EIff a (EImp (ECond b c d) e)) /\
  (* a ? b : c ? d : e   -- a conditional inside a conditional branch needs parentheses *)
  parse_string [97; 32; 63; 32; 98; 32; 58; 32; 99; 32; 63; 32; 100; 32; 58; 32; 101]%N = PErr /\
  (* a ? b : (c ? d : e) *)
  parse_string [97; 32; 63; 32; 98; 32; 58; 32; 40; 99; 32; 63; 32; 100; 32; 58; 32; 101; 41]%N = POk (ECond a b (ECond c d e)) /\
  (* (a ? b : c) ? d : e *)
  parse_string [40; 97; 32; 63; 32; 98; 32; 58; 32; 99; 41; 32; 63; 32; 100; 32; 58; 32; 101]%N = POk (ECond (ECond a b c) d e) /\
  (* a ? b : ?      -- the D6 witness *)
  parse_string [97; 32; 63; 32; 98; 32; 58; 32; 63]%N = PErr /\
  (* "a U+00A0 & U+3000 č": non-ASCII whitespace and letters *)
  parse_string [97; 32; 160; 38; 12288; 32; 269]%N = POk (EAnd a (EVar [269%N])) /\
  (* a < b ,  (a *)
  parse_string [97; 32; 60; 32; 98]%N = PErr /\ parse_string [40; 97]%N = PErr.
Proof. vm_compute. repeat split; reflexivity. Qed.
Print Assumptions C14_precedence_examples.

(* the hypothesis of show_parse is satisfiable on a tree using every connective, and it matters *)
Example C14_show_parse_nonvacuous :
  let x := EVar [120; 95; 49]%N in let y := EVar [269; 43; 123]%N in
  let e := ECond (EIff x (ENot y)) (EImp (EConst true) (EXor x y)) (EOr (EAnd y x) (EConst false)) in
  safe_names e = true /\ parse_string (show e) = POk e /\
  safe_names (EVar [116; 114; 117; 101]%N) = false /\ parse_string (show (EVar [116; 114; 117; 101]%N)) = POk (EConst true) /\
  safe_names (EVar [97; 32; 98]%N) = false /\ parse_string (show (EVar [97; 32; 98]%N)) = PErr.
Proof. vm_compute. repeat split; reflexivity. Qed.
Print Assumptions C14_show_parse_nonvacuous.

(* ---- translator obligations: the single- and multi-character tokens, NOT_IN_VAR_NAME, the precedence chain (for every
   level: operator token, constructor, functions called for the left operand / right operand / when the operator is absent),
   the conditional level, the entry point, the terminal level (negation prefix, keywords) and the Display format strings are
   re-read from the Rust source by tools/gen_expr.py on every run of this check (Generated/ExprTables.v) and equal the
   model's tables; each model table characterises the hand-written model function (Proofs/ExprTable.v), hence the theorems
   above are statements about the parser the source describes *)
Theorem C14_source_tables :
  src_single = model_single /\ src_multi = model_multi /\ src_reserved = model_reserved /\ src_levels = model_levels /\
  src_cond = model_cond /\ src_entry = model_entry /\ src_terminal = model_terminal /\
  src_show_binary = model_show_binary /\ src_show_not = model_show_not /\ src_show_cond = model_show_cond /\
  src_show_leaf = model_show_leaf.
Proof. exact source_tables. Qed.
Print Assumptions C14_source_tables.
Theorem C14_source_precedence : forall row, In row src_levels -> forall f ts,
  parse_at (S f) (r_level row) ts =
  match index_of (tok_is (r_tok row)) ts with
  | Some i =>
    with_slice ts O i (fun l => pbind (parse_at f (r_left row) l) (fun a =>
    with_slice ts (S i) (length ts) (fun r => pbind (parse_at f (r_right row) r) (fun b => POk (mk_of (r_ctor row) a b)))))
  | None => parse_at f (r_else row) ts
  end.
Proof. exact source_precedence. Qed.
Print Assumptions C14_source_precedence.
Theorem C14_source_tokens :
  (forall c t, In (c, t) src_single -> forall f r top, tokenize_group (S f) (c :: r) top = tcons t (tokenize_group f r top)) /\
  (forall s t, In (s, t) src_multi -> forall f r top, tokenize_group (S f) (s ++ r) top = tcons t (tokenize_group f r top)) /\
  (forall c, reserved c = existsb (N.eqb c) src_reserved).
Proof. exact (conj source_single_tokens (conj source_multi_tokens source_reserved)). Qed.
Print Assumptions C14_source_tokens.
Theorem C14_source_show_binary : forall c p i s, In (c, [p; i; s]) src_show_binary ->
  forall a b, show (mk_of c a b) = p ++ show a ++ i ++ show b ++ s.
Proof. exact source_show_binary. Qed.
Print Assumptions C14_source_show_binary.

(* ======================================================================================== *)
(* a DECLARATIVE lexical specification, and the tokenizer meets it exactly (Proofs/Gaps3Lex.v).
   `Lex s ts` (inductive, no fuel, no cursor, no top_level flag): the string s has the token list ts.  Its rules, as one
   fixed-point equation (C14_lex_rules): the empty string; a skipped whitespace character; a single-character token of
   the source table model_single; `=>` / `<=>` (model_multi); an identifier = a non-empty MAXIMAL run of non-delimiter
   characters (`nodelim x`, and `boundary s'`: what follows is the end or starts with whitespace or one of
   ! & | ^ = < > ( ) ? :); a group `(` i `)` whose inside i lexes on its own (balanced, nesting).  No rule produces
   anything for a stray `=`, `<`, `>` or an unmatched parenthesis. *)
From BddVerif Require Import Proofs.Gaps3Lex.

Theorem C14_lex_rules : forall s ts, Lex s ts <->
  (s = [] /\ ts = []) \/
  (exists c s', s = c :: s' /\ is_ws c = true /\ Lex s' ts) \/
  (exists c t s' ts', s = c :: s' /\ ts = t :: ts' /\ In (c, t) model_single /\ Lex s' ts') \/
  (exists w t s' ts', s = w ++ s' /\ ts = t :: ts' /\ In (w, t) model_multi /\ Lex s' ts') \/
  (exists x s' ts', s = x ++ s' /\ ts = TId x :: ts' /\ x <> [] /\ nodelim x = true /\ boundary s' /\ Lex s' ts') \/
  (exists i inner s' ts', s = 40%N :: i ++ 41%N :: s' /\ ts = TGroup inner :: ts' /\ Lex i inner /\ Lex s' ts').
Proof. exact Lex_unfold. Qed.
Print Assumptions C14_lex_rules.

Theorem C14_lex_vocabulary :
  (forall x, nodelim x = true <-> forall c, In c x -> is_ws c = false /\ reserved c = false) /\
  (forall s, boundary s <-> match s with [] => True | c :: _ => is_ws c || reserved c = true end) /\
  model_single = [(33, TNot); (38, TAnd); (58, TColon); (63, TQuestion); (94, TXor); (124, TOr)]%N /\
  model_multi = [([61; 62], TImp); ([60; 61; 62], TIff)]%N.
Proof.
  split; [exact nodelim_iff|]. split; [|split; reflexivity]. intros s. destruct s; reflexivity.
Qed.
Print Assumptions C14_lex_vocabulary.

(* soundness + completeness: the tokenizer succeeds with ts exactly on the strings that lex to ts *)
Theorem C14_tokenize_lex : forall s ts, tokenize s = TOk ts [] <-> Lex s ts.
Proof. exact tokenize_lex. Qed.
Print Assumptions C14_tokenize_lex.

(* a successful top-level run always consumes the whole string *)
Theorem C14_tokenize_lex_sound : forall s ts rest, tokenize s = TOk ts rest -> rest = [] /\ Lex s ts.
Proof. exact tokenize_lex_sound. Qed.
Print Assumptions C14_tokenize_lex_sound.

(* errors: the tokenizer answers Err exactly on the strings that have no token list (it never runs out of fuel:
   C14_parse_terminates); the relation is functional *)
Theorem C14_tokenize_err_iff : forall s, tokenize s = TErr <-> forall ts, ~ Lex s ts.
Proof. exact tokenize_err_iff. Qed.
Print Assumptions C14_tokenize_err_iff.

Theorem C14_lex_functional : forall s ts ts', Lex s ts -> Lex s ts' -> ts = ts'.
Proof. exact lex_functional. Qed.
Print Assumptions C14_lex_functional.

(* the recursive call for a group returns the tokens of the text up to the matching `)` and the text after it *)
Theorem C14_tokenize_group_lex : forall f s ts rest, tokenize_group f s false = TOk ts rest ->
  exists inner, s = inner ++ 41%N :: rest /\ Lex inner ts.
Proof. exact tokenize_group_lex. Qed.
Print Assumptions C14_tokenize_group_lex.

(* the whole front end without any operational notion: lexical specification + grammar *)
Theorem C14_parse_string_lex_grammar : forall s e, parse_string s = POk e <-> exists ts, Lex s ts /\ G LIff ts e.
Proof. exact parse_string_lex_grammar. Qed.
Print Assumptions C14_parse_string_lex_grammar.

(* "a1 &(!b<=> c )=>d"; stray `=`, `<`, `<=`, `>`; unbalanced parentheses; `ab` is one identifier, never two *)
Example C14_lex_examples :
  Lex [97; 49; 32; 38; 40; 33; 98; 60; 61; 62; 32; 99; 32; 41; 61; 62; 100]%N
      [TId [97; 49]%N; TAnd; TGroup [TNot; TId [98%N]; TIff; TId [99%N]]; TImp; TId [100%N]] /\
  (forall ts, ~ Lex [97; 32; 61; 32; 98]%N ts) /\
  (forall ts, ~ Lex [97; 32; 60; 32; 98]%N ts) /\
  (forall ts, ~ Lex [97; 32; 60; 61; 32; 98]%N ts) /\
  (forall ts, ~ Lex [62]%N ts) /\
  (forall ts, ~ Lex [40; 97]%N ts) /\
  (forall ts, ~ Lex [97; 41]%N ts) /\
  (forall ts, ~ Lex [40; 40; 97; 41]%N ts) /\
  Lex [97; 98]%N [TId [97; 98]%N] /\ ~ Lex [97; 98]%N [TId [97%N]; TId [98%N]] /\
  Lex [40; 41]%N [TGroup []] /\ Lex [32; 9]%N [].
Proof. exact lex_examples. Qed.
Print Assumptions C14_lex_examples.
