(* C14 — the expression parser is total and implements the documented grammar.
   Strings are lists of Unicode code points; `parse_string` = tokenize_group + parse_formula of
   boolean_expression/_impl_parser.rs, step by step, with every slice as a possible Panic. *)
From Coq Require Import List NArith Bool. Import ListNotations.
From BddVerif Require Import Model.Bdd Model.Apply Model.Ops Model.Expr Proofs.ExprParse Proofs.ExprShow Proofs.ExprLegacy Proofs.ExprGrammar Proofs.ExprTable Generated.ExprTables Proofs.ExprSource.

(* THE totality clause: for every input string (every list of code points), try_from returns Ok or Err:
   no slice is out of range, no `unreachable!` is reached, and the recursion bound is never hit *)
Theorem C14_parse_total : forall s, parse_string s <> PPanic.
Proof. exact (fun s => proj1 (parse_string_total s)). Qed.
Print Assumptions C14_parse_total.

Theorem C14_parse_terminates : forall s, parse_string s <> PFuel.
Proof. exact (fun s => proj2 (parse_string_total s)). Qed.
Print Assumptions C14_parse_terminates.

(* the same for the token-tree level, any token tree whatsoever (any nesting depth) *)
Theorem C14_parse_tokens_total : forall ts, parse_tokens ts <> PPanic /\ parse_tokens ts <> PFuel.
Proof. exact parse_tokens_total. Qed.
Print Assumptions C14_parse_tokens_total.

(* before the D6 fix the theorem was false: the old fragment panics on "a ? b : ?" and "a ? ? : b" *)
Theorem C14_prefix_parser_refuted :
  legacy_parse_string [97; 32; 63; 32; 98; 32; 58; 32; 63]%N = PPanic /\
  legacy_parse_string [97; 32; 63; 32; 63; 32; 58; 32; 98]%N = PPanic.
Proof. exact legacy_parse_total_refuted. Qed.
Print Assumptions C14_prefix_parser_refuted.

(* printing any expression whose variable names are parser-safe (non-empty, no whitespace, none of
   ! & | ^ = < > ( ) ? :, not `true`/`false`) and parsing the text returns the identical tree *)
Theorem C14_show_parse : forall e, safe_names e = true -> parse_string (show e) = POk e.
Proof. exact show_parse. Qed.
Print Assumptions C14_show_parse.

(* EXACTLY the documented grammar, with its precedence, right associativity and non-nesting conditional:
   `G lv ts e` (Proofs/ExprGrammar.v) is the inductive grammar over token trees
     iff ::= imp | imp <=> iff    imp ::= cnd | cnd => imp    cnd ::= or | or ? or : or
     or ::= and | and '|' or      and ::= xor | xor & and     xor ::= t | t ^ xor
     t ::= ! t | id | true | false | ( iff )
   with the expression tree built by each production; a token tree is accepted with result e iff it is derivable *)
Theorem C14_parse_grammar : forall ts e, parse_tokens ts = POk e <-> G LIff ts e.
Proof. exact parse_grammar. Qed.
Print Assumptions C14_parse_grammar.

Theorem C14_parse_string_grammar : forall s e,
  parse_string s = POk e <-> exists ts rest, tokenize s = TOk ts rest /\ G LIff ts e.
Proof. exact parse_string_grammar. Qed.
Print Assumptions C14_parse_string_grammar.

(* documented precedence ( ! tightest, then ^, &, |, ?:, =>, <=> ), right associativity, the non-nesting conditional *)
Example C14_precedence_examples :
  let a := EVar [97%N] in let b := EVar [98%N] in let c := EVar [99%N] in
  let d := EVar [100%N] in let e := EVar [101%N] in let f := EVar [102%N] in
  (* !a ^ !b & !c | !d => !e <=> !f *)
  parse_string [33; 97; 32; 94; 32; 33; 98; 32; 38; 32; 33; 99; 32; 124; 32; 33; 100; 32; 61; 62; 32; 33; 101; 32; 60; 61; 62; 32; 33; 102]%N
    = POk (EIff (EImp (EOr (EAnd (EXor (ENot a) (ENot b)) (ENot c)) (ENot d)) (ENot e)) (ENot f)) /\
  (* a & b & c *)
  parse_string [97; 32; 38; 32; 98; 32; 38; 32; 99]%N = POk (EAnd a (EAnd b c)) /\
  (* a => b => c *)
  parse_string [97; 32; 61; 62; 32; 98; 32; 61; 62; 32; 99]%N = POk (EImp a (EImp b c)) /\
  (* a ^ b ^ c | d *)
  parse_string [97; 32; 94; 32; 98; 32; 94; 32; 99; 32; 124; 32; 100]%N = POk (EOr (EXor a (EXor b c)) d) /\
  (* a ? b | c : d & e *)
  parse_string [97; 32; 63; 32; 98; 32; 124; 32; 99; 32; 58; 32; 100; 32; 38; 32; 101]%N = POk (ECond a (EOr b c) (EAnd d e)) /\
  (* a <=> b ? c : d => e *)
  parse_string [97; 32; 60; 61; 62; 32; 98; 32; 63; 32; 99; 32; 58; 32; 100; 32; 61; 62; 32; 101]%N = POk (EIff a (EImp (ECond b c d) e)) /\
  (* a ? b : c ? d : e   -- a conditional inside a conditional branch needs parentheses *)
  parse_string [97; 32; 63; 32; 98; 32; 58; 32; 99; 32; 63; 32; 100; 32; 58; 32; 101]%N = PErr /\
  (* a ? b : (c ? d : e) *)
  parse_string [97; 32; 63; 32; 98; 32; 58; 32; 40; 99; 32; 63; 32; 100; 32; 58; 32; 101; 41]%N = POk (ECond a b (ECond c d e)) /\
  (* (a ? b : c) ? d : e *)
  parse_string [40; 97; 32; 63; 32; 98; 32; 58; 32; 99; 41; 32; 63; 32; 100; 32; 58; 32; 101]%N = POk (ECond (ECond a b c) d e) /\
  (* a ? b : ?      -- the D6 witness *)
  parse_string [97; 32; 63; 32; 98; 32; 58; 32; 63]%N = PErr /\
  (* "a U+00A0 & U+3000 č": non-ASCII whitespace and letters *)
  parse_string [97; 32; 160; 38; 12288; 32; 269]%N = POk (EAnd a (EVar [269%N])) /\
  (* a < b ,  (a *)
  parse_string [97; 32; 60; 32; 98]%N = PErr /\ parse_string [40; 97]%N = PErr.
Proof. vm_compute. repeat split; reflexivity. Qed.
Print Assumptions C14_precedence_examples.

(* the hypothesis of show_parse is satisfiable on a tree using every connective, and it matters *)
Example C14_show_parse_nonvacuous :
  let x := EVar [120; 95; 49]%N in let y := EVar [269; 43; 123]%N in
  let e := ECond (EIff x (ENot y)) (EImp (EConst true) (EXor x y)) (EOr (EAnd y x) (EConst false)) in
  safe_names e = true /\ parse_string (show e) = POk e /\
  safe_names (EVar [116; 114; 117; 101]%N) = false /\ parse_string (show (EVar [116; 114; 117; 101]%N)) = POk (EConst true) /\
  safe_names (EVar [97; 32; 98]%N) = false /\ parse_string (show (EVar [97; 32; 98]%N)) = PErr.
Proof. vm_compute. repeat split; reflexivity. Qed.
Print Assumptions C14_show_parse_nonvacuous.

(* ---- translator obligations: the single- and multi-character tokens, NOT_IN_VAR_NAME, the precedence chain (for every
   level: operator token, constructor, functions called for the left operand / right operand / when the operator is absent),
   the conditional level, the entry point, the terminal level (negation prefix, keywords) and the Display format strings are
   re-read from the Rust source by tools/gen_expr.py on every run of this check (Generated/ExprTables.v) and equal the
   model's tables; each model table characterises the hand-written model function (Proofs/ExprTable.v), hence the theorems
   above are statements about the parser the source describes *)
Theorem C14_source_tables :
  src_single = model_single /\ src_multi = model_multi /\ src_reserved = model_reserved /\ src_levels = model_levels /\
  src_cond = model_cond /\ src_entry = model_entry /\ src_terminal = model_terminal /\
  src_show_binary = model_show_binary /\ src_show_not = model_show_not /\ src_show_cond = model_show_cond /\
  src_show_leaf = model_show_leaf.
Proof. exact source_tables. Qed.
Print Assumptions C14_source_tables.
Theorem C14_source_precedence : forall row, In row src_levels -> forall f ts,
  parse_at (S f) (r_level row) ts =
  match index_of (tok_is (r_tok row)) ts with
  | Some i =>
    with_slice ts O i (fun l => pbind (parse_at f (r_left row) l) (fun a =>
    with_slice ts (S i) (length ts) (fun r => pbind (parse_at f (r_right row) r) (fun b => POk (mk_of (r_ctor row) a b)))))
  | None => parse_at f (r_else row) ts
  end.
Proof. exact source_precedence. Qed.
Print Assumptions C14_source_precedence.
Theorem C14_source_tokens :
  (forall c t, In (c, t) src_single -> forall f r top, tokenize_group (S f) (c :: r) top = tcons t (tokenize_group f r top)) /\
  (forall s t, In (s, t) src_multi -> forall f r top, tokenize_group (S f) (s ++ r) top = tcons t (tokenize_group f r top)) /\
  (forall c, reserved c = existsb (N.eqb c) src_reserved).
Proof. exact (conj source_single_tokens (conj source_multi_tokens source_reserved)). Qed.
Print Assumptions C14_source_tokens.
Theorem C14_source_show_binary : forall c p i s, In (c, [p; i; s]) src_show_binary ->
  forall a b, show (mk_of c a b) = p ++ show a ++ i ++ show b ++ s.
Proof. exact source_show_binary. Qed.
Print Assumptions C14_source_show_binary.
