(* C08 — enumeration yields exactly the satisfying valuations and paths, once each.

   Model/Paths.v: `paths b` is the list of root-to-1 paths in low-first DFS order (literals from the root down);
   `sat_clauses b` = `to_dnf b` = the clauses (partial valuations) of those paths; `clause_valuations c nv` the
   valuations of a clause with position 0 changing fastest; `sat_valuations b` their concatenation in path order.
   The step-faithful models of the Rust iterators (`path_iter`: the explicit stack of BddPathIterator with its three
   panics; `clause_iter`: BddValuation::next as a carry loop with its assertion; `sat_valuations_iter`) are proved
   below to produce exactly these lists, and are what the correspondence check runs against the implementation. *)
From Coq Require Import List NArith Bool. Import ListNotations.
From BddVerif Require Import Model.Bdd Model.Apply Model.Ops Model.Paths Proofs.Sem Proofs.Canon Proofs.Reflect
  Proofs.PvalSem Proofs.NormalForms Proofs.Paths Proofs.PathsVals Proofs.PathsIter.
Open Scope N_scope.

(* extends v p: the total valuation v agrees with every literal (variable, value) of the path p *)
Theorem C08_extends_def : forall v p, extends v p = forallb (fun xc => Bool.eqb (v (fst xc)) (snd xc)) p.
Proof. reflexivity. Qed.
Print Assumptions C08_extends_def.

(* every enumerated path leads to 1: each valuation extending it satisfies the Bdd *)
Theorem C08_paths_sat : forall b, wf b -> forall p v, In p (paths b) -> extends v p = true -> eval b v = true.
Proof. exact paths_sat. Qed.
Print Assumptions C08_paths_sat.

(* every satisfying valuation extends some enumerated path *)
Theorem C08_paths_cover : forall b, wf b -> forall v, eval b v = true -> exists p, In p (paths b) /\ extends v p = true.
Proof. exact paths_cover. Qed.
Print Assumptions C08_paths_cover.

(* ... and exactly one: two enumerated paths extended by a common valuation are the same path, no path is listed twice,
   so two different positions of the list can never be extended by the same valuation *)
Theorem C08_paths_disjoint : forall b p1 p2 v, In p1 (paths b) -> In p2 (paths b) ->
  extends v p1 = true -> extends v p2 = true -> p1 = p2.
Proof. exact paths_disjoint. Qed.
Print Assumptions C08_paths_disjoint.

Theorem C08_paths_nodup : forall b, NoDup (paths b).
Proof. exact paths_nodup. Qed.
Print Assumptions C08_paths_nodup.

Theorem C08_paths_disjoint_positions : forall b i j p1 p2 v, i <> j ->
  nth_error (paths b) i = Some p1 -> nth_error (paths b) j = Some p2 -> extends v p1 = true -> extends v p2 = true -> False.
Proof. exact paths_disjoint_positions. Qed.
Print Assumptions C08_paths_disjoint_positions.

(* the same at the level of the clauses handed out: union = satisfying set, pairwise disjoint, each once;
   clause_sat v c: v agrees with every fixed cell of the partial valuation c *)
Theorem C08_sat_clauses_union : forall b, wf b -> forall v, eval b v = existsb (clause_sat v) (sat_clauses b).
Proof. exact sat_clauses_sem. Qed.
Print Assumptions C08_sat_clauses_union.

Theorem C08_sat_clauses_disjoint : forall b, wf b -> forall c1 c2 v, In c1 (sat_clauses b) -> In c2 (sat_clauses b) ->
  clause_sat v c1 = true -> clause_sat v c2 = true -> c1 = c2.
Proof. exact sat_clauses_disjoint. Qed.
Print Assumptions C08_sat_clauses_disjoint.

Theorem C08_sat_clauses_nodup : forall b, wf b -> NoDup (sat_clauses b).
Proof. exact sat_clauses_nodup. Qed.
Print Assumptions C08_sat_clauses_nodup.

(* sat_clauses and to_dnf yield the same clauses (both are modelled, I/O-equivalently, by the DFS list; the link of
   either Rust loop to that list is C08_path_iter_refines below resp. the correspondence check) *)
Theorem C08_to_dnf_eq_clauses : forall b, to_dnf b = sat_clauses b.
Proof. exact to_dnf_eq_clauses. Qed.
Print Assumptions C08_to_dnf_eq_clauses.

(* the valuations of a clause over nv variables: 2^k of them (k = free positions below nv), no repetition, and exactly
   the length-nv valuations that agree with the clause on its fixed positions below nv — for EVERY clause and nv *)
Theorem C08_clause_valuations_exact : forall clause nv,
  length (clause_valuations clause nv) = Nat.pow 2 (free_count (N.to_nat nv) clause) /\
  NoDup (clause_valuations clause nv) /\
  forall l, In l (clause_valuations clause nv) <->
            length l = N.to_nat nv /\ forall x c, x < nv -> pv_get clause x = Some c -> nth (N.to_nat x) l false = c.
Proof. exact clause_valuations_exact. Qed.
Print Assumptions C08_clause_valuations_exact.

(* for a clause inside nv (all fixed cells below nv), k = nv - number of fixed cells *)
Theorem C08_clause_valuations_count : forall clause nv, cells_in_range nv clause = true ->
  length (clause_valuations clause nv) = Nat.pow 2 (N.to_nat nv - length (pv_cells clause)).
Proof. exact clause_valuations_count. Qed.
Print Assumptions C08_clause_valuations_count.

(* the step-faithful counter (ValuationsOfClauseIterator::new + BddValuation::next) yields exactly that list, in order,
   whenever no positive literal lies at or above nv; it panics (index out of bounds) exactly otherwise *)
Theorem C08_clause_iter_refines : forall clause nv, (forall x, pv_get clause x = Some true -> x < nv) ->
  clause_iter clause nv = Ok (clause_valuations clause nv).
Proof. exact clause_iter_refines. Qed.
Print Assumptions C08_clause_iter_refines.

Theorem C08_clause_iter_panic_iff : forall clause nv,
  clause_iter clause nv = Panic <-> exists x, nv <= x /\ pv_get clause x = Some true.
Proof. exact clause_iter_panic_iff. Qed.
Print Assumptions C08_clause_iter_panic_iff.

(* sat_valuations yields every valuation on which the Bdd evaluates to true exactly once and nothing else
   (valuations as bit lists of length nvars; val_of_list reads position x of the list) *)
Theorem C08_sat_valuations_exact : forall b, wf b ->
  NoDup (sat_valuations b) /\
  forall l, In l (sat_valuations b) <-> length l = N.to_nat (nvars b) /\ eval b (val_of_list l) = true.
Proof. exact sat_valuations_exact. Qed.
Print Assumptions C08_sat_valuations_exact.

(* the stack machine of BddPathIterator / OwnedBddPathIterator (new, next, continue_path, make_clause) yields exactly
   sat_clauses b, in order, without panic, on every valid diagram without a redundant test (in particular every
   canonical one); the valuation iterators chain it with the clause counter *)
Theorem C08_path_iter_refines : forall b, wf b -> no_redundant b -> path_iter b = Ok (sat_clauses b).
Proof. exact path_iter_refines. Qed.
Print Assumptions C08_path_iter_refines.

Theorem C08_path_iter_canonical : forall b, Canonical b -> path_iter b = Ok (sat_clauses b).
Proof. exact path_iter_canonical. Qed.
Print Assumptions C08_path_iter_canonical.

Theorem C08_sat_valuations_iter_refines : forall b, wf b -> no_redundant b -> sat_valuations_iter b = Ok (sat_valuations b).
Proof. exact sat_valuations_iter_refines. Qed.
Print Assumptions C08_sat_valuations_iter_refines.

(* the owned iterators give back the unchanged Bdd after any number of steps *)
Theorem C08_owned_back : forall b k, owned_back b k = (b, b).
Proof. exact owned_back_unchanged. Qed.
Print Assumptions C08_owned_back.

(* the hypotheses are satisfiable on a non-trivial instance: (x0 /\ x2) \/ (~x0 /\ x1) over 4 variables (x3 skipped) *)
Definition ex08 : bdd := [mkNode 4 0 0; mkNode 4 1 1; mkNode 2 0 1; mkNode 1 0 1; mkNode 0 3 2].
Example C08_example : canonicalb ex08 = true /\
  paths ex08 = [[(0, false); (1, true)]; [(0, true); (2, true)]] /\
  path_iter ex08 = Ok [[Some false; Some true]; [Some true; None; Some true]] /\
  sat_valuations_iter ex08 = Ok (sat_valuations ex08) /\ length (sat_valuations ex08) = 8%nat /\
  clause_iter [None; Some true; None] 3 = Ok [[false; true; false]; [true; true; false]; [false; true; true]; [true; true; true]].
Proof. vm_compute. repeat split. Qed.
Print Assumptions C08_example.

(* ---- gaps closed (Proofs/Gaps2PathIter.v, Model/OwnedIter.v, Proofs/Gaps2Owned.v) ---- *)
From BddVerif Require Import Model.OwnedIter Proofs.Gaps2Canon Proofs.Gaps2PathIter Proofs.Gaps2Owned.

(* The iterators on EVERY valid diagram.  reachable_redundant b: some decision node q with nlow = nhigh is the end of a
   chain of edges from the last node (edge_chain: each element of the list is the low or the high link of its predecessor).
   The stack machine panics exactly then ("The given BDD is not canonical." on the way down when both links are 0,
   otherwise the sanity check "The BDD is not canonical." of the next() call that comes back to the node); in every other
   case — redundant tests that the root does not reach included — it yields exactly sat_clauses b.  It never loops and
   never yields a wrong list. *)
Theorem C08_reachable_redundant_def : forall b, reachable_redundant b <->
  exists ps q, edge_chain b (size b - 1) ps q /\ 2 <= q /\ q < size b /\ nlow (get b q) = nhigh (get b q).
Proof. intros b. reflexivity. Qed.
Print Assumptions C08_reachable_redundant_def.

Theorem C08_path_iter_panic_iff : forall b, wf b -> (path_iter b = Panic <-> reachable_redundant b).
Proof. exact path_iter_panic_iff. Qed.
Print Assumptions C08_path_iter_panic_iff.

Theorem C08_path_iter_ok_iff : forall b, wf b -> (path_iter b = Ok (sat_clauses b) <-> ~ reachable_redundant b).
Proof. exact path_iter_ok_iff. Qed.
Print Assumptions C08_path_iter_ok_iff.

Theorem C08_path_iter_dichotomy : forall b, wf b -> path_iter b = Panic \/ path_iter b = Ok (sat_clauses b).
Proof. exact path_iter_dichotomy. Qed.
Print Assumptions C08_path_iter_dichotomy.

(* decided by the executable test red_below from the root *)
Theorem C08_path_iter_total : forall b, wf b ->
  if red_below (path_fuel b) b (root b) then path_iter b = Panic else path_iter b = Ok (sat_clauses b).
Proof. exact path_iter_total. Qed.
Print Assumptions C08_path_iter_total.

Theorem C08_sat_valuations_iter_panic_iff : forall b, wf b -> (sat_valuations_iter b = Panic <-> reachable_redundant b).
Proof. exact sat_valuations_iter_panic_iff. Qed.
Print Assumptions C08_sat_valuations_iter_panic_iff.

Theorem C08_sat_valuations_iter_total : forall b, wf b ->
  if red_below (path_fuel b) b (root b) then sat_valuations_iter b = Panic else sat_valuations_iter b = Ok (sat_valuations b).
Proof. exact sat_valuations_iter_total. Qed.
Print Assumptions C08_sat_valuations_iter_total.

Example C08_redundant_examples :
  let reach := [mkNode 2 0 0; mkNode 2 1 1; mkNode 1 1 1; mkNode 0 0 2] in
  let unreach := [mkNode 2 0 0; mkNode 2 1 1; mkNode 1 1 1; mkNode 0 0 1] in
  let dead := [mkNode 2 0 0; mkNode 2 1 1; mkNode 1 0 0; mkNode 0 1 2] in
  wfb reach = true /\ path_iter reach = Panic /\ sat_valuations_iter reach = Panic /\
  wfb unreach = true /\ path_iter unreach = Ok [[Some true]] /\ reducedb unreach = false /\
  wfb dead = true /\ path_iter dead = Panic.
Proof. exact path_iter_redundant_examples. Qed.
Print Assumptions C08_redundant_examples.

(* The owned iterators as state machines (Model/OwnedIter.v): the state holds the Bdd next to the iterator state, one
   transition per call of next().  `into_bdd` (From<Owned...> for Bdd) after `new` and ANY k calls of next() — whatever
   they answered — is the Bdd that went in. *)
Theorem C08_owned_iter_gives_back :
  (forall b s0 k items s, owned_paths_new b = Ok s0 -> owned_paths_steps k s0 = Ok (items, s) -> owned_paths_into_bdd s = b) /\
  (forall b s0 k items s, owned_vals_new b = Ok s0 -> owned_vals_steps k s0 = Ok (items, s) -> owned_vals_into_bdd s = b).
Proof. split; [exact owned_paths_gives_back|exact owned_vals_gives_back]. Qed.
Print Assumptions C08_owned_iter_gives_back.

Theorem C08_owned_next_keeps_bdd :
  (forall s o s', owned_paths_next s = Ok (o, s') -> owned_paths_into_bdd s' = owned_paths_into_bdd s) /\
  (forall s o s', owned_vals_next s = Ok (o, s') -> owned_vals_into_bdd s' = owned_vals_into_bdd s).
Proof. split; [exact owned_next_keeps_bdd|exact owned_vals_next_keeps_bdd]. Qed.
Print Assumptions C08_owned_next_keeps_bdd.

(* ... and their items are those of the borrowed iterators: collecting the owned path iterator is running path_iter
   (every diagram, every outcome); call by call its answers are the items of path_iter, then None for ever; the owned
   valuation iterator yields sat_valuations b, then None, on every valid diagram whose root reaches no redundant test *)
Theorem C08_owned_iter_same_items :
  (forall b, owned_paths_collect b = match path_iter b with Ok l => Ok (l, (b, [])) | Panic => Panic | OutOfFuel => OutOfFuel end) /\
  (forall b cs k, path_iter b = Ok cs ->
     exists s0 s, owned_paths_new b = Ok s0 /\
       owned_paths_steps k s0 = Ok (firstn k (map Some cs ++ repeat None k), s) /\ owned_paths_into_bdd s = b) /\
  (forall b, wf b -> ~ reachable_redundant b ->
     sat_valuations_iter b = Ok (sat_valuations b) /\
     exists s0, owned_vals_new b = Ok s0 /\
       forall f, exists s, owned_vals_drain (length (sat_valuations b) + S f) s0 = Ok (sat_valuations b, s) /\ owned_vals_into_bdd s = b).
Proof. split; [exact owned_paths_same_items|]. split; [exact owned_paths_same_items_stepwise|exact owned_vals_same_items]. Qed.
Print Assumptions C08_owned_iter_same_items.

Theorem C08_owned_vals_canonical : forall b, Canonical b ->
  exists s0, owned_vals_new b = Ok s0 /\
    forall f, exists s, owned_vals_drain (length (sat_valuations b) + S f) s0 = Ok (sat_valuations b, s) /\ owned_vals_into_bdd s = b.
Proof. exact owned_vals_same_items_canonical. Qed.
Print Assumptions C08_owned_vals_canonical.

Example C08_owned_example :
  (exists s0 s, owned_paths_new ex08 = Ok s0 /\
     owned_paths_steps 3 s0 = Ok ([Some [Some false; Some true]; Some [Some true; None; Some true]; None], s) /\
     owned_paths_into_bdd s = ex08) /\
  (exists s0 items s, owned_vals_new ex08 = Ok s0 /\ owned_vals_steps 5 s0 = Ok (items, s) /\
     items = map Some (firstn 5 (sat_valuations ex08)) /\ owned_vals_into_bdd s = ex08) /\
  (exists s0 s, owned_vals_new ex08 = Ok s0 /\ owned_vals_drain 9 s0 = Ok (sat_valuations ex08, s) /\ owned_vals_into_bdd s = ex08).
Proof. exact owned_example. Qed.
Print Assumptions C08_owned_example.
