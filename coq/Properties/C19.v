(* C19 — operations are pure, deterministic and safe to run concurrently on shared Bdds (partial by nature:
   the theorem is about the interleaving model; its premise is validated against the code on every run). *)
From Coq Require Import List. Import ListNotations.
From BddVerif Require Import Model.Conc Proofs.Conc.

(* any number of threads, any complete interleaving: every thread obtains exactly the results of its sequential run *)
Theorem C19_interleaving_irrelevant : forall (value op : Type) (exec : list value -> list value -> op -> value) pool progs sched,
  let c := run_sched value op exec pool sched (init value op progs) in
  finished value op c -> map fst c = map (run_seq value op exec pool []) progs.
Proof. exact interleaving_irrelevant. Qed.
Print Assumptions C19_interleaving_irrelevant.

Theorem C19_schedules_agree : forall (value op : Type) (exec : list value -> list value -> op -> value) pool progs s1 s2,
  finished value op (run_sched value op exec pool s1 (init value op progs)) ->
  finished value op (run_sched value op exec pool s2 (init value op progs)) ->
  map fst (run_sched value op exec pool s1 (init value op progs)) = map fst (run_sched value op exec pool s2 (init value op progs)).
Proof. exact schedules_agree. Qed.
Print Assumptions C19_schedules_agree.

(* non-vacuity: two threads, an interleaved complete schedule *)
Example C19_nonvacuous :
  let exec := fun (pool locals : list nat) (o : nat) => o + length locals + hd 0 pool in
  let c := run_sched nat nat exec [7] [0; 1; 1; 0; 0] (init nat nat [[1; 2; 3]; [10; 20]]) in
  finished nat nat c /\ map fst c = [[8; 10; 12]; [17; 28]].
Proof. cbv. split; [intros t [H|[H|[]]]; subst; reflexivity|reflexivity]. Qed.
Print Assumptions C19_nonvacuous.
