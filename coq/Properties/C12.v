(* C12 — text, binary and node-list serialisation round-trip under any I/O chunking.
   Model: Model/Serial.v.  A schedule is `clean` when it contains no failure and no zero-length chunk: chunks of any
   positive size and interruptions in any order, of any length (shorter than the stream: the rest arrives at once).
   `in_range b`: 16-bit variables, 32-bit links (what the Rust types can hold). *)
From Coq Require Import List NArith Bool. Import ListNotations.
From BddVerif Require Import Model.Bdd Model.Apply Model.Serial Model.Alias Proofs.Alias Proofs.Sem
  Proofs.SerialIO Proofs.SerialBytes Proofs.SerialText Proofs.SerialNodes.
Open Scope N_scope.

(* ---- binary: exactly 10 bytes per node; reading back under EVERY clean schedule yields the diagram *)
Theorem C12_bytes_roundtrip : forall b sched, in_range b -> clean sched ->
  read_bytes_sched (write_bytes b) sched = Ok (ROk b) /\ length (write_bytes b) = (10 * length b)%nat.
Proof. exact bytes_roundtrip. Qed.
Print Assumptions C12_bytes_roundtrip.

(* the binary reader is a function of the byte stream alone (its complete 10-byte records) *)
Theorem C12_bytes_schedule_independent : forall data sched, clean sched ->
  read_bytes_sched data sched = Ok (ROk (records data)).
Proof. exact read_bytes_sched_indep. Qed.
Print Assumptions C12_bytes_schedule_independent.

(* ---- text *)
Theorem C12_text_roundtrip : forall b sched, in_range b -> clean sched ->
  read_text_sched (write_text b) sched = Ok (ROk b).
Proof. exact text_roundtrip. Qed.
Print Assumptions C12_text_roundtrip.

Theorem C12_text_schedule_independent : forall data sched, clean sched ->
  read_text_sched data sched = read_text data.
Proof. exact read_text_sched_indep. Qed.
Print Assumptions C12_text_schedule_independent.

(* any ASCII text whose non-whitespace characters are the writer's output reads back as the diagram
   (whitespace anywhere, in particular around the separators) *)
Theorem C12_text_whitespace : forall s b sched, Forall (fun c => c < 128) s ->
  filter (fun c => negb (is_ws c)) s = write_text b -> in_range b -> clean sched ->
  read_text_sched s sched = Ok (ROk b).
Proof. exact text_whitespace. Qed.
Print Assumptions C12_text_whitespace.

(* the same for all Unicode White_Space characters, stated on the scalar values the UTF-8 decoder delivers *)
Theorem C12_text_whitespace_unicode : forall cps b, filter (fun c => negb (is_ws c)) cps = write_text b -> in_range b ->
  read_text_cps cps = Ok (ROk b).
Proof. exact text_whitespace_cps. Qed.
Print Assumptions C12_text_whitespace_unicode.

(* ---- node lists *)
Theorem C12_nodes_roundtrip : forall b, wf b -> from_nodes (to_nodes b) = Ok (ROk b).
Proof. exact nodes_roundtrip. Qed.
Print Assumptions C12_nodes_roundtrip.

(* ---- writers: partial writes and interruptions lose nothing *)
Theorem C12_writer_partial_bytes : forall b sched, clean sched -> write_bytes_sched b sched = (true, write_bytes b).
Proof. exact write_bytes_sched_clean. Qed.
Print Assumptions C12_writer_partial_bytes.

Theorem C12_writer_partial_text : forall b sched, clean sched -> write_text_sched b sched = (true, write_text b).
Proof. exact write_text_sched_clean. Qed.
Print Assumptions C12_writer_partial_text.

(* under ANY schedule (failures, zero-length writes included) what the writer accepted is a prefix of the stream, all of it when Ok *)
Theorem C12_writer_prefix_bytes : forall b sched ok acc, write_bytes_sched b sched = (ok, acc) ->
  exists rest, write_bytes b = acc ++ rest /\ (ok = true -> rest = []).
Proof. exact write_bytes_sched_prefix. Qed.
Print Assumptions C12_writer_prefix_bytes.

Theorem C12_writer_prefix_text : forall b sched ok acc, write_text_sched b sched = (ok, acc) ->
  exists rest, write_text b = acc ++ rest /\ (ok = true -> rest = []).
Proof. exact write_text_sched_prefix. Qed.
Print Assumptions C12_writer_prefix_text.

(* ---- an I/O error is returned as Err: a failure (other than Interrupted; for the binary reader other than
   UnexpectedEof, which is end of input) placed after a clean prefix that does not offer more bytes than the stream
   holds is reached, and the result is Err — never Ok, never a panic *)
Theorem C12_io_error_read_bytes : forall data pre e post, clean pre -> chunk_total pre <= len data ->
  e <> KInterrupted -> e <> KUnexpectedEof ->
  read_bytes_sched data (pre ++ EFail e :: post) = Ok RErr.
Proof. exact read_bytes_fail. Qed.
Print Assumptions C12_io_error_read_bytes.

(* ... and an UnexpectedEof is end of input for the binary reader: Ok of the complete records delivered before it *)
Theorem C12_unexpected_eof_is_end_of_input : forall data pre post, clean pre -> chunk_total pre <= len data ->
  read_bytes_sched data (pre ++ EFail KUnexpectedEof :: post) =
  Ok (ROk (records (firstn (N.to_nat (chunk_total pre)) data))).
Proof. exact read_bytes_eof. Qed.
Print Assumptions C12_unexpected_eof_is_end_of_input.

Theorem C12_io_error_read_text : forall data pre e post, clean pre -> chunk_total pre <= len data -> e <> KInterrupted ->
  read_text_sched data (pre ++ EFail e :: post) = Ok RErr.
Proof. exact read_text_fail. Qed.
Print Assumptions C12_io_error_read_text.

Theorem C12_io_error_write_bytes : forall b pre e post, clean pre -> chunk_total pre < len (write_bytes b) -> e <> KInterrupted ->
  write_bytes_sched b (pre ++ EFail e :: post) = (false, firstn (N.to_nat (chunk_total pre)) (write_bytes b)).
Proof. exact write_bytes_sched_fail. Qed.
Print Assumptions C12_io_error_write_bytes.

Theorem C12_io_error_write_text : forall b pre e post, clean pre -> chunk_total pre < len (write_text b) -> e <> KInterrupted ->
  write_text_sched b (pre ++ EFail e :: post) = (false, firstn (N.to_nat (chunk_total pre)) (write_text b)).
Proof. exact write_text_sched_fail. Qed.
Print Assumptions C12_io_error_write_text.

(* ---- a non-trivial instance: 3-byte pointers, 16-bit variable, chunks of 3/1/7 bytes with interruptions *)
Example C12_ex_roundtrip :
  let b := [mkNode 65535 0 0; mkNode 65535 1 1; mkNode 300 0 1; mkNode 7 70000 2] in
  read_bytes_sched (write_bytes b) [EChunk 3; EIntr; EChunk 1; EFail KInterrupted; EChunk 7; EChunk 7] = Ok (ROk b) /\
  read_text_sched (write_text b) [EChunk 2; EIntr; EChunk 5] = Ok (ROk b) /\
  write_bytes_sched b [EChunk 3; EIntr; EChunk 5; EFail KOther] = (false, firstn 8 (write_bytes b)) /\
  read_bytes_sched (write_bytes b) [EChunk 13; EFail KOther] = Ok RErr.
Proof. vm_compute. repeat split. Qed.
Print Assumptions C12_ex_roundtrip.

(* ---- the panicking forms Bdd::from_string / Bdd::from_bytes (read from a slice + expect; Model/Alias.v): they answer
   exactly when the reader answers Ok, with the same diagram, so the library's own output reads back *)
Theorem C12_from_string_roundtrip : forall b, in_range b -> from_string_m (write_text b) = Ok b.
Proof. exact from_string_roundtrip. Qed.
Print Assumptions C12_from_string_roundtrip.
Theorem C12_from_bytes_roundtrip : forall b, in_range b -> from_bytes_m (write_bytes b) = Ok b.
Proof. exact from_bytes_roundtrip. Qed.
Print Assumptions C12_from_bytes_roundtrip.
Theorem C12_from_string_spec : forall data b, from_string_m data = Ok b <-> read_text_sched data [] = Ok (ROk b).
Proof. exact from_string_spec. Qed.
Print Assumptions C12_from_string_spec.
Theorem C12_from_bytes_spec : forall data b, from_bytes_m data = Ok b <-> read_bytes_sched data [] = Ok (ROk b).
Proof. exact from_bytes_spec. Qed.
Print Assumptions C12_from_bytes_spec.

(* ======================================================================================== *)
(* zero-length chunks (excluded from `clean`): `EChunk 0` makes the scripted call return Ok(0) — end of input for a
   reader, WriteZero for a writer.  p = chunk_total pre is what the clean prefix delivers / accepts; NO hypothesis
   relates p to the length of the data on the reader side (when the prefix offers more than the data holds the real
   end of input comes first, and `firstn p data` is all of the data) *)
From BddVerif Require Import Proofs.Gaps3Serial.

(* readers: exactly as if the stream had ended after p bytes.  Binary: Ok of the complete 10-byte records among the
   first p bytes (a trailing partial record is dropped, as at a real end of input); text: whatever read_text answers
   on the first p bytes (Ok of the diagram, or Err for a text cut inside a record / inside a UTF-8 sequence) *)
Theorem C12_reader_zero_chunk_is_eof : forall data pre post, clean pre ->
  read_bytes_sched data (pre ++ EChunk 0 :: post) = Ok (ROk (records (firstn (N.to_nat (chunk_total pre)) data))) /\
  read_bytes_sched data (pre ++ EChunk 0 :: post) = read_bytes (firstn (N.to_nat (chunk_total pre)) data) /\
  read_text_sched data (pre ++ EChunk 0 :: post) = read_text (firstn (N.to_nat (chunk_total pre)) data).
Proof.
  intros data pre post C. split; [exact (read_bytes_zero_chunk data pre post C)|].
  split; [exact (read_bytes_zero_chunk_as_eof data pre post C)|exact (read_text_zero_chunk data pre post C)].
Qed.
Print Assumptions C12_reader_zero_chunk_is_eof.

(* writers: a zero-length write while bytes remain is Err(WriteZero) (false), with exactly the clean prefix accepted;
   when the clean prefix already accepts the whole stream the zero-length chunk (or anything else) is never reached *)
Theorem C12_writer_zero_chunk_is_error : forall b pre post, clean pre ->
  (chunk_total pre < len (write_bytes b) ->
     write_bytes_sched b (pre ++ EChunk 0 :: post) = (false, firstn (N.to_nat (chunk_total pre)) (write_bytes b))) /\
  (chunk_total pre < len (write_text b) ->
     write_text_sched b (pre ++ EChunk 0 :: post) = (false, firstn (N.to_nat (chunk_total pre)) (write_text b))) /\
  (len (write_bytes b) <= chunk_total pre -> write_bytes_sched b (pre ++ EChunk 0 :: post) = (true, write_bytes b)) /\
  (len (write_text b) <= chunk_total pre -> write_text_sched b (pre ++ EChunk 0 :: post) = (true, write_text b)).
Proof.
  intros b pre post C. split; [exact (write_bytes_sched_zero b pre post C)|].
  split; [exact (write_text_sched_zero b pre post C)|].
  split; [exact (write_bytes_sched_zero_unreached b pre _ C)|exact (write_text_sched_zero_unreached b pre _ C)].
Qed.
Print Assumptions C12_writer_zero_chunk_is_error.

Example C12_ex_zero_chunk :
  let b := [mkNode 65535 0 0; mkNode 65535 1 1; mkNode 300 0 1; mkNode 7 70000 2] in
  read_bytes_sched (write_bytes b) [EChunk 3; EIntr; EChunk 10; EChunk 0; EChunk 50] = Ok (ROk (firstn 1 b)) /\
  read_bytes_sched (write_bytes b) [EChunk 20; EChunk 0] = Ok (ROk (firstn 2 b)) /\
  read_text_sched (write_text b) [EChunk 9; EChunk 0; EChunk 100] = Ok RErr /\
  read_text_sched (write_text b) [EChunk 4; EIntr; EChunk 7; EChunk 0; EChunk 100] = Ok (ROk (firstn 1 b)) /\
  read_text_sched (write_text b) [EChunk 1000; EChunk 0] = Ok (ROk b) /\
  write_bytes_sched b [EChunk 3; EIntr; EChunk 5; EChunk 0; EChunk 100] = (false, firstn 8 (write_bytes b)) /\
  write_text_sched b [EChunk 8; EChunk 0] = (false, firstn 8 (write_text b)) /\
  write_text_sched b [EChunk 1000; EChunk 0] = (true, write_text b).
Proof. exact zero_chunk_examples. Qed.
Print Assumptions C12_ex_zero_chunk.
