(* C09 — model counts and support sets are exact. *)
From Coq Require Import List NArith Bool Sorted. Import ListNotations.
From BddVerif Require Import Model.Bdd Model.Apply Model.Ops Model.Count Model.CountFast Proofs.Sem Proofs.Canon
  Proofs.CountSem Proofs.CountSupport Proofs.CountFloat Proofs.CountRound Proofs.CountFast.
Open Scope N_scope.

(* `count n f` (Proofs/CountSem.v) = number of valuations of the variables 0..n-1 satisfying f, by structural recursion over the
   variables; N is unbounded, so every statement below holds at every variable count (no 2^64 anywhere). *)

(* exact_cardinality = number of satisfying total valuations, for every valid diagram (canonical or not) *)
Theorem C09_exact_cardinality_spec : forall b, wf b -> exact_cardinality b = count (nvars b) (eval b).
Proof. exact exact_cardinality_spec. Qed.
Print Assumptions C09_exact_cardinality_spec.

Theorem C09_exact_cardinality_le : forall b, wf b -> exact_cardinality b <= 2 ^ nvars b.
Proof. exact exact_cardinality_le. Qed.
Print Assumptions C09_exact_cardinality_le.

(* |not a| = 2^n - |a| *)
Theorem C09_card_not : forall b, wf b -> exact_cardinality (bdd_not b) = 2 ^ nvars b - exact_cardinality b.
Proof. exact card_not. Qed.
Print Assumptions C09_card_not.

(* |a or b| + |a and b| = |a| + |b| *)
Theorem C09_card_or_and : forall a b, wf a -> wf b -> nvars a = nvars b ->
  exists ro ra, bdd_or a b = Ok ro /\ bdd_and a b = Ok ra /\
    exact_cardinality ro + exact_cardinality ra = exact_cardinality a + exact_cardinality b.
Proof. exact card_or_and. Qed.
Print Assumptions C09_card_or_and.

(* exact_clause_cardinality = number of root-to-1 paths; the paths are exactly the clauses of the function *)
Theorem C09_clause_cardinality_spec : forall b, exact_clause_cardinality b = N.of_nat (length (paths b)).
Proof. exact clause_cardinality_spec. Qed.
Print Assumptions C09_clause_cardinality_spec.

Theorem C09_paths_sound_complete : forall b v,
  eval b v = true <-> exists pi, In pi (paths b) /\ forall x c, In (x, c) pi -> v x = c.
Proof. exact paths_sound_complete. Qed.
Print Assumptions C09_paths_sound_complete.

(* support_set: sorted, duplicate-free list of the decision variables ... *)
Theorem C09_support_set_sorted : forall b, StronglySorted N.lt (support_set b).
Proof. exact support_set_sorted. Qed.
Print Assumptions C09_support_set_sorted.

Theorem C09_support_set_in : forall b x, In x (support_set b) <-> In x (support b).
Proof. exact support_set_in. Qed.
Print Assumptions C09_support_set_in.

(* ... and for a canonical diagram exactly the variables whose value can change the function's value *)
Theorem C09_support_exact : forall b x, Canonical b ->
  (In x (support_set b) <-> exists v, eval b v <> eval b (flipv v x)).
Proof. exact support_exact. Qed.
Print Assumptions C09_support_exact.

(* size_per_variable partitions the decision nodes over exactly the support variables *)
Theorem C09_size_per_variable_keys : forall b, map fst (size_per_variable b) = support_set b.
Proof. exact size_per_variable_keys. Qed.
Print Assumptions C09_size_per_variable_keys.

Theorem C09_size_per_variable_count : forall b x c, In (x, c) (size_per_variable b) ->
  c = N.of_nat (count_occ N.eq_dec (decision_vars b) x).
Proof. exact size_per_variable_count. Qed.
Print Assumptions C09_size_per_variable_count.

Theorem C09_size_per_variable_partition : forall b, total (size_per_variable b) = size b - 2.
Proof. exact size_per_variable_total. Qed.
Print Assumptions C09_size_per_variable_partition.

(* cardinality(): statements about the integer-valued model of binary64 in Model/Count.v (modelled, not verified) *)
Theorem C09_cardinality_no_nan : forall b, wf b -> cardinality_f64 b <> FNaN.
Proof. exact cardinality_no_nan. Qed.
Print Assumptions C09_cardinality_no_nan.

(* the `is_nan` branch of the Rust is dead: the product before it is never NaN *)
Theorem C09_cardinality_nan_branch_dead : forall b, wf b -> fis_zero (cardfp b (size b - 1)) = false ->
  fmul (cardfp b (size b - 1)) (pow2 (var_of b (size b - 1))) <> FNaN.
Proof. exact cardinality_pre_nan_free. Qed.
Print Assumptions C09_cardinality_nan_branch_dead.

Theorem C09_cardinality_exact_small : forall b, wf b -> exact_cardinality b < 2 ^ 53 ->
  cardinality_f64 b = FFin (exact_cardinality b).
Proof. exact cardinality_exact_small. Qed.
Print Assumptions C09_cardinality_exact_small.

(* "equals the exact count up to floating-point rounding (infinity only when the count is not representable)":
   with d = 2*nvars+3 (the proof charges one rounding to each of the model's operations: two scalings and one addition per level,
   one final scaling — the scalings are in fact exact, so the true exponent is the number of additions on a path; that sharper
   exponent is not proved), a finite result m satisfies  exact*(1-2^-53)^d <= m <= exact*(1+2^-53)^d,  +inf is returned only if
   exact*(1+2^-53)^d >= 2^1024, and (finite_range) a finite result is below 2^1024, hence exact*(1-2^-53)^d >= 2^1024 forces +inf. *)
Theorem C09_cardinality_rounding : forall b, wf b ->
  let d := N.of_nat (2 * N.to_nat (nvars b) + 3) in
  match cardinality_f64 b with
  | FFin m => exact_cardinality b * (2 ^ 53 - 1) ^ d <= m * (2 ^ 53) ^ d /\ m * (2 ^ 53) ^ d <= exact_cardinality b * (2 ^ 53 + 1) ^ d
  | FInf => 2 ^ 1024 * (2 ^ 53) ^ d <= exact_cardinality b * (2 ^ 53 + 1) ^ d
  | FNaN => False
  end.
Proof. exact cardinality_rounding. Qed.
Print Assumptions C09_cardinality_rounding.

Theorem C09_cardinality_finite_range : forall b m, cardinality_f64 b = FFin m -> m < 2 ^ 1024.
Proof. exact cardinality_finite_range. Qed.
Print Assumptions C09_cardinality_finite_range.

(* ---- the memoised twins (Model/CountFast.v: per-node cache, each node computed once — the functions the correspondence driver
   runs) refine the reference recursions above: on every well-formed diagram ... ---- *)
Theorem C09_fast_count_refines : forall b, wf b -> exact_cardinality_fast b = exact_cardinality b.
Proof. exact exact_cardinality_fast_eq. Qed.
Print Assumptions C09_fast_count_refines.

Theorem C09_fast_clause_count_refines : forall b, wf b -> exact_clause_cardinality_fast b = exact_clause_cardinality b.
Proof. exact exact_clause_cardinality_fast_eq. Qed.
Print Assumptions C09_fast_clause_count_refines.

Theorem C09_fast_cardinality_f64_refines : forall b, wf b -> cardinality_f64_fast b = cardinality_f64 b.
Proof. exact cardinality_f64_fast_eq. Qed.
Print Assumptions C09_fast_cardinality_f64_refines.

(* ... and, guarded by the linear-time checker wfb_fast (= wfb), on ALL inputs, without hypotheses *)
Theorem C09_wfb_fast_refines : forall b, wfb_fast b = wfb b.
Proof. exact wfb_fast_eq. Qed.
Print Assumptions C09_wfb_fast_refines.

Theorem C09_auto_count_refines : forall b, exact_cardinality_auto b = exact_cardinality b.
Proof. exact exact_cardinality_auto_eq. Qed.
Print Assumptions C09_auto_count_refines.

Theorem C09_auto_clause_count_refines : forall b, exact_clause_cardinality_auto b = exact_clause_cardinality b.
Proof. exact exact_clause_cardinality_auto_eq. Qed.
Print Assumptions C09_auto_clause_count_refines.

Theorem C09_auto_cardinality_f64_refines : forall b, cardinality_f64_auto b = cardinality_f64 b.
Proof. exact cardinality_f64_auto_eq. Qed.
Print Assumptions C09_auto_cardinality_f64_refines.

(* so the memoised count is the number of satisfying valuations *)
Theorem C09_fast_count_spec : forall b, wf b -> exact_cardinality_fast b = count (nvars b) (eval b).
Proof. exact exact_cardinality_fast_spec. Qed.
Print Assumptions C09_fast_count_spec.

(* non-trivial instances: (x0 & x2) | (!x0 & x1) over 4 variables; a 2000-variable gap; a non-canonical empty diagram *)
Definition ex1 : bdd := [mkNode 4 0 0; mkNode 4 1 1; mkNode 2 0 1; mkNode 1 0 1; mkNode 0 3 2].
Example C09_ex1 : wfb ex1 = true /\ canonicalb ex1 = true /\ exact_cardinality ex1 = 8 /\ exact_clause_cardinality ex1 = 2 /\
  paths ex1 = [[(0, false); (1, true)]; [(0, true); (2, true)]] /\ support_set ex1 = [0; 1; 2] /\
  size_per_variable ex1 = [(0, 1); (1, 1); (2, 1)] /\ cardinality_f64 ex1 = FFin 8.
Proof. vm_compute. repeat split. Qed.
Print Assumptions C09_ex1.

Definition ex2 : bdd := [mkNode 2000 0 0; mkNode 2000 1 1; mkNode 1500 0 1; mkNode 3 2 0].
Example C09_ex2 : wfb ex2 = true /\ exact_cardinality ex2 = 2 ^ 1998 /\ cardinality_f64 ex2 = FInf /\
  cardinality_f64 [mkNode 2000 0 0; mkNode 2000 1 1; mkNode 1500 0 0] = FFin 0 /\
  exact_cardinality [mkNode 2000 0 0; mkNode 2000 1 1; mkNode 1500 0 0] = 0.
Proof. vm_compute. repeat split. Qed.
Print Assumptions C09_ex2.

(* rounding: the disjunction of 60 variables has 2^60 - 1 models; binary64 rounds the count to 2^60 *)
Example C09_ex3 : match mk_disjunctive_clause 60 (repeat (Some true) 60) with
  | Ok b => wfb b = true /\ exact_cardinality b = 2 ^ 60 - 1 /\ cardinality_f64 b = FFin (2 ^ 60)
  | _ => False end.
Proof. vm_compute. repeat split. Qed.
Print Assumptions C09_ex3.

(* heavy sharing: a conjunction of 24 three-literal clauses over 72 variables has 7^24 models on 3^24 paths; the memoised twins
   answer at once (the reference recursion would walk every path); the wf hypothesis of the _fast theorems is necessary *)
Example C09_ex4 :
  let b := cnf3 24 69 [mkNode 72 0 0; mkNode 72 1 1] 1 in
  size b = 74 /\ wfb_fast b = true /\ exact_cardinality_fast b = 7 ^ 24 /\ exact_clause_cardinality_fast b = 3 ^ 24 /\
  cardinality_f64_fast b = FFin 191581231380566409216.
Proof. exact fast_example. Qed.
Print Assumptions C09_ex4.

Example C09_ex5 :
  let b := [mkNode 2 0 0; mkNode 2 1 1; mkNode 0 1 1; mkNode 0 2 2; mkNode 0 3 2] in
  wfb b = false /\ exact_cardinality b = 4 /\ exact_cardinality_fast b = 12 /\ exact_cardinality_auto b = 4.
Proof. exact fast_needs_wf. Qed.
Print Assumptions C09_ex5.
