(* C05 — size-limited and dry-run operators agree with the unrestricted operator; cmp_implies. *)
From Coq Require Import List NArith Bool. Import ListNotations.
From BddVerif Require Import Model.Bdd Model.Apply Model.Ops Proofs.Sem Proofs.Canon Proofs.ApplySem Proofs.ApplyTop Proofs.CmpSem Proofs.DrySem.
Open Scope N_scope.

(* Some(r) exactly when the unrestricted result r has at most `limit` nodes, and then r is that result;
   for every limit including 0 and 1, every flip configuration, every consistent table *)
Theorem C05_limit_exact : forall A B fa fb fo op limit,
  wf A -> wf B -> nvars A = nvars B -> flips_ok (nvars A) fa fb fo = true -> total2 op -> consistent2 op ->
  exists r, fused_binary_flip_op A B fa fb fo op = Ok r /\
    fused_binary_flip_op_with_limit limit A B fa fb fo op = Ok (if size r <=? limit then Some r else None).
Proof. exact limit_exact. Qed.
Print Assumptions C05_limit_exact.

(* cmp_implies orders two diagrams exactly by logical implication; None for different variable counts
   or incomparable functions *)
Theorem C05_cmp_implies : forall a b, wf a -> wf b ->
  exists o, cmp_implies a b = Ok o /\
    (nvars a <> nvars b -> o = None) /\
    (nvars a = nvars b ->
       (o = Some OEq <-> (implies a b /\ implies b a)) /\
       (o = Some OLt <-> (implies a b /\ ~ implies b a)) /\
       (o = Some OGt <-> (~ implies a b /\ implies b a)) /\
       (o = None <-> (~ implies a b /\ ~ implies b a))).
Proof. exact cmp_implies_spec. Qed.
Print Assumptions C05_cmp_implies.

(* dry run: there is a task count c, at least the number of decision nodes of the unrestricted result r, such that for
   EVERY limit the check returns None exactly when c exceeds the limit and otherwise (not r.is_false(), c) *)
Theorem C05_dry_run_exact : forall A B fa fb fo op,
  wf A -> wf B -> nvars A = nvars B -> flips_ok (nvars A) fa fb fo = true -> total2 op -> consistent2 op ->
  exists r c, fused_binary_flip_op A B fa fb fo op = Ok r /\ size r - 2 <= c /\
    forall limit, check_fused_binary_flip_op limit A B fa fb fo op = Ok (if limit <? c then None else Some (negb (is_false r), c)).
Proof. exact check_exact. Qed.
Print Assumptions C05_dry_run_exact.

Theorem C05_dry_run_panic_iff : forall limit A B fa fb fo op,
  check_fused_binary_flip_op limit A B fa fb fo op = Panic <-> (nvars A <> nvars B \/ flips_ok (nvars A) fa fb fo = false).
Proof. exact check_panic_iff. Qed.
Print Assumptions C05_dry_run_panic_iff.

Example C05_nonvacuous :
  let A := [mkNode 3 0 0; mkNode 3 1 1; mkNode 1 0 1; mkNode 0 0 2] in
  let B := [mkNode 3 0 0; mkNode 3 1 1; mkNode 2 1 0] in
  fused_binary_flip_op_with_limit 4 A B None None None op_xor = Ok None /\
  (exists r, fused_binary_flip_op_with_limit 6 A B None None None op_xor = Ok (Some r) /\ size r = 6) /\
  check_fused_binary_flip_op 100 A B None None None op_xor = Ok (Some (true, 4)) /\
  check_fused_binary_flip_op 3 A B None None None op_xor = Ok None.
Proof. vm_compute. repeat split; try reflexivity. eexists; split; reflexivity. Qed.
Print Assumptions C05_nonvacuous.

(* ---- the efficient versions (Model/ApplyFast2.v: PositiveMap operands / memo tables / visited set, reversed store with a
   size counter) that the correspondence driver runs on operands above 300 nodes compute exactly the outcomes of the
   reference definitions, for ALL inputs (no hypotheses): every statement above holds of them verbatim ---- *)
From BddVerif Require Import Model.ApplyFast Model.ApplyFast2 Proofs.ApplyFast Proofs.ApplyFast2.

Theorem C05_limit_fast_engine_refines : forall A B fa fb fo op limit,
  apply2_limit_fast A B fa fb fo op limit = apply2_limit A B fa fb fo op limit.
Proof. exact apply2_limit_fast_eq. Qed.
Print Assumptions C05_limit_fast_engine_refines.

Theorem C05_limit_fast_refines : forall limit A B fa fb fo op,
  fused_binary_flip_op_with_limit_fast limit A B fa fb fo op = fused_binary_flip_op_with_limit limit A B fa fb fo op.
Proof. exact fused_binary_flip_op_with_limit_fast_eq. Qed.
Print Assumptions C05_limit_fast_refines.

Theorem C05_dry_run_fast_engine_refines : forall A B fa fb fo op limit,
  dry_run_fast A B fa fb fo op limit = dry_run A B fa fb fo op limit.
Proof. exact dry_run_fast_eq. Qed.
Print Assumptions C05_dry_run_fast_engine_refines.

Theorem C05_dry_run_fast_refines : forall limit A B fa fb fo op,
  check_fused_binary_flip_op_fast limit A B fa fb fo op = check_fused_binary_flip_op limit A B fa fb fo op.
Proof. exact check_fused_binary_flip_op_fast_eq. Qed.
Print Assumptions C05_dry_run_fast_refines.

Theorem C05_limit_fast_exact : forall A B fa fb fo op limit,
  wf A -> wf B -> nvars A = nvars B -> flips_ok (nvars A) fa fb fo = true -> total2 op -> consistent2 op ->
  exists r, fused_binary_flip_op A B fa fb fo op = Ok r /\
    fused_binary_flip_op_with_limit_fast limit A B fa fb fo op = Ok (if size r <=? limit then Some r else None).
Proof. exact limit_fast_exact. Qed.
Print Assumptions C05_limit_fast_exact.

Theorem C05_dry_run_fast_exact : forall A B fa fb fo op,
  wf A -> wf B -> nvars A = nvars B -> flips_ok (nvars A) fa fb fo = true -> total2 op -> consistent2 op ->
  exists r c, fused_binary_flip_op A B fa fb fo op = Ok r /\ size r - 2 <= c /\
    forall limit, check_fused_binary_flip_op_fast limit A B fa fb fo op = Ok (if limit <? c then None else Some (negb (is_false r), c)).
Proof. exact check_fast_exact. Qed.
Print Assumptions C05_dry_run_fast_exact.

Example C05_fast_nonvacuous :
  let A := [mkNode 3 0 0; mkNode 3 1 1; mkNode 1 0 1; mkNode 0 0 2] in
  let B := [mkNode 3 0 0; mkNode 3 1 1; mkNode 2 1 0] in
  fused_binary_flip_op_with_limit_fast 4 A B None None None op_xor = Ok None /\
  (exists r, fused_binary_flip_op_with_limit_fast 6 A B None None None op_xor = Ok (Some r) /\ size r = 6) /\
  check_fused_binary_flip_op_fast 100 A B None None None op_xor = Ok (Some (true, 4)) /\
  check_fused_binary_flip_op_fast 3 A B None None None op_xor = Ok None.
Proof. exact limit_fast_example. Qed.
Print Assumptions C05_fast_nonvacuous.

(* ---- the explicit-stack loops themselves, modelled iteration by iteration ----
   Model/ApplyLimitStack.v: the loop of apply_with_flip_and_limit (the `limit == 0` pre-check, `return None` from the middle
   of the body as soon as a pushed node makes the store larger than the limit, the final size check);
   Model/DryStack.v: the loop of estimated_apply_complexity (pop first, visited set, both sub-tasks pushed unconditionally).
   Both compute exactly what the recursive models above compute, for valid operands over the same variable count, any table
   that answers on total inputs and ANY limit — for the dry run including which task exceeds the limit first, since the
   LIFO order of the machine is the depth-first order of the recursion. *)
From BddVerif Require Model.ApplyLimitStack Model.DryStack Proofs.ApplyLimitStack Proofs.DryStack.

Theorem C05_limit_stack_machine_refines : forall A B fa fb fo op limit,
  wf A -> wf B -> nvars A = nvars B -> total2 op ->
  ApplyLimitStack.apply2_limit_stack A B fa fb fo op limit = apply2_limit A B fa fb fo op limit.
Proof. exact Proofs.ApplyLimitStack.apply2_limit_stack_eq. Qed.
Print Assumptions C05_limit_stack_machine_refines.

Theorem C05_limit_stack_machine_api_refines : forall limit A B fa fb fo op,
  wf A -> wf B -> total2 op ->
  ApplyLimitStack.fused_binary_flip_op_with_limit_stack limit A B fa fb fo op = fused_binary_flip_op_with_limit limit A B fa fb fo op.
Proof. exact Proofs.ApplyLimitStack.fused_binary_flip_op_with_limit_stack_eq. Qed.
Print Assumptions C05_limit_stack_machine_api_refines.

Theorem C05_limit_stack_machine_exact : forall A B fa fb fo op limit,
  wf A -> wf B -> nvars A = nvars B -> flips_ok (nvars A) fa fb fo = true -> total2 op -> consistent2 op ->
  exists r, fused_binary_flip_op A B fa fb fo op = Ok r /\
    ApplyLimitStack.fused_binary_flip_op_with_limit_stack limit A B fa fb fo op = Ok (if size r <=? limit then Some r else None).
Proof. exact Proofs.ApplyLimitStack.limit_exact_limit_stack. Qed.
Print Assumptions C05_limit_stack_machine_exact.

Theorem C05_dry_run_stack_machine_refines : forall A B fa fb fo op limit,
  wf A -> wf B -> nvars A = nvars B -> total2 op ->
  DryStack.dry_run_stack A B fa fb fo op limit = dry_run A B fa fb fo op limit.
Proof. exact Proofs.DryStack.dry_run_stack_eq. Qed.
Print Assumptions C05_dry_run_stack_machine_refines.

Theorem C05_dry_run_stack_machine_exact : forall A B fa fb fo op,
  wf A -> wf B -> nvars A = nvars B -> flips_ok (nvars A) fa fb fo = true -> total2 op -> consistent2 op ->
  exists r c, fused_binary_flip_op A B fa fb fo op = Ok r /\ size r - 2 <= c /\
    forall limit, DryStack.check_fused_binary_flip_op_stack limit A B fa fb fo op = Ok (if limit <? c then None else Some (negb (is_false r), c)).
Proof. exact Proofs.DryStack.check_exact_stack. Qed.
Print Assumptions C05_dry_run_stack_machine_exact.

(* ---- the unfused entry points named in the property text.  Bdd::binary_op_with_limit(limit, l, r, op) is
   apply_with_flip_and_limit(limit, l, r, None, None, None, op) and Bdd::check_binary_op(limit, l, r, op) is
   estimated_apply_complexity(limit, l, r, None, None, None, op): their model is the fused model without flips (this is the term
   the driver evaluates for `binlim` / `drybin`), and the step-faithful `binary_op_with_limit_stack` / `check_binary_op_stack`. ---- *)
From BddVerif Require Proofs.GapsLimit.

Theorem C05_binary_op_with_limit_exact : forall A B op limit,
  wf A -> wf B -> nvars A = nvars B -> total2 op -> consistent2 op ->
  exists r, binary_op A B op = Ok r /\
    fused_binary_flip_op_with_limit limit A B None None None op = Ok (if size r <=? limit then Some r else None) /\
    ApplyLimitStack.binary_op_with_limit_stack limit A B op = Ok (if size r <=? limit then Some r else None).
Proof. exact GapsLimit.binary_op_with_limit_exact. Qed.
Print Assumptions C05_binary_op_with_limit_exact.

Theorem C05_check_binary_op_exact : forall A B op,
  wf A -> wf B -> nvars A = nvars B -> total2 op -> consistent2 op ->
  exists r c, binary_op A B op = Ok r /\ size r - 2 <= c /\
    forall limit,
      check_fused_binary_flip_op limit A B None None None op = Ok (if limit <? c then None else Some (negb (is_false r), c)) /\
      DryStack.check_binary_op_stack limit A B op = Ok (if limit <? c then None else Some (negb (is_false r), c)).
Proof. exact GapsLimit.check_binary_op_exact. Qed.
Print Assumptions C05_check_binary_op_exact.

(* the size-limited operator panics exactly on the two argument checks, for EVERY limit: the checks precede the
   `limit == 0` shortcut (limit 0 with a bad flip or a variable-count mismatch panics, it does not answer None) *)
Theorem C05_limit_panic_iff : forall limit A B fa fb fo op,
  fused_binary_flip_op_with_limit limit A B fa fb fo op = Panic <-> (nvars A <> nvars B \/ flips_ok (nvars A) fa fb fo = false).
Proof. exact GapsLimit.limit_panic_iff. Qed.
Print Assumptions C05_limit_panic_iff.

Theorem C05_binary_op_with_limit_panic_iff : forall limit A B op,
  fused_binary_flip_op_with_limit limit A B None None None op = Panic <-> nvars A <> nvars B.
Proof. exact GapsLimit.binary_op_with_limit_panic_iff. Qed.
Print Assumptions C05_binary_op_with_limit_panic_iff.

Theorem C05_check_binary_op_panic_iff : forall limit A B op,
  check_fused_binary_flip_op limit A B None None None op = Panic <-> nvars A <> nvars B.
Proof. exact GapsLimit.check_binary_op_panic_iff. Qed.
Print Assumptions C05_check_binary_op_panic_iff.

Example C05_limit_zero_and_unfused_nonvacuous :
  let A := [mkNode 3 0 0; mkNode 3 1 1; mkNode 1 0 1; mkNode 0 0 2] in
  let B := [mkNode 3 0 0; mkNode 3 1 1; mkNode 2 1 0] in
  let B2 := [mkNode 2 0 0; mkNode 2 1 1] in
  fused_binary_flip_op_with_limit 0 A B None None None op_xor = Ok None /\
  fused_binary_flip_op_with_limit 0 A B (Some 3) None None op_xor = Panic /\
  fused_binary_flip_op_with_limit 0 A B2 None None None op_xor = Panic /\
  ApplyLimitStack.binary_op_with_limit_stack 5 A B op_xor = Ok None /\
  (exists r, ApplyLimitStack.binary_op_with_limit_stack 6 A B op_xor = Ok (Some r) /\ binary_op A B op_xor = Ok r) /\
  DryStack.check_binary_op_stack 100 A B op_xor = Ok (Some (true, 4)) /\
  DryStack.check_binary_op_stack 3 A B op_xor = Ok None.
Proof. exact GapsLimit.limit_zero_example. Qed.
Print Assumptions C05_limit_zero_and_unfused_nonvacuous.
