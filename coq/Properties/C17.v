(* C17 — variable renaming and transfer keep the function or refuse. *)
From Coq Require Import List NArith Bool. Import ListNotations.
From BddVerif Require Import Model.Bdd Model.Apply Model.Ops Model.Rename Proofs.Sem Proofs.Canon Proofs.RenameSem Proofs.RenameOps.
Open Scope N_scope.

(* the common core: relabelling the decision variables by a map that is strictly increasing on the support and
   stays below the new variable count keeps validity, reducedness and the node layout, and composes the function
   with the map *)
Theorem C17_relabel : forall b f n', wf b -> mono_on b f -> (forall x, in_support b x -> f x < n') ->
  wf (relabel f n' b) /\ nvars (relabel f n' b) = n' /\
  (forall v, eval (relabel f n' b) v = eval b (fun x => v (f x))) /\
  (Canonical b -> Canonical (relabel f n' b)).
Proof. exact relabel_correct. Qed.
Print Assumptions C17_relabel.

(* rename_variables: a refusal (panic), or a valid diagram over the same variables denoting the original function
   with the variables renamed; canonical form is kept. Never an unordered or out-of-range diagram. *)
Theorem C17_rename_variables_ok_or_panic : forall b m, wf b ->
  rename_variables b m = Panic \/
  exists r, rename_variables b m = Ok r /\ wf r /\ nvars r = nvars b /\
    (forall v, eval r v = eval b (fun x => v (apply_map m x))) /\
    (reduced b -> reduced r) /\ (Canonical b -> Canonical r).
Proof. exact rename_variables_ok_or_panic. Qed.
Print Assumptions C17_rename_variables_ok_or_panic.

(* it refuses exactly when some support variable is sent out of range or the order of two support variables is not kept *)
Theorem C17_rename_variables_panic_iff : forall b m, wf b ->
  (rename_variables b m = Panic <->
   (exists x, in_support b x /\ nvars b <= apply_map m x) \/
   (exists x y, in_support b x /\ in_support b y /\ x < y /\ apply_map m y <= apply_map m x)).
Proof. exact rename_variables_panic_iff. Qed.
Print Assumptions C17_rename_variables_panic_iff.

Theorem C17_rename_variable_ok_or_panic : forall b old new, wf b ->
  rename_variable b old new = Panic \/
  exists r, rename_variable b old new = Ok r /\ wf r /\ nvars r = nvars b /\
    (forall v, eval r v = eval b (fun x => if x =? old then v new else v x)) /\
    (reduced b -> reduced r) /\ (Canonical b -> Canonical r).
Proof. exact rename_variable_ok_or_panic. Qed.
Print Assumptions C17_rename_variable_ok_or_panic.

Theorem C17_set_num_vars_ok_or_panic : forall b n, wf b ->
  set_num_vars b n = Panic \/
  exists r, set_num_vars b n = Ok r /\ wf r /\ nvars r = n /\ (forall v, eval r v = eval b v) /\
    (reduced b -> reduced r) /\ (Canonical b -> Canonical r).
Proof. exact set_num_vars_ok_or_panic. Qed.
Print Assumptions C17_set_num_vars_ok_or_panic.

Theorem C17_set_num_vars_panic_iff : forall b n, wf b ->
  (set_num_vars b n = Panic <-> exists x, in_support b x /\ n <= x).
Proof. exact set_num_vars_panic_iff. Qed.
Print Assumptions C17_set_num_vars_panic_iff.

(* transfer_from, for a diagram of the source set (every support variable has a name there): Some exactly when
   every support variable's name exists in the target set and the name-induced mapping is strictly increasing on
   the support; the constants (empty support) always transfer *)
Theorem C17_transfer_some_iff : forall target b source, wf b ->
  (forall x, in_support b x -> x < N.of_nat (length source)) ->
  exists o, transfer_from target b source = Ok o /\
    ((exists r, o = Some r) <->
       (forall x, in_support b x -> exists y, name_map target source x = Some y) /\
       (forall x y fx fy, in_support b x -> in_support b y -> x < y ->
          name_map target source x = Some fx -> name_map target source y = Some fy -> fx < fy)).
Proof. exact transfer_some_iff. Qed.
Print Assumptions C17_transfer_some_iff.

(* name_map is the correspondence by name: the image exists in the target set and carries the same name;
   it is undefined exactly when the name is missing from the target set *)
Theorem C17_name_map_spec : forall target source x y, name_map target source x = Some y ->
  y < N.of_nat (length target) /\
  exists nm, nth_error source (N.to_nat x) = Some nm /\ nth_error target (N.to_nat y) = Some nm.
Proof. exact name_map_spec. Qed.
Print Assumptions C17_name_map_spec.
Theorem C17_name_map_none : forall target source x nm, nth_error source (N.to_nat x) = Some nm ->
  (name_map target source x = None <-> ~ In nm target).
Proof. exact name_map_none. Qed.
Print Assumptions C17_name_map_none.

(* and then the result is valid (canonical if the operand was) in the target set and denotes the same function
   under the name correspondence *)
Theorem C17_transfer_sem : forall target b source r, wf b -> transfer_from target b source = Ok (Some r) ->
  wf r /\ nvars r = N.of_nat (length target) /\
  (forall v, eval r v = eval b (fun x => v (name_fn target source x))) /\
  (forall x, in_support b x -> exists y, name_map target source x = Some y) /\
  (reduced b -> reduced r) /\ (Canonical b -> Canonical r).
Proof. exact transfer_sem. Qed.
Print Assumptions C17_transfer_sem.

(* the hypotheses are satisfiable on non-trivial instances; the D7 witness is harmless on the repaired code *)
Example C17_example_rename :
  let b := [mkNode 4 0 0; mkNode 4 1 1; mkNode 2 0 1; mkNode 0 2 1] in
  wfb b = true /\
  rename_variables b [(0, 1); (2, 3); (7, 9)] = Ok [mkNode 4 0 0; mkNode 4 1 1; mkNode 3 0 1; mkNode 1 2 1] /\
  rename_variables b [(0, 2)] = Panic /\ rename_variables b [(2, 4)] = Panic /\
  rename_variables b [(4, 0)] = Ok b /\
  rename_variable b 0 1 = Ok [mkNode 4 0 0; mkNode 4 1 1; mkNode 2 0 1; mkNode 1 2 1] /\
  rename_variable b 0 3 = Panic /\
  set_num_vars b 3 = Ok [mkNode 3 0 0; mkNode 3 1 1; mkNode 2 0 1; mkNode 0 2 1] /\ set_num_vars b 2 = Panic.
Proof. vm_compute. repeat split; reflexivity. Qed.
Print Assumptions C17_example_rename.
Example C17_example_transfer :
  let b := [mkNode 3 0 0; mkNode 3 1 1; mkNode 2 0 1; mkNode 0 2 1] in
  transfer_from [[97]; [100]; [99]; [98]] b [[97]; [98]; [99]] = Ok (Some [mkNode 4 0 0; mkNode 4 1 1; mkNode 2 0 1; mkNode 0 2 1]) /\
  transfer_from [[99]; [98]; [97]] b [[97]; [98]; [99]] = Ok None /\
  transfer_from [[97]; [98]] b [[97]; [98]; [99]] = Ok None /\
  transfer_from [] (mk_true 3) [[97]; [98]; [99]] = Ok (Some (mk_true 0)).
Proof. vm_compute. repeat split; reflexivity. Qed.
Print Assumptions C17_example_transfer.

(* rename_variable refuses exactly on: an index out of range (the two asserts, checked first — also when old = new);
   otherwise, unless old = new (early return, also for a support variable), a support variable strictly between the two
   indices or the new index already in the support.  No hypothesis on the diagram. *)
From BddVerif Require Proofs.GapsRename.
Theorem C17_rename_variable_panic_iff : forall b old new,
  rename_variable b old new = Panic <->
  (nvars b <= old \/ nvars b <= new \/
   (old <> new /\ ((exists x, in_support b x /\ N.min old new < x /\ x < N.max old new) \/ in_support b new))).
Proof. exact GapsRename.rename_variable_panic_iff. Qed.
Print Assumptions C17_rename_variable_panic_iff.

(* hence, for a valid diagram, the exact success condition together with the meaning of the result *)
Theorem C17_rename_variable_ok_iff : forall b old new, wf b ->
  (old < nvars b /\ new < nvars b /\
   (old = new \/ ((forall x, in_support b x -> N.min old new < x -> x < N.max old new -> False) /\ ~ in_support b new))) <->
  exists r, rename_variable b old new = Ok r /\ wf r /\ nvars r = nvars b /\
    (forall v, eval r v = eval b (fun x => if x =? old then v new else v x)) /\
    (reduced b -> reduced r) /\ (Canonical b -> Canonical r).
Proof. exact GapsRename.rename_variable_ok_iff. Qed.
Print Assumptions C17_rename_variable_ok_iff.

Example C17_example_rename_variable_panics :
  let b := [mkNode 4 0 0; mkNode 4 1 1; mkNode 2 0 1; mkNode 0 2 1] in
  wfb b = true /\
  rename_variable b 4 1 = Panic /\ rename_variable b 1 4 = Panic /\
  rename_variable b 0 3 = Panic /\ rename_variable b 3 1 = Panic /\ rename_variable b 3 0 = Panic /\
  rename_variable b 0 2 = Panic /\ rename_variable b 1 2 = Panic /\
  rename_variable b 2 2 = Ok b /\ rename_variable b 1 3 = Panic /\
  rename_variable b 3 1 = Panic /\ rename_variable b 1 1 = Ok b /\
  rename_variable b 2 1 = Ok [mkNode 4 0 0; mkNode 4 1 1; mkNode 1 0 1; mkNode 0 2 1] /\
  rename_variable b 2 3 = Ok [mkNode 4 0 0; mkNode 4 1 1; mkNode 3 0 1; mkNode 0 2 1].
Proof. exact GapsRename.rename_variable_panic_example. Qed.
Print Assumptions C17_example_rename_variable_panics.
