(* C04 — fused variable flips act as input/output bit inversion. *)
From Coq Require Import List NArith Bool. Import ListNotations.
From BddVerif Require Import Model.Bdd Model.Apply Model.Ops Proofs.Sem Proofs.Canon Proofs.ApplySem Proofs.ApplyTop Proofs.TernSem Proofs.FusedUnfused.
Open Scope N_scope.

(* r(v) = g(v with the output-flip variable inverted), g(u) = op(a(u with a's flip inverted), b(u with b's flip inverted));
   absent flips (None) are the identity: oflip None v = v *)
Theorem C04_fused_binary_flip_semantics : forall A B fa fb fo op,
  wf A -> wf B -> nvars A = nvars B -> flips_ok (nvars A) fa fb fo = true ->
  total2 op -> consistent2 op ->
  exists r, fused_binary_flip_op A B fa fb fo op = Ok r /\ Canonical r /\ nvars r = nvars A /\
    forall v, eval r v = bop_of op (eval A (oflip fa (oflip fo v))) (eval B (oflip fb (oflip fo v))).
Proof. exact fused_binary_flip_op_correct. Qed.
Print Assumptions C04_fused_binary_flip_semantics.

Theorem C04_absent_flip_is_identity : forall v, oflip None v = v.
Proof. reflexivity. Qed.
Print Assumptions C04_absent_flip_is_identity.

(* the entry point rejects exactly: different variable counts, or a flip variable >= the variable count *)
Theorem C04_flip_bounds : forall A B fa fb fo op,
  fused_binary_flip_op A B fa fb fo op = Panic <->
  (nvars A <> nvars B \/ flips_ok (nvars A) fa fb fo = false).
Proof. exact fused_binary_flip_op_panic_iff. Qed.
Print Assumptions C04_flip_bounds.

Theorem C04_fused_ternary_flip_semantics : forall A B C fa fb fc fo op,
  wf A -> wf B -> wf C -> nvars A = nvars B -> nvars B = nvars C ->
  flip_ok (nvars A) fa && flip_ok (nvars A) fb && flip_ok (nvars A) fc && flip_ok (nvars A) fo = true ->
  exists r, fused_ternary_flip_op A B C fa fb fc fo op = Ok r /\ Canonical r /\ nvars r = nvars A /\
    forall v, eval r v = conn3 op (eval A (oflip fa (oflip fo v))) (eval B (oflip fb (oflip fo v))) (eval C (oflip fc (oflip fo v))).
Proof. exact fused_ternary_flip_op_correct. Qed.
Print Assumptions C04_fused_ternary_flip_semantics.

Theorem C04_ternary_flip_bounds : forall A B C fa fb fc fo op, wf A -> wf B -> wf C ->
  (fused_ternary_flip_op A B C fa fb fc fo op = Panic <->
   (~ (nvars A = nvars B /\ nvars B = nvars C) \/
    flip_ok (nvars A) fa && flip_ok (nvars A) fb && flip_ok (nvars A) fc && flip_ok (nvars A) fo = false)).
Proof. exact ternary_panic_iff. Qed.
Print Assumptions C04_ternary_flip_bounds.

(* the fused result is identical (as an array) to performing the flips and the operator as separate steps:
   flip_var b x is the public-API flip `fused_binary_flip_op (b, Some x) (b, None) None (left projection)` *)
Theorem C04_fused_eq_unfused : forall A B fa fb fo op,
  wf A -> wf B -> nvars A = nvars B -> flips_ok (nvars A) fa fb fo = true -> total2 op -> consistent2 op ->
  forall A' B' R U, flip_opt fa A = Ok A' -> flip_opt fb B = Ok B' -> binary_op A' B' op = Ok R -> flip_opt fo R = Ok U ->
  fused_binary_flip_op A B fa fb fo op = Ok U.
Proof. exact fused_eq_unfused. Qed.
Print Assumptions C04_fused_eq_unfused.

(* ... and the separate steps always succeed under the same hypotheses, so the statement above is not vacuous *)
Theorem C04_unfused_total : forall A B fa fb fo op,
  wf A -> wf B -> nvars A = nvars B -> flips_ok (nvars A) fa fb fo = true -> total2 op -> consistent2 op ->
  exists A' B' R U, flip_opt fa A = Ok A' /\ flip_opt fb B = Ok B' /\ binary_op A' B' op = Ok R /\ flip_opt fo R = Ok U /\
    Canonical U /\ nvars U = nvars A /\
    forall v, eval U v = bop_of op (eval A (oflip fa (oflip fo v))) (eval B (oflip fb (oflip fo v))).
Proof. exact unfused_total. Qed.
Print Assumptions C04_unfused_total.

(* ---- the ternary ENGINE (`ternary_apply`), modelled order-faithfully in Model/Apply3.v: its three input flips and its
   output flip act as bit inversions, and its only panics are the argument checks ---- *)
From BddVerif Require Import Model.Apply3 Proofs.Apply3Sem.

Theorem C04_ternary_engine_flip_semantics : forall A B C fa fb fc fo op,
  wf A -> wf B -> wf C -> nvars A = nvars B -> nvars B = nvars C ->
  (flip_ok (nvars A) fa && flip_ok (nvars A) fb && flip_ok (nvars A) fc && flip_ok (nvars A) fo = true) ->
  total3 op -> consistent3 op ->
  exists r, fused_ternary_flip_op_faithful A B C fa fb fc fo op = Ok r /\ Canonical r /\ nvars r = nvars A /\
    forall v, eval r v = conn3 op (eval A (oflip fa (oflip fo v))) (eval B (oflip fb (oflip fo v)))
                                  (eval C (oflip fc (oflip fo v))).
Proof. exact fused_ternary_flip_op_faithful_correct. Qed.
Print Assumptions C04_ternary_engine_flip_semantics.

Theorem C04_ternary_engine_flip_bounds : forall A B C fa fb fc fo op,
  wf A -> wf B -> wf C -> total3 op -> consistent3 op ->
  (fused_ternary_flip_op_faithful A B C fa fb fc fo op = Panic <->
   (~ (nvars A = nvars B /\ nvars B = nvars C) \/
    flip_ok (nvars A) fa && flip_ok (nvars A) fb && flip_ok (nvars A) fc && flip_ok (nvars A) fo = false)).
Proof. exact ternary_faithful_panic_iff. Qed.
Print Assumptions C04_ternary_engine_flip_bounds.

Theorem C04_ternary_engine_eq_compositional : forall A B C fa fb fc fo op,
  wf A -> wf B -> wf C -> total3 op -> consistent3 op ->
  fused_ternary_flip_op_faithful A B C fa fb fc fo op = fused_ternary_flip_op A B C fa fb fc fo op.
Proof. exact ternary_faithful_eq. Qed.
Print Assumptions C04_ternary_engine_eq_compositional.

(* the efficient ternary engine (Model/Apply3Fast.v) run by the driver on operands above 300 nodes: equal to the
   reference engine on ALL inputs, hence the same flip semantics *)
From BddVerif Require Import Model.Apply3Fast Proofs.Apply3Fast.

Theorem C04_ternary_fast_refines : forall A B C fa fb fc fo op,
  fused_ternary_flip_op_faithful_fast A B C fa fb fc fo op = fused_ternary_flip_op_faithful A B C fa fb fc fo op.
Proof. exact fused_ternary_flip_op_faithful_fast_eq. Qed.
Print Assumptions C04_ternary_fast_refines.

Theorem C04_ternary_fast_flip_semantics : forall A B C fa fb fc fo op,
  wf A -> wf B -> wf C -> nvars A = nvars B -> nvars B = nvars C ->
  (flip_ok (nvars A) fa && flip_ok (nvars A) fb && flip_ok (nvars A) fc && flip_ok (nvars A) fo = true) ->
  total3 op -> consistent3 op ->
  exists r, fused_ternary_flip_op_faithful_fast A B C fa fb fc fo op = Ok r /\ Canonical r /\ nvars r = nvars A /\
    forall v, eval r v = conn3 op (eval A (oflip fa (oflip fo v))) (eval B (oflip fb (oflip fo v)))
                                  (eval C (oflip fc (oflip fo v))).
Proof. exact fused_ternary_flip_op_faithful_fast_correct. Qed.
Print Assumptions C04_ternary_fast_flip_semantics.

(* the explicit-stack loop of `ternary_apply` modelled iteration by iteration (Model/Apply3Stack.v): at API level (the
   argument checks are part of the function) it returns the outcome of the order-faithful engine for valid operands and
   any table that answers on total inputs — whatever the four flips are — hence the same flip semantics and panics *)
From BddVerif Require Model.Apply3Stack Proofs.Apply3Stack.

Theorem C04_ternary_stack_machine_refines : forall A B C fa fb fc fo op,
  wf A -> wf B -> wf C -> total3 op ->
  Apply3Stack.fused_ternary_flip_op_stack A B C fa fb fc fo op = fused_ternary_flip_op_faithful A B C fa fb fc fo op.
Proof. exact Proofs.Apply3Stack.fused_ternary_flip_op_stack_eq. Qed.
Print Assumptions C04_ternary_stack_machine_refines.

Theorem C04_ternary_stack_machine_flip_semantics : forall A B C fa fb fc fo op,
  wf A -> wf B -> wf C -> nvars A = nvars B -> nvars B = nvars C ->
  (flip_ok (nvars A) fa && flip_ok (nvars A) fb && flip_ok (nvars A) fc && flip_ok (nvars A) fo = true) ->
  total3 op -> consistent3 op ->
  exists r, Apply3Stack.fused_ternary_flip_op_stack A B C fa fb fc fo op = Ok r /\ Canonical r /\ nvars r = nvars A /\
    forall v, eval r v = conn3 op (eval A (oflip fa (oflip fo v))) (eval B (oflip fb (oflip fo v)))
                                  (eval C (oflip fc (oflip fo v))).
Proof. exact Proofs.Apply3Stack.fused_ternary_flip_op_stack_correct. Qed.
Print Assumptions C04_ternary_stack_machine_flip_semantics.

(* no hypotheses at all: the machine panics exactly on the argument checks *)
Theorem C04_ternary_stack_machine_flip_bounds : forall A B C fa fb fc fo op,
  Apply3Stack.fused_ternary_flip_op_stack A B C fa fb fc fo op = Panic <->
  (~ (nvars A = nvars B /\ nvars B = nvars C) \/
   flip_ok (nvars A) fa && flip_ok (nvars A) fb && flip_ok (nvars A) fc && flip_ok (nvars A) fo = false).
Proof. exact Proofs.Apply3Stack.fused_ternary_flip_op_stack_panic_iff. Qed.
Print Assumptions C04_ternary_stack_machine_flip_bounds.

(* ---- "fused = separate steps" for the TERNARY operator (C04_fused_eq_unfused is the binary one): flipping each operand with
   the stand-alone single-operand flip `flip_opt`, applying `ternary_op`, then flipping the output yields the very array of the
   fused call.  For the compositional model no hypothesis on the table is needed (it reads the table through conn3 only); for
   the order-faithful engine (Model/Apply3.v) the table is total and consistent. ---- *)
From BddVerif Require Proofs.GapsFlip.

Theorem C04_fused_ternary_eq_unfused : forall A B C fa fb fc fo op,
  wf A -> wf B -> wf C -> nvars A = nvars B -> nvars B = nvars C ->
  (flip_ok (nvars A) fa && flip_ok (nvars A) fb && flip_ok (nvars A) fc && flip_ok (nvars A) fo = true) ->
  forall A' B' C' R U,
    flip_opt fa A = Ok A' -> flip_opt fb B = Ok B' -> flip_opt fc C = Ok C' ->
    ternary_op A' B' C' op = Ok R -> flip_opt fo R = Ok U ->
    fused_ternary_flip_op A B C fa fb fc fo op = Ok U.
Proof. exact GapsFlip.fused_ternary_eq_unfused. Qed.
Print Assumptions C04_fused_ternary_eq_unfused.

(* the separate steps always succeed under the same hypotheses *)
Theorem C04_unfused_ternary_total : forall A B C fa fb fc fo op,
  wf A -> wf B -> wf C -> nvars A = nvars B -> nvars B = nvars C ->
  (flip_ok (nvars A) fa && flip_ok (nvars A) fb && flip_ok (nvars A) fc && flip_ok (nvars A) fo = true) ->
  exists A' B' C' R U, flip_opt fa A = Ok A' /\ flip_opt fb B = Ok B' /\ flip_opt fc C = Ok C' /\
    ternary_op A' B' C' op = Ok R /\ flip_opt fo R = Ok U /\
    wf A' /\ wf B' /\ wf C' /\ Canonical U /\ nvars U = nvars A /\
    forall v, eval U v = conn3 op (eval A (oflip fa (oflip fo v))) (eval B (oflip fb (oflip fo v)))
                                  (eval C (oflip fc (oflip fo v))).
Proof. exact GapsFlip.unfused_ternary_total. Qed.
Print Assumptions C04_unfused_ternary_total.

(* the order-faithful engine: ternary_op_faithful / fused_ternary_flip_op_faithful *)
Theorem C04_fused_ternary_engine_eq_unfused : forall A B C fa fb fc fo op,
  wf A -> wf B -> wf C -> nvars A = nvars B -> nvars B = nvars C ->
  (flip_ok (nvars A) fa && flip_ok (nvars A) fb && flip_ok (nvars A) fc && flip_ok (nvars A) fo = true) ->
  total3 op -> consistent3 op ->
  forall A' B' C' R U,
    flip_opt fa A = Ok A' -> flip_opt fb B = Ok B' -> flip_opt fc C = Ok C' ->
    ternary_op_faithful A' B' C' op = Ok R -> flip_opt fo R = Ok U ->
    fused_ternary_flip_op_faithful A B C fa fb fc fo op = Ok U.
Proof. exact GapsFlip.fused_ternary_faithful_eq_unfused. Qed.
Print Assumptions C04_fused_ternary_engine_eq_unfused.

Theorem C04_unfused_ternary_engine_total : forall A B C fa fb fc fo op,
  wf A -> wf B -> wf C -> nvars A = nvars B -> nvars B = nvars C ->
  (flip_ok (nvars A) fa && flip_ok (nvars A) fb && flip_ok (nvars A) fc && flip_ok (nvars A) fo = true) ->
  total3 op -> consistent3 op ->
  exists A' B' C' R U, flip_opt fa A = Ok A' /\ flip_opt fb B = Ok B' /\ flip_opt fc C = Ok C' /\
    ternary_op_faithful A' B' C' op = Ok R /\ flip_opt fo R = Ok U /\ Canonical U /\ nvars U = nvars A /\
    forall v, eval U v = conn3 op (eval A (oflip fa (oflip fo v))) (eval B (oflip fb (oflip fo v)))
                                  (eval C (oflip fc (oflip fo v))).
Proof. exact GapsFlip.unfused_ternary_faithful_total. Qed.
Print Assumptions C04_unfused_ternary_engine_total.

(* A = x0 /\ x1, B = x1 \/ x2, C = x2 over 3 variables, flips (0, 2, 2, 1), if-then-else: every flip changes its diagram *)
Example C04_fused_ternary_unfused_example :
  let A := [mkNode 3 0 0; mkNode 3 1 1; mkNode 1 0 1; mkNode 0 0 2] in
  let B := [mkNode 3 0 0; mkNode 3 1 1; mkNode 2 0 1; mkNode 1 2 1] in
  let C := [mkNode 3 0 0; mkNode 3 1 1; mkNode 2 0 1] in
  canonicalb A = true /\ canonicalb B = true /\ canonicalb C = true /\
  exists A' B' C' R U,
    flip_var A 0 = Ok A' /\ flip_var B 2 = Ok B' /\ flip_var C 2 = Ok C' /\
    ternary_op A' B' C' ite_function = Ok R /\ ternary_op_faithful A' B' C' ite_function = Ok R /\ flip_var R 1 = Ok U /\
    A' <> A /\ B' <> B /\ C' <> C /\ U <> R /\
    fused_ternary_flip_op A B C (Some 0) (Some 2) (Some 2) (Some 1) ite_function = Ok U /\
    fused_ternary_flip_op_faithful A B C (Some 0) (Some 2) (Some 2) (Some 1) ite_function = Ok U.
Proof. exact GapsFlip.fused_ternary_unfused_example. Qed.
Print Assumptions C04_fused_ternary_unfused_example.
