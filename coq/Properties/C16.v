(* C16 — Variable sets, literals and threshold constructors are faithful.
   Part 1 (names): Model/VarSet.v, Proofs/VarSet.v.  Part 2 (constructors, thresholds): Model/Ops.v,
   Proofs/NormalForms.v, Proofs/Thresholds.v.
   Reading of the size limit (recorded): the Rust test is `len >= u16::MAX - 1`; the builder performs it before
   each insertion (so 65534 variables are accepted), BddVariableSet::new and new_anonymous perform it on the
   requested size (so only 65533 are).  Both are modelled as they are; the property text does not fix the number. *)
From Coq Require Import List NArith Bool. Import ListNotations.
From BddVerif Require Import Model.Bdd Model.Apply Model.Ops Model.VarSet Proofs.Sem Proofs.Canon Proofs.NormalForms
  Proofs.Thresholds Proofs.VarSet.
Open Scope N_scope.
From BddVerif Require Import Model.OpsFast Proofs.OpsFast.

(* ======================================================================================== *)
(* names                                                                                     *)

(* one make_variable call: accepted exactly when the builder is below the limit, the name is new and contains no
   forbidden character (the empty name is accepted); the variable returned is the declaration index; a rejected
   call panics *)
Theorem C16_make_variable : forall bl s,
  (N.of_nat (length bl) < MAX_VARS /\ ~ In s bl /\ name_ok s /\
     make_variable bl s = Ok (bl ++ [s], N.of_nat (length bl))) \/
  ((MAX_VARS <= N.of_nat (length bl) \/ In s bl \/ ~ name_ok s) /\ make_variable bl s = Panic).
Proof. exact make_variable_spec. Qed.
Print Assumptions C16_make_variable.

Theorem C16_name_ok_iff : forall s, name_ok s <-> forall c, In c s -> ~ In c [33; 38; 124; 94; 61; 60; 62; 40; 41; 63; 58].
Proof. exact name_ok_iff. Qed.
Print Assumptions C16_name_ok_iff.

(* builder_rejects: a name list builds (builder / From<Vec<String>>) iff it is duplicate free, every name is
   admissible and it fits the size limit; otherwise the construction panics — and never anything else *)
Theorem C16_builder_rejects : forall names,
  (admissible 65534 names /\ vs_from names = Ok (set_of names)) \/ (~ admissible 65534 names /\ vs_from names = Panic).
Proof. exact builder_rejects. Qed.
Print Assumptions C16_builder_rejects.

Theorem C16_new_rejects : forall names,
  (admissible 65533 names /\ vs_new names = Ok (set_of names)) \/ (~ admissible 65533 names /\ vs_new names = Panic).
Proof. exact new_rejects. Qed.
Print Assumptions C16_new_rejects.

Theorem C16_new_eq_from : forall names, N.of_nat (length names) <= 65533 -> vs_new names = vs_from names.
Proof. exact vs_new_eq_from. Qed.
Print Assumptions C16_new_eq_from.

(* names_bijective: in a successfully built set, names and variables correspond bijectively in declaration order *)
Theorem C16_names_bijective : forall names, NoDup names -> N.of_nat (length names) <= 65534 ->
  let vs := set_of names in
  num_vars vs = N.of_nat (length names) /\ variable_names vs = names /\ variables vs = nrange (length names) 0 /\
  (forall k s, nth_error names k = Some s -> var_by_name vs s = Some (N.of_nat k) /\ name_of vs (N.of_nat k) = Ok s) /\
  (forall v, v < num_vars vs -> exists s, name_of vs v = Ok s /\ var_by_name vs s = Some v) /\
  (forall v, num_vars vs <= v -> name_of vs v = Panic) /\
  (forall s v, var_by_name vs s = Some v -> v < num_vars vs /\ name_of vs v = Ok s) /\
  (forall s, ~ In s names -> var_by_name vs s = None).
Proof. exact names_bijective. Qed.
Print Assumptions C16_names_bijective.

(* anonymous sets: names x_0 .. x_{n-1} (decimal index), pairwise distinct, the same set as building these names *)
Theorem C16_anonymous_names : forall n,
  (n < 65534 -> new_anonymous n = Ok (set_of (anon_names n)) /\ NoDup (anon_names n) /\ length (anon_names n) = N.to_nat n /\
                (forall i, i < n -> nth_error (anon_names n) (N.to_nat i) = Some ([120; 95] ++ decimal i)) /\
                new_anonymous n = vs_from (anon_names n)) /\
  (65534 <= n -> new_anonymous n = Panic).
Proof. exact anonymous_names. Qed.
Print Assumptions C16_anonymous_names.

Theorem C16_decimal_injective : forall a b, decimal a = decimal b -> a = b.
Proof. exact decimal_inj. Qed.
Print Assumptions C16_decimal_injective.

Theorem C16_mk_var_by_name : forall names s c, NoDup names -> N.of_nat (length names) <= 65534 ->
  (forall k, nth_error names k = Some s -> mk_var_by_name (set_of names) s c = Ok (mk_literal (N.of_nat (length names)) (N.of_nat k) c)) /\
  (~ In s names -> mk_var_by_name (set_of names) s c = Panic).
Proof. exact mk_var_by_name_spec. Qed.
Print Assumptions C16_mk_var_by_name.

(* ======================================================================================== *)
(* constants, literals, single valuations                                                    *)
Theorem C16_mk_true : forall nv, Canonical (mk_true nv) /\ nvars (mk_true nv) = nv /\ forall v, eval (mk_true nv) v = true.
Proof. intro nv. split; [exact (canonical_mk_true nv)|]. split; [reflexivity|exact (eval_mk_true nv)]. Qed.
Print Assumptions C16_mk_true.

Theorem C16_mk_false : forall nv, Canonical (mk_false nv) /\ nvars (mk_false nv) = nv /\ forall v, eval (mk_false nv) v = false.
Proof. intro nv. split; [exact (canonical_mk_false nv)|]. split; [reflexivity|exact (eval_mk_false nv)]. Qed.
Print Assumptions C16_mk_false.

(* mk_var = literal true, mk_not_var = literal false *)
Theorem C16_mk_literal : forall nv x c, x < nv ->
  exists r, vs_mk_literal nv x c = Ok r /\ wf r /\ nvars r = nv /\ (forall v, eval r v = Bool.eqb (v x) c) /\ Canonical r.
Proof. exact vs_mk_literal_correct. Qed.
Print Assumptions C16_mk_literal.

Theorem C16_mk_literal_ok_iff : forall nv x c, (exists r, vs_mk_literal nv x c = Ok r) <-> x < nv.
Proof. exact vs_mk_literal_ok_iff. Qed.
Print Assumptions C16_mk_literal_ok_iff.

(* Bdd::from(valuation): satisfied by exactly the valuations that agree with l on its variables *)
Theorem C16_of_valuation : forall l,
  wf (of_valuation l) /\ nvars (of_valuation l) = N.of_nat (length l) /\
  (forall v, eval (of_valuation l) v = true <-> forall i, (i < length l)%nat -> v (N.of_nat i) = nth i l false) /\
  Canonical (of_valuation l).
Proof. exact of_valuation_correct. Qed.
Print Assumptions C16_of_valuation.

(* ======================================================================================== *)
(* thresholds: every k (0, and above the list length, included), lists in any order and with repetitions; the
   count is taken on the SET of listed variables *)
Theorem C16_sat_exactly_k : forall nv k vars, (forall x, In x vars -> x < nv) ->
  exists r, mk_sat_k false nv k vars = Ok r /\ wf r /\ nvars r = nv /\ Canonical r /\
    forall v, eval r v = (count_true v (nodup N.eq_dec vars) =? k).
Proof. exact mk_sat_exactly_k_correct. Qed.
Print Assumptions C16_sat_exactly_k.

Theorem C16_sat_up_to_k : forall nv k vars, (forall x, In x vars -> x < nv) ->
  exists r, mk_sat_k true nv k vars = Ok r /\ wf r /\ nvars r = nv /\ Canonical r /\
    forall v, eval r v = (count_true v (nodup N.eq_dec vars) <=? k).
Proof. exact mk_sat_up_to_k_correct. Qed.
Print Assumptions C16_sat_up_to_k.

Theorem C16_sat_k_panic : forall upto nv k vars, (exists x, In x vars /\ nv <= x) -> mk_sat_k upto nv k vars = Panic.
Proof. exact mk_sat_k_panic. Qed.
Print Assumptions C16_sat_k_panic.

(* ======================================================================================== *)
(* the hypotheses are satisfiable on non-trivial instances *)
Example C16_ex_names :
  vs_from [[97]; []; [120; 32; 121]] = Ok (set_of [[97]; []; [120; 32; 121]]) /\
  var_by_name (set_of [[97]; []; [120; 32; 121]]) [120; 32; 121] = Some 2 /\
  name_of (set_of [[97]; []; [120; 32; 121]]) 1 = Ok [] /\
  vs_from [[97]; [98]; [97]] = Panic /\ vs_new [[97]; [98; 63]] = Panic /\
  display (set_of [[97]; []; [120; 32; 121]]) = [91; 97; 44; 44; 120; 32; 121; 93] /\
  (exists vs, new_anonymous 12 = Ok vs /\ var_by_name vs [120; 95; 49; 49] = Some 11 /\ var_by_name vs [120; 95; 48; 49] = None).
Proof. vm_compute. repeat split. eexists. repeat split. Qed.
Print Assumptions C16_ex_names.

Example C16_ex_threshold : exists r, mk_sat_k false 4 2 [3; 0; 3; 1] = Ok r /\
  eval r (val_of_list [true; true; true; false]) = true /\ eval r (val_of_list [true; true; false; true]) = false /\
  eval r (val_of_list [false; false; true; true]) = false.
Proof. vm_compute. eexists. repeat split. Qed.
Print Assumptions C16_ex_threshold.

(* thresholds above the number of distinct listed variables (e.g. k = 65,536): the answer is the constant, and the
   shortcut the model driver uses for such k is equal to the reference model *)
Theorem C16_sat_k_large_threshold : forall upto nv k vars, mk_sat_k_fast upto nv k vars = mk_sat_k upto nv k vars.
Proof. exact mk_sat_k_fast_eq. Qed.
Print Assumptions C16_sat_k_large_threshold.

(* ======================================================================================== *)
(* thresholds, two-sided: the constructors answer Ok exactly when every listed variable is in range (any k, any
   order, repetitions allowed) and Panic exactly otherwise — never anything else *)
From BddVerif Require Import Proofs.Gaps3Thresholds.

Theorem C16_sat_exactly_k_ok_iff : forall nv k vars,
  (exists r, mk_sat_k false nv k vars = Ok r) <-> (forall x, In x vars -> x < nv).
Proof. exact (mk_sat_k_ok_iff false). Qed.
Print Assumptions C16_sat_exactly_k_ok_iff.

Theorem C16_sat_up_to_k_ok_iff : forall nv k vars,
  (exists r, mk_sat_k true nv k vars = Ok r) <-> (forall x, In x vars -> x < nv).
Proof. exact (mk_sat_k_ok_iff true). Qed.
Print Assumptions C16_sat_up_to_k_ok_iff.

Theorem C16_sat_k_panic_iff : forall upto nv k vars,
  mk_sat_k upto nv k vars = Panic <-> (exists x, In x vars /\ nv <= x).
Proof. exact mk_sat_k_panic_iff. Qed.
Print Assumptions C16_sat_k_panic_iff.

Theorem C16_sat_k_total : forall upto nv k vars,
  ((forall x, In x vars -> x < nv) /\
     exists r, mk_sat_k upto nv k vars = Ok r /\ Canonical r /\ nvars r = nv /\
       forall v, eval r v = if upto then count_true v (nodup N.eq_dec vars) <=? k
                            else count_true v (nodup N.eq_dec vars) =? k) \/
  ((exists x, In x vars /\ nv <= x) /\ mk_sat_k upto nv k vars = Panic).
Proof. exact mk_sat_k_total. Qed.
Print Assumptions C16_sat_k_total.
