(* C15 — expressions, the bdd! macro and the Bdd-to-expression export denote the same function.
   `names` is the declaration-order list of variable names of the BddVariableSet; `env_of names v` reads the
   variable with name x at the index of x; `declared names e` = every variable of e is declared. *)
From Coq Require Import List NArith Bool. Import ListNotations.
From BddVerif Require Import Model.Bdd Model.Apply Model.Ops Model.Expr Proofs.Sem Proofs.Canon Proofs.ApplyTop
  Proofs.ExprParse Proofs.ExprShow Proofs.ExprEval Model.Alias Proofs.Alias Proofs.ExprTable Generated.ExprTables Proofs.ExprSource.
Open Scope N_scope.

(* eval_expression returns the (canonical) diagram of the function obtained by evaluating the tree pointwise *)
Theorem C15_eval_expr_sem : forall names e, declared names e = true ->
  exists r, eval_expr names e = Ok r /\ Canonical r /\ nvars r = nvars_of names /\
    forall v, eval r v = esem e (env_of names v).
Proof. exact eval_expr_sem. Qed.
Print Assumptions C15_eval_expr_sem.

Theorem C15_safe_eval_expr_sem : forall names e, declared names e = true ->
  exists r, safe_eval_expr names e = Ok (Some r) /\ Canonical r /\ nvars r = nvars_of names /\
    forall v, eval r v = esem e (env_of names v).
Proof. exact safe_eval_expr_sem. Qed.
Print Assumptions C15_safe_eval_expr_sem.

(* safe_eval_expression returns None exactly when a variable name is unknown (and never panics);
   eval_expression panics exactly then *)
Theorem C15_safe_eval_none_iff : forall names e, safe_eval_expr names e = Ok None <-> declared names e = false.
Proof. exact safe_eval_none_iff. Qed.
Print Assumptions C15_safe_eval_none_iff.

Theorem C15_safe_eval_total : forall names e,
  (exists r, safe_eval_expr names e = Ok (Some r)) \/ safe_eval_expr names e = Ok None.
Proof. exact safe_eval_expr_total. Qed.
Print Assumptions C15_safe_eval_total.

Theorem C15_eval_expr_panic_iff : forall names e, eval_expr names e = Panic <-> declared names e = false.
Proof. exact eval_expr_panic_iff. Qed.
Print Assumptions C15_eval_expr_panic_iff.

(* export: for every canonical Bdd over the declared (pairwise distinct) names the exported expression is
   produced without panic, mentions declared variables only and denotes the Bdd's function *)
Theorem C15_to_expr_sem : forall names b, Canonical b -> NoDup names -> nvars b = nvars_of names ->
  exists e, to_expr names b = Ok e /\ declared names e = true /\ forall v, esem e (env_of names v) = eval b v.
Proof. exact to_expr_sem. Qed.
Print Assumptions C15_to_expr_sem.

(* ... and evaluating it returns a Bdd EQUAL to b (identical node array) *)
Theorem C15_export_roundtrip : forall names b, Canonical b -> NoDup names -> nvars b = nvars_of names ->
  exists e, to_expr names b = Ok e /\ eval_expr names e = Ok b.
Proof. exact export_roundtrip. Qed.
Print Assumptions C15_export_roundtrip.

(* ... also after printing the expression and parsing the text again (parser-safe names) *)
Theorem C15_export_text_roundtrip : forall names b,
  Canonical b -> NoDup names -> nvars b = nvars_of names -> Forall (fun x => safe_name x = true) names ->
  exists e, to_expr names b = Ok e /\ parse_string (show e) = POk e /\ eval_expr names e = Ok b.
Proof. exact export_text_roundtrip. Qed.
Print Assumptions C15_export_text_roundtrip.

(* bdd!: each binary rule `$l SYM $r => l.METHOD(&r)`; the operator table of METHOD computes the connective of SYM
   (the correspondence check compares every macro rule with its method chain inside the harness) *)
Theorem C15_macro_binary_sem : forall s op A B, macro_binary s = Some op -> wf A -> wf B -> nvars A = nvars B ->
  exists r, binary_op A B op = Ok r /\ Canonical r /\ nvars r = nvars A /\ forall v, eval r v = msem s (eval A v) (eval B v).
Proof. exact macro_binary_sem. Qed.
Print Assumptions C15_macro_binary_sem.

(* the hypotheses are satisfiable on non-trivial instances: x0 ? !x2 : (x1 <=> x2) and the diagram of (x0 & x1) | (!x0 & x2) *)
Example C15_nonvacuous :
  let names := [[120; 95; 48]; [120; 95; 49]; [121]] in
  let e := ECond (EVar [120; 95; 48]) (ENot (EVar [121])) (EIff (EVar [120; 95; 49]) (EVar [121])) in
  let b := [mkNode 3 0 0; mkNode 3 1 1; mkNode 1 0 1; mkNode 2 0 1; mkNode 0 3 2] in
  declared names e = true /\
  eval_expr names e = Ok [mkNode 3 0 0; mkNode 3 1 1; mkNode 2 1 0; mkNode 2 0 1; mkNode 1 2 3; mkNode 0 4 2] /\
  safe_eval_expr [[120; 95; 48]] e = Ok None /\ eval_expr [[120; 95; 48]] e = Panic /\
  canonicalb b = true /\
  to_expr names b = Ok (EOr (EAnd (EVar [120; 95; 48]) (EVar [120; 95; 49])) (EAnd (ENot (EVar [120; 95; 48])) (EVar [121]))) /\
  (exists e', to_expr names b = Ok e' /\ eval_expr names e' = Ok b /\ parse_string (show e') = POk e').
Proof.
  cbv zeta. do 6 (split; [vm_compute; reflexivity|]).
  exists (EOr (EAnd (EVar [120; 95; 48]) (EVar [120; 95; 49])) (EAnd (ENot (EVar [120; 95; 48])) (EVar [121]))).
  split; [vm_compute; reflexivity|]. split; vm_compute; reflexivity.
Qed.
Print Assumptions C15_nonvacuous.

(* ---- eval_expression_string (Model/Alias.v: try_from(text).unwrap(), then eval_expression) *)
Theorem C15_eval_expr_string_sem : forall names s e, parse_string s = POk e -> declared names e = true ->
  exists r, eval_expr_string names s = Ok r /\ Canonical r /\ nvars r = nvars_of names /\
    forall v, eval r v = esem e (env_of names v).
Proof. exact eval_expr_string_sem. Qed.
Print Assumptions C15_eval_expr_string_sem.
Theorem C15_eval_expr_string_panic_iff : forall names s,
  eval_expr_string names s = Panic <->
  parse_string s = PErr \/ exists e, parse_string s = POk e /\ declared names e = false.
Proof. exact eval_expr_string_panic_iff. Qed.
Print Assumptions C15_eval_expr_string_panic_iff.
Theorem C15_eval_expr_string_show : forall names e, safe_names e = true -> eval_expr_string names (show e) = eval_expr names e.
Proof. exact eval_expr_string_show. Qed.
Print Assumptions C15_eval_expr_string_show.

(* ---- translator obligation: the rules of the bdd! macro (operator symbol -> method, with and without a variable set) are
   re-read from src/_macro_bdd.rs by tools/gen_expr.py on every run of this check and are the model's symbol table *)
Theorem C15_source_macro : src_macro = model_macro /\ forall v s m, In (v, s, m) src_macro -> macro_binary s = method_op m.
Proof. exact (conj src_macro_eq source_macro). Qed.
Print Assumptions C15_source_macro.
