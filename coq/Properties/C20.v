(* C20 — Graph export lists exactly the nodes and edges of the diagram.
   Model/Dot.v (writer `dot_lines`, spec-side reader `parse_dot`, `graph_eval`), Proofs/Dot.v.
   The theorems are at the level of the emitted byte strings: `parse_line` inverts the line printer on every line
   (C20_printer_injective), for arbitrary label bytes.
   Reading recorded in DESIGN.md: the entry edge is not a diagram edge; for the `false` diagram it still points at 0 in
   pruned mode (vertex 0 is then undeclared and reads as the 0 terminal). *)
From Coq Require Import List NArith Bool. Import ListNotations.
From Coq Require String. Import String.StringSyntax. Delimit Scope string_scope with string.
From BddVerif Require Import Model.Bdd Model.Apply Model.Ops Model.VarSet Model.Dot Model.Serial Model.Alias Proofs.Sem Proofs.VarSet Proofs.Dot
  Proofs.SerialIO Proofs.Alias.
Open Scope N_scope.

(* every line the writer can emit is read back as itself: the concrete syntax loses nothing *)
Theorem C20_printer_injective : forall l, parse_line (print_line l) = Some l.
Proof. exact parse_print. Qed.
Print Assumptions C20_printer_injective.

(* the export of a well-formed diagram against a name list of the right length succeeds, in both modes *)
Theorem C20_dot_ok : forall b names pruned, wf b -> N.of_nat (length names) = nvars b ->
  dot_lines b names pruned = Ok (map print_line (frame b pruned (flat_map (node_lines b names pruned) (idxs b)))).
Proof. exact dot_ok. Qed.
Print Assumptions C20_dot_ok.

(* it panics exactly when the array is empty, the name count differs from the variable count or a decision variable
   has no name; never anything else *)
Theorem C20_dot_panic_iff : forall b names pruned, dot_lines b names pruned = Panic <->
  ~ (size b <> 0 /\ N.of_nat (length names) = nvars b /\ forall p, In p (idxs b) -> var_of b p < N.of_nat (length names)).
Proof. exact dot_panic_iff. Qed.
Print Assumptions C20_dot_panic_iff.

(* dot_faithful: reading the emitted lines back yields EXACTLY: the entry edge to the root; vertex 1 and (unpruned)
   vertex 0; one vertex per index >= 2 labelled names[var]; per decision node one filled edge to high and one dotted
   edge to low (pruned: those whose target is not 0), in node order *)
Theorem C20_dot_faithful : forall b names pruned ss, dot_lines b names pruned = Ok ss ->
  parse_dot ss = Some (mkGraph [size b - 1]
                               (if pruned then [1] else [0; 1])
                               (map (fun p => (p, nth (N.to_nat (var_of b p)) names [])) (idxs b))
                               (filter (fun e => negb pruned || negb (snd (fst e) =? 0))
                                       (flat_map (fun p => [(p, nhigh (get b p), Filled); (p, nlow (get b p), Dotted)]) (idxs b)))).
Proof. exact dot_faithful. Qed.
Print Assumptions C20_dot_faithful.

(* dot_pruned_diff: the pruned text is the unpruned text minus the line of vertex 0 and minus exactly the decision
   edges whose target is 0 — every other line (the entry edge included) is kept, in order; and the two modes succeed
   on the same inputs *)
Theorem C20_dot_pruned_diff : forall b names,
  (forall su, dot_lines b names false = Ok su ->
     dot_lines b names true =
     Ok (filter (fun s => match parse_line s with
                          | Some (LTerm false) => false
                          | Some (LEdge _ q _) => negb (q =? 0)
                          | _ => true
                          end) su)) /\
  (dot_lines b names false = Panic <-> dot_lines b names true = Panic).
Proof. exact dot_pruned_diff_explicit. Qed.
Print Assumptions C20_dot_pruned_diff.

(* dot_eval: the graph read back from the text, evaluated from the entry edge under any valuation of the labels,
   equals the Bdd evaluated under the induced valuation of the variables *)
Theorem C20_dot_eval : forall b names pruned ss, wf b -> dot_lines b names pruned = Ok ss ->
  exists g, parse_dot ss = Some g /\
    forall lv, graph_eval g lv = eval b (fun x => lv (nth (N.to_nat x) names [])).
Proof. exact dot_eval. Qed.
Print Assumptions C20_dot_eval.

(* with the names of a variable set (duplicate free) the labels identify the variables *)
Theorem C20_dot_read_eval : forall b names pruned ss vl, wf b -> NoDup names -> N.of_nat (length names) <= 65534 ->
  dot_lines b names pruned = Ok ss -> dot_read_eval ss names vl = Some (eval b (val_of_list vl)).
Proof. exact dot_read_eval_correct. Qed.
Print Assumptions C20_dot_read_eval.

(* non-trivial instance: c & !d over a..e (the golden file of the crate), pruned; shared node and both-terminal children *)
Example C20_ex_golden :
  dot_text [mkNode 5 0 0; mkNode 5 1 1; mkNode 3 1 0; mkNode 2 0 2] [[97]; [98]; [99]; [100]; [101]] true =
  Ok (bytes "digraph G {
init__ [label="""", style=invis, height=0, width=0];
init__ -> 3;
1 [shape=box, label=""1"", style=filled, shape=box, height=0.3, width=0.3];
2[label=""d""];
2 -> 1 [style=dotted];
3[label=""c""];
3 -> 2 [style=filled];
}
"%string).
Proof. vm_compute. reflexivity. Qed.
Print Assumptions C20_ex_golden.

Example C20_ex_shared : exists ss g,
  dot_lines [mkNode 2 0 0; mkNode 2 1 1; mkNode 1 0 1; mkNode 1 1 0; mkNode 0 2 3] [[120; 32; 121]; [34; 93; 59]] false = Ok ss /\
  parse_dot ss = Some g /\ g_verts g = [(2, [34; 93; 59]); (3, [34; 93; 59]); (4, [120; 32; 121])] /\
  g_edges g = [(2, 1, Filled); (2, 0, Dotted); (3, 0, Filled); (3, 1, Dotted); (4, 3, Filled); (4, 2, Dotted)] /\
  dot_read_eval ss [[120; 32; 121]; [34; 93; 59]] [true; false] = Some true.
Proof. vm_compute. eexists. eexists. repeat split. Qed.
Print Assumptions C20_ex_shared.

(* write_as_dot_string into ANY writer that accepts the bytes in pieces and may be interrupted (a clean schedule): the
   bytes that arrive are exactly the text of to_dot_string, and the call answers Ok *)
Theorem C20_dot_write_clean : forall b names pruned sched text, clean sched -> dot_of_names b names pruned = Ok text ->
  dot_write_sched_m b names pruned sched = Ok (true, text).
Proof. exact dot_write_clean. Qed.
Print Assumptions C20_dot_write_clean.
