(* C07 — substitution equals syntactic replacement of a variable by a function. *)
From Coq Require Import List NArith Bool. Import ListNotations.
From BddVerif Require Import Model.Bdd Model.Apply Model.Ops Model.Substitute Proofs.Sem Proofs.Canon Proofs.ApplySem Proofs.ApplyTop Proofs.RelSem
  Proofs.SubstituteSem.
Open Scope N_scope.

(* f.substitute(x, g) at v = f at v with x replaced by g(v) — also when g depends on x; never a panic
   for operands over the same variable count *)
Theorem C07_substitute : forall f x g, wf f -> wf g -> nvars f = nvars g -> x < nvars f ->
  exists r, substitute f x g = Ok r /\ wf r /\ nvars r = nvars f /\
    forall v, eval r v = eval f (upd v x (eval g v)).
Proof. exact substitute_correct. Qed.
Print Assumptions C07_substitute.

(* g depends on x, and has a variable above x that f does not mention (the shape that broke the pinned code) *)
Example C07_nonvacuous :
  let f := [mkNode 2 0 0; mkNode 2 1 1; mkNode 0 0 1] in
  let g := [mkNode 2 0 0; mkNode 2 1 1; mkNode 1 0 1; mkNode 0 0 2] in
  wfb f = true /\ wfb g = true /\ substitute f 0 g = Ok g.
Proof. vm_compute. repeat split; reflexivity. Qed.
Print Assumptions C07_nonvacuous.

(* ---- the same property about the library's OWN algorithm (Model/Substitute.v: step-faithful composition of the
   faithful models of support_set, set_num_vars, rename_variables, mk_literal, iff and the nested apply, with the
   clone / safe / proxy-variable paths of the Rust and every unwrap/assert as an explicit Panic) ---- *)

(* never a panic for well-formed operands over the same variable count below the u16 maximum, and the result is
   f at v with x replaced by g(v) — also when g depends on x (proxy-variable path) *)
Theorem C07_substitute_faithful_correct : forall f x g,
  wf f -> wf g -> nvars f = nvars g -> x < nvars f -> nvars f < 65535 ->
  exists r, substitute_faithful f x g = Ok r /\ wf r /\ nvars r = nvars f /\
    forall v, eval r v = eval f (upd v x (eval g v)).
Proof. exact substitute_faithful_correct. Qed.
Print Assumptions C07_substitute_faithful_correct.

(* the library's algorithm returns the very array of the compositional model used in C07_substitute *)
Theorem C07_substitute_faithful_eq_model : forall f x g,
  wf f -> wf g -> nvars f = nvars g -> x < nvars f -> nvars f < 65535 ->
  substitute_faithful f x g = substitute f x g.
Proof. exact substitute_faithful_eq_model. Qed.
Print Assumptions C07_substitute_faithful_eq_model.

(* the documented limit ("fewer than the maximum number of variables"): the proxy variable cannot be created *)
Theorem C07_substitute_faithful_panic_bound : forall f x g, 65535 <= nvars f ->
  mem x (support f) = true -> mem x (support g) = true -> substitute_faithful f x g = Panic.
Proof. exact substitute_faithful_panic_bound. Qed.
Print Assumptions C07_substitute_faithful_panic_bound.

(* the proxy-variable path on the shape that broke the pinned code: g depends on x and has a variable above x
   that f does not mention; and the limit is reached with 65535 variables *)
Example C07_substitute_faithful_nonvacuous :
  let f := [mkNode 2 0 0; mkNode 2 1 1; mkNode 0 0 1] in
  let g := [mkNode 2 0 0; mkNode 2 1 1; mkNode 1 0 1; mkNode 0 0 2] in
  let h := [mkNode 65535 0 0; mkNode 65535 1 1; mkNode 0 0 1] in
  wfb f = true /\ wfb g = true /\ mem 0 (support f) = true /\ mem 0 (support g) = true /\
  substitute_faithful f 0 g = Ok g /\
  wfb h = true /\ substitute_faithful h 0 h = Panic.
Proof. vm_compute. repeat split; reflexivity. Qed.
Print Assumptions C07_substitute_faithful_nonvacuous.
