(* C07 — substitution equals syntactic replacement of a variable by a function. *)
From Coq Require Import List NArith Bool. Import ListNotations.
From BddVerif Require Import Model.Bdd Model.Apply Model.Ops Model.Substitute Proofs.Sem Proofs.Canon Proofs.ApplySem Proofs.ApplyTop Proofs.RelSem
  Proofs.SubstituteSem.
Open Scope N_scope.

(* f.substitute(x, g) at v = f at v with x replaced by g(v) — also when g depends on x; never a panic
   for operands over the same variable count *)
Theorem C07_substitute : forall f x g, wf f -> wf g -> nvars f = nvars g -> x < nvars f ->
  exists r, substitute f x g = Ok r /\ wf r /\ nvars r = nvars f /\
    forall v, eval r v = eval f (upd v x (eval g v)).
Proof. exact substitute_correct. Qed.
Print Assumptions C07_substitute.

(* g depends on x, and has a variable above x that f does not mention (the shape that broke the pinned code) *)
Example C07_nonvacuous :
  let f := [mkNode 2 0 0; mkNode 2 1 1; mkNode 0 0 1] in
  let g := [mkNode 2 0 0; mkNode 2 1 1; mkNode 1 0 1; mkNode 0 0 2] in
  wfb f = true /\ wfb g = true /\ substitute f 0 g = Ok g.
Proof. vm_compute. repeat split; reflexivity. Qed.
Print Assumptions C07_nonvacuous.

(* ---- the same property about the library's OWN algorithm (Model/Substitute.v: step-faithful composition of the
   faithful models of support_set, set_num_vars, rename_variables, mk_literal, iff and the nested apply, with the
   clone / safe / proxy-variable paths of the Rust and every unwrap/assert as an explicit Panic) ---- *)

(* never a panic for well-formed operands over the same variable count below the u16 maximum, and the result is
   f at v with x replaced by g(v) — also when g depends on x (proxy-variable path) *)
Theorem C07_substitute_faithful_correct : forall f x g,
  wf f -> wf g -> nvars f = nvars g -> x < nvars f -> nvars f < 65535 ->
  exists r, substitute_faithful f x g = Ok r /\ wf r /\ nvars r = nvars f /\
    forall v, eval r v = eval f (upd v x (eval g v)).
Proof. exact substitute_faithful_correct. Qed.
Print Assumptions C07_substitute_faithful_correct.

(* the library's algorithm returns the very array of the compositional model used in C07_substitute *)
Theorem C07_substitute_faithful_eq_model : forall f x g,
  wf f -> wf g -> nvars f = nvars g -> x < nvars f -> nvars f < 65535 ->
  substitute_faithful f x g = substitute f x g.
Proof. exact substitute_faithful_eq_model. Qed.
Print Assumptions C07_substitute_faithful_eq_model.

(* the documented limit ("fewer than the maximum number of variables"): the proxy variable cannot be created *)
Theorem C07_substitute_faithful_panic_bound : forall f x g, 65535 <= nvars f ->
  mem x (support f) = true -> mem x (support g) = true -> substitute_faithful f x g = Panic.
Proof. exact substitute_faithful_panic_bound. Qed.
Print Assumptions C07_substitute_faithful_panic_bound.

(* the proxy-variable path on the shape that broke the pinned code: g depends on x and has a variable above x
   that f does not mention; and the limit is reached with 65535 variables *)
Example C07_substitute_faithful_nonvacuous :
  let f := [mkNode 2 0 0; mkNode 2 1 1; mkNode 0 0 1] in
  let g := [mkNode 2 0 0; mkNode 2 1 1; mkNode 1 0 1; mkNode 0 0 2] in
  let h := [mkNode 65535 0 0; mkNode 65535 1 1; mkNode 0 0 1] in
  wfb f = true /\ wfb g = true /\ mem 0 (support f) = true /\ mem 0 (support g) = true /\
  substitute_faithful f 0 g = Ok g /\
  wfb h = true /\ substitute_faithful h 0 h = Panic.
Proof. vm_compute. repeat split; reflexivity. Qed.
Print Assumptions C07_substitute_faithful_nonvacuous.

(* ======================================================================================== *)
(* the exact panic condition of the library's algorithm, and its behaviour outside the domain of C07_substitute *)
From BddVerif Require Import Proofs.Gaps3Substitute.

(* in the domain (well-formed operands over the same variable count, x in range) the algorithm panics exactly on
   the proxy-variable path — x carried by a node of f AND by a node of g — when the variable count has no room
   for the proxy variable (`checked_add(1).unwrap()` on u16): never on the clone path, never on the safe path
   (also with 65535 variables), never below 65535 variables *)
Theorem C07_substitute_panic_iff : forall f x g, wf f -> wf g -> nvars f = nvars g -> x < nvars f ->
  (substitute_faithful f x g = Panic <->
   mem x (support f) = true /\ mem x (support g) = true /\ 65535 <= nvars f).
Proof. exact substitute_faithful_panic_iff. Qed.
Print Assumptions C07_substitute_panic_iff.

(* … and in every other case it answers Ok with the substitution semantics *)
Theorem C07_substitute_ok_iff : forall f x g, wf f -> wf g -> nvars f = nvars g -> x < nvars f ->
  ((exists r, substitute_faithful f x g = Ok r /\ wf r /\ nvars r = nvars f /\
              forall v, eval r v = eval f (upd v x (eval g v))) <->
   ~ (mem x (support f) = true /\ mem x (support g) = true /\ 65535 <= nvars f)).
Proof. exact substitute_faithful_ok_iff. Qed.
Print Assumptions C07_substitute_ok_iff.

(* the three paths, which one is taken, and what each answers *)
Theorem C07_substitute_paths : forall f x g, wf f -> wf g -> nvars f = nvars g -> x < nvars f ->
  (mem x (support f) = false -> substitute_faithful f x g = Ok f) /\
  (mem x (support f) = true -> mem x (support g) = false ->
     exists r, substitute_faithful f x g = Ok r /\ Canonical r /\ nvars r = nvars f /\
       forall v, eval r v = eval f (upd v x (eval g v))) /\
  (mem x (support f) = true -> mem x (support g) = true ->
     (nvars f < 65535 ->
        exists r, substitute_faithful f x g = Ok r /\ Canonical r /\ nvars r = nvars f /\
          forall v, eval r v = eval f (upd v x (eval g v))) /\
     (65535 <= nvars f -> substitute_faithful f x g = Panic)).
Proof. exact substitute_faithful_paths. Qed.
Print Assumptions C07_substitute_paths.

(* outside the domain.  (a) x >= nvars f: no node of a well-formed f carries x, the result is a clone of f, whatever
   g is (no hypothesis on g).  (b) operands over different variable counts: clone when no node of f carries x,
   Panic otherwise (the variable-count assertion of the `iff` apply, or an earlier unwrap on the proxy path) —
   and the compositional model of C07_substitute does the same *)
Theorem C07_substitute_out_of_range : forall f x g,
  (wf f -> nvars f <= x -> substitute_faithful f x g = Ok f) /\
  (wf f -> wf g -> nvars f <> nvars g ->
     substitute_faithful f x g = (if mem x (support f) then Panic else Ok f) /\
     substitute_faithful f x g = substitute f x g).
Proof.
  intros f x g. split; [exact (substitute_faithful_var_out_of_range f x g)|].
  intros Wf Wg NV. split; [exact (substitute_faithful_nvars_mismatch f x g Wf Wg NV)|
                           exact (substitute_models_agree_outside f x g Wf Wg NV)].
Qed.
Print Assumptions C07_substitute_out_of_range.

Example C07_substitute_panic_iff_nonvacuous :
  let f := [mkNode 65535 0 0; mkNode 65535 1 1; mkNode 0 0 1] in
  let g := [mkNode 65535 0 0; mkNode 65535 1 1; mkNode 7 0 1] in
  let h := [mkNode 3 0 0; mkNode 3 1 1; mkNode 0 0 1] in
  wfb f = true /\ wfb g = true /\ wfb h = true /\
  substitute_faithful f 0 g = Ok g /\ substitute_faithful f 0 f = Panic /\ substitute_faithful f 7 f = Ok f /\
  substitute_faithful h 0 f = Panic /\ substitute_faithful h 0 g = Panic /\ substitute_faithful h 1 g = Ok h /\
  substitute_faithful h 9 g = Ok h.
Proof. exact substitute_panic_iff_examples. Qed.
Print Assumptions C07_substitute_panic_iff_nonvacuous.
