(* C07 — substitution equals syntactic replacement of a variable by a function. *)
From Coq Require Import List NArith Bool. Import ListNotations.
From BddVerif Require Import Model.Bdd Model.Apply Model.Ops Proofs.Sem Proofs.Canon Proofs.ApplySem Proofs.ApplyTop Proofs.RelSem.
Open Scope N_scope.

(* f.substitute(x, g) at v = f at v with x replaced by g(v) — also when g depends on x; never a panic
   for operands over the same variable count *)
Theorem C07_substitute : forall f x g, wf f -> wf g -> nvars f = nvars g -> x < nvars f ->
  exists r, substitute f x g = Ok r /\ wf r /\ nvars r = nvars f /\
    forall v, eval r v = eval f (upd v x (eval g v)).
Proof. exact substitute_correct. Qed.
Print Assumptions C07_substitute.

(* g depends on x, and has a variable above x that f does not mention (the shape that broke the pinned code) *)
Example C07_nonvacuous :
  let f := [mkNode 2 0 0; mkNode 2 1 1; mkNode 0 0 1] in
  let g := [mkNode 2 0 0; mkNode 2 1 1; mkNode 1 0 1; mkNode 0 0 2] in
  wfb f = true /\ wfb g = true /\ substitute f 0 g = Ok g.
Proof. vm_compute. repeat split; reflexivity. Qed.
Print Assumptions C07_nonvacuous.
