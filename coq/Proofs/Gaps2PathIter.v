(* Proofs/Gaps2PathIter.v — C08 gap: what the step-faithful stack machine of BddPathIterator (Model/Paths.v) does on
   EVERY valid diagram, redundant tests included.

   `red_below k b p` decides whether a decision node with equal children can be reached from p.  On a valid diagram
     * no such node reachable from the root  ->  path_iter b = Ok (sat_clauses b)   (stronger than path_iter_refines:
       redundant nodes that the root does not reach are harmless);
     * otherwise path_iter b = Panic: the iterator reaches the node — with both children 0 `continue_path` panics
       ("The given BDD is not canonical."), otherwise the low subtree is enumerated and the `next()` call that comes
       back to the node panics in its sanity check ("The BDD is not canonical.").  It never loops and never returns
       a wrong list. *)
From Coq Require Import List NArith Lia Bool PeanoNat.
Import ListNotations.
From BddVerif Require Import Model.Bdd Model.Apply Model.Ops Model.Paths Proofs.Sem Proofs.Canon Proofs.PvalSem
  Proofs.NormalForms Proofs.Paths Proofs.PathsVals Proofs.PathsIter Proofs.Gaps2Canon.
Open Scope N_scope.

Fixpoint red_below (k : nat) (b : bdd) (p : N) : bool :=
  match k with
  | O => false
  | S k' => if p <? 2 then false
            else (nlow (get b p) =? nhigh (get b p)) || red_below k' b (nlow (get b p)) || red_below k' b (nhigh (get b p))
  end.

Lemma red_below_term k b p : p < 2 -> red_below k b p = false.
Proof. intros H. destruct k; [reflexivity|]. cbn [red_below]. destruct (N.ltb_spec p 2); [reflexivity|lia]. Qed.

Lemma red_below_unfold k b p : 2 <= p ->
  red_below (S k) b p = (nlow (get b p) =? nhigh (get b p)) || red_below k b (nlow (get b p)) || red_below k b (nhigh (get b p)).
Proof. intros H. cbn [red_below]. destruct (N.ltb_spec p 2); [lia|reflexivity]. Qed.

Lemma paths_to_zero k b : paths_to 1 k b 0 = [].
Proof. destruct k; reflexivity. Qed.

Lemma paths_to_unfold k b p : 2 <= p ->
  paths_to 1 (S k) b p = map (cons (nvar (get b p), false)) (paths_to 1 k b (nlow (get b p))) ++
                         map (cons (nvar (get b p), true)) (paths_to 1 k b (nhigh (get b p))).
Proof. intros H. cbn [paths_to]. destruct (N.ltb_spec p 2); [lia|reflexivity]. Qed.

Section Machine.
Variable b : bdd.
Hypothesis Hwf : wf b.

(* what remains to be done after the subtree of a node has been enumerated: the pops of `backtrack`, then the run *)
Definition after (m : nat) (o : outcome (list N)) : outcome (list pval) :=
  match o with Ok st => path_iter_run m b st | Panic => Panic | OutOfFuel => OutOfFuel end.

Lemma after_bind_assoc m o (L1 L2 : list pval) :
  bind (bind (after m o) (fun l => Ok (L2 ++ l))) (fun l => Ok (L1 ++ l)) = bind (after m o) (fun l => Ok ((L1 ++ L2) ++ l)).
Proof.
  destruct o as [st| |]; cbn [after bind]; try reflexivity.
  destruct (path_iter_run m b st) as [l| |]; cbn [bind]; try reflexivity. now rewrite app_assoc.
Qed.

Lemma cp_step F p st : 2 <= p -> continue_path (S F) b (p :: st) =
  if negb (nlow (get b p) =? 0) then continue_path F b (nlow (get b p) :: p :: st)
  else if negb (nhigh (get b p) =? 0) then continue_path F b (nhigh (get b p) :: p :: st) else Panic.
Proof. intros H. cbn [continue_path]. destruct (N.eqb_spec p 1); [lia|reflexivity]. Qed.

(* no redundant test below p: the subtree is enumerated as the DFS list, whatever happens afterwards *)
Lemma run_node_gen : forall k p st pre,
  valid b p -> p <> 0 -> (mu b p < k)%nat -> red_below k b p = false ->
  make_clause_from b (rev st ++ [p]) [] = Ok (pv_from_values pre) ->
  paths_to 1 k b p <> [] /\
  exists d,
    (forall F, (mu b p < F)%nat -> continue_path F b (p :: st) = Ok (d ++ p :: st)) /\
    forall m, path_iter_run (length (paths_to 1 k b p) + m) b (d ++ p :: st) =
              bind (after m (backtrack b p st)) (fun l => Ok (map (fun q => clause_of_path (pre ++ q)) (paths_to 1 k b p) ++ l)).
Proof.
  induction k as [|k IH]; intros p st pre Vp Hp0 Hk Hrb Hmc; [lia|].
  destruct (N.ltb_spec p 2) as [Hlt|Hge].
  - (* the terminal 1 *)
    assert (p = 1) by lia. subst p.
    assert (P1 : paths_to 1 (S k) b 1 = [[]]) by reflexivity. rewrite P1. split; [discriminate|].
    exists []. split.
    + intros F HF. destruct F as [|F]; [lia|]. reflexivity.
    + intros m. cbn [length Nat.add app map]. rewrite run_unfold. unfold path_iter_next, make_clause. cbn [rev].
      rewrite Hmc. cbn [bind]. rewrite app_nil_r.
      destruct (backtrack b 1 st) as [st'| |]; cbn [bind after]; reflexivity.
  - (* a decision node *)
    destruct Vp as (Vp & _). destruct (wf_children b p Hwf Hge Vp) as (Vl & Vh & Hl & Hh & Hnv).
    rewrite (red_below_unfold k b p Hge) in Hrb. apply orb_false_iff in Hrb. destruct Hrb as (Hrb & Rh).
    apply orb_false_iff in Hrb. destruct Hrb as (Hne & Rl). apply N.eqb_neq in Hne.
    rewrite (paths_to_unfold k b p Hge).
    set (lo := nlow (get b p)) in *. set (hi := nhigh (get b p)) in *. set (x := nvar (get b p)).
    assert (Mlo : (mu b lo < mu b p)%nat) by (unfold mu; pose proof (var_of_le b lo Hwf Vl); lia).
    assert (Mhi : (mu b hi < mu b p)%nat) by (unfold mu; pose proof (var_of_le b hi Hwf Vh); lia).
    assert (MapLo : forall P, map (fun q => clause_of_path ((pre ++ [(x, false)]) ++ q)) P =
                              map (fun q => clause_of_path (pre ++ q)) (map (cons (x, false)) P)).
    { intros P. rewrite map_map. apply map_ext. intros q. now rewrite <- app_assoc. }
    assert (MapHi : forall P, map (fun q => clause_of_path ((pre ++ [(x, true)]) ++ q)) P =
                              map (fun q => clause_of_path (pre ++ q)) (map (cons (x, true)) P)).
    { intros P. rewrite map_map. apply map_ext. intros q. now rewrite <- app_assoc. }
    destruct (N.eq_dec lo 0) as [Elo|Nlo]; destruct (N.eq_dec hi 0) as [Ehi|Nhi].
    + exfalso. apply Hne. congruence.
    + (* only the high child is alive *)
      assert (Hmc' : make_clause_from b (rev (p :: st) ++ [hi]) [] = Ok (pv_from_values (pre ++ [(x, true)]))).
      { apply mc_extend; [exact Hmc|]. split; [reflexivity|exact Hne]. }
      destruct (IH hi (p :: st) _ Vh Nhi ltac:(lia) Rh Hmc') as (NE & dh & Ch & Run).
      rewrite Elo, paths_to_zero. cbn [map app]. split.
      { destruct (paths_to 1 k b hi); [congruence|discriminate]. }
      exists (dh ++ [hi]). rewrite <- app_assoc. cbn [app]. split.
      * intros F HF. destruct F as [|F]; [lia|]. rewrite (cp_step F p st Hge). fold lo hi.
        rewrite Elo. change (0 =? 0) with true. cbn [negb].
        destruct (N.eqb_spec hi 0); [contradiction|]. cbn [negb]. apply Ch. lia.
      * intros m. rewrite map_length, <- MapHi, Run. f_equal. f_equal.
        cbn [backtrack]. fold lo hi. destruct (N.eqb_spec lo hi); [contradiction|]. now rewrite N.eqb_refl.
    + (* only the low child is alive *)
      assert (Hmc' : make_clause_from b (rev (p :: st) ++ [lo]) [] = Ok (pv_from_values (pre ++ [(x, false)]))).
      { apply mc_extend; [exact Hmc|reflexivity]. }
      destruct (IH lo (p :: st) _ Vl Nlo ltac:(lia) Rl Hmc') as (NE & dl & Cl & Run).
      rewrite Ehi, paths_to_zero. cbn [map]. rewrite app_nil_r. split.
      { destruct (paths_to 1 k b lo); [congruence|discriminate]. }
      exists (dl ++ [lo]). rewrite <- app_assoc. cbn [app]. split.
      * intros F HF. destruct F as [|F]; [lia|]. rewrite (cp_step F p st Hge). fold lo hi.
        destruct (N.eqb_spec lo 0); [contradiction|]. cbn [negb]. apply Cl. lia.
      * intros m. rewrite map_length, <- MapLo, Run. f_equal. f_equal.
        cbn [backtrack]. fold lo hi. rewrite N.eqb_refl, Ehi. reflexivity.
    + (* both children alive: low subtree first, then backtrack into the high subtree *)
      assert (HmcL : make_clause_from b (rev (p :: st) ++ [lo]) [] = Ok (pv_from_values (pre ++ [(x, false)]))).
      { apply mc_extend; [exact Hmc|reflexivity]. }
      assert (HmcH : make_clause_from b (rev (p :: st) ++ [hi]) [] = Ok (pv_from_values (pre ++ [(x, true)]))).
      { apply mc_extend; [exact Hmc|]. split; [reflexivity|exact Hne]. }
      destruct (IH lo (p :: st) _ Vl Nlo ltac:(lia) Rl HmcL) as (NEl & dl & Cl & RunL).
      destruct (IH hi (p :: st) _ Vh Nhi ltac:(lia) Rh HmcH) as (NEh & dh & Ch & RunH).
      split.
      { destruct (paths_to 1 k b lo); [congruence|discriminate]. }
      exists (dl ++ [lo]). rewrite <- app_assoc. cbn [app]. split.
      * intros F HF. destruct F as [|F]; [lia|]. rewrite (cp_step F p st Hge). fold lo hi.
        destruct (N.eqb_spec lo 0); [contradiction|]. cbn [negb]. apply Cl. lia.
      * intros m. rewrite app_length, !map_length, map_app, <- MapLo, <- MapHi, <- Nat.add_assoc, RunL.
        assert (B1 : backtrack b lo (p :: st) = Ok (dh ++ hi :: p :: st)).
        { cbn [backtrack]. fold lo hi. rewrite N.eqb_refl.
          destruct (N.eqb_spec hi 0); [contradiction|]. destruct (N.eqb_spec lo hi); [contradiction|].
          apply Ch. unfold path_fuel. unfold mu in *. lia. }
        assert (B2 : backtrack b hi (p :: st) = backtrack b p st).
        { cbn [backtrack]. fold lo hi. destruct (N.eqb_spec lo hi); [contradiction|]. now rewrite N.eqb_refl. }
        rewrite B1. cbn [after]. rewrite RunH, B2. apply after_bind_assoc.
Qed.

(* a redundant test below p: the machine panics, either on the way down or in a later call of next() *)
Lemma panic_node : forall k p st pre,
  valid b p -> p <> 0 -> (mu b p < k)%nat -> red_below k b p = true ->
  make_clause_from b (rev st ++ [p]) [] = Ok (pv_from_values pre) ->
  (forall F, (mu b p < F)%nat -> continue_path F b (p :: st) = Panic) \/
  (exists d,
    (forall F, (mu b p < F)%nat -> continue_path F b (p :: st) = Ok (d ++ p :: st)) /\
    forall m, (length (paths_to 1 k b p) < m)%nat -> path_iter_run m b (d ++ p :: st) = Panic).
Proof.
  induction k as [|k IH]; intros p st pre Vp Hp0 Hk Hrb Hmc; [lia|].
  destruct (N.ltb_spec p 2) as [Hlt|Hge]; [rewrite red_below_term in Hrb by exact Hlt; discriminate|].
  destruct Vp as (Vp & _). destruct (wf_children b p Hwf Hge Vp) as (Vl & Vh & Hl & Hh & Hnv).
  rewrite (red_below_unfold k b p Hge) in Hrb. rewrite (paths_to_unfold k b p Hge).
  set (lo := nlow (get b p)) in *. set (hi := nhigh (get b p)) in *. set (x := nvar (get b p)).
  assert (Mlo : (mu b lo < mu b p)%nat) by (unfold mu; pose proof (var_of_le b lo Hwf Vl); lia).
  assert (Mhi : (mu b hi < mu b p)%nat) by (unfold mu; pose proof (var_of_le b hi Hwf Vh); lia).
  assert (HmcL : make_clause_from b (rev (p :: st) ++ [lo]) [] = Ok (pv_from_values (pre ++ [(x, false)]))).
  { apply mc_extend; [exact Hmc|reflexivity]. }
  destruct (N.eq_dec lo 0) as [Elo|Nlo].
  - (* low child is 0 *)
    destruct (N.eq_dec hi 0) as [Ehi|Nhi].
    + left. intros F HF. destruct F as [|F]; [lia|]. rewrite (cp_step F p st Hge). fold lo hi. rewrite Elo, Ehi. reflexivity.
    + assert (Hne : lo <> hi) by congruence.
      assert (Rh : red_below k b hi = true).
      { rewrite Elo in Hrb. rewrite (red_below_term k b 0) in Hrb by lia.
        destruct (N.eqb_spec 0 hi); [congruence|]. exact Hrb. }
      assert (HmcH : make_clause_from b (rev (p :: st) ++ [hi]) [] = Ok (pv_from_values (pre ++ [(x, true)]))).
      { apply mc_extend; [exact Hmc|]. split; [reflexivity|exact Hne]. }
      assert (Step : forall F, continue_path (S F) b (p :: st) = continue_path F b (hi :: p :: st)).
      { intros F. rewrite (cp_step F p st Hge). fold lo hi. rewrite Elo. change (0 =? 0) with true. cbn [negb].
        destruct (N.eqb_spec hi 0); [contradiction|]. reflexivity. }
      destruct (IH hi (p :: st) _ Vh Nhi ltac:(lia) Rh HmcH) as [Pn|(dh & Ch & Run)].
      * left. intros F HF. destruct F as [|F]; [lia|]. rewrite Step. apply Pn. lia.
      * right. exists (dh ++ [hi]). rewrite <- app_assoc. cbn [app]. split.
        -- intros F HF. destruct F as [|F]; [lia|]. rewrite Step. apply Ch. lia.
        -- intros m Hm. apply Run. rewrite Elo, paths_to_zero in Hm. cbn [map app] in Hm. now rewrite map_length in Hm.
  - (* low child alive: the descent goes there *)
    assert (Step : forall F, continue_path (S F) b (p :: st) = continue_path F b (lo :: p :: st)).
    { intros F. rewrite (cp_step F p st Hge). fold lo hi. destruct (N.eqb_spec lo 0); [contradiction|]. reflexivity. }
    destruct (red_below k b lo) eqn:Rl.
    + (* the redundant test is in the low subtree *)
      destruct (IH lo (p :: st) _ Vl Nlo ltac:(lia) Rl HmcL) as [Pn|(dl & Cl & Run)].
      * left. intros F HF. destruct F as [|F]; [lia|]. rewrite Step. apply Pn. lia.
      * right. exists (dl ++ [lo]). rewrite <- app_assoc. cbn [app]. split.
        -- intros F HF. destruct F as [|F]; [lia|]. rewrite Step. apply Cl. lia.
        -- intros m Hm. apply Run. rewrite app_length, !map_length in Hm.
           eapply Nat.le_lt_trans; [apply Nat.le_add_r|exact Hm].
    + (* the low subtree is enumerated; the call of next() that leaves it panics, or the high subtree does *)
      destruct (run_node_gen k lo (p :: st) _ Vl Nlo ltac:(lia) Rl HmcL) as (NEl & dl & Cl & RunL).
      right. exists (dl ++ [lo]). rewrite <- app_assoc. cbn [app]. split.
      { intros F HF. destruct F as [|F]; [lia|]. rewrite Step. apply Cl. lia. }
      intros m Hm. rewrite app_length, !map_length in Hm.
      remember (length (paths_to 1 k b lo)) as nl eqn:Enl in *. remember (length (paths_to 1 k b hi)) as nh eqn:Enh in *.
      assert (Hm' : (nl + nh < m)%nat) by (rewrite Enl, Enh; exact Hm).
      cbn [orb] in Hrb. rewrite orb_false_r in Hrb.
      destruct (N.eq_dec hi 0) as [Ehi|Nhi].
      { exfalso. rewrite Ehi in Hrb. rewrite (red_below_term k b 0) in Hrb by lia. rewrite orb_false_r in Hrb.
        apply N.eqb_eq in Hrb. congruence. }
      destruct (N.eq_dec lo hi) as [Eq|Hne].
      * (* the node itself is redundant: the sanity check of next() *)
        replace m with (nl + (m - nl))%nat by lia. rewrite RunL.
        assert (B1 : backtrack b lo (p :: st) = Panic).
        { cbn [backtrack]. fold lo hi. rewrite N.eqb_refl.
          destruct (N.eqb_spec hi 0); [contradiction|]. destruct (N.eqb_spec lo hi); [reflexivity|contradiction]. }
        rewrite B1. reflexivity.
      * assert (Rh : red_below k b hi = true).
        { destruct (N.eqb_spec lo hi); [contradiction|]. exact Hrb. }
        assert (HmcH : make_clause_from b (rev (p :: st) ++ [hi]) [] = Ok (pv_from_values (pre ++ [(x, true)]))).
        { apply mc_extend; [exact Hmc|]. split; [reflexivity|exact Hne]. }
        assert (B0 : backtrack b lo (p :: st) = continue_path (S (path_fuel b)) b (hi :: p :: st)).
        { cbn [backtrack]. fold lo hi. rewrite N.eqb_refl.
          destruct (N.eqb_spec hi 0); [contradiction|]. destruct (N.eqb_spec lo hi); [contradiction|]. reflexivity. }
        assert (Fu : (mu b hi < S (path_fuel b))%nat) by (unfold path_fuel, mu in *; lia).
        replace m with (nl + (m - nl))%nat by lia. rewrite RunL, B0.
        destruct (IH hi (p :: st) _ Vh Nhi ltac:(lia) Rh HmcH) as [Pn|(dh & Ch & Run)].
        -- rewrite (Pn _ Fu). reflexivity.
        -- rewrite (Ch _ Fu). cbn [after]. rewrite Run by lia. reflexivity.
Qed.

Lemma root_setup : size b <> 1 -> valid b (root b) /\ root b <> 0 /\ (mu b (root b) < path_fuel b)%nat.
Proof.
  intros NE. pose proof (size_pos b Hwf) as Hs. split; [apply root_valid, Hwf|]. split; [unfold root; lia|].
  unfold mu, path_fuel. lia.
Qed.

Theorem path_iter_total_section :
  if red_below (path_fuel b) b (root b) then path_iter b = Panic else path_iter b = Ok (sat_clauses b).
Proof.
  unfold path_iter, path_iter_new, sat_clauses, paths, is_false.
  destruct (N.eqb_spec (size b) 1) as [E|NE].
  - unfold root. rewrite E. change (1 - 1) with 0. rewrite red_below_term by lia. cbn [bind].
    rewrite paths_to_zero. reflexivity.
  - destruct (root_setup NE) as (Vr & R0 & Mr).
    destruct (red_below (path_fuel b) b (root b)) eqn:Rb.
    + destruct (panic_node (path_fuel b) (root b) [] [] Vr R0 Mr Rb eq_refl) as [Pn|(d & Cd & Run)].
      * rewrite (Pn (S (path_fuel b)) ltac:(lia)). reflexivity.
      * rewrite (Cd (S (path_fuel b)) ltac:(lia)). cbn [bind]. apply Run. lia.
    + destruct (run_node_gen (path_fuel b) (root b) [] [] Vr R0 Mr Rb eq_refl) as (_ & d & Cd & Run).
      rewrite (Cd (S (path_fuel b)) ltac:(lia)). cbn [bind].
      replace (S (S (length (paths_to 1 (path_fuel b) b (root b))))) with (length (paths_to 1 (path_fuel b) b (root b)) + 2)%nat by lia.
      rewrite Run. cbn [backtrack after path_iter_run path_iter_next bind app]. now rewrite app_nil_r.
Qed.

(* ---- red_below in terms of the array ---- *)
Lemma red_below_chain : forall k p, red_below k b p = true -> valid b p ->
  exists ps q, edge_chain b p ps q /\ 2 <= q /\ q < size b /\ nlow (get b q) = nhigh (get b q).
Proof.
  induction k as [|k IH]; intros p H Vp; [discriminate|].
  destruct (N.ltb_spec p 2) as [Hlt|Hge]; [rewrite red_below_term in H by exact Hlt; discriminate|].
  destruct Vp as (Vp & _). destruct (wf_children b p Hwf Hge Vp) as (Vl & Vh & _).
  rewrite (red_below_unfold k b p Hge) in H. apply orb_true_iff in H. destruct H as [H|H]; [apply orb_true_iff in H; destruct H as [H|H]|].
  - apply N.eqb_eq in H. exists [], p. cbn [edge_chain]. repeat split; try assumption; reflexivity.
  - destruct (IH _ H Vl) as (ps & q & C & Q). exists (nlow (get b p) :: ps), q. split; [|exact Q].
    cbn [edge_chain]. repeat split; try assumption. now left.
  - destruct (IH _ H Vh) as (ps & q & C & Q). exists (nhigh (get b p) :: ps), q. split; [|exact Q].
    cbn [edge_chain]. repeat split; try assumption. now right.
Qed.

Lemma chain_red_below : forall ps p q k, edge_chain b p ps q -> valid b p -> (mu b p < k)%nat ->
  2 <= q -> nlow (get b q) = nhigh (get b q) -> red_below k b p = true.
Proof.
  induction ps as [|c ps IH]; intros p q k C Vp Hk Hq E; (destruct k as [|k]; [lia|]); cbn [edge_chain] in C.
  - subst q. rewrite (red_below_unfold k b p Hq). rewrite E, N.eqb_refl. reflexivity.
  - destruct C as (Hge & Hlt & Hc & C). destruct (wf_children b p Hwf Hge Hlt) as (Vl & Vh & Hl & Hh & _).
    rewrite (red_below_unfold k b p Hge). apply orb_true_iff.
    destruct Hc as [-> | ->].
    + left. apply orb_true_iff. right. apply (IH _ q); try assumption.
      unfold mu in *. pose proof (var_of_le b _ Hwf Vl). lia.
    + right. apply (IH _ q); try assumption.
      unfold mu in *. pose proof (var_of_le b _ Hwf Vh). lia.
Qed.
End Machine.

(* a decision node with equal children that the root reaches along edges *)
Definition reachable_redundant (b : bdd) : Prop :=
  exists ps q, edge_chain b (size b - 1) ps q /\ 2 <= q /\ q < size b /\ nlow (get b q) = nhigh (get b q).

Lemma red_below_iff b : wf b -> (red_below (path_fuel b) b (root b) = true <-> reachable_redundant b).
Proof.
  intros W. unfold reachable_redundant. fold (root b). split.
  - intros H. apply (red_below_chain b W _ _ H). apply root_valid, W.
  - intros (ps & q & C & Q2 & _ & E). apply (chain_red_below b W ps (root b) q); try assumption.
    + apply root_valid, W.
    + unfold mu, path_fuel. lia.
Qed.

(* the exact behaviour on every valid diagram *)
Theorem path_iter_total b : wf b ->
  if red_below (path_fuel b) b (root b) then path_iter b = Panic else path_iter b = Ok (sat_clauses b).
Proof. exact (path_iter_total_section b). Qed.
Print Assumptions path_iter_total.

Theorem path_iter_panic_iff b : wf b -> (path_iter b = Panic <-> reachable_redundant b).
Proof.
  intros W. rewrite <- (red_below_iff b W). pose proof (path_iter_total b W) as T.
  destruct (red_below (path_fuel b) b (root b)); rewrite T; split; intros H; try reflexivity; discriminate.
Qed.
Print Assumptions path_iter_panic_iff.

Theorem path_iter_ok_iff b : wf b -> (path_iter b = Ok (sat_clauses b) <-> ~ reachable_redundant b).
Proof.
  intros W. rewrite <- (red_below_iff b W). pose proof (path_iter_total b W) as T.
  destruct (red_below (path_fuel b) b (root b)); rewrite T; split; intros H; try reflexivity; try discriminate.
  exfalso. now apply H.
Qed.
Print Assumptions path_iter_ok_iff.

(* never anything else: no wrong list, no fuel exhaustion (the Rust loop terminates) *)
Corollary path_iter_dichotomy b : wf b -> path_iter b = Panic \/ path_iter b = Ok (sat_clauses b).
Proof. intros W. pose proof (path_iter_total b W) as T. destruct (red_below (path_fuel b) b (root b)); auto. Qed.

(* the valuation iterator chains the path iterator with the clause counter *)
Theorem sat_valuations_iter_total b : wf b ->
  if red_below (path_fuel b) b (root b) then sat_valuations_iter b = Panic else sat_valuations_iter b = Ok (sat_valuations b).
Proof.
  intros W. pose proof (path_iter_total b W) as T. unfold sat_valuations_iter.
  destruct (red_below (path_fuel b) b (root b)); rewrite T; cbn [bind]; [reflexivity|].
  apply concat_clause_iters_ok. apply sat_clauses_positive_inside, W.
Qed.

Theorem sat_valuations_iter_panic_iff b : wf b -> (sat_valuations_iter b = Panic <-> reachable_redundant b).
Proof.
  intros W. rewrite <- (red_below_iff b W). pose proof (sat_valuations_iter_total b W) as T.
  destruct (red_below (path_fuel b) b (root b)); rewrite T; split; intros H; try reflexivity; discriminate.
Qed.
Print Assumptions sat_valuations_iter_panic_iff.

(* examples: x1 tested redundantly under x0 (reachable: panic); the same redundant node left unreachable (harmless);
   a node with two 0 children (panic on the way down) *)
Example path_iter_redundant_examples :
  let reach := [mkNode 2 0 0; mkNode 2 1 1; mkNode 1 1 1; mkNode 0 0 2] in
  let unreach := [mkNode 2 0 0; mkNode 2 1 1; mkNode 1 1 1; mkNode 0 0 1] in
  let dead := [mkNode 2 0 0; mkNode 2 1 1; mkNode 1 0 0; mkNode 0 1 2] in
  wfb reach = true /\ path_iter reach = Panic /\ sat_valuations_iter reach = Panic /\
  wfb unreach = true /\ path_iter unreach = Ok [[Some true]] /\ reducedb unreach = false /\
  wfb dead = true /\ path_iter dead = Panic.
Proof. vm_compute. repeat split; reflexivity. Qed.
