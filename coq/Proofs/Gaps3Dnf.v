(* Proofs/Gaps3Dnf.v — the panic condition of the library's own mk_dnf recursion (Model/Dnf.v, `mk_dnf_faithful`) on
   ARBITRARY clause lists (C10).

   The only assertion of the recursion that can fire is the duplicate check of the base case
   (`for cx in &dnf[1..] { assert_eq!( *cx, c) }` reached with `var == num_vars`): two clauses that were never
   separated by the three-way split — they agree on every variable below num_vars — but are different partial
   valuations, i.e. differ on a variable >= num_vars.  This is `clash nv cs`.  It is NOT "some clause is out of
   range": a clause mentioning a variable >= num_vars that sits alone in its cell of the split is accepted and a
   malformed diagram is built (mk_dnf_faithful_single).

   Two-sided statements proved here
     Panic  -> clash                                   (mk_dnf_faithful_panic_clash; no hypotheses)
     clash  -> Panic or OutOfFuel, never Ok            (mk_dnf_faithful_clash_not_ok; no hypotheses)
     Panic <-> clash   when all out-of-range clauses of the list lie in ONE cell of the split (`one_cell`: they
                       pairwise agree below num_vars) — this covers the asymmetric case "one out-of-range clause"
                                                        (mk_dnf_faithful_panic_iff)
   and the reason why the unconditional `Panic <-> clash` is FALSE for the model (mk_dnf_faithful_panic_iff_refuted):
   the three recursive calls run in the order dont_care, has_true, has_false and a malformed diagram of an earlier
   cell can make `or` exhaust its fuel (the Rust `apply` does not terminate on such operands: a node whose variable
   exceeds num_vars against a terminal reproduces its own task) before the clash of a later cell is reached. *)
From Coq Require Import List NArith Lia Bool PeanoNat.
Import ListNotations.
From BddVerif Require Import Model.Bdd Model.Apply Model.Ops Model.Paths Model.Valuation Model.Dnf
  Proofs.Sem Proofs.Canon Proofs.PvalSem Proofs.NormalForms Proofs.ValuationSem Proofs.DnfSem.
Open Scope N_scope.

(* ======================================================================================== *)
(* the variable count of whatever the engine returns — no hypothesis on the operands          *)
Section Head.
  Variables (A B : bdd) (fa fb fo : option N) (op : op2).
  Local Notation process := (Apply.process A B fa fb fo op).

  Definition extends (s s' : st) : Prop := exists ext, nodes s' = nodes s ++ ext.
  Lemma extends_refl s : extends s s. Proof. exists []. now rewrite app_nil_r. Qed.
  Lemma extends_trans s1 s2 s3 : extends s1 s2 -> extends s2 s3 -> extends s1 s3.
  Proof. intros (e1 & E1) (e2 & E2). exists (e1 ++ e2). rewrite E2, E1, app_assoc. reflexivity. Qed.

  Lemma mk_extends s d x y p s' : mk s d x y = (p, s') -> extends s s'.
  Proof.
    unfold mk. destruct (x =? y); [intros E; inversion E; subst; apply extends_refl|].
    destruct (nfind _ _); intros E; inversion E; subst; [apply extends_refl|].
    eexists. cbn [nodes]. reflexivity.
  Qed.

  Lemma process_extends : forall fuel t s p s', process fuel t s = Some (p, s') -> extends s s'.
  Proof.
    induction fuel as [|f IH]; intros t s p s' E; [discriminate|].
    cbn [Apply.process] in E.
    assert (Hens : forall t0 s0 q s1, ensure_with op (process f) t0 s0 = Some (q, s1) -> extends s0 s1).
    { intros t0 s0 q s1 E0. unfold ensure_with in E0.
      destruct (op _ _); [inversion E0; subst; apply extends_refl|].
      destruct (tfind _ _); [inversion E0; subst; apply extends_refl|]. eapply IH; eassumption. }
    destruct (oeq fo (level A B t)).
    - destruct (ensure_with op (process f) (t_lo A B fa fb t) s) as [[p1 s1]|] eqn:E1; [|discriminate].
      destruct (ensure_with op (process f) (t_hi A B fa fb t) s1) as [[p2 s2]|] eqn:E2; [|discriminate].
      destruct (mk _ _ _ _) as [q s4] eqn:Em. inversion E; subst.
      apply mk_extends in Em. apply Hens in E1. apply Hens in E2.
      eapply extends_trans; [exact E1|]. eapply extends_trans; [exact E2|].
      destruct Em as (e & Em). exists e. cbn [nodes set_ne memo] in *. exact Em.
    - destruct (ensure_with op (process f) (t_hi A B fa fb t) s) as [[p1 s1]|] eqn:E1; [|discriminate].
      destruct (ensure_with op (process f) (t_lo A B fa fb t) s1) as [[p2 s2]|] eqn:E2; [|discriminate].
      destruct (mk _ _ _ _) as [q s4] eqn:Em. inversion E; subst.
      apply mk_extends in Em. apply Hens in E1. apply Hens in E2.
      eapply extends_trans; [exact E1|]. eapply extends_trans; [exact E2|].
      destruct Em as (e & Em). exists e. cbn [nodes set_ne memo] in *. exact Em.
  Qed.

  Lemma apply2_nvars r : apply2 A B fa fb fo op = Some r -> nvars r = nvars A.
  Proof.
    unfold apply2. destruct (process _ _ _) as [[p s]|] eqn:E; [|discriminate].
    intros H. inversion H; subst. apply process_extends in E. destruct E as (e & E).
    destruct (nonempty s); [|reflexivity]. rewrite E. reflexivity.
  Qed.
End Head.

(* `or` on operands over the same variable count never panics, and its result is over that count again *)
Lemma bdd_or_outcome a b : nvars a = nvars b ->
  (exists r, bdd_or a b = Ok r /\ nvars r = nvars a) \/ bdd_or a b = OutOfFuel.
Proof.
  intros NV. unfold bdd_or, binary_op, fused_binary_flip_op, guard2.
  destruct (N.eqb_spec (nvars a) (nvars b)) as [_|]; [|contradiction]. cbn [negb flip_ok andb].
  destruct (apply2 a b None None None op_or) as [r|] eqn:E; cbn [of_option]; [left|right; reflexivity].
  exists r. split; [reflexivity|]. eapply apply2_nvars; eassumption.
Qed.

Lemma conj_chain_head : forall cells acc, (1 <= length acc)%nat -> nvars (conj_chain cells acc) = nvars acc.
Proof.
  induction cells as [|[x c] r IH]; intros acc H; cbn [conj_chain]; [reflexivity|].
  rewrite IH by (rewrite app_length; lia). destruct acc as [|z acc]; [cbn in H; lia|]. reflexivity.
Qed.

Lemma mk_partial_valuation_nvars nv c : nvars (mk_partial_valuation nv c) = nv.
Proof. unfold mk_partial_valuation. rewrite conj_chain_head by (cbn; lia). reflexivity. Qed.

Lemma dnf_rec_nvars nv : forall fuel var cs r, dnf_rec fuel var nv cs = Ok r -> nvars r = nv.
Proof.
  induction fuel as [|fuel IH]; intros var cs r E; [discriminate|]. cbn [dnf_rec] in E.
  destruct cs as [|c rest]; [inversion E; reflexivity|].
  destruct ((var =? nv) || is_nil rest).
  { destruct (forallb _ rest); [|discriminate]. inversion E. apply mk_partial_valuation_nvars. }
  destruct (negb (var <? nv)); [discriminate|].
  destruct (negb (existsb _ _)); [eapply IH; exact E|].
  destruct (split3 var (c :: rest)) as ((dc & ht) & hf).
  destruct (dnf_rec fuel (var + 1) nv dc) as [r1| |] eqn:E1; try discriminate.
  destruct (dnf_rec fuel (var + 1) nv ht) as [r2| |] eqn:E2; try discriminate.
  destruct (dnf_rec fuel (var + 1) nv hf) as [r3| |] eqn:E3; try discriminate.
  cbn [bind] in E. apply IH in E1. apply IH in E2. apply IH in E3.
  destruct (bdd_or_outcome r1 r2 ltac:(congruence)) as [(r12 & E12 & N12)|E12]; rewrite E12 in E; [|discriminate].
  cbn [bind] in E.
  destruct (bdd_or_outcome r12 r3 ltac:(congruence)) as [(r' & E' & N')|E']; rewrite E' in E; [|discriminate].
  inversion E; subst. congruence.
Qed.

(* ======================================================================================== *)
(* the three-way split is a partition                                                        *)
Lemma split3_complete x cs : forall dc ht hf, split3 x cs = (dc, ht, hf) -> forall c, In c cs ->
  match pv_get c x with None => In c dc | Some true => In c ht | Some false => In c hf end.
Proof.
  induction cs as [|d cs IH]; intros dc ht hf E c Hin; [destruct Hin|].
  cbn [split3] in E. destruct (split3 x cs) as ((dc0 & ht0) & hf0). specialize (IH dc0 ht0 hf0 eq_refl).
  destruct Hin as [->|Hin].
  - destruct (pv_get c x) as [[|]|]; inversion E; subst; left; reflexivity.
  - specialize (IH c Hin).
    destruct (pv_get d x) as [[|]|]; inversion E; subst; destruct (pv_get c x) as [[|]|];
      try exact IH; right; exact IH.
Qed.

(* ======================================================================================== *)
(* clash                                                                                     *)
Definition agree_below (nv : N) (c1 c2 : pval) : Prop := forall x, x < nv -> pv_get c1 x = pv_get c2 x.

(* two clauses of the list that the split never separates, yet different as partial valuations *)
Definition clash (nv : N) (cs : list pval) : Prop :=
  exists c1 c2, In c1 cs /\ In c2 cs /\ agree_below nv c1 c2 /\ pv_eq c1 c2 = false.

(* all out-of-range clauses of the list lie in one cell of the split *)
Definition one_cell (nv : N) (cs : list pval) : Prop :=
  forall c1 c2, In c1 cs -> In c2 cs -> cells_in_range nv c1 = false -> cells_in_range nv c2 = false ->
    agree_below nv c1 c2.

Lemma clash_mono nv sub cs : (forall c, In c sub -> In c cs) -> clash nv sub -> clash nv cs.
Proof. intros S (c1 & c2 & H1 & H2 & A & E). exists c1, c2. auto. Qed.

Lemma one_cell_mono nv sub cs : (forall c, In c sub -> In c cs) -> one_cell nv cs -> one_cell nv sub.
Proof. intros S K c1 c2 H1 H2. apply K; auto. Qed.

(* in-range clauses that agree below nv are equal: a clash needs an out-of-range clause *)
Lemma agree_in_range_eq nv c1 c2 : agree_below nv c1 c2 -> cells_in_range nv c1 = true -> cells_in_range nv c2 = true ->
  pv_eq c1 c2 = true.
Proof.
  intros A R1 R2. apply pv_eq_iff. intros x. destruct (N.lt_ge_cases x nv) as [Hlt|Hge]; [now apply A|].
  rewrite (in_range_get_none nv c1 x R1 Hge), (in_range_get_none nv c2 x R2 Hge). reflexivity.
Qed.

Lemma clash_pair_out_of_range nv c1 c2 : agree_below nv c1 c2 -> pv_eq c1 c2 = false ->
  cells_in_range nv c1 = false \/ cells_in_range nv c2 = false.
Proof.
  intros A E. destruct (cells_in_range nv c1) eqn:R1; [|left; reflexivity].
  destruct (cells_in_range nv c2) eqn:R2; [|right; reflexivity].
  rewrite (agree_in_range_eq nv c1 c2 A R1 R2) in E. discriminate.
Qed.

Lemma clash_out_of_range nv cs : clash nv cs -> exists c, In c cs /\ cells_in_range nv c = false.
Proof.
  intros (c1 & c2 & H1 & H2 & A & E). destruct (clash_pair_out_of_range nv c1 c2 A E); eauto.
Qed.

Lemma all_eq_no_clash_pair c rest c1 c2 : forallb (fun cx => pv_eq cx c) rest = true ->
  In c1 (c :: rest) -> In c2 (c :: rest) -> pv_eq c1 c2 = true.
Proof.
  intros D H1 H2. rewrite forallb_forall in D.
  assert (forall d, In d (c :: rest) -> pv_eq d c = true) as Hd.
  { intros d [<-|Hd]; [apply pv_eq_refl|apply D; exact Hd]. }
  apply (pv_eq_trans c1 c c2); [apply Hd; exact H1|]. rewrite pv_eq_sym. apply Hd. exact H2.
Qed.

(* ======================================================================================== *)
(* 1. Panic -> clash                                                                         *)
Lemma dnf_rec_panic_clash nv : forall fuel var cs, var <= nv -> agree var cs ->
  dnf_rec fuel var nv cs = Panic -> clash nv cs.
Proof.
  induction fuel as [|fuel IH]; intros var cs Hle A E; [discriminate|]. cbn [dnf_rec] in E.
  destruct cs as [|c rest]; [discriminate|].
  destruct ((var =? nv) || is_nil rest) eqn:B.
  { destruct (forallb (fun cx => pv_eq cx c) rest) eqn:D; [discriminate|].
    apply orb_true_iff in B. destruct B as [B|B].
    - apply N.eqb_eq in B. subst var. apply forallb_false_ex in D. destruct D as (cx & Hcx & Dx).
      exists cx, c. split; [right; exact Hcx|]. split; [left; reflexivity|]. split; [|exact Dx].
      intros x Hx. apply A; [right; exact Hcx|left; reflexivity|exact Hx].
    - destruct rest; [discriminate D|discriminate B]. }
  apply orb_false_iff in B. destruct B as (B1 & B2). apply N.eqb_neq in B1.
  assert (var < nv) as Hlt by lia. destruct (N.ltb_spec var nv) as [_|]; [|lia]. cbn [negb] in E.
  destruct (existsb (fun c' => pv_has_value c' var) (c :: rest)) eqn:SB; cbn [negb] in E.
  2:{ apply (IH (var + 1) (c :: rest)); [lia|apply agree_skip; assumption|exact E]. }
  destruct (split3 var (c :: rest)) as ((dc & ht) & hf) eqn:SP.
  destruct (split3_props var (c :: rest) dc ht hf SP) as (I1 & I2 & I3 & _ & _).
  pose proof (IH (var + 1) dc ltac:(lia) (agree_class var _ dc None A I1)) as P1.
  pose proof (IH (var + 1) ht ltac:(lia) (agree_class var _ ht (Some true) A I2)) as P2.
  pose proof (IH (var + 1) hf ltac:(lia) (agree_class var _ hf (Some false) A I3)) as P3.
  destruct (dnf_rec fuel (var + 1) nv dc) as [r1| |] eqn:E1;
    [|apply (clash_mono nv dc); [intros d Hd; apply (I1 d Hd)|apply P1; reflexivity]|discriminate].
  destruct (dnf_rec fuel (var + 1) nv ht) as [r2| |] eqn:E2;
    [|apply (clash_mono nv ht); [intros d Hd; apply (I2 d Hd)|apply P2; reflexivity]|discriminate].
  destruct (dnf_rec fuel (var + 1) nv hf) as [r3| |] eqn:E3;
    [|apply (clash_mono nv hf); [intros d Hd; apply (I3 d Hd)|apply P3; reflexivity]|discriminate].
  exfalso. cbn [bind] in E. apply dnf_rec_nvars in E1. apply dnf_rec_nvars in E2. apply dnf_rec_nvars in E3.
  destruct (bdd_or_outcome r1 r2 ltac:(congruence)) as [(r12 & E12 & N12)|E12]; rewrite E12 in E; [|discriminate].
  cbn [bind] in E.
  destruct (bdd_or_outcome r12 r3 ltac:(congruence)) as [(r' & E' & N')|E']; rewrite E' in E; discriminate.
Qed.

(* ======================================================================================== *)
(* 2. clash -> never Ok                                                                      *)
Lemma dnf_rec_clash_not_ok nv : forall fuel var cs r, var <= nv -> clash nv cs ->
  dnf_rec fuel var nv cs = Ok r -> False.
Proof.
  induction fuel as [|fuel IH]; intros var cs r Hle C E; [discriminate|]. cbn [dnf_rec] in E.
  destruct cs as [|c rest]; [destruct C as (c1 & _ & [] & _)|].
  destruct ((var =? nv) || is_nil rest) eqn:B.
  { destruct (forallb (fun cx => pv_eq cx c) rest) eqn:D; [|discriminate].
    destruct C as (c1 & c2 & H1 & H2 & _ & Ne). rewrite (all_eq_no_clash_pair c rest c1 c2 D H1 H2) in Ne. discriminate. }
  apply orb_false_iff in B. destruct B as (B1 & B2). apply N.eqb_neq in B1.
  assert (var < nv) as Hlt by lia. destruct (N.ltb_spec var nv) as [_|]; [|lia]. cbn [negb] in E.
  destruct (existsb (fun c' => pv_has_value c' var) (c :: rest)) eqn:SB; cbn [negb] in E.
  2:{ apply (IH (var + 1) (c :: rest) r); [lia|exact C|exact E]. }
  destruct (split3 var (c :: rest)) as ((dc & ht) & hf) eqn:SP.
  pose proof (split3_complete var (c :: rest) dc ht hf SP) as CP.
  destruct (dnf_rec fuel (var + 1) nv dc) as [r1| |] eqn:E1; try discriminate.
  destruct (dnf_rec fuel (var + 1) nv ht) as [r2| |] eqn:E2; try discriminate.
  destruct (dnf_rec fuel (var + 1) nv hf) as [r3| |] eqn:E3; try discriminate.
  destruct C as (c1 & c2 & H1 & H2 & Ag & Ne).
  pose proof (CP c1 H1) as M1. pose proof (CP c2 H2) as M2. rewrite <- (Ag var Hlt) in M2.
  assert (forall sub, In c1 sub -> In c2 sub -> clash nv sub) as Mk by (intros sub J1 J2; exists c1, c2; auto).
  destruct (pv_get c1 var) as [[|]|].
  - apply (IH (var + 1) ht r2); [lia|apply Mk; assumption|exact E2].
  - apply (IH (var + 1) hf r3); [lia|apply Mk; assumption|exact E3].
  - apply (IH (var + 1) dc r1); [lia|apply Mk; assumption|exact E1].
Qed.

(* ======================================================================================== *)
(* 3. clash -> Panic when the out-of-range clauses lie in one cell                            *)
Lemma dnf_rec_clash_panic nv : forall fuel var cs,
  var <= nv -> (N.to_nat (nv - var) < fuel)%nat -> agree var cs -> one_cell nv cs -> clash nv cs ->
  dnf_rec fuel var nv cs = Panic.
Proof.
  induction fuel as [|fuel IH]; intros var cs Hle Hf A K C; [lia|]. cbn [dnf_rec].
  destruct cs as [|c rest]; [destruct C as (c1 & _ & [] & _)|].
  destruct ((var =? nv) || is_nil rest) eqn:B.
  { destruct (forallb (fun cx => pv_eq cx c) rest) eqn:D; [|reflexivity].
    destruct C as (c1 & c2 & H1 & H2 & _ & Ne). rewrite (all_eq_no_clash_pair c rest c1 c2 D H1 H2) in Ne. discriminate. }
  apply orb_false_iff in B. destruct B as (B1 & B2). apply N.eqb_neq in B1.
  assert (var < nv) as Hlt by lia. destruct (N.ltb_spec var nv) as [_|]; [|lia]. cbn [negb].
  destruct (existsb (fun c' => pv_has_value c' var) (c :: rest)) eqn:SB; cbn [negb].
  2:{ apply IH; [lia|lia|apply agree_skip; assumption|exact K|exact C]. }
  destruct (split3 var (c :: rest)) as ((dc & ht) & hf) eqn:SP.
  destruct (split3_props var (c :: rest) dc ht hf SP) as (I1 & I2 & I3 & _ & _).
  pose proof (split3_complete var (c :: rest) dc ht hf SP) as CP.
  destruct C as (c1 & c2 & H1 & H2 & Ag & Ne).
  (* an out-of-range clause of the clashing pair; both lie in its cell *)
  assert (exists co, In co (c :: rest) /\ cells_in_range nv co = false /\
                     pv_get c1 var = pv_get co var /\ pv_get c2 var = pv_get co var) as (co & Hco & Rco & G1 & G2).
  { destruct (clash_pair_out_of_range nv c1 c2 Ag Ne) as [R|R].
    - exists c1. split; [exact H1|]. split; [exact R|]. split; [reflexivity|]. symmetry. apply Ag. exact Hlt.
    - exists c2. split; [exact H2|]. split; [exact R|]. split; [apply Ag; exact Hlt|reflexivity]. }
  (* a cell of the split: the one of `co` panics, every other one is entirely in range and answers Ok *)
  assert (HC : forall sub kk, (forall d, In d sub -> In d (c :: rest) /\ pv_get d var = kk) ->
                (forall d, In d (c :: rest) -> pv_get d var = kk -> In d sub) ->
                (kk = pv_get co var -> dnf_rec fuel (var + 1) nv sub = Panic) /\
                (kk <> pv_get co var -> exists r, dnf_rec fuel (var + 1) nv sub = Ok r)).
  { intros sub kk S T. split.
    - intros ->. apply IH; [lia|lia|apply (agree_class var (c :: rest) sub (pv_get co var) A S)| |].
      + apply (one_cell_mono nv sub (c :: rest)); [intros d Hd; apply (S d Hd)|exact K].
      + exists c1, c2. split; [apply T; assumption|]. split; [apply T; assumption|]. split; assumption.
    - intros Hk.
      destruct (dnf_rec_correct nv fuel (var + 1) sub ltac:(lia) ltac:(lia) (agree_class var (c :: rest) sub kk A S))
        as (r & E & _); [|exists r; exact E].
      intros d Hd. destruct (S d Hd) as (Hin & Gd).
      destruct (cells_in_range nv d) eqn:Rd; [reflexivity|]. exfalso. apply Hk.
      rewrite <- Gd. apply (K d co Hin Hco Rd Rco). exact Hlt. }
  assert (S1 : forall d, In d (c :: rest) -> pv_get d var = None -> In d dc).
  { intros d Hd G. pose proof (CP d Hd) as M. rewrite G in M. exact M. }
  assert (S2 : forall d, In d (c :: rest) -> pv_get d var = Some true -> In d ht).
  { intros d Hd G. pose proof (CP d Hd) as M. rewrite G in M. exact M. }
  assert (S3 : forall d, In d (c :: rest) -> pv_get d var = Some false -> In d hf).
  { intros d Hd G. pose proof (CP d Hd) as M. rewrite G in M. exact M. }
  destruct (HC dc None I1 S1) as (P1 & Q1). destruct (HC ht (Some true) I2 S2) as (P2 & Q2).
  destruct (HC hf (Some false) I3 S3) as (P3 & Q3).
  destruct (pv_get co var) as [[|]|].
  - destruct Q1 as (r1 & E1); [discriminate|]. rewrite E1, (P2 eq_refl). reflexivity.
  - destruct Q1 as (r1 & E1); [discriminate|]. destruct Q2 as (r2 & E2); [discriminate|].
    rewrite E1, E2, (P3 eq_refl). reflexivity.
  - rewrite (P1 eq_refl). reflexivity.
Qed.

(* ======================================================================================== *)
(* the theorems about mk_dnf_faithful                                                        *)

(* necessary: the only assertion that can fire is the duplicate check on two unseparated, different clauses *)
Theorem mk_dnf_faithful_panic_clash nv cs : mk_dnf_faithful nv cs = Panic -> clash nv cs.
Proof. apply dnf_rec_panic_clash; [lia|apply agree_0]. Qed.
Print Assumptions mk_dnf_faithful_panic_clash.

(* sufficient up to non-termination: with a clash the answer is never Ok *)
Theorem mk_dnf_faithful_clash_not_ok nv cs : clash nv cs ->
  mk_dnf_faithful nv cs = Panic \/ mk_dnf_faithful nv cs = OutOfFuel.
Proof.
  intros C. destruct (mk_dnf_faithful nv cs) as [r| |] eqn:E; [exfalso|left; reflexivity|right; reflexivity].
  apply (dnf_rec_clash_not_ok nv _ 0 cs r ltac:(lia) C E).
Qed.
Print Assumptions mk_dnf_faithful_clash_not_ok.

(* the two-sided sandwich in one statement (all three outcomes) *)
Theorem mk_dnf_faithful_outcomes nv cs :
  (mk_dnf_faithful nv cs = Panic -> clash nv cs) /\
  ((exists r, mk_dnf_faithful nv cs = Ok r) -> ~ clash nv cs) /\
  (mk_dnf_faithful nv cs = OutOfFuel -> exists c, In c cs /\ cells_in_range nv c = false) /\
  (clash nv cs -> exists c, In c cs /\ cells_in_range nv c = false).
Proof.
  split; [apply mk_dnf_faithful_panic_clash|]. split; [|split; [|apply clash_out_of_range]].
  - intros (r & E) C. destruct (mk_dnf_faithful_clash_not_ok nv cs C); congruence.
  - intros E. destruct (forallb (cells_in_range nv) cs) eqn:F; [|apply forallb_false_ex; exact F].
    rewrite forallb_forall in F. destruct (mk_dnf_faithful_correct nv cs F) as (r & E' & _). congruence.
Qed.
Print Assumptions mk_dnf_faithful_outcomes.

(* exact, when the out-of-range clauses lie in one cell of the split *)
Theorem mk_dnf_faithful_panic_iff nv cs : one_cell nv cs ->
  (mk_dnf_faithful nv cs = Panic <-> clash nv cs).
Proof.
  intros K. split; [apply mk_dnf_faithful_panic_clash|].
  intros C. apply dnf_rec_clash_panic; [lia|lia|apply agree_0|exact K|exact C].
Qed.
Print Assumptions mk_dnf_faithful_panic_iff.

(* `one_cell` holds in particular when the out-of-range clauses are all the same partial valuation — the asymmetric
   case: ONE out-of-range clause (possibly repeated) among in-range ones.  Then the recursion panics exactly when
   another clause, different from it, agrees with it on all variables below nv *)
Lemma one_cell_single nv cs c0 :
  (forall c, In c cs -> cells_in_range nv c = false -> pv_eq c c0 = true) -> one_cell nv cs.
Proof.
  intros H c1 c2 H1 H2 R1 R2 x _. pose proof (H c1 H1 R1) as E1. pose proof (H c2 H2 R2) as E2.
  rewrite pv_eq_iff in E1, E2. now rewrite E1, E2.
Qed.

Theorem mk_dnf_faithful_panic_iff_single nv cs c0 : In c0 cs -> cells_in_range nv c0 = false ->
  (forall c, In c cs -> cells_in_range nv c = false -> pv_eq c c0 = true) ->
  (mk_dnf_faithful nv cs = Panic <-> exists c, In c cs /\ agree_below nv c c0 /\ pv_eq c c0 = false).
Proof.
  intros H0 R0 S. rewrite (mk_dnf_faithful_panic_iff nv cs (one_cell_single nv cs c0 S)). split.
  - intros (c1 & c2 & H1 & H2 & A & Ne).
    destruct (clash_pair_out_of_range nv c1 c2 A Ne) as [R|R].
    + pose proof (S c1 H1 R) as E1. exists c2. split; [exact H2|]. rewrite pv_eq_iff in E1. split.
      * intros x Hx. rewrite <- E1. symmetry. now apply A.
      * destruct (pv_eq c2 c0) eqn:E2; [|reflexivity]. exfalso.
        assert (pv_eq c1 c2 = true); [|congruence]. apply (pv_eq_trans c1 c0 c2); [apply pv_eq_iff; exact E1|].
        now rewrite pv_eq_sym.
    + pose proof (S c2 H2 R) as E2. exists c1. split; [exact H1|]. rewrite pv_eq_iff in E2. split.
      * intros x Hx. rewrite <- E2. now apply A.
      * destruct (pv_eq c1 c0) eqn:E1; [|reflexivity]. exfalso.
        assert (pv_eq c1 c2 = true); [|congruence]. apply (pv_eq_trans c1 c0 c2); [exact E1|].
        rewrite pv_eq_sym. apply pv_eq_iff. exact E2.
  - intros (c & Hc & A & Ne). exists c, c0. auto.
Qed.
Print Assumptions mk_dnf_faithful_panic_iff_single.

(* ---- instances ---- *)
Lemma agree_below_2 c1 c2 : pv_get c1 0 = pv_get c2 0 -> pv_get c1 1 = pv_get c2 1 -> agree_below 2 c1 c2.
Proof. intros H0 H1 x Hx. assert (x = 0 \/ x = 1) as [->| ->] by lia; assumption. Qed.

(* the asymmetric case: an out-of-range clause alone in its cell is accepted (Ok, malformed diagram; the fold model
   panics), together with a different clause of the same cell it panics *)
Example mk_dnf_faithful_asymmetric :
  let far := [Some true; None; Some true] in               (* x0 /\ x2 over the 2 variables x0, x1 *)
  cells_in_range 2 far = false /\
  (exists r, mk_dnf_faithful 2 [far] = Ok r) /\ mk_dnf 2 [far] = Panic /\
  (exists r, mk_dnf_faithful 2 [[Some false; Some true]; far] = Ok r) /\ ~ clash 2 [[Some false; Some true]; far] /\
  mk_dnf_faithful 2 [[Some false; Some true]; far; [Some true]] = Panic /\ clash 2 [[Some false; Some true]; far; [Some true]].
Proof.
  cbv zeta. split; [reflexivity|]. split; [vm_compute; eexists; reflexivity|]. split; [reflexivity|].
  split; [vm_compute; eexists; reflexivity|]. split.
  - intros C. assert (exists r, mk_dnf_faithful 2 [[Some false; Some true]; [Some true; None; Some true]] = Ok r) as H
      by (vm_compute; eexists; reflexivity).
    apply (proj1 (proj2 (mk_dnf_faithful_outcomes _ _)) H C).
  - split; [reflexivity|]. exists [Some true; None; Some true], [Some true].
    split; [right; left; reflexivity|]. split; [right; right; left; reflexivity|].
    split; [apply agree_below_2; reflexivity|reflexivity].
Qed.

(* the unconditional equivalence is FALSE for the model: the cell has_true = {c1, c2} is evaluated before the cell
   has_false = {c3, c4}; its two malformed leaves (x3 > num_vars) make `or` exhaust its fuel, and the clash of c3 / c4 is
   never reached — whatever the order of the clauses in the list *)
Example mk_dnf_faithful_panic_iff_refuted :
  let c1 := [Some true; Some true; None; Some true] in
  let c2 := [Some true; Some false; None; Some true] in
  let c3 := [Some false; None; Some true] in
  let c4 := [Some false; None; Some false] in
  clash 2 [c1; c2; c3; c4] /\ mk_dnf_faithful 2 [c1; c2; c3; c4] = OutOfFuel /\
  mk_dnf_faithful 2 [c3; c4; c1; c2] = OutOfFuel /\ mk_dnf_faithful 2 [c3; c4] = Panic /\
  ~ one_cell 2 [c1; c2; c3; c4] /\
  (* and without any clash the answer need not be Ok either *)
  ~ clash 2 [c1; c2] /\ mk_dnf_faithful 2 [c1; c2] = OutOfFuel.
Proof.
  cbv zeta. split.
  { exists [Some false; None; Some true], [Some false; None; Some false].
    split; [right; right; left; reflexivity|]. split; [right; right; right; left; reflexivity|].
    split; [apply agree_below_2; reflexivity|reflexivity]. }
  split; [reflexivity|]. split; [reflexivity|]. split; [reflexivity|]. split.
  { intros K.
    specialize (K [Some true; Some true; None; Some true] [Some false; None; Some true]
                  ltac:(left; reflexivity) ltac:(right; right; left; reflexivity) eq_refl eq_refl 0 ltac:(lia)).
    discriminate K. }
  split; [|reflexivity].
  intros (d1 & d2 & H1 & H2 & A & Ne).
  assert (forall d, In d [[Some true; Some true; None; Some true]; [Some true; Some false; None; Some true]] ->
            d = [Some true; Some true; None; Some true] \/ d = [Some true; Some false; None; Some true]) as Hd.
  { intros d [<-|[<-|[]]]; auto. }
  destruct (Hd d1 H1) as [->| ->], (Hd d2 H2) as [->| ->]; try discriminate Ne;
    specialize (A 1 ltac:(lia)); discriminate A.
Qed.
