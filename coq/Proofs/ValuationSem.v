(* Proofs/ValuationSem.v — partial valuations as finite maps: ==, the Hasher stream, set/unset histories,
   conversions, extends (C18). *)
From Coq Require Import List PeanoNat NArith Lia Bool.
Import ListNotations.
From BddVerif Require Import Model.Bdd Model.Apply Model.Ops Model.Valuation Proofs.PvalSem.
Open Scope N_scope.

(* ======================================================================================== *)
(* ==                                                                                        *)

Lemma all_none_iff l : forallb is_none l = true <-> forall n, nth n l None = None.
Proof.
  induction l as [|c l IH]; cbn [forallb].
  - split; [intros _ [|n]; reflexivity | reflexivity].
  - rewrite andb_true_iff, IH. split.
    + intros (Hc & Hl) [|n]; cbn [nth]; [destruct c; [discriminate|reflexivity] | apply Hl].
    + intros H. split; [specialize (H O); cbn in H; subst; reflexivity | intros n; apply (H (S n))].
Qed.

Lemma cell_eqb_iff a b : cell_eqb a b = true <-> a = b.
Proof. destruct a as [[|]|], b as [[|]|]; cbn; split; congruence. Qed.

Lemma nth_nil_none n : nth n (@nil (option bool)) None = None.
Proof. destruct n; reflexivity. Qed.

Lemma pv_eq_nat a : forall b, pv_eq a b = true <-> forall n, nth n a None = nth n b None.
Proof.
  induction a as [|x a IH]; intros b.
  - cbn [pv_eq]. rewrite all_none_iff. split; intros H n.
    + rewrite H. apply nth_nil_none.
    + rewrite <- H. apply nth_nil_none.
  - destruct b as [|y b].
    + cbn [pv_eq]. rewrite all_none_iff. split; intros H n.
      * rewrite H. symmetry. apply nth_nil_none.
      * rewrite H. apply nth_nil_none.
    + cbn [pv_eq]. rewrite andb_true_iff, cell_eqb_iff, IH. split.
      * intros (-> & H) [|n]; cbn [nth]; [reflexivity|apply H].
      * intros H. split; [apply (H O)| intros n; apply (H (S n))].
Qed.

(* the custom PartialEq is exactly equality of the finite maps, whatever the padding *)
Theorem pv_eq_iff a b : pv_eq a b = true <-> forall x, pv_get a x = pv_get b x.
Proof.
  rewrite pv_eq_nat. unfold pv_get. split.
  - intros H x. apply H.
  - intros H n. specialize (H (N.of_nat n)). now rewrite Nnat.Nat2N.id in H.
Qed.
Print Assumptions pv_eq_iff.

Corollary pv_eq_refl a : pv_eq a a = true.
Proof. apply pv_eq_iff. reflexivity. Qed.
Corollary pv_eq_sym a b : pv_eq a b = pv_eq b a.
Proof.
  destruct (pv_eq a b) eqn:E1, (pv_eq b a) eqn:E2; try reflexivity.
  - rewrite pv_eq_iff in E1. assert (pv_eq b a = true) by (apply pv_eq_iff; intros x; symmetry; apply E1). congruence.
  - rewrite pv_eq_iff in E2. assert (pv_eq a b = true) by (apply pv_eq_iff; intros x; symmetry; apply E2). congruence.
Qed.
Corollary pv_eq_trans a b c : pv_eq a b = true -> pv_eq b c = true -> pv_eq a c = true.
Proof. rewrite !pv_eq_iff. intros H1 H2 x. now rewrite H1. Qed.

(* padding is invisible: appending unset cells gives an equal valuation *)
Corollary pv_eq_padding a k : pv_eq a (a ++ repeat None k) = true.
Proof.
  apply pv_eq_nat. intros n. destruct (Nat.lt_ge_cases n (length a)) as [Hlt|Hge].
  - now rewrite app_nth1.
  - rewrite app_nth2 by assumption. rewrite (nth_overflow a) by assumption.
    symmetry. destruct (Nat.lt_ge_cases (n - length a) (length (repeat (@None bool) k))) as [H|H].
    + apply (repeat_spec k None). apply nth_In. exact H.
    + now apply nth_overflow.
Qed.

(* ======================================================================================== *)
(* set / unset / IndexMut histories                                                          *)

Definition fmap := N -> option bool.
Definition fm_step (f : fmap) (o : pv_op) : fmap :=
  match o with
  | OpSet x c => fun y => if x =? y then Some c else f y
  | OpUnset x => fun y => if x =? y then None else f y
  | OpIndex x c => fun y => if x =? y then c else f y
  end.
Definition fm_run (f : fmap) (ops : list pv_op) : fmap := fold_left fm_step ops f.

Theorem set_get p x c y : pv_get (pv_set_value p x c) y = if x =? y then Some c else pv_get p y.
Proof. apply pv_get_set. Qed.
Theorem unset_get p x y : pv_get (pv_unset_value p x) y = if x =? y then None else pv_get p y.
Proof. apply pv_get_set. Qed.

Lemma pv_step_get p o y : pv_get (pv_step p o) y = fm_step (pv_get p) o y.
Proof. destruct o; cbn [pv_step fm_step]; apply pv_get_set. Qed.

Lemma fm_step_ext f g o : (forall y, f y = g y) -> forall y, fm_step f o y = fm_step g o y.
Proof. intros H y. destruct o; cbn [fm_step]; destruct (_ =? _); auto. Qed.

Lemma pv_run_get_gen ops : forall p f, (forall y, pv_get p y = f y) -> forall y, pv_get (pv_run p ops) y = fm_run f ops y.
Proof.
  induction ops as [|o ops IH]; intros p f H y; [apply H|].
  unfold pv_run, fm_run. cbn [fold_left]. apply IH. intros z. rewrite pv_step_get. now apply fm_step_ext.
Qed.

(* the value reached by ANY sequence of operations denotes the finite map obtained by running the same
   operations on maps *)
Theorem pv_run_get p ops y : pv_get (pv_run p ops) y = fm_run (pv_get p) ops y.
Proof. now apply pv_run_get_gen. Qed.
Print Assumptions pv_run_get.

Theorem pv_history_eq_iff s1 o1 s2 o2 :
  pv_eq (pv_run s1 o1) (pv_run s2 o2) = true <-> forall y, fm_run (pv_get s1) o1 y = fm_run (pv_get s2) o2 y.
Proof. rewrite pv_eq_iff. split; intros H y; specialize (H y); now rewrite !pv_run_get in *. Qed.
Print Assumptions pv_history_eq_iff.

(* ======================================================================================== *)
(* Hash                                                                                      *)

Definition enc (xc : N * bool) : list N := (hash_sep :: le_bytes 8 (fst xc)) ++ [hash_sep; if snd xc then 1 else 0].

Lemma pv_hash_from_cells p : forall i, pv_hash_from i p = flat_map enc (pv_cells_from i p).
Proof.
  induction p as [|[c|] p IH]; intros i; cbn [pv_hash_from pv_cells_from flat_map]; [reflexivity| |apply IH].
  rewrite IH. unfold enc. cbn [fst snd]. now rewrite <- app_assoc.
Qed.

Lemma cells_none l : forallb is_none l = true -> forall i, pv_cells_from i l = [].
Proof.
  induction l as [|[c|] l IH]; cbn [forallb is_none pv_cells_from]; intros H i; [reflexivity|discriminate|].
  apply IH. exact H.
Qed.

Lemma pv_eq_cells a : forall b i, pv_eq a b = true -> pv_cells_from i a = pv_cells_from i b.
Proof.
  induction a as [|x a IH]; intros b i H.
  - cbn [pv_eq] in H. cbn [pv_cells_from]. symmetry. now apply cells_none.
  - destruct b as [|y b].
    + cbn [pv_eq] in H. transitivity (@nil (N * bool)); [now apply cells_none | reflexivity].
    + cbn [pv_eq] in H. apply andb_true_iff in H. destruct H as (Hc & H). apply cell_eqb_iff in Hc. subst y.
      destruct x; cbn [pv_cells_from]; [f_equal|]; now apply IH.
Qed.

(* equal partial valuations feed the Hasher the identical sequence of calls *)
Theorem pv_hash_respects_eq a b : pv_eq a b = true -> pv_hash_stream a = pv_hash_stream b.
Proof. intros H. unfold pv_hash_stream. rewrite !pv_hash_from_cells. f_equal. now apply pv_eq_cells. Qed.
Print Assumptions pv_hash_respects_eq.

Lemma cells_nil_none l : forall i, pv_cells_from i l = [] -> forallb is_none l = true.
Proof.
  induction l as [|[c|] l IH]; intros i; cbn [pv_cells_from forallb is_none]; [reflexivity|discriminate|].
  intros H. cbn [andb]. now apply (IH (i + 1)).
Qed.

Lemma cells_lb l i x c : In (x, c) (pv_cells_from i l) -> i <= x.
Proof. intros H. now apply pv_cells_from_in in H. Qed.

Lemma cells_pv_eq a : forall b i, pv_cells_from i a = pv_cells_from i b -> pv_eq a b = true.
Proof.
  induction a as [|x a IH]; intros b i H.
  - cbn [pv_eq]. cbn [pv_cells_from] in H. symmetry in H. now apply (cells_nil_none b i).
  - destruct b as [|y b].
    + cbn [pv_eq]. change (pv_cells_from i []) with (@nil (N * bool)) in H. now apply (cells_nil_none (x :: a) i).
    + cbn [pv_eq]. destruct x as [c|], y as [d|]; cbn [pv_cells_from] in H.
      * inversion H as [[Hc Hr]]. subst d. cbn [cell_eqb]. rewrite eqb_reflx. cbn [andb]. now apply (IH b (i + 1)).
      * exfalso. assert (Hin : In (i, c) (pv_cells_from (i + 1) b)) by (rewrite <- H; now left).
        apply cells_lb in Hin. lia.
      * exfalso. assert (Hin : In (i, d) (pv_cells_from (i + 1) a)) by (rewrite H; now left).
        apply cells_lb in Hin. lia.
      * cbn [cell_eqb andb]. now apply (IH b (i + 1)).
Qed.

(* injectivity of the byte encoding *)
Lemma le_bytes_length n : forall x, length (le_bytes n x) = n.
Proof. induction n as [|n IH]; intros x; cbn [le_bytes length]; [reflexivity|]. now rewrite IH. Qed.

Lemma le_bytes_mod n : forall x y, le_bytes n x = le_bytes n y -> x mod 256 ^ N.of_nat n = y mod 256 ^ N.of_nat n.
Proof.
  induction n as [|n IH]; intros x y H.
  - cbn. now rewrite !N.mod_1_r.
  - cbn [le_bytes] in H. inversion H as [[H0 Hr]]. apply IH in Hr.
    rewrite Nnat.Nat2N.inj_succ, N.pow_succ_r'.
    assert (P : 256 ^ N.of_nat n <> 0) by (apply N.pow_nonzero; lia).
    rewrite !N.mod_mul_r by (try lia; exact P). now rewrite H0, Hr.
Qed.

Lemma app_inv_len {T} (l1 l2 r1 r2 : list T) : length l1 = length l2 -> l1 ++ r1 = l2 ++ r2 -> l1 = l2 /\ r1 = r2.
Proof.
  revert l2. induction l1 as [|a l1 IH]; intros [|b l2] Hlen H; cbn in Hlen; try discriminate.
  - now split.
  - cbn in H. inversion H as [[Ha Hr]]. destruct (IH l2 ltac:(lia) Hr) as (-> & ->). now split.
Qed.

Lemma enc_length xc : length (enc xc) = 11%nat.
Proof. unfold enc. rewrite app_length. cbn [length]. rewrite le_bytes_length. reflexivity. Qed.

Lemma enc_inj a b : fst a < 2 ^ 64 -> fst b < 2 ^ 64 -> enc a = enc b -> a = b.
Proof.
  destruct a as [x c], b as [y d]. cbn [fst]. intros Hx Hy H. unfold enc in H. cbn [fst snd] in H.
  assert (Lx : length (le_bytes 8 x) = 8%nat) by apply le_bytes_length.
  assert (Ly : length (le_bytes 8 y) = 8%nat) by apply le_bytes_length.
  assert (Hb : le_bytes 8 x = le_bytes 8 y /\ (if c then 1 else 0) = (if d then 1 else 0)).
  { remember (le_bytes 8 x) as bx. remember (le_bytes 8 y) as bY. cbn [app] in H. inversion H as [H'].
    apply app_inv_len in H'; [|congruence]. destruct H' as (E1 & E2). split; [exact E1|]. now inversion E2. }
  destruct Hb as (Hb & Hcd). apply le_bytes_mod in Hb. change (256 ^ N.of_nat 8) with (2 ^ 64) in Hb.
  rewrite !N.mod_small in Hb by assumption. subst y. f_equal.
  destruct c, d; try reflexivity; discriminate.
Qed.

Lemma flat_enc_inj l1 : forall l2, Forall (fun xc => fst xc < 2 ^ 64) l1 -> Forall (fun xc => fst xc < 2 ^ 64) l2 ->
  flat_map enc l1 = flat_map enc l2 -> l1 = l2.
Proof.
  induction l1 as [|a l1 IH]; intros [|b l2] F1 F2 H; cbn [flat_map] in H.
  - reflexivity.
  - exfalso. apply (f_equal (@length N)) in H. rewrite app_length, enc_length in H. cbn in H. lia.
  - exfalso. apply (f_equal (@length N)) in H. rewrite app_length, enc_length in H. cbn in H. lia.
  - apply app_inv_len in H; [|now rewrite !enc_length]. destruct H as (Ha & Hr).
    inversion F1; inversion F2; subst. f_equal; [now apply enc_inj | now apply IH].
Qed.

Lemma cells_bound p : forall i, Forall (fun xc => fst xc < i + N.of_nat (length p)) (pv_cells_from i p).
Proof.
  induction p as [|[c|] p IH]; intros i; cbn [pv_cells_from length].
  - constructor.
  - constructor; [cbn [fst]; lia|]. eapply Forall_impl; [|apply (IH (i + 1))]. intros xc. cbn beta. lia.
  - eapply Forall_impl; [|apply (IH (i + 1))]. intros xc. cbn beta. lia.
Qed.

(* the converse: the stream determines the valuation (for vectors that fit a 64-bit usize) *)
Theorem pv_hash_injective a b : N.of_nat (length a) <= 2 ^ 64 -> N.of_nat (length b) <= 2 ^ 64 ->
  pv_hash_stream a = pv_hash_stream b -> pv_eq a b = true.
Proof.
  intros Ha Hb H. unfold pv_hash_stream in H. rewrite !pv_hash_from_cells in H.
  apply (cells_pv_eq a b 0). apply flat_enc_inj; [| |exact H].
  - eapply Forall_impl; [|apply cells_bound]. intros xc. cbn beta. lia.
  - eapply Forall_impl; [|apply cells_bound]. intros xc. cbn beta. lia.
Qed.
Print Assumptions pv_hash_injective.

Theorem pv_hash_eq_iff a b : N.of_nat (length a) <= 2 ^ 64 -> N.of_nat (length b) <= 2 ^ 64 ->
  (pv_hash_stream a = pv_hash_stream b <-> pv_eq a b = true).
Proof. intros Ha Hb. split; [now apply pv_hash_injective | apply pv_hash_respects_eq]. Qed.

(* ======================================================================================== *)
(* observers                                                                                 *)

Theorem pv_to_values_in p x c : In (x, c) (pv_to_values p) <-> pv_get p x = Some c.
Proof. apply pv_cells_in. Qed.

Theorem pv_has_value_iff p x : pv_has_value p x = true <-> exists c, pv_get p x = Some c.
Proof.
  unfold pv_has_value. destruct (pv_get p x) as [c|]; cbn; split; try discriminate; eauto.
  intros (c & H). discriminate.
Qed.

Theorem pv_is_empty_iff p : pv_is_empty p = true <-> forall x, pv_get p x = None.
Proof.
  unfold pv_is_empty, pv_get. rewrite all_none_iff. split.
  - intros H x. apply H.
  - intros H n. specialize (H (N.of_nat n)). now rewrite Nnat.Nat2N.id in H.
Qed.

(* ======================================================================================== *)
(* conversions                                                                               *)

Lemma all_some_map v : all_some (map Some v) = Some v.
Proof. induction v as [|c v IH]; cbn [map all_some]; [reflexivity|]. now rewrite IH. Qed.

Lemma all_some_inv p : forall v, all_some p = Some v -> p = map Some v.
Proof.
  induction p as [|[c|] p IH]; intros v H; cbn [all_some] in H.
  - inversion H. reflexivity.
  - destruct (all_some p) as [l|] eqn:E; [|discriminate]. inversion H. subst v. cbn [map]. f_equal. now apply IH.
  - discriminate.
Qed.

Lemma len16_small {T} (l : list T) : N.of_nat (length l) < 65536 -> N.to_nat (len16 l) = length l.
Proof. intros H. unfold len16. rewrite N.mod_small by assumption. apply Nnat.Nat2N.id. Qed.

(* BddValuation -> BddPartialValuation -> BddValuation is the identity *)
Theorem valuation_pv_valuation v : N.of_nat (length v) < 65536 ->
  valuation_of_pv (pv_of_valuation v) = Some v.
Proof.
  intros H. unfold valuation_of_pv, pv_of_valuation.
  assert (L : length (map Some v) = length v) by apply map_length.
  destruct (N.ltb_spec 65535 (N.of_nat (length (map Some v)))) as [Hgt|Hle]; [rewrite L in Hgt; lia|].
  rewrite len16_small by (rewrite L; exact H). rewrite firstn_all. apply all_some_map.
Qed.
Print Assumptions valuation_pv_valuation.

(* BddPartialValuation -> BddValuation succeeds exactly on the vectors that are a total valuation (every stored
   cell fixed, at most u16::MAX cells), and then converting back returns the very same vector *)
Theorem pv_valuation_pv p v : valuation_of_pv p = Some v <-> (N.of_nat (length p) < 65536 /\ p = pv_of_valuation v).
Proof.
  unfold valuation_of_pv, pv_of_valuation. split.
  - destruct (N.ltb_spec 65535 (N.of_nat (length p))) as [Hgt|Hle]; [discriminate|].
    rewrite len16_small by lia. rewrite firstn_all. intros H. split; [lia|now apply all_some_inv].
  - intros (H & ->). destruct (N.ltb_spec 65535 (N.of_nat (length (map Some v)))) as [Hgt|Hle]; [lia|].
    rewrite len16_small by exact H. rewrite firstn_all. apply all_some_map.
Qed.
Print Assumptions pv_valuation_pv.

Corollary pv_valuation_pv_eq p v : valuation_of_pv p = Some v -> pv_eq p (pv_of_valuation v) = true.
Proof. intros H. apply pv_valuation_pv in H. destruct H as (_ & ->). apply pv_eq_refl. Qed.

Theorem pv_of_valuation_get v x :
  pv_get (pv_of_valuation v) x = if x <? N.of_nat (length v) then Some (nth (N.to_nat x) v false) else None.
Proof.
  unfold pv_get, pv_of_valuation. destruct (N.ltb_spec x (N.of_nat (length v))) as [Hlt|Hge].
  - rewrite (nth_indep _ None (Some false)) by (rewrite map_length; lia). apply (map_nth Some).
  - apply nth_overflow. rewrite map_length. lia.
Qed.

(* to_values of a total valuation is to_values of its partial valuation *)
Lemma val_cells_pv v : forall i, val_cells_from i v = pv_cells_from i (map Some v).
Proof. induction v as [|c v IH]; intros i; cbn [val_cells_from pv_cells_from map]; [reflexivity|]. now rewrite IH. Qed.
Theorem val_to_values_pv v : val_to_values v = pv_to_values (pv_of_valuation v).
Proof. apply val_cells_pv. Qed.

Lemma asc_lb l : forall j x c, asc_from j l -> In (x, c) l -> j <= x.
Proof.
  induction l as [|[y d] l IH]; intros j x c Ha Hin; [destruct Hin|].
  cbn [asc_from fst] in Ha. destruct Ha as (Hj & Ha). destruct Hin as [E|Hin].
  - inversion E; subst. exact Hj.
  - specialize (IH _ _ _ Ha Hin). lia.
Qed.

Lemma last_value_asc l : forall j x c, asc_from j l -> In (x, c) l -> last_value l x = Some c.
Proof.
  induction l as [|[y d] l IH]; intros j x c Ha Hin; [destruct Hin|].
  cbn [asc_from fst] in Ha. destruct Ha as (Hj & Ha). cbn [last_value].
  destruct Hin as [E|Hin].
  - inversion E; subst y d. destruct (last_value l x) as [e|] eqn:El.
    + apply last_value_in in El. apply (asc_lb l _ _ _ Ha) in El. lia.
    + now rewrite N.eqb_refl.
  - now rewrite (IH _ _ _ Ha Hin).
Qed.

(* from_values (to_values p) denotes the same map as p *)
Theorem from_values_to_values p : pv_eq (pv_from_values (pv_to_values p)) p = true.
Proof.
  apply pv_eq_iff. intros x. rewrite pv_from_values_get. unfold pv_to_values.
  destruct (pv_get p x) as [c|] eqn:G.
  - apply pv_cells_in in G. apply (last_value_asc _ 0 _ _ (pv_cells_from_asc p 0) G).
  - destruct (last_value (pv_cells p) x) as [d|] eqn:El; [|reflexivity].
    apply last_value_in in El. apply pv_cells_in in El. congruence.
Qed.
Print Assumptions from_values_to_values.

Theorem from_values_of_valuation v : pv_eq (pv_from_values (val_to_values v)) (pv_of_valuation v) = true.
Proof. rewrite val_to_values_pv. apply from_values_to_values. Qed.

(* ======================================================================================== *)
(* extends                                                                                   *)

Lemma nth_tl (a : pval) n : nth n (tl a) None = nth (S n) a None.
Proof. destruct a as [|x a]; [destruct n; reflexivity|reflexivity]. Qed.
Lemma hd_nth (a : pval) : hd None a = nth 0 a None.
Proof. destruct a; reflexivity. Qed.

Lemma fixed_agrees_iff m e : fixed_agrees m e = true <-> forall c, e = Some c -> m = Some c.
Proof.
  unfold fixed_agrees. destruct e as [c|].
  - rewrite cell_eqb_iff. split; [intros -> d E; now inversion E | intros H; now apply H].
  - split; [intros _ c E; discriminate | reflexivity].
Qed.

Lemma pv_extends_nat b : forall a, pv_extends a b = true <-> forall n c, nth n b None = Some c -> nth n a None = Some c.
Proof.
  induction b as [|e r IH]; intros a; cbn [pv_extends].
  - split; [intros _ n c H; rewrite nth_nil_none in H; discriminate | reflexivity].
  - rewrite andb_true_iff, fixed_agrees_iff, IH. split.
    + intros (H0 & Hr) [|n] c H; cbn [nth] in H.
      * rewrite <- hd_nth. now apply H0.
      * rewrite <- nth_tl. now apply Hr.
    + intros H. split.
      * intros c E. rewrite hd_nth. apply H. cbn [nth]. exact E.
      * intros n c E. rewrite nth_tl. apply H. cbn [nth]. exact E.
Qed.

(* a.extends(b) holds exactly when a fixes every variable that b fixes, to the same value *)
Theorem extends_iff a b : pv_extends a b = true <-> forall x c, pv_get b x = Some c -> pv_get a x = Some c.
Proof.
  rewrite pv_extends_nat. unfold pv_get. split.
  - intros H x c. apply H.
  - intros H n c. specialize (H (N.of_nat n) c). now rewrite Nnat.Nat2N.id in H.
Qed.
Print Assumptions extends_iff.

Corollary extends_respects_eq a a' b b' : pv_eq a a' = true -> pv_eq b b' = true -> pv_extends a b = pv_extends a' b'.
Proof.
  rewrite !pv_eq_iff. intros Ha Hb.
  destruct (pv_extends a b) eqn:E1, (pv_extends a' b') eqn:E2; try reflexivity.
  - rewrite extends_iff in E1. assert (pv_extends a' b' = true); [|congruence].
    apply extends_iff. intros x c. rewrite <- Ha, <- Hb. apply E1.
  - rewrite extends_iff in E2. assert (pv_extends a b = true); [|congruence].
    apply extends_iff. intros x c. rewrite Ha, Hb. apply E2.
Qed.

Corollary extends_refl a : pv_extends a a = true.
Proof. apply extends_iff. auto. Qed.
Corollary extends_antisym a b : pv_extends a b = true -> pv_extends b a = true -> pv_eq a b = true.
Proof.
  rewrite !extends_iff, pv_eq_iff. intros H1 H2 x.
  destruct (pv_get a x) as [c|] eqn:Ea.
  - symmetry. now apply H2.
  - destruct (pv_get b x) as [d|] eqn:Eb; [|reflexivity]. apply H1 in Eb. congruence.
Qed.

Lemma val_extends_cells_nat s : forall p, val_extends_cells s p = true <->
  forall n c, (n < length s)%nat -> nth n p None = Some c -> nth n s false = c.
Proof.
  induction s as [|b s IH]; intros p; cbn [val_extends_cells].
  - split; [intros _ n c H; cbn in H; lia | reflexivity].
  - destruct p as [|e p].
    + split; [intros _ n c _ H; rewrite nth_nil_none in H; discriminate | reflexivity].
    + rewrite andb_true_iff, IH. split.
      * intros (H0 & Hr) [|n] c Hn H; cbn [nth length] in *.
        -- subst e. now apply eqb_prop in H0.
        -- apply Hr; [lia|exact H].
      * intros H. split.
        -- destruct e as [v|]; [|reflexivity]. rewrite <- (H O v); cbn [length nth]; [apply eqb_reflx|lia|reflexivity].
        -- intros n c Hn E. apply (H (S n) c); cbn [length nth]; [lia|exact E].
Qed.

(* BddValuation::extends: agreement on every variable of the total valuation that the partial one fixes *)
Theorem val_extends_iff v p : N.of_nat (length v) < 65536 ->
  (val_extends v p = true <-> forall x c, x < N.of_nat (length v) -> pv_get p x = Some c -> nth (N.to_nat x) v false = c).
Proof.
  intros Hlen. unfold val_extends. rewrite len16_small by exact Hlen. rewrite firstn_all.
  rewrite val_extends_cells_nat. unfold pv_get. split.
  - intros H x c Hx. apply H. lia.
  - intros H n c Hn. specialize (H (N.of_nat n) c). rewrite Nnat.Nat2N.id in H. apply H. lia.
Qed.
Print Assumptions val_extends_iff.

Corollary val_extends_as_pv v p : N.of_nat (length v) < 65536 ->
  (forall x c, pv_get p x = Some c -> x < N.of_nat (length v)) ->
  val_extends v p = pv_extends (pv_of_valuation v) p.
Proof.
  intros Hlen Hdom.
  destruct (val_extends v p) eqn:E1, (pv_extends (pv_of_valuation v) p) eqn:E2; try reflexivity.
  - rewrite val_extends_iff in E1 by exact Hlen. assert (pv_extends (pv_of_valuation v) p = true); [|congruence].
    apply extends_iff. intros x c G. rewrite pv_of_valuation_get. pose proof (Hdom x c G) as Hx.
    destruct (N.ltb_spec x (N.of_nat (length v))); [|lia]. f_equal. now apply E1.
  - rewrite extends_iff in E2. assert (val_extends v p = true); [|congruence].
    apply val_extends_iff; [exact Hlen|]. intros x c Hx G. specialize (E2 x c G).
    rewrite pv_of_valuation_get in E2. destruct (N.ltb_spec x (N.of_nat (length v))); [|lia]. now inversion E2.
Qed.

(* ======================================================================================== *)
(* repaired in /repo by 2343bc4: extends() and try_from() used `len as u16`, which is 0 for the 65536-cell vector of
   a valuation that fixes variable 65535 *)
Definition pv_extends_legacy (self other : pval) : bool :=
  pv_extends self (firstn (N.to_nat (len16 other)) other).
Definition valuation_of_pv_legacy (p : pval) : option (list bool) := all_some (firstn (N.to_nat (len16 p)) p).
Example extends_legacy_refuted :
  let big := pv_set_value pv_empty 65535 true in
  pv_extends_legacy pv_empty big = true /\ pv_extends pv_empty big = false /\
  valuation_of_pv_legacy big = Some [] /\ valuation_of_pv big = None.
Proof. vm_compute. repeat split; reflexivity. Qed.
