(* Proofs/Gaps3Substitute.v — the exact panic condition of the step-faithful Bdd::substitute (C07), and what the
   model does outside the domain of the main theorem (x out of range, operands over different variable counts). *)
From Coq Require Import List PeanoNat NArith Lia Bool.
Import ListNotations.
From BddVerif Require Import Model.Bdd Model.Apply Model.Ops Model.Rename Model.Nested Model.Substitute
  Proofs.Sem Proofs.Canon Proofs.ApplyTop Proofs.RelSem Proofs.RenameSem Proofs.RenameOps Proofs.SubstituteSem.
Open Scope N_scope.

(* ---- which of the three paths is taken, and what it answers (operands in the domain of C07) ---- *)
Theorem substitute_faithful_paths f x g : wf f -> wf g -> nvars f = nvars g -> x < nvars f ->
  (* 1. clone *)
  (mem x (support f) = false -> substitute_faithful f x g = Ok f) /\
  (* 2. safe path: no proxy variable, no bound on the variable count *)
  (mem x (support f) = true -> mem x (support g) = false ->
     exists r, substitute_faithful f x g = Ok r /\ Canonical r /\ nvars r = nvars f /\
       forall v, eval r v = eval f (upd v x (eval g v))) /\
  (* 3. proxy-variable path: Ok below the u16 maximum, Panic (checked_add / try_from) at or above it *)
  (mem x (support f) = true -> mem x (support g) = true ->
     (nvars f < 65535 ->
        exists r, substitute_faithful f x g = Ok r /\ Canonical r /\ nvars r = nvars f /\
          forall v, eval r v = eval f (upd v x (eval g v))) /\
     (65535 <= nvars f -> substitute_faithful f x g = Panic)).
Proof.
  intros Wf Wg NV Hx. split; [|split].
  - intros Mf. unfold substitute_faithful. rewrite Mf. reflexivity.
  - intros Mf Mg. destruct (safe_path f x g Wf Wg NV Hx Mg) as (r & E & K & Nr & S).
    exists r. unfold substitute_faithful. rewrite Mf, Mg. cbn [negb]. auto.
  - intros Mf Mg. split.
    + intros Hn. destruct (substitute_faithful_full f x g Wf Wg NV Hx Hn) as (r & E & _ & Nr & S & K).
      exists r. auto.
    + intros Hn. now apply substitute_faithful_panic_bound.
Qed.
Print Assumptions substitute_faithful_paths.

(* the exact panic condition: the proxy-variable path (x in the support of BOTH operands) with a variable count
   that leaves no room for the proxy variable — and nothing else *)
Theorem substitute_faithful_panic_iff f x g : wf f -> wf g -> nvars f = nvars g -> x < nvars f ->
  (substitute_faithful f x g = Panic <->
   mem x (support f) = true /\ mem x (support g) = true /\ 65535 <= nvars f).
Proof.
  intros Wf Wg NV Hx.
  destruct (substitute_faithful_paths f x g Wf Wg NV Hx) as (P1 & P2 & P3). split.
  - intros E. destruct (mem x (support f)) eqn:Mf.
    + destruct (mem x (support g)) eqn:Mg.
      * split; [reflexivity|]. split; [reflexivity|].
        destruct (N.lt_ge_cases (nvars f) 65535) as [Hn|Hn]; [|exact Hn].
        destruct (proj1 (P3 eq_refl eq_refl) Hn) as (r & E' & _). congruence.
      * destruct (P2 eq_refl eq_refl) as (r & E' & _). congruence.
    + rewrite (P1 eq_refl) in E. discriminate.
  - intros (Mf & Mg & Hn). now apply substitute_faithful_panic_bound.
Qed.
Print Assumptions substitute_faithful_panic_iff.

(* … and otherwise it answers Ok with the substitution semantics (never OutOfFuel) *)
Theorem substitute_faithful_ok_iff f x g : wf f -> wf g -> nvars f = nvars g -> x < nvars f ->
  ((exists r, substitute_faithful f x g = Ok r /\ wf r /\ nvars r = nvars f /\
              forall v, eval r v = eval f (upd v x (eval g v))) <->
   ~ (mem x (support f) = true /\ mem x (support g) = true /\ 65535 <= nvars f)).
Proof.
  intros Wf Wg NV Hx.
  destruct (substitute_faithful_paths f x g Wf Wg NV Hx) as (P1 & P2 & P3). split.
  - intros (r & E & _) H. apply (substitute_faithful_panic_iff f x g Wf Wg NV Hx) in H. congruence.
  - intros H. destruct (mem x (support f)) eqn:Mf.
    + destruct (mem x (support g)) eqn:Mg.
      * destruct (N.lt_ge_cases (nvars f) 65535) as [Hn|Hn]; [|exfalso; apply H; auto].
        destruct (proj1 (P3 eq_refl eq_refl) Hn) as (r & E & K & Nr & S). exists r. split; [exact E|].
        split; [apply K|]. auto.
      * destruct (P2 eq_refl eq_refl) as (r & E & K & Nr & S). exists r. split; [exact E|]. split; [apply K|]. auto.
    + exists f. split; [exact (P1 eq_refl)|]. split; [exact Wf|]. split; [reflexivity|].
      intros v. symmetry. apply eval_not_support; assumption.
Qed.
Print Assumptions substitute_faithful_ok_iff.

(* ---- outside the domain ---- *)

(* a variable that no node of f carries (in particular every x >= nvars f): clone, whatever g is — g need not
   be well formed nor have the same variable count *)
Theorem substitute_faithful_not_in_support f x g : mem x (support f) = false -> substitute_faithful f x g = Ok f.
Proof. intros Mf. unfold substitute_faithful. rewrite Mf. reflexivity. Qed.

Theorem substitute_faithful_var_out_of_range f x g : wf f -> nvars f <= x -> substitute_faithful f x g = Ok f.
Proof.
  intros Wf Hx. apply substitute_faithful_not_in_support.
  destruct (mem x (support f)) eqn:Mf; [|reflexivity]. exfalso.
  apply in_support_mem in Mf. pose proof (support_lt f x Wf Mf). lia.
Qed.
Print Assumptions substitute_faithful_var_out_of_range.

Lemma binary_op_nvars_mismatch A B op : nvars A <> nvars B -> binary_op A B op = Panic.
Proof.
  intros H. unfold binary_op, fused_binary_flip_op, guard2.
  destruct (N.eqb_spec (nvars A) (nvars B)) as [E|_]; [contradiction|reflexivity].
Qed.

(* operands over different variable counts: clone when x is not in the support of f, Panic otherwise (the
   variable-count assertion of the `iff` apply on the safe path; on the proxy path either an earlier
   unwrap/assert or the same assertion, since both operands are extended by exactly one variable) *)
Theorem substitute_faithful_nvars_mismatch f x g : wf f -> wf g -> nvars f <> nvars g ->
  substitute_faithful f x g = if mem x (support f) then Panic else Ok f.
Proof.
  intros Wf Wg NV. unfold substitute_faithful. destruct (mem x (support f)) eqn:Mf; cbn [negb]; [|reflexivity].
  destruct (mem x (support g)) eqn:Mg; cbn [negb].
  - destruct (shift_permutation (union_sorted f g) x) as [perm| |] eqn:E; cbn [bind]; [|reflexivity|].
    2:{ exfalso. exact (shift_permutation_no_fuel _ _ E). }
    unfold checked_succ at 1. destruct (u16_max <? nvars f + 1); cbn [bind]; [reflexivity|].
    destruct (set_num_vars_ok_or_panic f (nvars f + 1) Wf) as [P|(f1 & E1 & W1 & N1 & _)]; rewrite ?P, ?E1; cbn [bind];
      [reflexivity|].
    destruct (rename_variables_ok_or_panic f1 perm W1) as [P|(f2 & E2 & W2 & N2 & _)]; rewrite ?P, ?E2; cbn [bind];
      [reflexivity|].
    destruct (map_get perm x) as [vp|]; [|reflexivity].
    unfold checked_succ. destruct (u16_max <? nvars g + 1); cbn [bind]; [reflexivity|].
    destruct (set_num_vars_ok_or_panic g (nvars g + 1) Wg) as [P|(g1 & G1 & V1 & M1 & _)]; rewrite ?P, ?G1; cbn [bind];
      [reflexivity|].
    destruct (rename_variables_ok_or_panic g1 (map_remove perm x) V1) as [P|(g2 & G2 & V2 & M2 & _)];
      rewrite ?P, ?G2; cbn [bind]; [reflexivity|].
    rewrite binary_op_nvars_mismatch; [reflexivity|]. rewrite mk_literal_nvars. lia.
  - rewrite binary_op_nvars_mismatch; [reflexivity|]. now rewrite mk_literal_nvars.
Qed.
Print Assumptions substitute_faithful_nvars_mismatch.

(* the compositional model agrees on the whole mismatch / out-of-range region *)
Theorem substitute_models_agree_outside f x g : wf f -> wf g -> nvars f <> nvars g ->
  substitute_faithful f x g = substitute f x g.
Proof.
  intros Wf Wg NV. rewrite (substitute_faithful_nvars_mismatch f x g Wf Wg NV). unfold substitute.
  destruct (mem x (support f)); cbn [negb]; [|reflexivity].
  destruct (N.eqb_spec (nvars f) (nvars g)) as [E|_]; [contradiction|reflexivity].
Qed.
Print Assumptions substitute_models_agree_outside.

(* instances: safe path at the u16 maximum is fine, proxy path at the maximum panics, mismatch, out of range *)
Example substitute_panic_iff_examples :
  let f := [mkNode 65535 0 0; mkNode 65535 1 1; mkNode 0 0 1] in
  let g := [mkNode 65535 0 0; mkNode 65535 1 1; mkNode 7 0 1] in
  let h := [mkNode 3 0 0; mkNode 3 1 1; mkNode 0 0 1] in
  wfb f = true /\ wfb g = true /\ wfb h = true /\
  substitute_faithful f 0 g = Ok g /\           (* safe path, 65535 variables *)
  substitute_faithful f 0 f = Panic /\          (* proxy path, 65535 variables *)
  substitute_faithful f 7 f = Ok f /\           (* clone *)
  substitute_faithful h 0 f = Panic /\          (* mismatch, x in the support of both *)
  substitute_faithful h 0 g = Panic /\          (* mismatch, safe path *)
  substitute_faithful h 1 g = Ok h /\           (* mismatch, clone *)
  substitute_faithful h 9 g = Ok h.             (* out of range *)
Proof. vm_compute. repeat split; reflexivity. Qed.
