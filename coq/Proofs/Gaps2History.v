(* Proofs/Gaps2History.v — C02, "through any history", for the producers that the language `hop` of Proofs/History.v lacks.

   `hop2` embeds `hop` (constructor H1) and adds: var_exists / var_for_all, rename_variable / rename_variables / set_num_vars /
   transfer_from (Model/Rename.v), reading back the text / the bytes written for an earlier result (Model/Serial.v), eval_expr
   (Model/Expr.v), and the size-limited binary operator (Model/Apply.v).  A step answers `Ok (Some b)` (a Bdd was produced and is
   appended to the results), `Ok None` (the library answered None — transfer_from on a diagram whose support has no name in
   the target, the size-limited operator above its limit — nothing is appended) or Panic / OutOfFuel (the history stops).

   GUARDS ADDED BY `run2` (not checked by the model itself):
     * HBinLimit: the operator table must pass `table_okb` (as for HBin in Proofs/History.v);
     * HReadText / HReadBytes: the earlier result must fit the Rust field types (`in_rangeb`: variables below 2^16, links
       below 2^32 — true of every Bdd the Rust library can hold; the model's numbers are unbounded).
   Everything else needs no guard: the per-operation theorems have no side condition beyond validity of the operand, or the
   model's own checks already panic. *)
From Coq Require Import List NArith Lia Bool.
Import ListNotations.
From BddVerif Require Import Model.Bdd Model.Apply Model.Ops Model.Rename Model.Serial Model.Expr
  Proofs.Sem Proofs.Canon Proofs.ApplySem Proofs.ApplyTop Proofs.History Proofs.RenameOps Proofs.SerialIO Proofs.SerialBytes
  Proofs.SerialText Proofs.ExprEval.
Open Scope N_scope.

Definition in_rangeb (b : bdd) : bool :=
  forallb (fun n => (nvar n <? u16_bound) && (nlow n <? u32_bound) && (nhigh n <? u32_bound)) b.

Lemma in_rangeb_iff b : in_rangeb b = true <-> in_range b.
Proof.
  unfold in_rangeb, in_range. rewrite forallb_forall, Forall_forall. split; intros H n Hn; specialize (H n Hn).
  - apply andb_true_iff in H. destruct H as (H & H3). apply andb_true_iff in H. destruct H as (H1 & H2).
    repeat split; now apply N.ltb_lt.
  - destruct H as (H1 & H2 & H3). apply N.ltb_lt in H1, H2, H3. now rewrite H1, H2, H3.
Qed.

Inductive hop2 : Type :=
| H1 (o : hop)
| HVarExists (i : nat) (x : N)
| HVarForAll (i : nat) (x : N)
| HRenameVariable (i : nat) (old new : N)
| HRenameVariables (i : nat) (m : list (N * N))
| HSetNumVars (i : nat) (n : N)
| HTransferFrom (target : list vname) (i : nat) (source : list vname)
| HReadText (i : nat)
| HReadBytes (i : nat)
| HEvalExpr (names : list name) (e : expr)
| HBinLimit (limit : N) (op : op2) (fa fb fo : option N) (i j : nat).

Definition some_bdd (o : outcome bdd) : outcome (option bdd) := bind o (fun r => Ok (Some r)).
Definition guardo (c : bool) (k : outcome (option bdd)) : outcome (option bdd) := if c then k else Panic.
Definition read_back (r : outcome (result bdd)) : outcome (option bdd) :=
  match r with Ok (ROk b) => Ok (Some b) | Ok RErr => Panic | Panic => Panic | OutOfFuel => OutOfFuel end.

Definition step2 (rs : list bdd) (o : hop2) : outcome (option bdd) :=
  match o with
  | H1 o => some_bdd (step rs o)
  | HVarExists i x => bind (operand rs i) (fun a => some_bdd (var_exists a x))
  | HVarForAll i x => bind (operand rs i) (fun a => some_bdd (var_for_all a x))
  | HRenameVariable i old new => bind (operand rs i) (fun a => some_bdd (rename_variable a old new))
  | HRenameVariables i m => bind (operand rs i) (fun a => some_bdd (rename_variables a m))
  | HSetNumVars i n => bind (operand rs i) (fun a => some_bdd (set_num_vars a n))
  | HTransferFrom target i source => bind (operand rs i) (fun a => transfer_from target a source)
  | HReadText i => bind (operand rs i) (fun a => guardo (in_rangeb a) (* added guard *) (read_back (read_text (write_text a))))
  | HReadBytes i => bind (operand rs i) (fun a => guardo (in_rangeb a) (* added guard *) (read_back (read_bytes (write_bytes a))))
  | HEvalExpr names e => some_bdd (eval_expr names e)
  | HBinLimit limit op fa fb fo i j =>
      bind (operand rs i) (fun a => bind (operand rs j) (fun b =>
      guardo (table_okb op) (* added guard *) (fused_binary_flip_op_with_limit limit a b fa fb fo op)))
  end.

Definition push (rs : list bdd) (ob : option bdd) : list bdd := match ob with Some b => rs ++ [b] | None => rs end.
Fixpoint run2_from (h : list hop2) (rs : list bdd) : outcome (list bdd) :=
  match h with
  | [] => Ok rs
  | o :: r => bind (step2 rs o) (fun ob => run2_from r (push rs ob))
  end.
Definition run2 (h : list hop2) : outcome (list bdd) := run2_from h [].

(* ---- one lemma per new producer ---- *)
Lemma builtin_tables : (total2 op_or /\ consistent2 op_or) /\ (total2 op_and /\ consistent2 op_and).
Proof. destruct table_okb_builtin as (A & O & _). split; apply table_okb_iff; assumption. Qed.

Lemma var_exists_keeps a x r : wf a -> var_exists a x = Ok r -> Canonical r.
Proof. intros W H. destruct builtin_tables as ((T & C) & _). exact (bin_keeps a a None (Some x) None op_or r W W T C H). Qed.
Lemma var_for_all_keeps a x r : wf a -> var_for_all a x = Ok r -> Canonical r.
Proof. intros W H. destruct builtin_tables as (_ & (T & C)). exact (bin_keeps a a None (Some x) None op_and r W W T C H). Qed.

Lemma rename_variable_keeps a old new r : Canonical a -> rename_variable a old new = Ok r -> Canonical r.
Proof.
  intros C H. destruct (rename_variable_ok_or_panic a old new (proj1 C)) as [P|(r' & E & _ & _ & _ & _ & K)]; [congruence|].
  rewrite E in H. inversion H; subst. exact (K C).
Qed.
Lemma rename_variables_keeps a m r : Canonical a -> rename_variables a m = Ok r -> Canonical r.
Proof.
  intros C H. destruct (rename_variables_ok_or_panic a m (proj1 C)) as [P|(r' & E & _ & _ & _ & _ & K)]; [congruence|].
  rewrite E in H. inversion H; subst. exact (K C).
Qed.
Lemma set_num_vars_keeps a n r : Canonical a -> set_num_vars a n = Ok r -> Canonical r.
Proof.
  intros C H. destruct (set_num_vars_ok_or_panic a n (proj1 C)) as [P|(r' & E & _ & _ & _ & _ & K)]; [congruence|].
  rewrite E in H. inversion H; subst. exact (K C).
Qed.
Lemma transfer_keeps target a source r : Canonical a -> transfer_from target a source = Ok (Some r) -> Canonical r.
Proof. intros C H. destruct (transfer_sem target a source r (proj1 C) H) as (_ & _ & _ & _ & _ & K). exact (K C). Qed.

Lemma read_text_back a : in_range a -> read_back (read_text (write_text a)) = Ok (Some a).
Proof. intros R. now rewrite (normal_text_roundtrip a R). Qed.
Lemma read_bytes_back a : in_range a -> read_back (read_bytes (write_bytes a)) = Ok (Some a).
Proof.
  intros R. unfold read_bytes. destruct (bytes_roundtrip a [] R (Forall_nil _)) as (E & _). now rewrite E.
Qed.

Lemma eval_expr_keeps names e r : eval_expr names e = Ok r -> Canonical r.
Proof.
  intros H. destruct (declared names e) eqn:D.
  - destruct (eval_expr_sem names e D) as (r' & E & C & _). rewrite E in H. inversion H; subst. exact C.
  - rewrite (proj2 (eval_expr_panic_iff names e) D) in H. discriminate.
Qed.

Lemma limit_keeps limit a b fa fb fo op r : wf a -> wf b -> total2 op -> consistent2 op ->
  fused_binary_flip_op_with_limit limit a b fa fb fo op = Ok (Some r) -> Canonical r.
Proof.
  intros Wa Wb T C H. destruct (N.eq_dec (nvars a) (nvars b)) as [NV|NV].
  - destruct (flips_ok (nvars a) fa fb fo) eqn:F.
    + destruct (limit_exact a b fa fb fo op limit Wa Wb NV F T C) as (r0 & E0 & EL). rewrite EL in H.
      destruct (size r0 <=? limit); inversion H; subst. exact (bin_keeps _ _ _ _ _ _ _ Wa Wb T C E0).
    + unfold fused_binary_flip_op_with_limit, guard2 in H. unfold flips_ok in F. rewrite F in H.
      destruct (negb (nvars a =? nvars b)); discriminate.
  - unfold fused_binary_flip_op_with_limit, guard2 in H. apply N.eqb_neq in NV. rewrite NV in H. discriminate.
Qed.

(* ---- one step, then the whole history ---- *)
Lemma operand_inv2 rs i (k : bdd -> outcome (option bdd)) r : Forall Canonical rs ->
  bind (operand rs i) k = Ok r -> exists a, nth_error rs i = Some a /\ Canonical a /\ k a = Ok r.
Proof.
  intros F H. unfold operand in H. destruct (nth_error rs i) as [a|] eqn:E; cbn [bind] in H; [|discriminate].
  exists a. split; [reflexivity|]. split; [|exact H].
  rewrite Forall_forall in F. apply F. eapply nth_error_In. exact E.
Qed.
Lemma some_bdd_inv o r : some_bdd o = Ok (Some r) -> o = Ok r.
Proof. unfold some_bdd. destruct o; cbn [bind]; intros H; inversion H; reflexivity. Qed.
Lemma guardo_inv c k r : guardo c k = Ok r -> c = true /\ k = Ok r.
Proof. unfold guardo. destruct c; [auto|discriminate]. Qed.

Ltac opnd2 F H a Ca :=
  let Ea := fresh "Ea" in
  apply (operand_inv2 _ _ _ _ F) in H; destruct H as (a & Ea & Ca & H); clear Ea.

Theorem step2_canonical rs o r : Forall Canonical rs -> step2 rs o = Ok (Some r) -> Canonical r.
Proof.
  intros F H. destruct o; cbn [step2] in H.
  - apply some_bdd_inv in H. exact (step_canonical rs o r F H).
  - opnd2 F H a Ca. apply some_bdd_inv in H. exact (var_exists_keeps _ _ _ (proj1 Ca) H).
  - opnd2 F H a Ca. apply some_bdd_inv in H. exact (var_for_all_keeps _ _ _ (proj1 Ca) H).
  - opnd2 F H a Ca. apply some_bdd_inv in H. exact (rename_variable_keeps _ _ _ _ Ca H).
  - opnd2 F H a Ca. apply some_bdd_inv in H. exact (rename_variables_keeps _ _ _ Ca H).
  - opnd2 F H a Ca. apply some_bdd_inv in H. exact (set_num_vars_keeps _ _ _ Ca H).
  - opnd2 F H a Ca. exact (transfer_keeps _ _ _ _ Ca H).
  - opnd2 F H a Ca. apply guardo_inv in H. destruct H as (G & H). apply in_rangeb_iff in G.
    rewrite (read_text_back a G) in H. inversion H; subst. exact Ca.
  - opnd2 F H a Ca. apply guardo_inv in H. destruct H as (G & H). apply in_rangeb_iff in G.
    rewrite (read_bytes_back a G) in H. inversion H; subst. exact Ca.
  - apply some_bdd_inv in H. exact (eval_expr_keeps _ _ _ H).
  - opnd2 F H a Ca. opnd2 F H b Cb. apply guardo_inv in H. destruct H as (G & H). apply table_okb_iff in G. destruct G as (T & C).
    exact (limit_keeps _ _ _ _ _ _ _ _ (proj1 Ca) (proj1 Cb) T C H).
Qed.
Print Assumptions step2_canonical.

(* reading back is the identity on the array: the step adds a copy of the operand *)
Theorem step2_read_back rs i r : (step2 rs (HReadText i) = Ok (Some r) \/ step2 rs (HReadBytes i) = Ok (Some r)) ->
  nth_error rs i = Some r.
Proof.
  intros [H|H]; cbn [step2] in H; unfold operand in H; destruct (nth_error rs i) as [a|]; cbn [bind] in H; try discriminate;
    apply guardo_inv in H; destruct H as (G & H); apply in_rangeb_iff in G.
  - rewrite (read_text_back a G) in H. now inversion H.
  - rewrite (read_bytes_back a G) in H. now inversion H.
Qed.

Lemma run2_from_canonical : forall h rs out, Forall Canonical rs -> run2_from h rs = Ok out -> Forall Canonical out.
Proof.
  induction h as [|o h IH]; intros rs out F H; cbn [run2_from] in H.
  - inversion H; subst. exact F.
  - destruct (step2 rs o) as [ob| |] eqn:E; cbn [bind] in H; try discriminate.
    apply (IH (push rs ob) out); [|exact H]. destruct ob as [b|]; cbn [push]; [|exact F].
    apply Forall_app. split; [exact F|]. constructor; [|constructor]. exact (step2_canonical rs o b F E).
Qed.

Theorem history2_canonical : forall h rs, run2 h = Ok rs -> Forall Canonical rs.
Proof. intros h rs H. exact (run2_from_canonical h [] rs (Forall_nil _) H). Qed.
Print Assumptions history2_canonical.

Theorem history2_equal : forall h rs i j a b, run2 h = Ok rs ->
  nth_error rs i = Some a -> nth_error rs j = Some b ->
  nvars a = nvars b -> (forall v, eval a v = eval b v) -> a = b.
Proof.
  intros h rs i j a b H Ha Hb NV E.
  pose proof (history2_canonical h rs H) as F. rewrite Forall_forall in F.
  apply canonical_unique; [| |exact NV|exact E].
  - apply F. eapply nth_error_In. exact Ha.
  - apply F. eapply nth_error_In. exact Hb.
Qed.
Print Assumptions history2_equal.

(* the larger language contains the smaller one *)
Lemma run2_from_embeds : forall h rs, run2_from (map H1 h) rs = run_from h rs.
Proof.
  induction h as [|o h IH]; intros rs; [reflexivity|]. cbn [map run2_from run_from step2]. unfold some_bdd.
  destruct (step rs o) as [b| |]; cbn [bind push]; [apply IH|reflexivity|reflexivity].
Qed.
Theorem run2_embeds h : run2 (map H1 h) = run h.
Proof. apply run2_from_embeds. Qed.
Print Assumptions run2_embeds.

(* ---- a concrete extended history: every new producer runs; x0 /\ x1 is reached along five routes (engine, text, bytes,
   expression, size-limited engine), x1 /\ x2 along two (rename_variables; transfer_from + set_num_vars); the size-limited
   operator below its limit and a transfer into a set that lacks a name answer None and add nothing ---- *)
Definition ex_names : list name := [[97]; [98]; [99]].                      (* a, b, c *)
Definition ex_history2 : list hop2 :=
  [ H1 (HLit 3 0 true); H1 (HLit 3 1 true); H1 (HBin op_and None None None 0 1);   (* 0, 1, 2 = x0 /\ x1 *)
    HVarExists 2 1; HVarForAll 2 1;                                                 (* 3 = x0, 4 = false *)
    HRenameVariable 3 0 2;                                                          (* 5 = x2 *)
    HSetNumVars 2 5;                                                                (* 6 = x0 /\ x1 over 5 variables *)
    HRenameVariables 2 [(0, 1); (1, 2)];                                            (* 7 = x1 /\ x2 *)
    HReadText 2; HReadBytes 2;                                                      (* 8, 9 = copies of 2 *)
    HEvalExpr ex_names (EAnd (EVar [97]) (EVar [98]));                              (* 10 = a & b *)
    HBinLimit 10 op_and None None None 0 1;                                         (* 11 = x0 /\ x1 within 10 nodes *)
    HBinLimit 1 op_and None None None 0 1;                                          (* None: more than 1 node *)
    HTransferFrom [[120]; [97]; [98]; [99]] 2 ex_names;                             (* 12 = a /\ b in (x, a, b, c) *)
    HTransferFrom [[120]; [97]] 2 ex_names;                                         (* None: b has no counterpart *)
    HSetNumVars 12 3 ].                                                             (* 13 = x1 /\ x2 over 3 variables *)

Example history2_example :
  exists rs, run2 ex_history2 = Ok rs /\ length rs = 14%nat /\ forallb canonicalb rs = true /\
    map (nth_error rs) [8; 9; 10; 11]%nat = repeat (nth_error rs 2) 4 /\
    nth_error rs 2 = Some [mkNode 3 0 0; mkNode 3 1 1; mkNode 1 0 1; mkNode 0 0 2] /\
    nth_error rs 13 = nth_error rs 7 /\ nth_error rs 7 = Some [mkNode 3 0 0; mkNode 3 1 1; mkNode 2 0 1; mkNode 1 0 2] /\
    nth_error rs 4 = Some (mk_false 3).
Proof. eexists. split; [vm_compute; reflexivity|]. repeat split; vm_compute; reflexivity. Qed.
