(* Proofs/SerialIO.v — the scripted-stream loops of Model/Serial.v: `take`, clean schedules (no failure, no
   zero-length chunk), read_to_end and write_all/write_pieces under clean schedules (schedule independence), the
   prefix property of writers under ARBITRARY schedules, and propagation of an injected failure. *)
From Coq Require Import List NArith Lia Bool.
Import ListNotations.
From BddVerif Require Import Model.Bdd Model.Apply Model.Serial.
Open Scope N_scope.

Lemma take_spec k l : take k l = (firstn (N.to_nat k) l, skipn (N.to_nat k) l).
Proof.
  revert k; induction l as [|x r IH]; intros k; cbn [take].
  - now rewrite firstn_nil, skipn_nil.
  - destruct (N.eqb_spec k 0) as [->|Hk]; [reflexivity|].
    rewrite IH. replace (N.to_nat k) with (S (N.to_nat (N.pred k))) by lia. reflexivity.
Qed.

Lemma take_app k l a r : take k l = (a, r) -> l = a ++ r /\ len a = N.min k (len l).
Proof.
  rewrite take_spec. intros E. inversion E; subst. split; [symmetry; apply firstn_skipn|].
  unfold len. rewrite firstn_length. lia.
Qed.

Lemma len_app {A} (a c : list A) : len (a ++ c) = len a + len c.
Proof. unfold len. rewrite app_length. lia. Qed.

Lemma len_0 {A} (a : list A) : len a = 0 -> a = [].
Proof. unfold len. destruct a; cbn [length]; [reflexivity|lia]. Qed.

(* ---------------------------------------------------------------- clean schedules *)
Definition clean_ev (e : event) : Prop :=
  match e with EChunk k => 0 < k | EIntr => True | EFail e => e = KInterrupted end.
Definition clean (s : list event) : Prop := Forall clean_ev s.

Fixpoint chunk_total (s : list event) : N :=
  match s with [] => 0 | EChunk k :: r => k + chunk_total r | _ :: r => chunk_total r end.

Lemma clean_putback k la r : clean (EChunk k :: r) -> la < k -> clean (EChunk (k - la) :: r).
Proof. intros C H. inversion C; subst. constructor; [cbn; lia|assumption]. Qed.

(* ---------------------------------------------------------------- read_to_end *)
Lemma read_to_end_clean sched : clean sched -> forall acc data,
  read_to_end acc data sched = ROk (rev acc ++ data).
Proof.
  induction sched as [|e r IH]; intros C acc data; cbn [read_to_end].
  - now rewrite rev_append_rev.
  - inversion C as [|x y Ce Cr]; subst. destruct e as [k| |e].
    + cbn in Ce. destruct (take k data) as [a rest] eqn:T. apply take_app in T. destruct T as (-> & La).
      cbv zeta. destruct (N.eqb_spec (len a) 0) as [Z|NZ].
      { apply len_0 in Z. subst a. rewrite len_app in La. cbn [app].
        assert (len rest = 0) by (unfold len in *; cbn [length] in *; lia). apply len_0 in H. subst rest.
        now rewrite rev_append_rev. }
      destruct (N.ltb_spec (len a) k) as [Lt|Ge].
      { rewrite len_app in La. assert (len rest = 0) by lia. apply len_0 in H. subst rest.
        rewrite !rev_append_rev, app_nil_r, app_nil_r, rev_app_distr, rev_involutive. reflexivity. }
      rewrite IH by assumption. rewrite rev_append_rev, rev_app_distr, rev_involutive, <- app_assoc. reflexivity.
    + apply IH; assumption.
    + cbn in Ce. subst e. cbn [is_intr]. apply IH; assumption.
Qed.

(* a failure that is reached (the clean prefix offers no more than the data) is returned as Err *)
Lemma read_to_end_fail pre : clean pre -> forall acc data e post,
  chunk_total pre <= len data -> e <> KInterrupted ->
  read_to_end acc data (pre ++ EFail e :: post) = RErr.
Proof.
  induction pre as [|ev r IH]; intros C acc data e post Ht Ne; cbn [app read_to_end].
  - destruct e; cbn [is_intr]; congruence.
  - inversion C as [|x y Ce Cr]; subst. destruct ev as [k| |e'].
    + cbn in Ce. cbn [chunk_total] in Ht.
      destruct (take k data) as [a rest] eqn:T. apply take_app in T. destruct T as (-> & La).
      cbv zeta. rewrite len_app in *.
      destruct (N.eqb_spec (len a) 0) as [Z|NZ]; [lia|].
      destruct (N.ltb_spec (len a) k) as [Lt|Ge]; [lia|].
      apply IH; try assumption. lia.
    + apply IH; assumption.
    + cbn in Ce. subst e'. cbn [is_intr]. apply IH; assumption.
Qed.

(* the clean prefix offers more than the data: end of input comes first, the failure is never seen *)
Lemma read_to_end_eof_first pre : clean pre -> forall acc data tail,
  len data < chunk_total pre -> read_to_end acc data (pre ++ tail) = ROk (rev acc ++ data).
Proof.
  induction pre as [|ev r IH]; intros C acc data tail Ht; cbn [app read_to_end].
  - cbn in Ht. lia.
  - inversion C as [|x y Ce Cr]; subst. destruct ev as [k| |e'].
    + cbn in Ce. cbn [chunk_total] in Ht.
      destruct (take k data) as [a rest] eqn:T. apply take_app in T. destruct T as (-> & La).
      cbv zeta. rewrite len_app in *.
      destruct (N.eqb_spec (len a) 0) as [Z|NZ].
      { apply len_0 in Z. subst a. cbn [app]. assert (len rest = 0) by (unfold len in *; cbn [length] in *; lia).
        apply len_0 in H. subst rest. now rewrite rev_append_rev. }
      destruct (N.ltb_spec (len a) k) as [Lt|Ge].
      { assert (len rest = 0) by lia. apply len_0 in H. subst rest.
        rewrite !rev_append_rev, app_nil_r, app_nil_r, rev_app_distr, rev_involutive. reflexivity. }
      rewrite IH; try assumption; [|lia]. rewrite rev_append_rev, rev_app_distr, rev_involutive, <- app_assoc. reflexivity.
    + apply IH; assumption.
    + cbn in Ce. subst e'. cbn [is_intr]. apply IH; assumption.
Qed.

(* ---------------------------------------------------------------- write_all / write_pieces *)
Lemma write_all_clean sched : clean sched -> forall buf out,
  exists sched', write_all buf sched out = (true, (sched', rev buf ++ out)) /\ clean sched'.
Proof.
  induction sched as [|e r IH]; intros C buf out.
  - exists []. destruct buf as [|x buf]; cbn [write_all]; [split; [reflexivity|constructor]|].
    rewrite rev_append_rev. split; [reflexivity|constructor].
  - destruct buf as [|x buf]; [exists (e :: r); split; [reflexivity|assumption]|].
    inversion C as [|x' y Ce Cr]; subst. cbn [write_all]. destruct e as [k| |e].
    + cbn in Ce. destruct (N.eqb_spec k 0) as [Z|NZ]; [lia|].
      destruct (take k (x :: buf)) as [a rest] eqn:T. apply take_app in T. destruct T as (E & La).
      destruct rest as [|y rest].
      * rewrite app_nil_r in E. subst a. eexists. split; [rewrite rev_append_rev; reflexivity|].
        destruct (N.ltb_spec (len (x :: buf)) k); [apply clean_putback; assumption|assumption].
      * destruct (IH Cr (y :: rest) (rev_append a out)) as (s' & E' & C'). exists s'. split; [|exact C'].
        rewrite E'. rewrite E, rev_append_rev, rev_app_distr, <- app_assoc. reflexivity.
    + apply IH; assumption.
    + cbn in Ce. subst e. cbn [is_intr]. apply IH; assumption.
Qed.

Lemma write_pieces_clean ps : forall sched out, clean sched ->
  exists sched', write_pieces ps sched out = (true, (sched', rev (concat ps) ++ out)) /\ clean sched'.
Proof.
  induction ps as [|p r IH]; intros sched out C; cbn [write_pieces concat].
  - exists sched. split; [reflexivity|assumption].
  - destruct (write_all_clean sched C p out) as (s1 & E1 & C1). rewrite E1.
    destruct (IH s1 (rev p ++ out) C1) as (s2 & E2 & C2). exists s2. split; [|exact C2].
    rewrite E2, rev_app_distr, <- app_assoc. reflexivity.
Qed.

(* under ANY schedule the bytes accepted are a prefix of the stream, the whole stream when the result is Ok *)
Lemma write_all_prefix sched : forall buf out ok s' out',
  write_all buf sched out = (ok, (s', out')) ->
  exists a rest, buf = a ++ rest /\ out' = rev a ++ out /\ (ok = true -> rest = []).
Proof.
  induction sched as [|e r IH]; intros buf out ok s' out' H.
  - destruct buf as [|x buf]; cbn [write_all] in H; inversion H; subst.
    + exists [], []. repeat split; intros; reflexivity.
    + exists (x :: buf), []. split; [now rewrite app_nil_r|]. split; [|intros; reflexivity].
      rewrite rev_append_rev. cbn [rev]. now rewrite <- app_assoc.
  - destruct buf as [|x buf]; cbn [write_all] in H; [inversion H; subst; exists [], []; repeat split; intros; reflexivity|].
    destruct e as [k| |e].
    + destruct (N.eqb_spec k 0) as [Z|NZ]; [inversion H; subst; exists [], (x :: buf); split; [reflexivity|split; [reflexivity|discriminate]]|].
      destruct (take k (x :: buf)) as [a rest] eqn:T. apply take_app in T. destruct T as (E & La).
      destruct rest as [|y rest].
      * inversion H; subst. exists a, []. rewrite rev_append_rev. split; [exact E|]. split; intros; reflexivity.
      * destruct (IH _ _ _ _ _ H) as (a2 & rest2 & E2 & O2 & K2).
        exists (a ++ a2), rest2. split; [rewrite E, E2, app_assoc; reflexivity|]. split; [|exact K2].
        rewrite O2, rev_append_rev, rev_app_distr, <- app_assoc. reflexivity.
    + apply (IH _ _ _ _ _ H).
    + destruct (is_intr e); [apply (IH _ _ _ _ _ H)|].
      inversion H; subst. exists [], (x :: buf). split; [reflexivity|split; [reflexivity|discriminate]].
Qed.

Lemma write_pieces_prefix ps : forall sched out ok s' out',
  write_pieces ps sched out = (ok, (s', out')) ->
  exists a rest, concat ps = a ++ rest /\ out' = rev a ++ out /\ (ok = true -> rest = []).
Proof.
  induction ps as [|p r IH]; intros sched out ok s' out' H; cbn [write_pieces concat] in *.
  - inversion H; subst. exists [], []. repeat split; intros; reflexivity.
  - destruct (write_all p sched out) as [ok1 [s1 o1]] eqn:W.
    destruct (write_all_prefix _ _ _ _ _ _ W) as (a1 & r1 & E1 & O1 & K1).
    destruct ok1.
    + specialize (K1 eq_refl). subst r1. rewrite app_nil_r in E1. subst a1.
      destruct (IH _ _ _ _ _ H) as (a2 & r2 & E2 & O2 & K2).
      exists (p ++ a2), r2. split; [rewrite E2, app_assoc; reflexivity|]. split; [|exact K2].
      rewrite O2, O1, rev_app_distr, <- app_assoc. reflexivity.
    + injection H as <- <- <-. exists a1, (r1 ++ concat r). split; [rewrite E1, app_assoc; reflexivity|].
      split; [exact O1|discriminate].
Qed.

(* a failure is reached exactly when the clean prefix accepts fewer bytes than the stream holds *)
Lemma write_all_fail pre : clean pre -> forall buf out e post,
  chunk_total pre < len buf -> e <> KInterrupted ->
  exists s', write_all buf (pre ++ EFail e :: post) out = (false, (s', rev (firstn (N.to_nat (chunk_total pre)) buf) ++ out)).
Proof.
  induction pre as [|ev r IH]; intros C buf out e post Ht Ne; cbn [app].
  - destruct buf as [|x buf]; [unfold len in Ht; cbn in Ht; lia|]. cbn [write_all chunk_total].
    destruct e; cbn [is_intr]; try congruence; eexists; reflexivity.
  - inversion C as [|x' y Ce Cr]; subst.
    destruct buf as [|x buf]; [unfold len in Ht; cbn in Ht; lia|]. cbn [write_all]. destruct ev as [k| |e'].
    + cbn in Ce. cbn [chunk_total] in *. destruct (N.eqb_spec k 0) as [Z|NZ]; [lia|].
      destruct (take k (x :: buf)) as [a rest] eqn:T. apply take_app in T. destruct T as (E & La).
      destruct rest as [|z rest].
      { rewrite app_nil_r in E. rewrite <- E in La. lia. }
      assert (Lk : len a = k) by lia.
      assert (Hlen : len (x :: buf) = k + len (z :: rest)) by (rewrite E, len_app; lia).
      destruct (IH Cr (z :: rest) (rev_append a out) e post) as (s' & E'); [lia|assumption|].
      exists s'. rewrite E'. f_equal. f_equal. rewrite rev_append_rev, app_assoc, <- rev_app_distr. f_equal. f_equal.
      rewrite E. replace (N.to_nat (k + chunk_total r)) with (length a + N.to_nat (chunk_total r))%nat by (unfold len in Lk; lia).
      rewrite firstn_app_2. reflexivity.
    + cbn [chunk_total] in *. apply IH; assumption.
    + cbn in Ce. subst e'. cbn [is_intr chunk_total] in *. apply IH; assumption.
Qed.

(* a buffer that fits into the clean prefix is accepted completely; what is left of the prefix stays clean *)
Lemma write_all_within pre : clean pre -> forall buf out tail, len buf <= chunk_total pre ->
  exists pre', clean pre' /\ chunk_total pre' = chunk_total pre - len buf /\
               write_all buf (pre ++ tail) out = (true, (pre' ++ tail, rev buf ++ out)).
Proof.
  induction pre as [|ev r IH]; intros C buf out tail Ht.
  - cbn [chunk_total] in Ht. assert (len buf = 0) as Z by lia. apply len_0 in Z. subst buf.
    exists []. split; [constructor|]. split; [reflexivity|]. destruct tail; reflexivity.
  - destruct buf as [|x buf].
    { exists (ev :: r). split; [assumption|]. split; [unfold len; cbn [length]; lia|reflexivity]. }
    inversion C as [|x' y Ce Cr]; subst. cbn [app write_all]. destruct ev as [k| |e'].
    + cbn in Ce. cbn [chunk_total] in *. destruct (N.eqb_spec k 0) as [Z|NZ]; [lia|].
      destruct (take k (x :: buf)) as [a rest] eqn:T. apply take_app in T. destruct T as (E & La).
      destruct rest as [|z rest].
      * rewrite app_nil_r in E. subst a. destruct (N.ltb_spec (len (x :: buf)) k) as [Lt|Ge].
        -- exists (EChunk (k - len (x :: buf)) :: r). split; [apply clean_putback; assumption|].
           split; [cbn [chunk_total]; lia|]. now rewrite rev_append_rev.
        -- exists r. split; [assumption|]. split; [lia|]. now rewrite rev_append_rev.
      * assert (Lk : len a = k) by (rewrite E, len_app in La; unfold len in *; cbn [length] in *; lia).
        assert (Hp : len (x :: buf) = k + len (z :: rest)) by (rewrite E, len_app; lia).
        destruct (IH Cr (z :: rest) (rev_append a out) tail) as (pre' & C' & T' & E'); [lia|].
        exists pre'. split; [assumption|]. split; [lia|]. rewrite E'. f_equal. f_equal.
        rewrite E, rev_append_rev, rev_app_distr, <- app_assoc. reflexivity.
    + cbn [chunk_total] in *. apply IH; assumption.
    + cbn in Ce. subst e'. cbn [is_intr chunk_total] in *. apply IH; assumption.
Qed.

Lemma write_pieces_fail ps : forall pre out e post, clean pre ->
  chunk_total pre < len (concat ps) -> e <> KInterrupted ->
  exists s', write_pieces ps (pre ++ EFail e :: post) out =
             (false, (s', rev (firstn (N.to_nat (chunk_total pre)) (concat ps)) ++ out)).
Proof.
  induction ps as [|p r IH]; intros pre out e post C Ht Ne; cbn [write_pieces concat] in *.
  - unfold len in Ht. cbn in Ht. lia.
  - rewrite len_app in Ht. destruct (N.ltb_spec (chunk_total pre) (len p)) as [Lt|Ge].
    + destruct (write_all_fail pre C p out e post Lt Ne) as (s' & E). rewrite E. exists s'. f_equal. f_equal. f_equal. f_equal.
      rewrite firstn_app. replace (N.to_nat (chunk_total pre) - length p)%nat with 0%nat by (unfold len in Lt; lia).
      cbn [firstn]. now rewrite app_nil_r.
    + destruct (write_all_within pre C p out (EFail e :: post) Ge) as (pre' & C' & T' & E'). rewrite E'.
      destruct (IH pre' (rev p ++ out) e post C') as (s' & E''); [lia|assumption|].
      rewrite E''. exists s'. f_equal. f_equal. rewrite app_assoc, <- rev_app_distr. f_equal. f_equal.
      replace (N.to_nat (chunk_total pre)) with (length p + N.to_nat (chunk_total pre'))%nat by (unfold len in *; lia).
      rewrite firstn_app_2. reflexivity.
Qed.
