(* Proofs/GapsLimit.v — C05 for the unfused entry points Bdd::binary_op_with_limit / Bdd::check_binary_op
   (in the Rust they are `apply_with_flip_and_limit` / `estimated_apply_complexity` with three `None` flips; the model
   of a call is `fused_binary_flip_op_with_limit limit A B None None None op` resp. `check_fused_binary_flip_op …`, and the
   named step-faithful versions `binary_op_with_limit_stack` / `check_binary_op_stack` of Model/ApplyLimitStack.v,
   Model/DryStack.v), and the panic characterisation of the size-limited operator. *)
From Coq Require Import List NArith Lia Bool.
Import ListNotations.
From BddVerif Require Import Model.Bdd Model.Apply Model.Ops Proofs.Sem Proofs.Canon Proofs.ApplySem Proofs.ApplyTop
  Proofs.DrySem Model.ApplyLimitStack Model.DryStack Proofs.ApplyLimitStack Proofs.DryStack.
Open Scope N_scope.

Lemma flips_ok_none nv : flips_ok nv None None None = true.
Proof. reflexivity. Qed.

(* binary_op_with_limit: Some r exactly when the unrestricted `binary_op` result r has at most `limit` nodes *)
Theorem binary_op_with_limit_exact A B op limit :
  wf A -> wf B -> nvars A = nvars B -> total2 op -> consistent2 op ->
  exists r, binary_op A B op = Ok r /\
    fused_binary_flip_op_with_limit limit A B None None None op = Ok (if size r <=? limit then Some r else None) /\
    binary_op_with_limit_stack limit A B op = Ok (if size r <=? limit then Some r else None).
Proof.
  intros WA WB NV T C.
  destruct (limit_exact A B None None None op limit WA WB NV (flips_ok_none _) T C) as (r & E & L).
  exists r. split; [exact E|]. split; [exact L|].
  rewrite binary_op_with_limit_stack_eq by assumption. exact L.
Qed.
Print Assumptions binary_op_with_limit_exact.

(* check_binary_op: one task count c for every limit *)
Theorem check_binary_op_exact A B op :
  wf A -> wf B -> nvars A = nvars B -> total2 op -> consistent2 op ->
  exists r c, binary_op A B op = Ok r /\ size r - 2 <= c /\
    forall limit,
      check_fused_binary_flip_op limit A B None None None op = Ok (if limit <? c then None else Some (negb (is_false r), c)) /\
      check_binary_op_stack limit A B op = Ok (if limit <? c then None else Some (negb (is_false r), c)).
Proof.
  intros WA WB NV T C.
  destruct (check_exact A B None None None op WA WB NV (flips_ok_none _) T C) as (r & c & E & Hc & L).
  exists r, c. split; [exact E|]. split; [exact Hc|]. intros limit. split; [apply L|].
  rewrite check_binary_op_stack_eq by assumption. apply L.
Qed.
Print Assumptions check_binary_op_exact.

(* the only panics of the size-limited operator are the two argument checks; they come BEFORE the `limit == 0`
   shortcut (Rust lines 520-535), so the characterisation holds for every limit including 0; no hypotheses *)
Theorem limit_panic_iff limit A B fa fb fo op :
  fused_binary_flip_op_with_limit limit A B fa fb fo op = Panic <->
  (nvars A <> nvars B \/ flips_ok (nvars A) fa fb fo = false).
Proof.
  unfold fused_binary_flip_op_with_limit, guard2, flips_ok.
  destruct (N.eqb_spec (nvars A) (nvars B)) as [E|NE]; cbn [negb].
  - destruct (flip_ok (nvars A) fa && flip_ok (nvars A) fb && flip_ok (nvars A) fo) eqn:F; cbn [negb].
    + split; [|intros [H|H]; congruence]. destruct (apply2_limit A B fa fb fo op limit); cbn; discriminate.
    + split; auto.
  - split; auto.
Qed.
Print Assumptions limit_panic_iff.

(* unfused entry points: the only panic is the variable-count mismatch *)
Corollary binary_op_with_limit_panic_iff limit A B op :
  fused_binary_flip_op_with_limit limit A B None None None op = Panic <-> nvars A <> nvars B.
Proof.
  rewrite limit_panic_iff. split; [intros [H|H]; [exact H|discriminate]|auto].
Qed.

Corollary check_binary_op_panic_iff limit A B op :
  check_fused_binary_flip_op limit A B None None None op = Panic <-> nvars A <> nvars B.
Proof.
  rewrite check_panic_iff. split; [intros [H|H]; [exact H|discriminate]|auto].
Qed.

(* limit 0 with a bad argument still panics; with good arguments it answers None *)
Example limit_zero_example :
  let A := [mkNode 3 0 0; mkNode 3 1 1; mkNode 1 0 1; mkNode 0 0 2] in
  let B := [mkNode 3 0 0; mkNode 3 1 1; mkNode 2 1 0] in
  let B2 := [mkNode 2 0 0; mkNode 2 1 1] in
  fused_binary_flip_op_with_limit 0 A B None None None op_xor = Ok None /\
  fused_binary_flip_op_with_limit 0 A B (Some 3) None None op_xor = Panic /\
  fused_binary_flip_op_with_limit 0 A B2 None None None op_xor = Panic /\
  binary_op_with_limit_stack 5 A B op_xor = Ok None /\
  (exists r, binary_op_with_limit_stack 6 A B op_xor = Ok (Some r) /\ binary_op A B op_xor = Ok r) /\
  check_binary_op_stack 100 A B op_xor = Ok (Some (true, 4)) /\
  check_binary_op_stack 3 A B op_xor = Ok None.
Proof. vm_compute. repeat split; try reflexivity. eexists; split; reflexivity. Qed.
