(* Proofs/SelectDP.v — the bottom-up selectors: most_fixed/most_free_clause, most_positive/most_negative_valuation.
   The cache built by the fold over the node array satisfies a local recurrence (cache_ok); optimality of the
   cached numbers and of the path chosen by the final walk is then proved by induction on the variable level. *)
From Coq Require Import List PeanoNat NArith Lia Bool.
Import ListNotations.
From BddVerif Require Import Model.Bdd Model.Apply Model.Ops Model.Select Proofs.Sem Proofs.Canon Proofs.Reflect
  Proofs.PvalSem Proofs.SelectBase Proofs.SelectWalk Proofs.SelectWitness.
Open Scope N_scope.

(* ======================================================================================== *)
(* the fold builds a cache that satisfies the recurrence at every decision node              *)
Definition comb_t := node -> N * bool -> N * bool -> outcome (N * bool).
Definition step_of (comb : comb_t) (c : cache) (n : node) : outcome (N * bool) :=
  bind (cget c (nlow n)) (fun cl => bind (cget c (nhigh n)) (fun ch => comb n cl ch)).

Definition entry (c : cache) (p : N) : option (N * bool) := nth_error c (N.to_nat p).

Definition cache_upto (comb : comb_t) (b : bdd) (c : cache) (i : N) : Prop :=
  N.of_nat (length c) = i /\ entry c 0 = Some (0, true) /\ entry c 1 = Some (0, true) /\
  forall j, 2 <= j -> j < i -> exists cl ch x,
    entry c (nlow (get b j)) = Some cl /\ entry c (nhigh (get b j)) = Some ch /\
    comb (get b j) cl ch = Ok x /\ entry c j = Some x.

Definition comb_total (comb : comb_t) : Prop :=
  forall n cl ch, ~ (nlow n = 0 /\ nhigh n = 0) -> exists x, comb n cl ch = Ok x.

Lemma entry_app1 (c : cache) x p : p < N.of_nat (length c) -> entry (c ++ [x]) p = entry c p.
Proof. intros H. unfold entry. apply nth_error_app1. lia. Qed.

Lemma entry_app_last (c : cache) x : entry (c ++ [x]) (N.of_nat (length c)) = Some x.
Proof. unfold entry. rewrite Nnat.Nat2N.id. rewrite nth_error_app2 by lia. now rewrite Nat.sub_diag. Qed.

Lemma entry_some (c : cache) p : p < N.of_nat (length c) -> exists e, entry c p = Some e.
Proof.
  intros H. unfold entry. destruct (nth_error c (N.to_nat p)) as [e|] eqn:E; [now exists e|].
  apply nth_error_None in E. lia.
Qed.

Lemma cget_entry c p e : entry c p = Some e -> cget c p = Ok e.
Proof. unfold cget, entry. now intros ->. Qed.

Lemma dp_build_ok comb b : Benign b -> comb_total comb -> forall nodes i c,
  skipn (N.to_nat i) b = nodes -> 2 <= i -> i <= size b -> cache_upto comb b c i ->
  exists c', dp_build (step_of comb) nodes c = Ok c' /\ cache_upto comb b c' (size b).
Proof.
  intros C T. pose proof C as (W & R & TP & _).
  induction nodes as [|n nodes IH]; intros i c Hsk Hi Hsz U.
  - apply skipn_nil_len in Hsk. assert (i = size b) by (unfold size in *; lia). subst i.
    exists c. split; [reflexivity|exact U].
  - destruct (skipn_cons_nth b dnode _ _ _ Hsk) as (Hn & Hsk' & Hlt).
    assert (Hget : get b i = n) by exact Hn.
    assert (Hi' : i < size b) by (unfold size; lia).
    destruct U as (Ulen & U0 & U1 & Un).
    destruct (kids_lt b TP i Hi Hi') as (Kl & Kh). rewrite Hget in Kl, Kh.
    destruct (entry_some c (nlow n) ltac:(lia)) as (cl & Ecl).
    destruct (entry_some c (nhigh n) ltac:(lia)) as (ch & Ech).
    destruct (T n cl ch) as (x & Hx).
    { rewrite <- Hget. apply kids_not_both_zero; assumption. }
    cbn [dp_build]. unfold step_of at 1. rewrite (cget_entry _ _ _ Ecl), (cget_entry _ _ _ Ech). cbn [bind]. rewrite Hx. cbn [bind].
    apply (IH (i + 1)).
    + replace (N.to_nat (i + 1)) with (S (N.to_nat i)) by lia. exact Hsk'.
    + lia.
    + lia.
    + split; [rewrite app_length; cbn [length]; lia|].
      split; [rewrite entry_app1 by lia; exact U0|]. split; [rewrite entry_app1 by lia; exact U1|].
      intros j Hj Hji. destruct (N.eq_dec j i) as [->|Hne].
      * exists cl, ch, x. rewrite Hget. rewrite !entry_app1 by lia.
        split; [exact Ecl|]. split; [exact Ech|]. split; [exact Hx|]. rewrite <- Ulen. apply entry_app_last.
      * destruct (Un j Hj ltac:(lia)) as (cl' & ch' & x' & A & B & D & E).
        destruct (kids_lt b TP j Hj ltac:(lia)) as (Kl' & Kh').
        exists cl', ch', x'. rewrite !entry_app1 by lia. repeat split; assumption.
Qed.

Lemma dp_cache_ok comb b : Benign b -> comb_total comb -> is_false b = false ->
  exists c, dp_cache b (step_of comb) = Ok c /\ cache_upto comb b c (size b).
Proof.
  intros C T Hf. pose proof C as (W & _). pose proof (is_false_false_size b W Hf) as Hs.
  unfold dp_cache. apply (dp_build_ok comb b C T (skipn 2 b) 2); try reflexivity; try lia.
  split; [reflexivity|]. split; [reflexivity|]. split; [reflexivity|]. intros j H1 H2. lia.
Qed.

(* the branch recorded in the cache *)
Definition chf (c : cache) (p : N) : bool := match entry c p with Some e => snd e | None => true end.

Lemma choose_cached_chf comb b c : cache_upto comb b c (size b) ->
  forall q, 2 <= q -> q < size b -> choose_cached c q = Ok (chf c q).
Proof.
  intros (Ulen & _) q Hq Hlt. destruct (entry_some c q ltac:(lia)) as (e & E).
  unfold choose_cached, chf. rewrite (cget_entry _ _ _ E), E. reflexivity.
Qed.

Lemma cache_entry comb b c p : wf b -> cache_upto comb b c (size b) -> valid b p -> exists e, entry c p = Some e.
Proof. intros W (Ulen & _) (Vp & _). apply entry_some. lia. Qed.

Lemma cache_term comb b c p : cache_upto comb b c (size b) -> p < 2 -> 2 <= size b -> entry c p = Some (0, true).
Proof. intros (_ & U0 & U1 & _) Hp _. assert (p = 0 \/ p = 1) as [->| ->] by lia; assumption. Qed.

(* ======================================================================================== *)
(* most_fixed_clause / most_free_clause                                                      *)
Definition better (mx : bool) (a c : N) : Prop := if mx then c <= a else a <= c.

Definition clause_comb_ok (mx : bool) (comb : comb_t) : Prop :=
  forall n cl ch e, ~ (nlow n = 0 /\ nhigh n = 0) -> comb n cl ch = Ok e ->
    (snd e = true -> nhigh n <> 0 /\ fst e = fst ch + 1) /\
    (snd e = false -> nlow n <> 0 /\ fst e = fst cl + 1) /\
    (nlow n <> 0 -> better mx (fst e) (fst cl + 1)) /\
    (nhigh n <> 0 -> better mx (fst e) (fst ch + 1)).

Definition mfix_comb : comb_t := fun n cl ch =>
    if (nlow n =? 0) && (nhigh n =? 0) then Panic
    else if nlow n =? 0 then Ok (fst ch + 1, true)
    else if nhigh n =? 0 then Ok (fst cl + 1, false)
    else if pair_lt cl ch then Ok (fst ch + 1, true)
    else Ok (fst cl + 1, false).
Definition mfree_comb : comb_t := fun n cl ch =>
    if (nlow n =? 0) && (nhigh n =? 0) then Panic
    else if nlow n =? 0 then Ok (fst ch + 1, true)
    else if nhigh n =? 0 then Ok (fst cl + 1, false)
    else if pair_lt ch cl then Ok (fst ch + 1, true)
    else Ok (fst cl + 1, false).

Lemma mfix_step_eq : mfix_step = step_of mfix_comb. Proof. reflexivity. Qed.
Lemma mfree_step_eq : mfree_step = step_of mfree_comb. Proof. reflexivity. Qed.

Lemma pair_lt_true x y : pair_lt x y = true -> fst x <= fst y.
Proof.
  unfold pair_lt. rewrite orb_true_iff, !andb_true_iff, N.ltb_lt, N.eqb_eq. intros [H|((H & _) & _)]; lia.
Qed.
Lemma pair_lt_false x y : pair_lt x y = false -> fst y <= fst x.
Proof.
  unfold pair_lt. rewrite orb_false_iff, N.ltb_ge. intros (H & _). exact H.
Qed.

Lemma mfix_total : comb_total mfix_comb.
Proof.
  intros n cl ch H. unfold mfix_comb.
  destruct (N.eqb_spec (nlow n) 0) as [El|El], (N.eqb_spec (nhigh n) 0) as [Eh|Eh]; cbn [andb];
    try (exfalso; apply H; split; assumption); try (eexists; reflexivity).
  destruct (pair_lt cl ch); eexists; reflexivity.
Qed.
Lemma mfree_total : comb_total mfree_comb.
Proof.
  intros n cl ch H. unfold mfree_comb.
  destruct (N.eqb_spec (nlow n) 0) as [El|El], (N.eqb_spec (nhigh n) 0) as [Eh|Eh]; cbn [andb];
    try (exfalso; apply H; split; assumption); try (eexists; reflexivity).
  destruct (pair_lt ch cl); eexists; reflexivity.
Qed.

Lemma mfix_comb_ok : clause_comb_ok true mfix_comb.
Proof.
  intros n cl ch e H. unfold mfix_comb, better.
  destruct (N.eqb_spec (nlow n) 0) as [El|El], (N.eqb_spec (nhigh n) 0) as [Eh|Eh]; cbn [andb];
    try (exfalso; apply H; split; assumption).
  - intros E; inversion E; subst e; cbn [fst snd]. repeat split; try assumption; try discriminate; try lia; try congruence.
  - intros E; inversion E; subst e; cbn [fst snd]. repeat split; try assumption; try discriminate; try lia; try congruence.
  - destruct (pair_lt cl ch) eqn:Ep; intros E; inversion E; subst e; cbn [fst snd].
    + apply pair_lt_true in Ep. repeat split; try assumption; try discriminate; try lia.
    + apply pair_lt_false in Ep. repeat split; try assumption; try discriminate; try lia.
Qed.
Lemma mfree_comb_ok : clause_comb_ok false mfree_comb.
Proof.
  intros n cl ch e H. unfold mfree_comb, better.
  destruct (N.eqb_spec (nlow n) 0) as [El|El], (N.eqb_spec (nhigh n) 0) as [Eh|Eh]; cbn [andb];
    try (exfalso; apply H; split; assumption).
  - intros E; inversion E; subst e; cbn [fst snd]. repeat split; try assumption; try discriminate; try lia; try congruence.
  - intros E; inversion E; subst e; cbn [fst snd]. repeat split; try assumption; try discriminate; try lia; try congruence.
  - destruct (pair_lt ch cl) eqn:Ep; intros E; inversion E; subst e; cbn [fst snd].
    + apply pair_lt_true in Ep. repeat split; try assumption; try discriminate; try lia.
    + apply pair_lt_false in Ep. repeat split; try assumption; try discriminate; try lia.
Qed.

Section ClauseDP.
  Variables (mx : bool) (comb : comb_t) (b : bdd) (c : cache).
  Hypotheses (W : wf b) (R : nz b) (CO : clause_comb_ok mx comb) (U : cache_upto comb b c (size b)).

  Lemma clause_node p : 2 <= p -> p < size b -> exists cl ch e,
    entry c (nlow (get b p)) = Some cl /\ entry c (nhigh (get b p)) = Some ch /\ entry c p = Some e /\
    (snd e = true -> nhigh (get b p) <> 0 /\ fst e = fst ch + 1) /\
    (snd e = false -> nlow (get b p) <> 0 /\ fst e = fst cl + 1) /\
    (nlow (get b p) <> 0 -> better mx (fst e) (fst cl + 1)) /\
    (nhigh (get b p) <> 0 -> better mx (fst e) (fst ch + 1)).
  Proof.
    intros Hp Hlt. destruct U as (_ & _ & _ & Un). destruct (Un p Hp Hlt) as (cl & ch & e & A & B & D & E).
    exists cl, ch, e. split; [exact A|]. split; [exact B|]. split; [exact E|].
    apply (CO (get b p) cl ch e); [apply kids_not_both_zero; assumption|exact D].
  Qed.

  Lemma clause_safe : safe_choice b (chf c).
  Proof.
    intros q Hq Hlt. destruct (clause_node q Hq Hlt) as (cl & ch & e & _ & _ & E & P1 & P2 & _).
    unfold chf, child. rewrite E. destruct (snd e) eqn:Es; [apply P1|apply P2]; reflexivity.
  Qed.

  Lemma clause_opt : forall fuel p e, valid b p -> p <> 0 -> enough b p fuel -> entry c p = Some e ->
    N.of_nat (length (trace fuel b (chf c) p)) = fst e /\
    forall ds', path b p ds' 1 -> better mx (fst e) (N.of_nat (length ds')).
  Proof.
    induction fuel as [|f IH]; intros p e V Hp E He; [unfold enough in E; lia|].
    cbn [trace]. destruct (N.ltb_spec p 2) as [Hlt|Hge].
    - assert (p = 1) by lia. subst p. destruct U as (_ & _ & U1 & _). rewrite U1 in He. inversion He; subst e. cbn [fst length].
      split; [reflexivity|]. intros ds' P. destruct (path_from_1 b ds' 1 P) as (_ & ->). unfold better. cbn [length]. destruct mx; lia.
    - pose proof V as (Vp & _).
      destruct (clause_node p Hge Vp) as (cl & ch & e' & Ecl & Ech & Ee & P1 & P2 & P3 & P4).
      rewrite Ee in He. inversion He; subst e'. clear He.
      destruct (wf_children b p W Hge Vp) as (Vl & Vh & _).
      assert (Hchf : chf c p = snd e) by (unfold chf; now rewrite Ee).
      split.
      + cbn [length]. rewrite Hchf.
        destruct (snd e) eqn:Es.
        * destruct (P1 eq_refl) as (Hnz & Hval).
          destruct (IH (nhigh (get b p)) ch Vh Hnz (enough_child b p true f W Hge Vp E) Ech) as (Hl & _).
          unfold child. lia.
        * destruct (P2 eq_refl) as (Hnz & Hval).
          destruct (IH (nlow (get b p)) cl Vl Hnz (enough_child b p false f W Hge Vp E) Ecl) as (Hl & _).
          unfold child. lia.
      + intros [|[x c'] r'] P; cbn [path fst snd] in P; [lia|]. destruct P as (_ & _ & _ & P).
        assert (Hnz : child b p c' <> 0).
        { intros Ez. rewrite Ez in P. destruct (path_from_0 b r' 1 P). lia. }
        cbn [length]. destruct c'; unfold child in *.
        * destruct (IH _ ch Vh Hnz (enough_child b p true f W Hge Vp E) Ech) as (_ & Hb).
          specialize (Hb r' P). specialize (P4 Hnz). unfold better in *. destruct mx; lia.
        * destruct (IH _ cl Vl Hnz (enough_child b p false f W Hge Vp E) Ecl) as (_ & Hb).
          specialize (Hb r' P). specialize (P3 Hnz). unfold better in *. destruct mx; lia.
  Qed.
End ClauseDP.

Lemma dp_clause_spec mx comb b : Benign b -> is_false b = false -> comb_total comb -> clause_comb_ok mx comb ->
  exists pv ds,
    bind (dp_cache b (step_of comb)) (fun c => some_of (walk (wfuel b) b (choose_cached c) cset (root b) [])) = Ok (Some pv) /\
    path b (root b) ds 1 /\ lits_of pv ds /\
    forall ds', path b (root b) ds' 1 -> better mx (N.of_nat (length ds)) (N.of_nat (length ds')).
Proof.
  intros C Hf T CO. pose proof C as (W & R & _).
  destruct (dp_cache_ok comb b C T Hf) as (c & Hc & U). rewrite Hc. cbn [bind].
  pose proof (clause_safe mx comb b c R CO U) as S.
  destruct (walk_clause b (choose_cached c) (chf c) W (choose_cached_chf comb b c U) S Hf) as (pv & Hw & P & Hl).
  exists pv, (trace (wfuel b) b (chf c) (root b)). rewrite Hw. split; [reflexivity|]. split; [exact P|]. split; [exact Hl|].
  destruct (cache_entry comb b c (root b) W U (valid_root b W)) as (e & Ee).
  destruct (clause_opt mx comb b c W R CO U (wfuel b) (root b) e (valid_root b W) (root_nonzero b W Hf) (enough_root b W) Ee) as (Hlen & Hopt).
  intros ds' P'. rewrite Hlen. apply Hopt. exact P'.
Qed.

Theorem most_fixed_clause_none b : is_false b = true -> most_fixed_clause b = Ok None.
Proof. intros H. unfold most_fixed_clause. now rewrite H. Qed.
Theorem most_free_clause_none b : is_false b = true -> most_free_clause b = Ok None.
Proof. intros H. unfold most_free_clause. now rewrite H. Qed.

(* a root-to-1 path with the maximal number of literals *)
Theorem most_fixed_clause_spec_benign b : Benign b -> is_false b = false ->
  exists pv ds, most_fixed_clause b = Ok (Some pv) /\ path b (root b) ds 1 /\ lits_of pv ds /\
    forall ds', path b (root b) ds' 1 -> (length ds' <= length ds)%nat.
Proof.
  intros C Hf. unfold most_fixed_clause. rewrite Hf, mfix_step_eq.
  destruct (dp_clause_spec true mfix_comb b C Hf mfix_total mfix_comb_ok) as (pv & ds & H & P & Hl & Hopt).
  exists pv, ds. split; [exact H|]. split; [exact P|]. split; [exact Hl|]. intros ds' P'. specialize (Hopt ds' P'). unfold better in Hopt. lia.
Qed.
Print Assumptions most_fixed_clause_spec_benign.

Theorem most_fixed_clause_spec b : Canonical b -> is_false b = false ->
  exists pv ds, most_fixed_clause b = Ok (Some pv) /\ path b (root b) ds 1 /\ lits_of pv ds /\
    forall ds', path b (root b) ds' 1 -> (length ds' <= length ds)%nat.
Proof. intros C. apply most_fixed_clause_spec_benign. apply canonical_benign. exact C. Qed.
Print Assumptions most_fixed_clause_spec.

(* a root-to-1 path with the minimal number of literals *)
Theorem most_free_clause_spec_benign b : Benign b -> is_false b = false ->
  exists pv ds, most_free_clause b = Ok (Some pv) /\ path b (root b) ds 1 /\ lits_of pv ds /\
    forall ds', path b (root b) ds' 1 -> (length ds <= length ds')%nat.
Proof.
  intros C Hf. unfold most_free_clause. rewrite Hf, mfree_step_eq.
  destruct (dp_clause_spec false mfree_comb b C Hf mfree_total mfree_comb_ok) as (pv & ds & H & P & Hl & Hopt).
  exists pv, ds. split; [exact H|]. split; [exact P|]. split; [exact Hl|]. intros ds' P'. specialize (Hopt ds' P'). unfold better in Hopt. lia.
Qed.
Print Assumptions most_free_clause_spec_benign.

Theorem most_free_clause_spec b : Canonical b -> is_false b = false ->
  exists pv ds, most_free_clause b = Ok (Some pv) /\ path b (root b) ds 1 /\ lits_of pv ds /\
    forall ds', path b (root b) ds' 1 -> (length ds <= length ds')%nat.
Proof. intros C. apply most_free_clause_spec_benign. apply canonical_benign. exact C. Qed.
Print Assumptions most_free_clause_spec.
