(* Proofs/SelectBenign.v — the benign shape of NON-REDUCED diagrams on which the selectors of Model/Select.v still
   meet their specification (Benign is defined in Proofs/SelectBase.v, where the base lemmas are proved for it):

     Benign b := wf b /\ nz b /\ topo b /\ all_reachable b
       wf b             valid ordered diagram, terminals in slots 0 and 1
       nz b             no decision node has both links equal to 0
       topo b           children are stored before parents
       all_reachable b  the root is the last node and every decision node is reachable from it
     (under wf, "at least 3 nodes or one of the two constants" is automatic: benign_shape)

   Redundant tests (nlow = nhigh <> 0) and duplicated nodes are allowed.  This file adds the boolean checker `benignb`
   with its reflection lemma, the summary of the generalised theorems, and the one reading of the property that does
   NOT survive: `is_clause` decides "exactly one root-to-1 path" (is_clause_iff_benign), which on a non-reduced diagram
   is strictly stronger than "the function is a single cube" (is_clause_benign_refuted). *)
From Coq Require Import List PeanoNat NArith Lia Bool.
Import ListNotations.
From BddVerif Require Import Model.Bdd Model.Apply Model.Ops Model.Select Proofs.Sem Proofs.Canon Proofs.Reflect
  Proofs.PvalSem Proofs.SelectBase Proofs.SelectWalk Proofs.SelectWitness Proofs.SelectPred Proofs.SelectDP
  Proofs.SelectDPVal Proofs.SelectNec Proofs.SelectAll.
Open Scope N_scope.

(* ======================================================================================== *)
(* the boolean checker                                                                       *)
Definition nzb (b : bdd) : bool :=
  forallb (fun p => negb ((nlow (get b p) =? 0) && (nhigh (get b p) =? 0))) (idxs b).
Definition topob (b : bdd) : bool :=
  forallb (fun p => (nlow (get b p) <? p) && (nhigh (get b p) <? p)) (idxs b).
(* some decision node has q as a child (with topob: a node stored after q) *)
Definition has_parentb (b : bdd) (q : N) : bool :=
  existsb (fun j => (nlow (get b j) =? q) || (nhigh (get b j) =? q)) (idxs b).
(* every decision node is the root or has a parent: with topob this is reachability from the root *)
Definition reachb (b : bdd) : bool := forallb (fun q => (q =? root b) || has_parentb b q) (idxs b).
Definition benignb (b : bdd) : bool := wfb b && nzb b && topob b && reachb b.

Lemma nzb_iff b : nzb b = true <-> nz b.
Proof.
  unfold nzb, nz. rewrite forallb_idxs. split; intros H p Hp Hlt; specialize (H p Hp Hlt).
  - intros (A & B). rewrite A, B in H. discriminate.
  - apply negb_true_iff. apply andb_false_iff.
    destruct (N.eqb_spec (nlow (get b p)) 0) as [A|A]; [|now left].
    destruct (N.eqb_spec (nhigh (get b p)) 0) as [B|B]; [|now right]. exfalso. apply H. split; assumption.
Qed.

Lemma topob_iff b : topob b = true <-> topo b.
Proof.
  unfold topob, topo, kids_before. rewrite forallb_idxs. split; intros H p Hp Hlt; specialize (H p Hp Hlt).
  - apply andb_true_iff in H. rewrite !N.ltb_lt in H. exact H.
  - apply andb_true_iff. rewrite !N.ltb_lt. exact H.
Qed.

Lemma has_parentb_iff b q : has_parentb b q = true <-> exists j, 2 <= j /\ j < size b /\ is_parent b j q.
Proof.
  unfold has_parentb, is_parent. rewrite existsb_exists. split.
  - intros (j & Hin & H). apply in_idxs in Hin. destruct Hin as (J1 & J2). exists j. split; [exact J1|]. split; [exact J2|].
    apply orb_true_iff in H. rewrite !N.eqb_eq in H. exact H.
  - intros (j & J1 & J2 & H). exists j. split; [apply in_idxs; split; assumption|].
    apply orb_true_iff. rewrite !N.eqb_eq. exact H.
Qed.

Lemma reachb_iff b : reachb b = true <->
  (forall q, 2 <= q -> q < size b -> q = root b \/ exists j, 2 <= j /\ j < size b /\ is_parent b j q).
Proof.
  unfold reachb. rewrite forallb_idxs. split; intros H q Hq Hlt; specialize (H q Hq Hlt).
  - apply orb_true_iff in H. destruct H as [H|H]; [left; now apply N.eqb_eq|right; now apply has_parentb_iff].
  - apply orb_true_iff. destruct H as [H|H]; [left; now apply N.eqb_eq|right; now apply has_parentb_iff].
Qed.

(* on a diagram whose children precede their parents, "root or has a parent" is reachability from the root *)
Lemma reach_parents b : topo b ->
  ((forall q, 2 <= q -> q < size b -> q = root b \/ exists j, 2 <= j /\ j < size b /\ is_parent b j q) <-> all_reachable b).
Proof.
  intros T. split.
  - intros H. apply parents_reachable. intros q Hq Hr. unfold root in Hr.
    destruct (H q Hq ltac:(lia)) as [E|(j & J1 & J2 & J3)]; [unfold root in E; lia|].
    exists j. split; [|split; assumption].
    destruct (T j J1 J2) as (Kl & Kh). destruct J3 as [E|E]; rewrite <- E; assumption.
  - intros RA q Hq Hlt. destruct (N.eq_dec q (root b)) as [E|E]; [now left|right].
    destruct (RA q Hq Hlt) as (ds & P). apply (path_last_parent b q ds (root b) P). congruence.
Qed.

Theorem benignb_iff b : benignb b = true <-> Benign b.
Proof.
  unfold benignb, Benign. rewrite !andb_true_iff, wfb_iff, nzb_iff, topob_iff, reachb_iff. split.
  - intros (((W & R) & T) & H). split; [exact W|]. split; [exact R|]. split; [exact T|]. apply (reach_parents b T). exact H.
  - intros (W & R & T & RA). split; [split; [split; [exact W|exact R]|exact T]|]. apply (reach_parents b T). exact RA.
Qed.
Print Assumptions benignb_iff.

Theorem benignb_sound b : benignb b = true -> Benign b.
Proof. apply benignb_iff. Qed.
Theorem benignb_complete b : Benign b -> benignb b = true.
Proof. apply benignb_iff. Qed.

Lemma benignb_reflect b : reflect (Benign b) (benignb b).
Proof. apply iff_reflect. symmetry. apply benignb_iff. Qed.

Corollary canonicalb_benignb b : canonicalb b = true -> benignb b = true.
Proof. intros H. apply benignb_complete, canonical_benign, canonicalb_sound, H. Qed.

(* ======================================================================================== *)
(* the class is strictly larger than the canonical diagrams                                  *)
(* f = (x0 & x2) | (!x0 & !x1) over 4 variables, with a redundant test of x3 spliced into the edge (x2) -high-> 1 *)
Definition ex_benign : bdd :=
  [mkNode 4 0 0; mkNode 4 1 1; mkNode 3 1 1; mkNode 2 0 2; mkNode 1 1 0; mkNode 0 4 3].

Example ex_benign_ok : benignb ex_benign = true /\ reducedb ex_benign = false /\ canonicalb ex_benign = false.
Proof. vm_compute. repeat split. Qed.

Example ex_benign_values :
  first_valuation ex_benign = Ok (Some [false; false; false; false]) /\
  last_valuation ex_benign = Ok (Some [true; true; true; true]) /\
  sat_witness ex_benign = Ok (Some [true; false; true; false]) /\
  most_positive_valuation ex_benign = Ok (Some [true; true; true; true]) /\
  most_negative_valuation ex_benign = Ok (Some [false; false; false; false]) /\
  first_clause ex_benign = Ok (Some [Some false; Some false]) /\
  last_clause ex_benign = Ok (Some [Some true; None; Some true; Some true]) /\
  most_fixed_clause ex_benign = Ok (Some [Some true; None; Some true; Some false]) /\
  most_free_clause ex_benign = Ok (Some [Some false; Some false]) /\
  necessary_clause ex_benign = Ok (Some []) /\
  is_clause ex_benign = Ok false /\ is_valuation ex_benign = Ok false.
Proof. vm_compute. repeat split. Qed.

(* it denotes the same function as the canonical diagram it was derived from *)
Definition ex_canon : bdd := [mkNode 4 0 0; mkNode 4 1 1; mkNode 2 0 1; mkNode 1 1 0; mkNode 0 3 2].

Lemma eval_list_of_val b v : wf b -> eval b v = eval b (val_of_list (list_of_val (nvars b) v)).
Proof. intros W. apply eval_agree_nv; [exact W|]. intros x Hx. symmetry. now apply list_of_val_get. Qed.

Lemma ex_benign_same_function v : eval ex_benign v = eval ex_canon v.
Proof.
  rewrite (eval_list_of_val ex_benign v) by (apply wfb_sound; vm_compute; reflexivity).
  rewrite (eval_list_of_val ex_canon v) by (apply wfb_sound; vm_compute; reflexivity).
  change (nvars ex_benign) with 4. change (nvars ex_canon) with 4.
  change (list_of_val 4 v) with [v 0; v 1; v 2; v 3].
  destruct (v 0), (v 1), (v 2), (v 3); vm_compute; reflexivity.
Qed.

(* ======================================================================================== *)
(* is_clause: what survives and what does not                                                *)
(* the function of b is a single cube (conjunction of literals over distinct variables) *)
Definition is_cube (b : bdd) : Prop :=
  exists ds : list dec, NoDup (map fst ds) /\ forall v, eval b v = true <-> follows v ds.

(* x0, with a redundant test of x1 below it: one cube, two paths *)
Definition ex_cube : bdd := [mkNode 2 0 0; mkNode 2 1 1; mkNode 1 1 1; mkNode 0 0 2].

Lemma ex_cube_is_cube : is_cube ex_cube.
Proof.
  exists [(0, true)]. split; [repeat constructor; intros []|]. intros v. rewrite follows_cons.
  assert (W : wf ex_cube) by (apply wfb_sound; vm_compute; reflexivity).
  assert (E : eval ex_cube v = v 0).
  { unfold eval. change (size ex_cube - 1) with 3.
    rewrite (sem_unfold ex_cube 3 v W) by (vm_compute; intuition discriminate).
    change (var_of ex_cube 3) with 0. change (nhigh (get ex_cube 3)) with 2. change (nlow (get ex_cube 3)) with 0.
    destruct (v 0); [|reflexivity].
    rewrite (sem_unfold ex_cube 2 v W) by (vm_compute; intuition discriminate).
    change (nhigh (get ex_cube 2)) with 1. change (nlow (get ex_cube 2)) with 1. destruct (v (var_of ex_cube 2)); reflexivity. }
  rewrite E. split; [intros H; split; [exact H|intros x c []]|intros (H & _); exact H].
Qed.

(* the semantic reading of is_clause ("the function is a single cube") fails on benign non-reduced diagrams ... *)
Theorem is_clause_benign_refuted :
  exists b, Benign b /\ is_clause b = Ok false /\ is_cube b /\
    (exists ds1 ds2, path b (root b) ds1 1 /\ path b (root b) ds2 1 /\ ds1 <> ds2).
Proof.
  exists ex_cube. split; [apply benignb_sound; vm_compute; reflexivity|]. split; [vm_compute; reflexivity|].
  split; [exact ex_cube_is_cube|].
  exists [(0, true); (1, false)], [(0, true); (1, true)].
  split; [|split; [|discriminate]]; cbn [path fst snd]; vm_compute; repeat split; discriminate.
Qed.
Print Assumptions is_clause_benign_refuted.

(* ... while on canonical diagrams a unique path and a single cube are the same thing only through reducedness;
   the syntactic statement (exactly one root-to-1 path) is what is_clause decides on every benign diagram:
   is_clause_iff_benign (Proofs/SelectPred.v). *)
