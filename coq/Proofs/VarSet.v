(* Proofs/VarSet.v — names <-> variables (Model/VarSet.v): decimal printing is injective, the builder accepts exactly
   the duplicate-free lists of admissible names below the size limit, a built set maps names to variables
   bijectively in declaration order, anonymous names are pairwise distinct. *)
From Coq Require Import List NArith Lia Bool PeanoNat.
From Coq Require FinFun.
Import ListNotations.
From BddVerif Require Import Model.Bdd Model.Apply Model.Ops Model.VarSet.
Open Scope N_scope.

(* ------------------------------------------------------------------------------------------ *)
(* names                                                                                        *)
Lemma name_eqb_spec : forall a b, reflect (a = b) (name_eqb a b).
Proof.
  induction a as [|x a IH]; intros [|y b]; cbn [name_eqb]; try (constructor; congruence).
  destruct (N.eqb_spec x y) as [->|Hne]; cbn [andb].
  - destruct (IH b) as [->|Hne]; constructor; congruence.
  - constructor. congruence.
Qed.

Lemma name_eqb_refl a : name_eqb a a = true.
Proof. destruct (name_eqb_spec a a); congruence. Qed.

Lemma name_mem_in s l : name_mem s l = true <-> In s l.
Proof.
  unfold name_mem. rewrite existsb_exists. split.
  - intros (x & Hin & He). destruct (name_eqb_spec s x); [subst; exact Hin|discriminate].
  - intros Hin. exists s. split; [exact Hin|apply name_eqb_refl].
Qed.

Lemma name_mem_false s l : name_mem s l = false <-> ~ In s l.
Proof.
  rewrite <- name_mem_in. destruct (name_mem s l); split; intro H.
  - discriminate.
  - exfalso. apply H. reflexivity.
  - intro H'. discriminate.
  - reflexivity.
Qed.

(* the forbidden-character test, as a proposition *)
Definition forbidden_char (c : N) : Prop := In c NOT_IN_VAR_NAME.
Lemma name_bad_iff s : name_bad s = true <-> exists c, In c s /\ forbidden_char c.
Proof.
  unfold name_bad, forbidden_char. rewrite existsb_exists. split.
  - intros (c & Hc & He). exists c. split; [exact Hc|]. apply existsb_exists in He. destruct He as (d & Hd & E).
    apply N.eqb_eq in E. subst. exact Hd.
  - intros (c & Hc & Hf). exists c. split; [exact Hc|]. apply existsb_exists. exists c. split; [exact Hf|apply N.eqb_refl].
Qed.
Definition name_ok (s : name) : Prop := name_bad s = false.
Lemma name_ok_iff s : name_ok s <-> forall c, In c s -> ~ forbidden_char c.
Proof.
  unfold name_ok. split.
  - intros H c Hc Hf. assert (name_bad s = true) by (apply name_bad_iff; eauto). congruence.
  - intros H. destruct (name_bad s) eqn:E; [|reflexivity]. apply name_bad_iff in E. destruct E as (c & Hc & Hf).
    exfalso. exact (H c Hc Hf).
Qed.

(* ------------------------------------------------------------------------------------------ *)
(* decimal printing                                                                             *)
Definition dstep (a c : N) : N := 10 * a + (c - 48).
Definition dec_value (d : list N) : N := fold_left dstep d 0.
Definition digitb (c : N) : bool := (48 <=? c) && (c <=? 57).

Lemma dec_fuel_S f n acc : dec_fuel (S f) n acc =
  if n / 10 =? 0 then (48 + n mod 10) :: acc else dec_fuel f (n / 10) ((48 + n mod 10) :: acc).
Proof. reflexivity. Qed.

Lemma dec_fuel_value : forall f n acc, n < 2 ^ N.of_nat f ->
  fold_left dstep (dec_fuel (S f) n acc) 0 = fold_left dstep acc n.
Proof.
  induction f as [|f IH]; intros n acc Hn.
  - change (2 ^ N.of_nat 0) with 1 in Hn. assert (n = 0) by lia. subst n. reflexivity.
  - rewrite dec_fuel_S. destruct (N.eqb_spec (n / 10) 0) as [Hz|Hnz].
    + cbn [fold_left]. f_equal. unfold dstep. rewrite N.mul_0_r, N.add_0_l, (N.add_comm 48), N.add_sub.
      rewrite (N.div_mod n 10) at 2 by discriminate. rewrite Hz. reflexivity.
    + rewrite IH.
      * cbn [fold_left]. f_equal. unfold dstep. rewrite (N.add_comm 48), N.add_sub. symmetry. apply N.div_mod. discriminate.
      * rewrite Nnat.Nat2N.inj_succ, N.pow_succ_r' in Hn.
        apply N.div_lt_upper_bound; [discriminate|]. revert Hn. generalize (2 ^ N.of_nat f). intros. lia.
Qed.

Lemma pos_bits_gt p : N.pos p < 2 ^ N.of_nat (dec_pos_bits p).
Proof.
  induction p as [q IH|q IH|]; cbn [dec_pos_bits].
  - rewrite Nnat.Nat2N.inj_succ, N.pow_succ_r'. revert IH. generalize (2 ^ N.of_nat (dec_pos_bits q)). intros m IH. lia.
  - rewrite Nnat.Nat2N.inj_succ, N.pow_succ_r'. revert IH. generalize (2 ^ N.of_nat (dec_pos_bits q)). intros m IH. lia.
  - reflexivity.
Qed.

Lemma decimal_fuel_ok n : n < 2 ^ N.of_nat (dec_nbits n).
Proof. destruct n as [|p]; [reflexivity|apply pos_bits_gt]. Qed.

Theorem dec_value_decimal n : dec_value (decimal n) = n.
Proof. unfold dec_value, decimal. rewrite dec_fuel_value; [reflexivity|apply decimal_fuel_ok]. Qed.

Theorem decimal_inj a b : decimal a = decimal b -> a = b.
Proof. intros H. rewrite <- (dec_value_decimal a), <- (dec_value_decimal b), H. reflexivity. Qed.

Lemma dec_fuel_digits : forall f n acc, Forall (fun c => digitb c = true) acc ->
  Forall (fun c => digitb c = true) (dec_fuel f n acc).
Proof.
  induction f as [|f IH]; intros n acc Ha; [exact Ha|]. cbn [dec_fuel].
  assert (Hd : Forall (fun c => digitb c = true) ((48 + n mod 10) :: acc)).
  { constructor; [|exact Ha]. unfold digitb. pose proof (N.mod_lt n 10 ltac:(discriminate)) as Hm.
    revert Hm. generalize (n mod 10). intros m Hm. apply andb_true_intro. split; apply N.leb_le; lia. }
  destruct (n / 10 =? 0); [exact Hd|apply IH; exact Hd].
Qed.

Lemma decimal_digits n : Forall (fun c => digitb c = true) (decimal n).
Proof. apply dec_fuel_digits. constructor. Qed.

Lemma dec_fuel_nonempty : forall f n acc, dec_fuel (S f) n acc <> [].
Proof.
  assert (H : forall f n acc, acc <> [] -> dec_fuel f n acc <> []).
  { induction f as [|f IH]; intros n acc Ha; [exact Ha|]. cbn [dec_fuel].
    destruct (n / 10 =? 0); [discriminate|apply IH; discriminate]. }
  intros f n acc. cbn [dec_fuel]. destruct (n / 10 =? 0); [discriminate|apply H; discriminate].
Qed.
Lemma decimal_nonempty n : decimal n <> [].
Proof. apply dec_fuel_nonempty. Qed.

(* ------------------------------------------------------------------------------------------ *)
(* nrange                                                                                       *)
Lemma nrange_length : forall k i, length (nrange k i) = k.
Proof. induction k as [|k IH]; intros i; cbn [nrange length]; [reflexivity|rewrite IH; reflexivity]. Qed.

Lemma nrange_nth : forall k i j, (j < k)%nat -> nth_error (nrange k i) j = Some (i + N.of_nat j).
Proof.
  induction k as [|k IH]; intros i j Hj; [lia|]. destruct j as [|j]; cbn [nrange nth_error].
  - f_equal. lia.
  - rewrite IH by lia. f_equal. lia.
Qed.

Lemma nrange_in : forall k i x, In x (nrange k i) <-> i <= x /\ x < i + N.of_nat k.
Proof.
  induction k as [|k IH]; intros i x; cbn [nrange In].
  - split; [tauto|lia].
  - rewrite IH. lia.
Qed.

Lemma nrange_nodup : forall k i, NoDup (nrange k i).
Proof.
  induction k as [|k IH]; intros i; cbn [nrange]; constructor; [|apply IH].
  rewrite nrange_in. lia.
Qed.

Lemma nrange_snoc : forall k i, nrange (S k) i = nrange k i ++ [i + N.of_nat k].
Proof.
  induction k as [|k IH]; intros i.
  - cbn. f_equal. lia.
  - change (nrange (S (S k)) i) with (i :: nrange (S k) (i + 1)). rewrite IH. cbn [nrange app]. f_equal. f_equal. f_equal. lia.
Qed.

(* ------------------------------------------------------------------------------------------ *)
(* the builder                                                                                  *)
Lemma as_u16_small x : x < 65536 -> as_u16 x = x.
Proof. intros H. unfold as_u16. apply N.mod_small. exact H. Qed.

(* one call: accepted exactly when below the limit, new and admissible *)
Theorem make_variable_spec bl s :
  (N.of_nat (length bl) < MAX_VARS /\ ~ In s bl /\ name_ok s /\
     make_variable bl s = Ok (bl ++ [s], N.of_nat (length bl))) \/
  ((MAX_VARS <= N.of_nat (length bl) \/ In s bl \/ ~ name_ok s) /\ make_variable bl s = Panic).
Proof.
  unfold make_variable, name_ok. destruct (N.leb_spec MAX_VARS (N.of_nat (length bl))) as [Hge|Hlt].
  - right. split; [left; exact Hge|reflexivity].
  - destruct (name_mem s bl) eqn:Em.
    + right. split; [right; left; apply name_mem_in; exact Em|reflexivity].
    + destruct (name_bad s) eqn:Eb.
      * right. split; [right; right; congruence|reflexivity].
      * left. split; [exact Hlt|]. split; [apply name_mem_false; exact Em|]. split; [reflexivity|].
        rewrite as_u16_small; [reflexivity|]. unfold MAX_VARS in Hlt. lia.
Qed.

(* the condition under which a batch of names is accepted by a builder already holding bl *)
Definition accepts (bl ss : list name) : Prop :=
  N.of_nat (length bl) + N.of_nat (length ss) <= 65534 /\ Forall name_ok ss /\ NoDup ss /\ (forall s, In s ss -> ~ In s bl).

Lemma make_variables_spec : forall ss bl, N.of_nat (length bl) <= 65534 ->
  (accepts bl ss /\ make_variables bl ss = Ok (bl ++ ss, nrange (length ss) (N.of_nat (length bl)))) \/
  (~ accepts bl ss /\ make_variables bl ss = Panic).
Proof.
  induction ss as [|s r IH]; intros bl Hbl.
  - left. split.
    + unfold accepts. cbn [length]. split; [lia|]. split; [constructor|]. split; [constructor|]. intros s [].
    + cbn [make_variables length nrange]. rewrite app_nil_r. reflexivity.
  - cbn [make_variables]. destruct (make_variable_spec bl s) as [(Hlt & Hni & Hok & E)|(Hbad & E)]; rewrite E; cbn [bind fst snd].
    + unfold MAX_VARS in Hlt. assert (Hbl' : N.of_nat (length (bl ++ [s])) <= 65534) by (rewrite app_length; cbn [length]; lia).
      destruct (IH (bl ++ [s]) Hbl') as [(Ha & E')|(Hna & E')]; rewrite E'; cbn [bind fst snd].
      * left. destruct Ha as (Hl & Hf & Hnd & Hdj). split.
        -- unfold accepts. rewrite app_length in Hl. cbn [length] in Hl |- *. split; [lia|].
           split; [constructor; assumption|]. split.
           ++ constructor; [|exact Hnd]. intros Hin. apply (Hdj s Hin). apply in_or_app. right. left. reflexivity.
           ++ intros t [<-|Ht]; [exact Hni|]. intros Hb. apply (Hdj t Ht). apply in_or_app. left. exact Hb.
        -- rewrite <- app_assoc. cbn [app length nrange]. f_equal. f_equal. f_equal. f_equal.
           rewrite app_length. cbn [length]. lia.
      * right. split; [|reflexivity]. intros (Hl & Hf & Hnd & Hdj). apply Hna. unfold accepts.
        rewrite app_length. cbn [length] in Hl |- *. split; [lia|].
        inversion Hf; subst. inversion Hnd; subst. split; [assumption|]. split; [assumption|].
        intros t Ht Hb. apply in_app_or in Hb. destruct Hb as [Hb|[<-|[]]].
        -- apply (Hdj t (or_intror Ht) Hb).
        -- contradiction.
    + right. split; [|reflexivity]. intros (Hl & Hf & Hnd & Hdj). cbn [length] in Hl.
      destruct Hbad as [Hge|[Hin|Hno]].
      * unfold MAX_VARS in Hge. lia.
      * apply (Hdj s (or_introl eq_refl) Hin).
      * inversion Hf; subst. contradiction.
Qed.

(* ------------------------------------------------------------------------------------------ *)
(* the map                                                                                      *)
Lemma build_map_keys : forall names i m, map fst (build_map_from i names m) = rev names ++ map fst m.
Proof.
  induction names as [|s r IH]; intros i m; cbn [build_map_from rev app]; [reflexivity|].
  rewrite IH. unfold smap_insert. cbn [map fst]. rewrite <- app_assoc. reflexivity.
Qed.

Lemma build_map_get_notin : forall names i m s, ~ In s names ->
  smap_get (build_map_from i names m) s = smap_get m s.
Proof.
  induction names as [|a r IH]; intros i m s Hni; cbn [build_map_from]; [reflexivity|].
  rewrite IH by (intros H; apply Hni; right; exact H). unfold smap_insert. cbn [smap_get].
  destruct (name_eqb_spec s a) as [->|Hne]; [exfalso; apply Hni; left; reflexivity|reflexivity].
Qed.

Lemma build_map_get_nth : forall names i m s k, NoDup names -> nth_error names k = Some s ->
  smap_get (build_map_from i names m) s = Some (as_u16 (i + N.of_nat k)).
Proof.
  induction names as [|a r IH]; intros i m s k Hnd Hk; [destruct k; discriminate|].
  inversion Hnd as [|a' r' Hni Hnd']; subst. cbn [build_map_from]. destruct k as [|k]; cbn [nth_error] in Hk.
  - inversion Hk; subst a. rewrite build_map_get_notin by exact Hni. unfold smap_insert. cbn [smap_get].
    rewrite name_eqb_refl. f_equal. f_equal. lia.
  - rewrite (IH (i + 1) _ s k Hnd' Hk). f_equal. f_equal. lia.
Qed.

Lemma distinct_length_le l : (length (distinct l) <= length l)%nat.
Proof. induction l as [|s r IH]; cbn [distinct length]; [lia|]. destruct (name_mem s r); cbn [length]; lia. Qed.

Lemma distinct_length_iff l : length (distinct l) = length l <-> NoDup l.
Proof.
  induction l as [|s r IH]; cbn [distinct length].
  - split; [constructor|reflexivity].
  - destruct (name_mem s r) eqn:E.
    + pose proof (distinct_length_le r) as Hle. split; [lia|]. intros H. inversion H; subst.
      apply name_mem_in in E. contradiction.
    + cbn [length]. apply name_mem_false in E. split.
      * intros H. constructor; [exact E|]. apply IH. lia.
      * intros H. inversion H; subst. f_equal. apply IH. assumption.
Qed.

Lemma NoDup_rev_iff {A} (l : list A) : NoDup (rev l) <-> NoDup l.
Proof.
  split; intros H.
  - rewrite <- (rev_involutive l). apply NoDup_rev. exact H.
  - apply NoDup_rev. exact H.
Qed.

Lemma map_len_build names : smap_len (build_map names) = N.of_nat (length names) <-> NoDup names.
Proof.
  unfold smap_len, build_map. rewrite build_map_keys. cbn [map]. rewrite app_nil_r.
  rewrite <- NoDup_rev_iff, <- distinct_length_iff, rev_length. lia.
Qed.

(* ------------------------------------------------------------------------------------------ *)
(* a set built from a duplicate-free list                                                        *)
Definition set_of (names : list name) : varset := mkVarSet (N.of_nat (length names)) names (build_map names).

Lemma nth_error_lt {A} (l : list A) k x : nth_error l k = Some x -> (k < length l)%nat.
Proof. intros H. apply nth_error_Some. rewrite H. discriminate. Qed.

Section Built.
  Variable names : list name.
  Hypothesis Hnd : NoDup names.
  Hypothesis Hlen : N.of_nat (length names) <= 65534.
  Let vs := set_of names.

  Lemma built_num : num_vars vs = N.of_nat (length names). Proof. reflexivity. Qed.
  Lemma built_names : variable_names vs = names. Proof. reflexivity. Qed.
  Lemma built_variables : variables vs = nrange (length names) 0.
  Proof. unfold variables, vs, set_of. cbn [vs_num]. rewrite Nnat.Nat2N.id. reflexivity. Qed.

  (* declaration order *)
  Lemma built_by_index k s : nth_error names k = Some s ->
    var_by_name vs s = Some (N.of_nat k) /\ name_of vs (N.of_nat k) = Ok s.
  Proof.
    intros Hk. split.
    - unfold var_by_name, vs, set_of, build_map. cbn [vs_map]. rewrite (build_map_get_nth names 0 [] s k Hnd Hk).
      f_equal. rewrite N.add_0_l. apply as_u16_small.
      pose proof (nth_error_lt _ _ _ Hk) as Hklt. clear - Hklt Hlen. unfold name in *. lia.
    - unfold name_of, vs, set_of. cbn [vs_names]. rewrite Nnat.Nat2N.id, Hk. reflexivity.
  Qed.

  Lemma built_name_of v : v < num_vars vs -> exists s, name_of vs v = Ok s /\ var_by_name vs s = Some v.
  Proof.
    rewrite built_num. intros Hv. destruct (nth_error names (N.to_nat v)) as [s|] eqn:E.
    - exists s. destruct (built_by_index _ _ E) as (H1 & H2). rewrite Nnat.N2Nat.id in H1, H2. split; assumption.
    - apply nth_error_None in E. lia.
  Qed.

  Lemma built_name_of_panic v : num_vars vs <= v -> name_of vs v = Panic.
  Proof.
    rewrite built_num. intros Hv. unfold name_of, vs, set_of. cbn [vs_names].
    destruct (nth_error names (N.to_nat v)) eqn:E; [|reflexivity].
    pose proof (nth_error_lt _ _ _ E) as Hklt. clear - Hklt Hv. unfold name in *. lia.
  Qed.

  Lemma built_unknown s : ~ In s names -> var_by_name vs s = None.
  Proof. intros H. unfold var_by_name, vs, set_of, build_map. cbn [vs_map]. rewrite build_map_get_notin by exact H. reflexivity. Qed.

  Lemma built_var_by_name s v : var_by_name vs s = Some v -> v < num_vars vs /\ name_of vs v = Ok s.
  Proof.
    intros H. destruct (in_dec (list_eq_dec N.eq_dec) s names) as [Hin|Hni].
    - destruct (In_nth_error _ _ Hin) as (k & Hk). destruct (built_by_index _ _ Hk) as (H1 & H2).
      rewrite H1 in H. inversion H; subst v. split; [|exact H2]. rewrite built_num.
      pose proof (nth_error_lt _ _ _ Hk) as Hklt. clear - Hklt Hlen. unfold name in *. lia.
    - rewrite built_unknown in H by exact Hni. discriminate.
  Qed.

  Lemma built_known s : In s names -> exists v, var_by_name vs s = Some v /\ v < num_vars vs.
  Proof.
    intros Hin. destruct (In_nth_error _ _ Hin) as (k & Hk). exists (N.of_nat k).
    destruct (built_by_index _ _ Hk) as (H1 & _). split; [exact H1|]. rewrite built_num.
    pose proof (nth_error_lt _ _ _ Hk) as Hklt. clear - Hklt Hlen. unfold name in *. lia.
  Qed.
End Built.

(* names <-> variables is a bijection in declaration order *)
Theorem names_bijective names : NoDup names -> N.of_nat (length names) <= 65534 ->
  let vs := set_of names in
  num_vars vs = N.of_nat (length names) /\ variable_names vs = names /\ variables vs = nrange (length names) 0 /\
  (forall k s, nth_error names k = Some s -> var_by_name vs s = Some (N.of_nat k) /\ name_of vs (N.of_nat k) = Ok s) /\
  (forall v, v < num_vars vs -> exists s, name_of vs v = Ok s /\ var_by_name vs s = Some v) /\
  (forall v, num_vars vs <= v -> name_of vs v = Panic) /\
  (forall s v, var_by_name vs s = Some v -> v < num_vars vs /\ name_of vs v = Ok s) /\
  (forall s, ~ In s names -> var_by_name vs s = None).
Proof.
  intros Hnd Hlen vs. split; [reflexivity|]. split; [reflexivity|]. split; [apply built_variables|].
  split; [intros k s; apply built_by_index; assumption|].
  split; [intros v; apply built_name_of; assumption|].
  split; [intros v; apply built_name_of_panic|].
  split; [intros s v; apply built_var_by_name; assumption|].
  intros s; apply built_unknown.
Qed.
Print Assumptions names_bijective.

(* ------------------------------------------------------------------------------------------ *)
(* which lists are accepted                                                                     *)
Definition admissible (limit : N) (names : list name) : Prop :=
  NoDup names /\ Forall name_ok names /\ N.of_nat (length names) <= limit.

Lemma build_set names : N.of_nat (length names) <= 65534 -> build names = set_of names.
Proof. intros H. unfold build, set_of. rewrite as_u16_small by lia. reflexivity. Qed.

(* builder path (From<Vec<String>>, from_iter, make_variable/make_variables + build): at most 65534 names *)
Theorem builder_rejects names :
  (admissible 65534 names /\ vs_from names = Ok (set_of names)) \/ (~ admissible 65534 names /\ vs_from names = Panic).
Proof.
  unfold vs_from, builder_new. destruct (make_variables_spec names [] ltac:(cbn; lia)) as [((Hl & Hf & Hnd & _) & E)|(Hna & E)];
    rewrite E; cbn [bind fst app].
  - left. cbn [length] in Hl. split; [split; [exact Hnd|split; [exact Hf|lia]]|]. rewrite build_set by lia. reflexivity.
  - right. split; [|reflexivity]. intros (Hnd & Hf & Hl). apply Hna. unfold accepts. cbn [length]. split; [lia|].
    split; [exact Hf|]. split; [exact Hnd|]. intros s _ [].
Qed.
Print Assumptions builder_rejects.

Lemma existsb_name_bad names : existsb name_bad names = false <-> Forall name_ok names.
Proof.
  induction names as [|s r IH]; cbn [existsb].
  - split; [constructor|reflexivity].
  - unfold name_ok at 1. split.
    + intros H. apply orb_false_elim in H. destruct H as (H1 & H2). constructor; [exact H1|apply IH; exact H2].
    + intros H. inversion H; subst. unfold name_ok in *. rewrite H2. cbn [orb]. apply IH. assumption.
Qed.

(* BddVariableSet::new: the same lists, but at most 65533 names (its size test is on the whole list) *)
Theorem new_rejects names :
  (admissible 65533 names /\ vs_new names = Ok (set_of names)) \/ (~ admissible 65533 names /\ vs_new names = Panic).
Proof.
  unfold vs_new. destruct (N.leb_spec MAX_VARS (N.of_nat (length names))) as [Hge|Hlt].
  - right. split; [|reflexivity]. intros (_ & _ & Hl). unfold MAX_VARS in Hge. lia.
  - unfold MAX_VARS in Hlt. destruct (existsb name_bad names) eqn:Eb.
    + right. split; [|reflexivity]. intros (_ & Hf & _). apply existsb_name_bad in Hf. congruence.
    + apply existsb_name_bad in Eb. destruct (N.eqb_spec (smap_len (build_map names)) (N.of_nat (length names))) as [He|Hne]; cbn [negb].
      * left. apply map_len_build in He. split; [split; [exact He|split; [exact Eb|lia]]|].
        unfold set_of. rewrite as_u16_small by lia. reflexivity.
      * right. split; [|reflexivity]. intros (Hnd & _ & _). apply Hne. apply map_len_build. exact Hnd.
Qed.
Print Assumptions new_rejects.

(* the two constructors agree below the smaller limit *)
Corollary vs_new_eq_from names : N.of_nat (length names) <= 65533 -> vs_new names = vs_from names.
Proof.
  intros Hl. destruct (new_rejects names) as [(Ha & E)|(Hna & E)], (builder_rejects names) as [(Hb & E')|(Hnb & E')];
    rewrite E, E'; try reflexivity.
  - exfalso. apply Hnb. destruct Ha as (H1 & H2 & H3). split; [exact H1|split; [exact H2|lia]].
  - exfalso. apply Hna. destruct Hb as (H1 & H2 & H3). split; [exact H1|split; [exact H2|exact Hl]].
Qed.

(* ------------------------------------------------------------------------------------------ *)
(* anonymous sets                                                                               *)
Lemma anon_name_inj i j : anon_name i = anon_name j -> i = j.
Proof. unfold anon_name. intros H. apply app_inv_head in H. apply decimal_inj. exact H. Qed.

Lemma anon_names_length n : length (anon_names n) = N.to_nat n.
Proof. unfold anon_names. rewrite map_length, nrange_length. reflexivity. Qed.

Lemma anon_names_nth n k : (k < N.to_nat n)%nat -> nth_error (anon_names n) k = Some (anon_name (N.of_nat k)).
Proof. intros Hk. unfold anon_names. rewrite nth_error_map, nrange_nth by exact Hk. cbn. f_equal. Qed.

Lemma anon_names_nodup n : NoDup (anon_names n).
Proof.
  unfold anon_names. apply FinFun.Injective_map_NoDup; [|apply nrange_nodup].
  intros i j. apply anon_name_inj.
Qed.

Lemma anon_name_ok i : name_ok (anon_name i).
Proof.
  apply name_ok_iff. intros c Hc Hf. unfold anon_name in Hc. apply in_app_or in Hc. unfold forbidden_char, NOT_IN_VAR_NAME in Hf.
  destruct Hc as [Hc|Hc].
  - cbn in Hc, Hf. destruct Hc as [<-|[<-|[]]]; repeat (destruct Hf as [Hf|Hf]; [discriminate|]); exact Hf.
  - pose proof (decimal_digits i) as Hd. rewrite Forall_forall in Hd. specialize (Hd c Hc). unfold digitb in Hd.
    apply andb_prop in Hd. destruct Hd as (H1 & H2). apply N.leb_le in H1. apply N.leb_le in H2.
    cbn in Hf. repeat (destruct Hf as [Hf|Hf]; [lia|]). exact Hf.
Qed.

Theorem anonymous_names n :
  (n < 65534 -> new_anonymous n = Ok (set_of (anon_names n)) /\ NoDup (anon_names n) /\ length (anon_names n) = N.to_nat n /\
                (forall i, i < n -> nth_error (anon_names n) (N.to_nat i) = Some ([120; 95] ++ decimal i)) /\
                new_anonymous n = vs_from (anon_names n)) /\
  (65534 <= n -> new_anonymous n = Panic).
Proof.
  unfold new_anonymous, MAX_VARS. split; intros Hn.
  - destruct (N.leb_spec 65534 n) as [|_]; [lia|].
    assert (Hs : mkVarSet n (anon_names n) (build_map (anon_names n)) = set_of (anon_names n)).
    { unfold set_of. rewrite anon_names_length, Nnat.N2Nat.id. reflexivity. }
    rewrite Hs. split; [reflexivity|]. split; [apply anon_names_nodup|]. split; [apply anon_names_length|]. split.
    + intros i Hi. rewrite anon_names_nth by lia. rewrite Nnat.N2Nat.id. reflexivity.
    + destruct (builder_rejects (anon_names n)) as [(_ & E)|(Hna & _)]; [rewrite E; reflexivity|].
      exfalso. apply Hna. split; [apply anon_names_nodup|]. split.
      * unfold anon_names. apply Forall_forall. intros s Hs'. apply in_map_iff in Hs'. destruct Hs' as (i & <- & _). apply anon_name_ok.
      * rewrite anon_names_length. lia.
  - destruct (N.leb_spec 65534 n) as [_|]; [reflexivity|lia].
Qed.
Print Assumptions anonymous_names.

(* mk_var_by_name / mk_not_var_by_name: the literal of the named variable, Panic for an unknown name *)
Theorem mk_var_by_name_spec names s c : NoDup names -> N.of_nat (length names) <= 65534 ->
  (forall k, nth_error names k = Some s -> mk_var_by_name (set_of names) s c = Ok (mk_literal (N.of_nat (length names)) (N.of_nat k) c)) /\
  (~ In s names -> mk_var_by_name (set_of names) s c = Panic).
Proof.
  intros Hnd Hl. split.
  - intros k Hk. unfold mk_var_by_name. destruct (built_by_index names Hnd Hl k s Hk) as (E & _). rewrite E.
    unfold vs_mk_literal, set_of. cbn [vs_num].
    pose proof (nth_error_lt _ _ _ Hk) as Hklt.
    destruct (N.ltb_spec (N.of_nat k) (N.of_nat (length names))); [reflexivity|lia].
  - intros Hni. unfold mk_var_by_name. rewrite built_unknown by exact Hni. reflexivity.
Qed.
Print Assumptions mk_var_by_name_spec.
