(* Proofs/ApplySem.v — the binary engine with three flips: store invariant (process_ok),
   epilogue facts (process_facts), layout lock-step (process_chk), apply2_sem. *)
From Coq Require Import List NArith Lia Bool Arith PeanoNat.
Import ListNotations.
From BddVerif Require Import Model.Bdd Model.Apply Proofs.Sem Proofs.Canon.
Open Scope N_scope.

Lemma task_eqb_spec a b : reflect (a = b) (task_eqb a b).
Proof. destruct a as [x y], b as [x' y']; unfold task_eqb; cbn.
  destruct (N.eqb_spec x x'), (N.eqb_spec y y'); cbn; constructor; congruence. Qed.

Ltac splits := repeat match goal with |- _ /\ _ => split end.

Section Apply.
  Variables (A B : bdd) (fa fb fo : option N) (op : op2).
  Local Notation ensure_with := (Apply.ensure_with op).
  Local Notation level := (Apply.level A B).
  Local Notation t_lo := (Apply.t_lo A B fa fb).
  Local Notation t_hi := (Apply.t_hi A B fa fb).
  Local Notation process := (Apply.process A B fa fb fo op).
  Local Notation s0 := (Apply.s0 A).
  Local Notation zero := (Apply.zero A).
  Local Notation one := (Apply.one A).
  Local Notation root := (Apply.root A B).
  Local Notation apply2 := (Apply.apply2 A B fa fb fo op).
  (* ------------------------------------------------------------------ *)
  (* Specification                                                        *)
  Variable bop : bool -> bool -> bool.
  Definition spec (t : task) (u : val) : bool := bop (sem A (fst t) (oflip fa u)) (sem B (snd t) (oflip fb u)).

  Hypothesis WA : wf A.
  Hypothesis WB : wf B.
  Hypothesis NV : nvars A = nvars B.
  Let nv := nvars A.
  Hypothesis FA : forall x, fa = Some x -> x < nv.
  Hypothesis FB : forall x, fb = Some x -> x < nv.
  Hypothesis FO : forall x, fo = Some x -> x < nv.
  (* op is a consistent, total table for bop *)
  Definition refines (a : bool) (x : option bool) := match x with Some b => a = b | None => True end.
  Hypothesis OP_total : forall a b, op (Some a) (Some b) = Some (bop a b).
  Hypothesis OP_cons : forall x y r, op x y = Some r -> forall a b, refines a x -> refines b y -> bop a b = r.

  Definition tvalid (t : task) := valid A (fst t) /\ valid B (snd t).

  Lemma as_bool_refines G p u : as_bool p = None \/ as_bool p = Some (sem G p u).
  Proof. unfold as_bool. destruct (N.eqb_spec p 0) as [->|]; [right; reflexivity|].
    destruct (N.eqb_spec p 1) as [->|]; [right; reflexivity|left; reflexivity]. Qed.

  Lemma terminal_sound t c : op (as_bool (fst t)) (as_bool (snd t)) = Some c -> forall u, spec t u = c.
  Proof.
    intros H u. unfold spec. eapply OP_cons; [exact H| |].
    - destruct (as_bool_refines A (fst t) (oflip fa u)) as [->| ->]; cbn; auto.
    - destruct (as_bool_refines B (snd t) (oflip fb u)) as [->| ->]; cbn; auto.
  Qed.

  (* ---- per-operand Shannon step ---- *)
  Lemma oflip_at fl u x : oflip fl u x = if oeq fl x then negb (u x) else u x.
  Proof.
    destruct fl as [y|]; cbn; [|reflexivity]. unfold flipv, upd.
    rewrite N.eqb_sym. destruct (N.eqb_spec y x) as [->|]; reflexivity.
  Qed.

  Lemma valid_term_var G p : wf G -> valid G p -> p < 2 -> var_of G p = nvars G.
  Proof.
    intros (Hs & H0 & H1 & _) (Vp & Vp1) Hp. unfold var_of.
    assert (p = 0 \/ p = 1) as [->| ->] by lia; [rewrite H0|rewrite H1 by auto]; reflexivity.
  Qed.

  Lemma kids_step G fl p dv u : wf G -> valid G p -> dv <= var_of G p -> dv < nvars G ->
    let k := kids G fl p dv in
    valid G (fst k) /\ valid G (snd k) /\ dv < var_of G (fst k) /\ dv < var_of G (snd k) /\
    sem G p (oflip fl u) = if u dv then sem G (snd k) (oflip fl u) else sem G (fst k) (oflip fl u).
  Proof.
    intros WG Vp Hle Hlt k. subst k. unfold kids. fold (var_of G p).
    destruct (N.eqb_spec (var_of G p) dv) as [E|NE]; cbn [negb].
    - assert (Hp : 2 <= p).
      { destruct (N.ltb_spec p 2); [|assumption]. rewrite (valid_term_var G p WG Vp) in E by assumption. lia. }
      pose proof Vp as (Vp0 & _).
      destruct (wf_children G p WG Hp Vp0) as (Vl & Vh & Hl & Hh & Hn).
      rewrite (sem_unfold G p) by assumption. rewrite oflip_at, E.
      destruct (oeq fl dv); cbn [fst snd]; splits; try assumption; try lia;
        destruct (u dv); reflexivity.
    - cbn [fst snd]. splits; try assumption; try lia. destruct (u dv); reflexivity.
  Qed.

  Lemma level_lt t : tvalid t -> (exists p, (p = fst t \/ p = snd t) /\ 2 <= p) -> level t < nv.
  Proof.
    intros (V1 & V2) (p & [->| ->] & Hp); unfold Apply.level, nv.
    - pose proof V1 as (V10 & _). destruct (wf_children A _ WA Hp V10) as (_ & _ & _ & _ & H). lia.
    - pose proof V2 as (V20 & _). destruct (wf_children B _ WB Hp V20) as (_ & _ & _ & _ & H). rewrite NV. lia.
  Qed.

  Lemma spec_expand t u : tvalid t -> level t < nv ->
    tvalid (t_lo t) /\ tvalid (t_hi t) /\ level t < level (t_lo t) /\ level t < level (t_hi t) /\
    spec t u = if u (level t) then spec (t_hi t) u else spec (t_lo t) u.
  Proof.
    intros (V1 & V2) Hlt.
    destruct (kids_step A fa (fst t) (level t) u WA V1) as (a1 & a2 & a3 & a4 & a5); [unfold Apply.level; lia | exact Hlt |].
    destruct (kids_step B fb (snd t) (level t) u WB V2) as (b1 & b2 & b3 & b4 & b5); [unfold Apply.level; lia | rewrite <- NV; exact Hlt |].
    unfold tvalid, Apply.t_lo, t_hi, spec. cbn [fst snd].
    splits; try assumption.
    - unfold Apply.level in *. cbn [fst snd]. lia.
    - unfold Apply.level in *. cbn [fst snd]. lia.
    - rewrite a5, b5. destruct (u (level t)); reflexivity.
  Qed.

  (* ------------------------------------------------------------------ *)
  (* Store invariant                                                      *)
  Definition node_ok (G : list node) (p : N) : Prop :=
    let n := get G p in
    nvar n < nv /\ nlow n < p /\ nhigh n < p /\
    nvar n < var_of G (nlow n) /\ nvar n < var_of G (nhigh n) /\ nlow n <> nhigh n.
  Definition store_ok (G : list node) : Prop :=
    2 <= size G /\ get G 0 = mkNode nv 0 0 /\ get G 1 = mkNode nv 1 1 /\
    forall p, 2 <= p -> p < size G -> node_ok G p.

  Lemma store_nvars G : store_ok G -> nvars G = nv.
  Proof. intros (_ & H0 & _). unfold nvars. rewrite H0. reflexivity. Qed.

  Lemma store_wf G : store_ok G -> wf G.
  Proof.
    intros H. pose proof (store_nvars G H) as Hn. destruct H as (Hs & H0 & H1 & Hp).
    unfold wf. rewrite Hn. splits; try assumption; try lia.
    - intros _. exact H1.
    - intros p Hp2 Hlt. destruct (Hp p Hp2 Hlt) as (a & b & c & d & e & _).
      unfold wf_node. splits; try assumption; lia.
  Qed.

  Lemma get_app1 (G l : list node) p : p < size G -> get (G ++ l) p = get G p.
  Proof. intros H. unfold get, size in *. apply app_nth1. lia. Qed.
  Lemma get_app_last (G : list node) n : get (G ++ [n]) (size G) = n.
  Proof. unfold get, size. rewrite Nnat.Nat2N.id. rewrite app_nth2 by lia. now rewrite Nat.sub_diag. Qed.
  Lemma size_app (G l : list node) : size (G ++ l) = size G + size l.
  Proof. unfold size. rewrite app_length. lia. Qed.

  Lemma sem_ext G l : store_ok G -> store_ok (G ++ l) -> forall p, p < size G -> forall v, sem (G ++ l) p v = sem G p v.
  Proof.
    intros HG HG'. pose proof (store_wf _ HG) as WG. pose proof (store_wf _ HG') as WG'.
    intros p. induction p as [p IH] using (well_founded_induction N.lt_wf_0). intros Hp v.
    destruct (N.ltb_spec p 2) as [Hlt|Hge].
    - assert (p = 0 \/ p = 1) as [->| ->] by lia; reflexivity.
    - assert (Hp' : p < size (G ++ l)) by (rewrite size_app; lia).
      rewrite (sem_unfold (G ++ l) p v WG' Hge Hp'), (sem_unfold G p v WG Hge Hp).
      unfold var_of. rewrite (get_app1 G l p Hp).
      destruct HG as (_ & _ & _ & Hn). destruct (Hn p Hge Hp) as (_ & Hl & Hh & _).
      destruct (v (nvar (get G p))); apply IH; lia.
  Qed.

  Definition good (G : list node) (t : task) (p : N) : Prop :=
    p < size G /\ level t <= var_of G p /\ forall v, sem G p v = spec t (oflip fo v).

  Lemma good_ext G l t p : store_ok G -> store_ok (G ++ l) -> good G t p -> good (G ++ l) t p.
  Proof.
    intros HG HG' (Hp & Hl & Hs). unfold good. splits.
    - rewrite size_app; lia.
    - unfold var_of. rewrite get_app1 by assumption. exact Hl.
    - intros v. rewrite sem_ext by assumption. apply Hs.
  Qed.

  Definition Inv (s : st) : Prop :=
    store_ok (nodes s) /\
    (forall n p, nfind n (existing s) = Some p -> p < size (nodes s) /\ get (nodes s) p = n) /\
    (forall p, 2 <= p -> p < size (nodes s) -> nfind (get (nodes s) p) (existing s) = Some p) /\
    (forall t p, tfind t (finished s) = Some p -> good (nodes s) t p).

  Definition ext (s s' : st) : Prop := exists l, nodes s' = nodes s ++ l.
  Lemma ext_refl s : ext s s. Proof. exists []. now rewrite app_nil_r. Qed.
  Lemma ext_trans a b c : ext a b -> ext b c -> ext a c.
  Proof. intros (l & H) (l' & H'). exists (l ++ l'). rewrite H', H, app_assoc. reflexivity. Qed.

  Lemma good_ext' s s' t p : Inv s -> Inv s' -> ext s s' -> good (nodes s) t p -> good (nodes s') t p.
  Proof. intros (H & _) (H' & _) (l & E) Hg. rewrite E in *. now apply good_ext. Qed.

  Lemma level_le t : tvalid t -> level t <= nv.
  Proof. intros (V1 & _). unfold Apply.level. pose proof (var_of_le A _ WA V1). unfold nv. lia. Qed.

  Lemma level_nv_terminal t : tvalid t -> level t = nv -> fst t < 2 /\ snd t < 2.
  Proof.
    intros (V1 & V2) H. split.
    - destruct (N.ltb_spec (fst t) 2); [assumption|]. pose proof V1 as (V10 & _).
      destruct (wf_children A _ WA H0 V10) as (_ & _ & _ & _ & Hx). unfold Apply.level, nv in *. lia.
    - destruct (N.ltb_spec (snd t) 2); [assumption|]. pose proof V2 as (V20 & _).
      destruct (wf_children B _ WB H0 V20) as (_ & _ & _ & _ & Hx). unfold Apply.level, nv in *. rewrite NV in H. lia.
  Qed.

  Lemma as_bool_term p : p < 2 -> exists a, as_bool p = Some a.
  Proof. intros H. assert (p = 0 \/ p = 1) as [->| ->] by lia; eexists; reflexivity. Qed.

  (* what a successful sub-computation delivers *)
  Definition post (t : task) (s : st) (r : option (N * st)) : Prop :=
    exists p s', r = Some (p, s') /\ Inv s' /\ ext s s' /\ good (nodes s') t p.

  Lemma ensure_ok proc t s :
    Inv s -> tvalid t ->
    (level t < nv -> post t s (proc t s)) ->
    post t s (ensure_with proc t s).
  Proof.
    intros HI Vt Hproc. unfold Apply.ensure_with.
    destruct (op (as_bool (fst t)) (as_bool (snd t))) as [c|] eqn:Eop.
    - exists (of_bool c), s. splits; auto using ext_refl.
      pose proof HI as (HS & _). pose proof HS as (Hs2 & H0 & H1 & _).
      unfold good. splits.
      + destruct c; cbn; lia.
      + pose proof (level_le t Vt). unfold var_of. destruct c; cbn; [rewrite H1|rewrite H0]; cbn; lia.
      + intros v. rewrite (terminal_sound t c Eop). destruct c; reflexivity.
    - destruct (tfind t (finished s)) as [p|] eqn:Ef.
      + exists p, s. splits; auto using ext_refl. destruct HI as (_ & _ & _ & Hf). now apply Hf.
      + apply Hproc. pose proof (level_le t Vt).
        destruct (N.eq_dec (level t) nv) as [E|NE]; [exfalso|lia].
        destruct (level_nv_terminal t Vt E) as (T1 & T2).
        destruct (as_bool_term _ T1) as (a & Ea), (as_bool_term _ T2) as (b & Eb).
        rewrite Ea, Eb, OP_total in Eop. discriminate.
  Qed.

  Lemma Inv_set_ne s b : Inv s -> Inv (set_ne s b).
  Proof. intros H. exact H. Qed.

  Lemma Inv_memo s t p : Inv s -> good (nodes s) t p -> Inv (memo s t p).
  Proof.
    intros (H1 & H2 & H3 & H4) Hg. unfold Inv, memo; cbn [nodes existing finished]. splits; try assumption.
    intros t' p'. cbn [tfind]. destruct (task_eqb_spec t' t) as [->|NE].
    - intros E; inversion E; subst; exact Hg.
    - apply H4.
  Qed.

  Lemma term_not_dec G p : store_ok G -> p < 2 -> nvar (get G p) = nv.
  Proof. intros (_ & H0 & H1 & _) Hp. assert (p = 0 \/ p = 1) as [->| ->] by lia; [rewrite H0|rewrite H1]; reflexivity. Qed.

  Lemma mk_ok s d x y :
    Inv s -> d < nv -> x < size (nodes s) -> y < size (nodes s) ->
    d < var_of (nodes s) x -> d < var_of (nodes s) y ->
    exists p s', mk s d x y = (p, s') /\ Inv s' /\ ext s s' /\ finished s' = finished s /\
      p < size (nodes s') /\ d <= var_of (nodes s') p /\
      forall v, sem (nodes s') p v = if v d then sem (nodes s) y v else sem (nodes s) x v.
  Proof.
    intros HI Hd Hx Hy Hvx Hvy. unfold mk.
    destruct (N.eqb_spec x y) as [->|NE].
    - exists y, s. splits; auto using ext_refl; try lia. intros v; destruct (v d); reflexivity.
    - pose proof HI as (HS & Ha & Hb & Hf).
      destruct (nfind (mkNode d x y) (existing s)) as [p|] eqn:En.
      + destruct (Ha _ _ En) as (Hp & Hg).
        assert (Hp2 : 2 <= p).
        { destruct (N.ltb_spec p 2); [|assumption]. pose proof (term_not_dec _ p HS H) as Ht. rewrite Hg in Ht. cbn in Ht. lia. }
        exists p, s. splits; auto using ext_refl.
        * unfold var_of. rewrite Hg. cbn. lia.
        * intros v. rewrite (sem_unfold _ p v (store_wf _ HS) Hp2 Hp). unfold var_of. rewrite Hg. cbn [nvar nlow nhigh]. destruct (v d); reflexivity.
      + set (G := nodes s) in *. set (n := mkNode d x y) in *.
        assert (HS' : store_ok (G ++ [n])).
        { destruct HS as (Hs2 & H0 & H1 & Hn). unfold store_ok. rewrite size_app. splits.
          - lia.
          - rewrite get_app1 by lia. exact H0.
          - rewrite get_app1 by lia. exact H1.
          - intros p Hp2 Hp. change (size [n]) with 1 in Hp.
            destruct (N.eq_dec p (size G)) as [->|Hne].
            + unfold node_ok. rewrite get_app_last. cbn [nvar nlow nhigh n]. unfold var_of.
              rewrite !get_app1 by assumption. splits; try assumption.
            + assert (Hp' : p < size G) by lia. destruct (Hn p Hp2 Hp') as (a & b & c & e & f & g).
              unfold node_ok. rewrite get_app1 by assumption. unfold var_of in *.
              rewrite !get_app1 by lia. splits; assumption. }
        exists (size G), (mkSt (G ++ [n]) ((n, size G) :: existing s) (finished s) (nonempty s)).
        unfold push. fold G. cbn [nodes existing finished].
        splits.
        * reflexivity.
        * unfold Inv. cbn [nodes existing finished]. splits.
          -- exact HS'.
          -- intros n' q. cbn [nfind]. destruct (node_eqb_spec n' n) as [->|Hne].
             ++ intros E; inversion E; subst. rewrite size_app, get_app_last. change (size [n]) with 1. split; [lia|reflexivity].
             ++ intros E. destruct (Ha _ _ E) as (Hq & Hgq). rewrite size_app, get_app1 by assumption. split; [lia|assumption].
          -- intros q Hq2 Hq. rewrite size_app in Hq. change (size [n]) with 1 in Hq. cbn [nfind].
             destruct (N.eq_dec q (size G)) as [->|Hne].
             ++ rewrite get_app_last. destruct (node_eqb_spec n n); [reflexivity|congruence].
             ++ assert (Hq' : q < size G) by lia. rewrite get_app1 by assumption.
                destruct (node_eqb_spec (get G q) n) as [E|_].
                ** rewrite <- E in En. rewrite (Hb q Hq2 Hq') in En. discriminate.
                ** apply Hb; assumption.
          -- intros t p Ht. apply good_ext; auto.
        * exists [n]. reflexivity.
        * reflexivity.
        * rewrite size_app. change (size [n]) with 1. lia.
        * unfold var_of. rewrite get_app_last. cbn. lia.
        * intros v. assert (Hlt : size G < size (G ++ [n])) by (rewrite size_app; change (size [n]) with 1; lia).
          pose proof (proj1 HI) as HS0.
          rewrite (sem_unfold _ (size G) v (store_wf _ HS') ltac:(destruct HS0; lia) Hlt).
          unfold var_of. rewrite get_app_last. cbn [nvar nlow nhigh n].
          destruct (v d); apply sem_ext; assumption.
  Qed.

  Lemma process_ok : forall fuel t s, Inv s -> tvalid t -> level t < nv ->
    (N.to_nat (nv - level t) <= fuel)%nat -> post t s (process fuel t s).
  Proof.
    induction fuel as [|f IH]; intros t s HI Vt Hlt Hfuel; [lia|].
    cbn [Apply.process]. set (dv := level t) in *.
    assert (Hsub : forall t' s', Inv s' -> tvalid t' -> dv < level t' ->
               post t' s' (ensure_with (process f) t' s')).
    { intros t' s' HI' Vt' Hl'. apply ensure_ok; try assumption. intros Hl2. apply IH; try assumption. lia. }
    destruct (spec_expand t (fun _ => false) Vt Hlt) as (Vlo & Vhi & Llo & Lhi & _). fold dv in Llo, Lhi.
    assert (Hexp : forall u, spec t u = if u dv then spec (t_hi t) u else spec (t_lo t) u).
    { intros u. destruct (spec_expand t u Vt Hlt) as (_ & _ & _ & _ & H). exact H. }
    destruct (oeq fo dv) eqn:Esw.
    - (* output flip on dv: low task first, node = (dv, low := phi, high := plo) *)
      destruct (Hsub (t_lo t) s HI Vlo Llo) as (plo & s1 & -> & HI1 & X1 & G1).
      destruct (Hsub (t_hi t) s1 HI1 Vhi Lhi) as (phi & s2 & -> & HI2 & X2 & G2).
      pose proof (good_ext' s1 s2 _ _ HI1 HI2 X2 G1) as G1'.
      destruct G1' as (Plo & Vlo' & Slo). destruct G2 as (Phi & Vhi' & Shi).
      set (s3 := set_ne s2 ((plo =? 1) || (phi =? 1))).
      destruct (mk_ok s3 dv phi plo (Inv_set_ne _ _ HI2) Hlt Phi Plo ltac:(cbn; lia) ltac:(cbn; lia))
        as (p & s4 & -> & HI4 & X4 & F4 & Pp & Vp & Sp).
      exists p, (memo s4 t p). splits.
      + reflexivity.
      + apply Inv_memo; [assumption|]. unfold good. splits; [assumption|fold dv; assumption|].
        intros v. rewrite Sp. cbn [nodes set_ne s3]. rewrite Hexp, oflip_at, Esw, Slo, Shi.
        destruct (v dv); reflexivity.
      + cbn [nodes memo]. eapply ext_trans; [exact X1|]. eapply ext_trans; [exact X2|]. exact X4.
      + cbn [nodes memo]. unfold good. splits; [assumption|fold dv; assumption|].
        intros v. rewrite Sp. cbn [nodes set_ne s3]. rewrite Hexp, oflip_at, Esw, Slo, Shi.
        destruct (v dv); reflexivity.
    - destruct (Hsub (t_hi t) s HI Vhi Lhi) as (phi & s1 & -> & HI1 & X1 & G1).
      destruct (Hsub (t_lo t) s1 HI1 Vlo Llo) as (plo & s2 & -> & HI2 & X2 & G2).
      pose proof (good_ext' s1 s2 _ _ HI1 HI2 X2 G1) as G1'.
      destruct G1' as (Phi & Vhi' & Shi). destruct G2 as (Plo & Vlo' & Slo).
      set (s3 := set_ne s2 ((plo =? 1) || (phi =? 1))).
      destruct (mk_ok s3 dv plo phi (Inv_set_ne _ _ HI2) Hlt Plo Phi ltac:(cbn; lia) ltac:(cbn; lia))
        as (p & s4 & -> & HI4 & X4 & F4 & Pp & Vp & Sp).
      exists p, (memo s4 t p). splits.
      + reflexivity.
      + apply Inv_memo; [assumption|]. unfold good. splits; [assumption|fold dv; assumption|].
        intros v. rewrite Sp. cbn [nodes set_ne s3]. rewrite Hexp, oflip_at, Esw, Slo, Shi.
        destruct (v dv); reflexivity.
      + cbn [nodes memo]. eapply ext_trans; [exact X1|]. eapply ext_trans; [exact X2|]. exact X4.
      + cbn [nodes memo]. unfold good. splits; [assumption|fold dv; assumption|].
        intros v. rewrite Sp. cbn [nodes set_ne s3]. rewrite Hexp, oflip_at, Esw, Slo, Shi.
        destruct (v dv); reflexivity.
  Qed.

  (* ------------------------------------------------------------------ *)
  (* Structural facts for the epilogue                                    *)
  Definition J (s : st) : Prop := nonempty s = false -> size (nodes s) = 2.
  Definition facts (strict : bool) (s : st) (p : N) (s' : st) : Prop :=
    (size (nodes s') = size (nodes s) \/ p + 1 = size (nodes s')) /\
    (nonempty s = true -> nonempty s' = true) /\
    (nonempty s = false -> nonempty s' = true -> p <> 0) /\
    (J s -> J s' /\ (nonempty s' = false -> if strict then p = 0 else p < 2)).

  Lemma ext_size s s' : ext s s' -> size (nodes s) <= size (nodes s').
  Proof. intros (l & E). rewrite E, size_app. lia. Qed.

  Lemma post_inv t s r p s' : post t s r -> r = Some (p, s') -> Inv s' /\ ext s s' /\ good (nodes s') t p.
  Proof. intros (p0 & s0 & -> & a & b & c) E. inversion E; subst. auto. Qed.

  Lemma ensure_facts proc t s p s' :
    Inv s -> tvalid t -> ensure_with proc t s = Some (p, s') ->
    (level t < nv -> proc t s = Some (p, s') -> facts true s p s') -> facts false s p s'.
  Proof.
    intros HI Vt E Hp. unfold Apply.ensure_with in E.
    destruct (op (as_bool (fst t)) (as_bool (snd t))) as [c|] eqn:Eop.
    - inversion E; subst. unfold facts. splits; auto; try congruence.
      intros Hj. split; [assumption|]. intros _. destruct c; cbn; lia.
    - destruct (tfind t (finished s)) as [q|] eqn:Ef.
      + inversion E; subst. unfold facts. splits; auto; try congruence.
        intros Hj. split; [assumption|]. intros Hne. destruct HI as (_ & _ & _ & Hf).
        destruct (Hf _ _ Ef) as (Hq & _). rewrite (Hj Hne) in Hq. exact Hq.
      + assert (Hl : level t < nv).
        { pose proof (level_le t Vt). destruct (N.eq_dec (level t) nv) as [En|NE]; [exfalso|lia].
          destruct (level_nv_terminal t Vt En) as (T1 & T2).
          destruct (as_bool_term _ T1) as (a & Ea), (as_bool_term _ T2) as (b & Eb).
          rewrite Ea, Eb, OP_total in Eop. discriminate. }
        destruct (Hp Hl E) as (a & b & c & d). unfold facts. splits; auto.
        intros Hj. destruct (d Hj) as (d1 & d2). split; [assumption|]. intros Hne. rewrite (d2 Hne). lia.
  Qed.

  Lemma mk_facts s d x y p s' : Inv s -> mk s d x y = (p, s') -> x < size (nodes s) -> y < size (nodes s) ->
    nonempty s' = nonempty s /\
    ((p = x /\ x = y /\ s' = s) \/
     (x <> y /\ 2 <= p /\ s' = s /\ x < p /\ y < p /\ p < size (nodes s)) \/
     (x <> y /\ p = size (nodes s) /\ size (nodes s') = size (nodes s) + 1 /\ nodes s' = nodes s ++ [mkNode d x y])).
  Proof.
    intros HI E Hx Hy. unfold mk in E. destruct (N.eqb_spec x y) as [->|NE].
    - inversion E; subst. split; [reflexivity|]. left; auto.
    - destruct (nfind (mkNode d x y) (existing s)) as [q|] eqn:En.
      + inversion E; subst. split; [reflexivity|]. right; left.
        destruct HI as (HS & Ha & _). destruct (Ha _ _ En) as (Hq & Hg).
        assert (2 <= p).
        { destruct (N.ltb_spec p 2); [|assumption]. exfalso.
          destruct HS as (_ & H0 & H1 & _).
          assert (p = 0 \/ p = 1) as [->| ->] by lia; [rewrite H0 in Hg|rewrite H1 in Hg]; inversion Hg; subst; congruence. }
        destruct HS as (_ & _ & _ & Hn). destruct (Hn p H Hq) as (_ & b & c & _). rewrite Hg in b, c. cbn in b, c.
        splits; auto.
      + unfold push in E. inversion E; subst. cbn [nodes nonempty]. split; [reflexivity|]. right; right.
        rewrite size_app. change (size [mkNode d x y]) with 1. auto.
  Qed.

  Lemma combine s s1 s2 s3 s4 p1 p2 x y q dv :
    facts false s p1 s1 -> facts false s1 p2 s2 ->
    size (nodes s) <= size (nodes s1) -> size (nodes s1) <= size (nodes s2) -> 2 <= size (nodes s) ->
    p1 < size (nodes s1) -> p2 < size (nodes s2) ->
    nodes s3 = nodes s2 -> nonempty s3 = nonempty s2 || ((p1 =? 1) || (p2 =? 1)) ->
    ((x = p1 /\ y = p2) \/ (x = p2 /\ y = p1)) ->
    nonempty s4 = nonempty s3 /\
    ((q = x /\ x = y /\ s4 = s3) \/
     (x <> y /\ 2 <= q /\ s4 = s3 /\ x < q /\ y < q /\ q < size (nodes s3)) \/
     (x <> y /\ q = size (nodes s3) /\ size (nodes s4) = size (nodes s3) + 1 /\ nodes s4 = nodes s3 ++ [mkNode dv x y])) ->
    facts true s q s4.
  Proof.
    intros (a1 & b1 & c1 & d1) (a2 & b2 & c2 & d2) L1 L2 L0 P1 P2 N3 NE3 XY (NE4 & MK).
    assert (Hb : forall z, (z =? 1) = true <-> z = 1) by (intros; apply N.eqb_eq).
    unfold facts. splits.
    - rewrite N3 in MK. destruct MK as [(-> & E & ->)|[(NExy & Q2 & -> & Xq & Yq & Qs)|(NExy & -> & Sz & _)]];
        rewrite ?N3; destruct XY as [(-> & ->)|(-> & ->)]; lia.
    - intros H. rewrite NE4, NE3, (b2 (b1 H)). reflexivity.
    - intros H0 H4. rewrite NE4, NE3 in H4.
      assert (Hnz : p1 <> 0 \/ p2 <> 0).
      { destruct (nonempty s2) eqn:E2; cbn in H4.
        - destruct (nonempty s1) eqn:E1; [left; apply c1; auto|right; apply c2; auto].
        - apply orb_true_iff in H4. destruct H4 as [H4|H4]; apply Hb in H4; lia. }
      rewrite N3 in MK. destruct MK as [(-> & E & _)|[(_ & Q2 & _)|(_ & -> & _ & _)]]; lia.
    - intros Hj. destruct (d1 Hj) as (J1 & T1). destruct (d2 J1) as (J2 & T2).
      assert (Hfalse : nonempty s4 = false -> q = 0 /\ size (nodes s4) = 2).
      { intros H4. rewrite NE4, NE3 in H4. apply orb_false_iff in H4. destruct H4 as (E2 & Hbb).
        apply orb_false_iff in Hbb. destruct Hbb as (B1 & B2).
        assert (E1 : nonempty s1 = false) by (destruct (nonempty s1) eqn:E; [rewrite (b2 eq_refl) in E2; discriminate|reflexivity]).
        specialize (T1 E1). specialize (T2 E2). cbn in T1, T2.
        apply N.eqb_neq in B1, B2.
        assert (p1 = 0) by lia. assert (p2 = 0) by lia.
        rewrite N3 in MK. destruct MK as [(-> & E & ->)|[(NExy & _)|(NExy & _)]].
        - rewrite N3, (J2 E2). destruct XY as [(-> & ->)|(-> & ->)]; lia.
        - destruct XY as [(-> & ->)|(-> & ->)]; lia.
        - destruct XY as [(-> & ->)|(-> & ->)]; lia. }
      split.
      + intros H4. apply Hfalse; assumption.
      + intros H4. apply Hfalse; assumption.
  Qed.

  Lemma facts_memo strict s p s4 t : facts strict s p s4 -> facts strict s p (memo s4 t p).
  Proof. intros H. exact H. Qed.

  Lemma process_facts : forall fuel t s p s', Inv s -> tvalid t -> level t < nv ->
    (N.to_nat (nv - level t) <= fuel)%nat -> process fuel t s = Some (p, s') -> facts true s p s'.
  Proof.
    induction fuel as [|f IH]; intros t s p s' HI Vt Hlt Hfuel E; [lia|].
    cbn [Apply.process] in E. set (dv := level t) in *.
    destruct (spec_expand t (fun _ => false) Vt Hlt) as (Vlo & Vhi & Llo & Lhi & _). fold dv in Llo, Lhi.
    assert (Hpost : forall t' s0, Inv s0 -> tvalid t' -> dv < level t' -> post t' s0 (ensure_with (process f) t' s0)).
    { intros t' s0 HI' Vt' Hl'. apply ensure_ok; try assumption. intros Hl2. apply process_ok; try assumption. lia. }
    assert (Hfac : forall t' s0 q s1, Inv s0 -> tvalid t' -> dv < level t' ->
               ensure_with (process f) t' s0 = Some (q, s1) -> facts false s0 q s1).
    { intros t' s0 q s1 HI' Vt' Hl' E'. eapply ensure_facts; try eassumption.
      intros Hl2 E2. apply (IH t' s0 q s1); try assumption. lia. }
    pose proof (proj1 HI) as (S2 & _).
    destruct (oeq fo dv) eqn:Esw.
    - destruct (ensure_with (process f) (t_lo t) s) as [[p1 s1]|] eqn:E1; [|discriminate].
      destruct (ensure_with (process f) (t_hi t) s1) as [[p2 s2]|] eqn:E2; [|discriminate].
      destruct (post_inv _ _ _ _ _ (Hpost _ _ HI Vlo Llo) E1) as (HI1 & X1 & (P1 & _)).
      destruct (post_inv _ _ _ _ _ (Hpost _ _ HI1 Vhi Lhi) E2) as (HI2 & X2 & (P2 & _)).
      set (s3 := set_ne s2 ((p1 =? 1) || (p2 =? 1))) in *.
      destruct (mk s3 dv p2 p1) as [q s4] eqn:Em. inversion E; subst p s'.
      apply facts_memo.
      apply (combine s s1 s2 s3 s4 p1 p2 p2 p1 q dv (Hfac _ _ _ _ HI Vlo Llo E1) (Hfac _ _ _ _ HI1 Vhi Lhi E2)
               (ext_size _ _ X1) (ext_size _ _ X2) S2 P1 P2 eq_refl).
      + reflexivity.
      + right; auto.
      + apply (mk_facts s3 dv p2 p1 q s4 (Inv_set_ne _ _ HI2) Em); cbn [nodes set_ne s3]; [assumption|].
        pose proof (ext_size _ _ X2). lia.
    - destruct (ensure_with (process f) (t_hi t) s) as [[p1 s1]|] eqn:E1; [|discriminate].
      destruct (ensure_with (process f) (t_lo t) s1) as [[p2 s2]|] eqn:E2; [|discriminate].
      destruct (post_inv _ _ _ _ _ (Hpost _ _ HI Vhi Lhi) E1) as (HI1 & X1 & (P1 & _)).
      destruct (post_inv _ _ _ _ _ (Hpost _ _ HI1 Vlo Llo) E2) as (HI2 & X2 & (P2 & _)).
      set (s3 := set_ne s2 ((p2 =? 1) || (p1 =? 1))) in *.
      destruct (mk s3 dv p2 p1) as [q s4] eqn:Em. inversion E; subst p s'.
      apply facts_memo.
      apply (combine s s1 s2 s3 s4 p1 p2 p2 p1 q dv (Hfac _ _ _ _ HI Vhi Lhi E1) (Hfac _ _ _ _ HI1 Vlo Llo E2)
               (ext_size _ _ X1) (ext_size _ _ X2) S2 P1 P2 eq_refl).
      + cbn [nonempty set_ne s3]. f_equal. apply orb_comm.
      + right; auto.
      + apply (mk_facts s3 dv p2 p1 q s4 (Inv_set_ne _ _ HI2) Em); cbn [nodes set_ne s3]; [assumption|].
        pose proof (ext_size _ _ X2). lia.
  Qed.


  (* ------------------------------------------------------------------ *)
  (* Layout: lock-step with the structural checker chk                    *)
  Definition extends (G : bdd) (s : st) : Prop := exists l, G = nodes s ++ l.
  Lemma extends_ext G s s' : ext s s' -> extends G s' -> extends G s.
  Proof. intros (l & E) (l' & E'). exists (l ++ l'). rewrite E', E, app_assoc. reflexivity. Qed.
  Lemma extends_get G s p : extends G s -> p < size (nodes s) -> get G p = get (nodes s) p.
  Proof. intros (l & ->) H. now apply get_app1. Qed.

  Lemma chk_visited k G lim p : p < lim -> chk (S k) G lim p = Some lim.
  Proof. intros H. cbn [chk]. destruct (N.ltb_spec p lim); [reflexivity|lia]. Qed.

  Definition chk_post (t : task) (s : st) (p : N) (s' : st) : Prop :=
    forall G k, extends G s' -> (N.to_nat (nv - level t) < k)%nat ->
      chk k G (size (nodes s)) p = Some (size (nodes s')).

  Lemma ensure_chk proc t s p s' :
    Inv s -> tvalid t -> ensure_with proc t s = Some (p, s') ->
    (level t < nv -> proc t s = Some (p, s') -> chk_post t s p s') -> chk_post t s p s'.
  Proof.
    intros HI Vt E Hp. unfold Apply.ensure_with in E.
    pose proof (proj1 HI) as (S2 & _).
    destruct (op (as_bool (fst t)) (as_bool (snd t))) as [c|] eqn:Eop.
    - inversion E; subst. intros G k _ Hk. destruct k; [lia|]. apply chk_visited. destruct c; cbn; lia.
    - destruct (tfind t (finished s)) as [q|] eqn:Ef.
      + inversion E; subst. intros G k _ Hk. destruct k; [lia|]. apply chk_visited.
        destruct HI as (_ & _ & _ & Hf). destruct (Hf _ _ Ef) as (Hq & _). exact Hq.
      + apply Hp; [|assumption].
        pose proof (level_le t Vt). destruct (N.eq_dec (level t) nv) as [En|NE]; [exfalso|lia].
        destruct (level_nv_terminal t Vt En) as (T1 & T2).
        destruct (as_bool_term _ T1) as (a & Ea), (as_bool_term _ T2) as (b & Eb).
        rewrite Ea, Eb, OP_total in Eop. discriminate.
  Qed.

  Lemma process_chk : forall fuel t s p s', Inv s -> tvalid t -> level t < nv ->
    (N.to_nat (nv - level t) <= fuel)%nat -> process fuel t s = Some (p, s') -> chk_post t s p s'.
  Proof.
    induction fuel as [|f IH]; intros t s p s' HI Vt Hlt Hfuel E; [lia|].
    pose proof E as E0. cbn [Apply.process] in E. set (dv := level t) in *.
    destruct (spec_expand t (fun _ => false) Vt Hlt) as (Vlo & Vhi & Llo & Lhi & _). fold dv in Llo, Lhi.
    assert (Hpost : forall t' s0, Inv s0 -> tvalid t' -> dv < level t' -> post t' s0 (ensure_with (process f) t' s0)).
    { intros t' s0 HI' Vt' Hl'. apply ensure_ok; try assumption. intros Hl2. apply process_ok; try assumption. lia. }
    assert (Hfac : forall t' s0 q s1, Inv s0 -> tvalid t' -> dv < level t' ->
               ensure_with (process f) t' s0 = Some (q, s1) -> facts false s0 q s1).
    { intros t' s0 q s1 HI' Vt' Hl' E'. eapply ensure_facts; try eassumption.
      intros Hl2 E2. apply (process_facts f t' s0 q s1); try assumption. lia. }
    assert (Hchk : forall t' s0 q s1, Inv s0 -> tvalid t' -> dv < level t' ->
               ensure_with (process f) t' s0 = Some (q, s1) -> chk_post t' s0 q s1).
    { intros t' s0 q s1 HI' Vt' Hl' E'. eapply ensure_chk; try eassumption.
      intros Hl2 E2. apply (IH t' s0 q s1); try assumption. lia. }
    (* both branches reduce to the same shape: first result p1 (task ta), then p2 (task tb), node (dv, p2, p1) *)
    assert (Hcore : forall ta tb p1 s1 p2 s2 bflag q s4,
              tvalid ta -> tvalid tb -> dv < level ta -> dv < level tb ->
              ensure_with (process f) ta s = Some (p1, s1) ->
              ensure_with (process f) tb s1 = Some (p2, s2) ->
              mk (set_ne s2 bflag) dv p2 p1 = (q, s4) ->
              chk_post t s q (memo s4 t q)).
    { intros ta tb p1 s1 p2 s2 bflag q s4 Va Vb La Lb E1 E2 Em.
      destruct (post_inv _ _ _ _ _ (Hpost _ _ HI Va La) E1) as (HI1 & X1 & (P1 & _)).
      destruct (post_inv _ _ _ _ _ (Hpost _ _ HI1 Vb Lb) E2) as (HI2 & X2 & (P2 & _)).
      pose proof (Hfac _ _ _ _ HI Va La E1) as (F1 & _). pose proof (Hfac _ _ _ _ HI1 Vb Lb E2) as (F2 & _).
      pose proof (Hchk _ _ _ _ HI Va La E1) as C1. pose proof (Hchk _ _ _ _ HI1 Vb Lb E2) as C2.
      pose proof (ext_size _ _ X1) as L1. pose proof (ext_size _ _ X2) as L2.
      set (s3 := set_ne s2 bflag) in *.
      assert (P1' : p1 < size (nodes s3)) by (cbn [nodes set_ne s3]; lia).
      destruct (mk_facts s3 dv p2 p1 q s4 (Inv_set_ne _ _ HI2) Em P2 P1') as (_ & MK).
      cbn [nodes set_ne s3] in MK.
      intros G k HG0 Hk. assert (HG : extends G s4) by exact HG0. clear HG0. cbn [nodes memo].
      destruct k as [|k]; [lia|].
      destruct MK as [(-> & E12 & ->)|[(NExy & Q2 & -> & Xq & Yq & Qs)|(NExy & -> & Sz & Nd)]].
      - (* collapse: p2 = p1 *)
        subst p2. cbn [nodes set_ne s3] in *.
        assert (Hs : size (nodes s2) = size (nodes s1)).
        { specialize (C2 G (S k) HG ltac:(lia)). rewrite chk_visited in C2 by assumption. inversion C2. lia. }
        rewrite Hs. apply C1; [|lia]. eapply extends_ext; [exact X2|exact HG].
      - (* hash-cons hit: nothing new was created *)
        cbn [nodes set_ne s3] in *.
        assert (Hs : size (nodes s2) = size (nodes s)) by lia.
        rewrite Hs. apply chk_visited. lia.
      - (* fresh node at index size s2 *)
        cbn [nodes set_ne s3] in *.
        assert (HG2 : extends G s2). { destruct HG as (l & EG). rewrite Nd in EG. exists ([mkNode dv p2 p1] ++ l). rewrite EG, app_assoc. reflexivity. }
        assert (Hget : get G (size (nodes s2)) = mkNode dv p2 p1).
        { destruct HG as (l & EG). rewrite EG, Nd. rewrite get_app1 by (rewrite size_app; change (size [mkNode dv p2 p1]) with 1; lia).
          apply get_app_last. }
        cbn [chk]. destruct (N.ltb_spec (size (nodes s2)) (size (nodes s))); [lia|].
        rewrite Hget. cbn [nhigh nlow].
        rewrite (C1 G k (extends_ext _ _ _ X2 HG2) ltac:(lia)).
        rewrite (C2 G k HG2 ltac:(lia)).
        rewrite N.eqb_refl. f_equal. lia. }
    destruct (oeq fo dv) eqn:Esw.
    - destruct (ensure_with (process f) (t_lo t) s) as [[p1 s1]|] eqn:E1; [|discriminate].
      destruct (ensure_with (process f) (t_hi t) s1) as [[p2 s2]|] eqn:E2; [|discriminate].
      destruct (mk (set_ne s2 ((p1 =? 1) || (p2 =? 1))) dv p2 p1) as [q s4] eqn:Em. inversion E; subst p s'.
      eapply Hcore with (ta := t_lo t) (tb := t_hi t); eassumption.
    - destruct (ensure_with (process f) (t_hi t) s) as [[p1 s1]|] eqn:E1; [|discriminate].
      destruct (ensure_with (process f) (t_lo t) s1) as [[p2 s2]|] eqn:E2; [|discriminate].
      destruct (mk (set_ne s2 ((p2 =? 1) || (p1 =? 1))) dv p2 p1) as [q s4] eqn:Em. inversion E; subst p s'.
      eapply Hcore with (ta := t_hi t) (tb := t_lo t); eassumption.
  Qed.

  (* ------------------------------------------------------------------ *)
  (* Top level                                                            *)
  Lemma Inv_s0 : Inv s0.
  Proof.
    unfold Inv, Apply.s0; cbn [nodes existing finished]. splits.
    - unfold store_ok. splits; try reflexivity; try (cbn; lia); try (intros p H1 H2; cbn in H2; lia).
    - intros n p. cbn [nfind]. destruct (node_eqb_spec n zero) as [->|_].
      + intros E; inversion E; subst. split; [cbn; lia|reflexivity].
      + destruct (node_eqb_spec n one) as [->|_]; [|discriminate].
        intros E; inversion E; subst. split; [cbn; lia|reflexivity].
    - intros p H1 H2. cbn in H2. lia.
    - intros t p. cbn. discriminate.
  Qed.

  Lemma root_valid : tvalid root.
  Proof.
    pose proof (size_pos A WA). pose proof (size_pos B WB).
    unfold tvalid, Apply.root, valid; cbn [fst snd]. splits; lia.
  Qed.

  Lemma term_get G p : wf G -> valid G p -> p < 2 -> get G p = mkNode (nvars G) p p.
  Proof.
    intros (Hs & H0 & H1 & _) (Vp & Vp1) Hp.
    assert (p = 0 \/ p = 1) as [->| ->] by lia; [exact H0|apply H1; auto].
  Qed.

  Lemma oeq_nv fl : (forall x, fl = Some x -> x < nv) -> oeq fl nv = false.
  Proof. intros H. destruct fl as [x|]; cbn; [|reflexivity]. specialize (H x eq_refl). apply N.eqb_neq. lia. Qed.

  Theorem apply2_sem : exists r, apply2 = Some r /\ forall v, eval r v = spec root (oflip fo v).
  Proof.
    pose proof root_valid as Vr. pose proof Inv_s0 as HI0. pose proof (level_le root Vr) as Hle.
    unfold Apply.apply2.
    destruct (N.eq_dec (level root) nv) as [Eq|Ne].
    - (* both roots are terminals *)
      destruct (level_nv_terminal root Vr Eq) as (T1 & T2). destruct Vr as (V1 & V2).
      destruct (as_bool_term _ T1) as (a & Ea), (as_bool_term _ T2) as (b & Eb).
      assert (Hk : t_lo root = root /\ t_hi root = root).
      { unfold Apply.t_lo, t_hi, kids. rewrite Eq.
        rewrite (term_get A _ WA V1 T1), (term_get B _ WB V2 T2). cbn [nvar nlow nhigh].
        fold nv. rewrite <- NV. fold nv. rewrite N.eqb_refl. cbn [negb].
        rewrite (oeq_nv fa FA), (oeq_nv fb FB). cbn [fst snd]. destruct root; auto. }
      destruct Hk as (Klo & Khi).
      cbn [Apply.process]. rewrite Klo, Khi.
      assert (Hens : forall s, ensure_with (process (S (N.to_nat nv))) root s = Some (of_bool (bop a b), s)).
      { intros s. unfold Apply.ensure_with. rewrite Ea, Eb, OP_total. reflexivity. }
      assert (Hsp : forall u, spec root u = bop a b).
      { intros u. apply terminal_sound. rewrite Ea, Eb. apply OP_total. }
      destruct (oeq fo (level root)); rewrite !Hens; unfold mk; rewrite N.eqb_refl; cbn [nonempty set_ne memo nodes s0];
        rewrite orb_diag; (eexists; split; [reflexivity|]); intros v; rewrite Hsp;
        destruct (bop a b); reflexivity.
    - assert (Hlt : level root < nv) by lia.
      destruct (process_ok (S (S (N.to_nat nv))) root s0 HI0 Vr Hlt ltac:(lia)) as (p & s' & E & HI' & X & (Pp & _ & Sp)).
      pose proof (process_facts (S (S (N.to_nat nv))) root s0 p s' HI0 Vr Hlt ltac:(lia) E) as (F1 & _ & F3 & F4).
      unfold nv in E. rewrite E. eexists; split; [reflexivity|]. intros v. rewrite <- Sp.
      destruct (nonempty s') eqn:En.
      + unfold eval. f_equal.
        assert (p <> 0) by (apply F3; auto).
        cbn [nodes Apply.s0] in F1. change (size [zero; one]) with 2 in F1. lia.
      + destruct (F4 ltac:(intros _; reflexivity)) as (_ & Hp0). rewrite (Hp0 eq_refl). reflexivity.
  Qed.

  (* ------------------------------------------------------------------ *)
  (* Canonicity of the result                                            *)
  Lemma Inv_reduced s : Inv s -> reduced (nodes s).
  Proof.
    intros (HS & Ha & Hb & _). destruct HS as (_ & _ & _ & Hn). split.
    - intros p Hp Hlt. destruct (Hn p Hp Hlt) as (_ & _ & _ & _ & _ & H). exact H.
    - intros p q Hp Hpl Hq Hql E.
      pose proof (Hb p Hp Hpl) as E1. pose proof (Hb q Hq Hql) as E2. rewrite E in E1. congruence.
  Qed.

  Lemma canonical_false : Canonical [zero] /\ nvars [zero] = nv.
  Proof.
    split; [|reflexivity]. unfold Canonical. splits.
    - unfold wf. cbn. splits; try reflexivity; try lia.
    - split; intros p; cbn; intros; lia.
    - left. reflexivity.
  Qed.

  Theorem apply2_full : exists r, apply2 = Some r /\ (Canonical r /\ nvars r = nv) /\
      forall v, eval r v = spec root (oflip fo v).
  Proof.
    pose proof root_valid as Vr. pose proof Inv_s0 as HI0. pose proof (level_le root Vr) as Hle.
    destruct apply2_sem as (r & Er & Sr). exists r. split; [exact Er|]. split; [|exact Sr].
    unfold Apply.apply2 in Er.
    destruct (N.eq_dec (level root) nv) as [Eq|Ne].
    - (* both roots terminal: no node is created *)
      destruct (level_nv_terminal root Vr Eq) as (T1 & T2). destruct Vr as (V1 & V2).
      destruct (as_bool_term _ T1) as (a & Ea), (as_bool_term _ T2) as (b & Eb).
      assert (Hk : t_lo root = root /\ t_hi root = root).
      { unfold Apply.t_lo, Apply.t_hi, kids. rewrite Eq.
        rewrite (term_get A _ WA V1 T1), (term_get B _ WB V2 T2). cbn [nvar nlow nhigh].
        fold nv. rewrite <- NV. fold nv. rewrite N.eqb_refl. cbn [negb].
        rewrite (oeq_nv fa FA), (oeq_nv fb FB). cbn [fst snd]. destruct root; auto. }
      destruct Hk as (Klo & Khi).
      cbn [Apply.process] in Er. rewrite Klo, Khi in Er.
      assert (Hens : forall s, ensure_with (process (S (N.to_nat (nvars A)))) root s = Some (of_bool (bop a b), s)).
      { intros s. unfold Apply.ensure_with. rewrite Ea, Eb, OP_total. reflexivity. }
      assert (Htrue : Canonical [zero; one] /\ nvars [zero; one] = nv).
      { split; [|reflexivity]. pose proof (Inv_reduced _ HI0) as R0. destruct HI0 as (HS0 & _).
        unfold Canonical. splits; [exact (store_wf _ HS0)|exact R0|].
        right. reflexivity. }
      destruct (oeq fo (level root)); rewrite !Hens in Er; unfold mk in Er; rewrite N.eqb_refl in Er;
        cbn [nonempty set_ne memo nodes Apply.s0] in Er; rewrite orb_diag in Er;
        destruct (bop a b); cbn in Er; inversion Er; subst r; try exact Htrue; exact canonical_false.
    - assert (Hlt : level root < nv) by lia.
      destruct (process_ok (S (S (N.to_nat nv))) root s0 HI0 Vr Hlt ltac:(lia)) as (p & s' & E & HI' & X & (Pp & _ & Sp)).
      pose proof (process_facts (S (S (N.to_nat nv))) root s0 p s' HI0 Vr Hlt ltac:(lia) E) as (F1 & _ & F3 & F4).
      pose proof (process_chk (S (S (N.to_nat nv))) root s0 p s' HI0 Vr Hlt ltac:(lia) E) as C.
      unfold nv in E. rewrite E in Er. inversion Er; subst r. clear Er.
      destruct (nonempty s') eqn:En; [|exact canonical_false].
      pose proof (proj1 HI') as HS'. pose proof (store_nvars _ HS') as Hnv'.
      split; [|exact Hnv'].
      unfold Canonical. splits; [exact (store_wf _ HS')|exact (Inv_reduced _ HI')|].
      right. rewrite Hnv'.
      cbn [nodes Apply.s0] in F1. change (size [zero; one]) with 2 in F1.
      destruct F1 as [F1|F1].
      + rewrite F1. reflexivity.
      + assert (Hroot : size (nodes s') - 1 = p) by lia. rewrite Hroot.
        specialize (C (nodes s') (S (N.to_nat nv))). cbn [nodes Apply.s0] in C.
        change (size [zero; one]) with 2 in C. apply C.
        * exists []. now rewrite app_nil_r.
        * lia.
  Qed.

  (* ------------------------------------------------------------------ *)
  (* Size-limited variant                                                *)
  Local Notation ensure_l := (Apply.ensure_l op).
  Local Notation process_l := (Apply.process_l A B fa fb fo op).
  Local Notation apply2_limit := (Apply.apply2_limit A B fa fb fo op).

  Lemma mk_mono s d x y p s' : mk s d x y = (p, s') ->
    size (nodes s) <= size (nodes s') /\ nonempty s' = nonempty s.
  Proof.
    unfold mk. destruct (x =? y); [intros E; inversion E; subst; split; [lia|reflexivity]|].
    destruct (nfind _ _); intros E; inversion E; subst; [split; [lia|reflexivity]|].
    cbn [nodes nonempty]. rewrite size_app. change (size [mkNode d x y]) with 1. split; [lia|reflexivity].
  Qed.

  Lemma process_mono : forall fuel t s p s', process fuel t s = Some (p, s') -> size (nodes s) <= size (nodes s').
  Proof.
    induction fuel as [|f IH]; intros t s p s' E; [discriminate|].
    cbn [Apply.process] in E.
    assert (Hens : forall t0 s0 q s1, ensure_with (process f) t0 s0 = Some (q, s1) -> size (nodes s0) <= size (nodes s1)).
    { intros t0 s0 q s1 E0. unfold Apply.ensure_with in E0.
      destruct (op _ _); [inversion E0; subst; lia|].
      destruct (tfind _ _); [inversion E0; subst; lia|]. eapply IH; eassumption. }
    destruct (oeq fo (level t)).
    - destruct (ensure_with (process f) (t_lo t) s) as [[p1 s1]|] eqn:E1; [|discriminate].
      destruct (ensure_with (process f) (t_hi t) s1) as [[p2 s2]|] eqn:E2; [|discriminate].
      destruct (mk _ _ _ _) as [q s4] eqn:Em. inversion E; subst.
      apply mk_mono in Em. cbn [nodes set_ne memo] in *. apply Hens in E1. apply Hens in E2. lia.
    - destruct (ensure_with (process f) (t_hi t) s) as [[p1 s1]|] eqn:E1; [|discriminate].
      destruct (ensure_with (process f) (t_lo t) s1) as [[p2 s2]|] eqn:E2; [|discriminate].
      destruct (mk _ _ _ _) as [q s4] eqn:Em. inversion E; subst.
      apply mk_mono in Em. cbn [nodes set_ne memo] in *. apply Hens in E1. apply Hens in E2. lia.
  Qed.

  Definition lspec (limit : N) (s : st) (p : N) (s' : st) : Apply.lres :=
    if (size (nodes s) <? size (nodes s')) && (limit <? size (nodes s')) then Apply.LAbort else Apply.LOk p s'.

  Lemma lspec_abort limit s q s' : size (nodes s) < size (nodes s') -> limit < size (nodes s') -> lspec limit s q s' = Apply.LAbort.
  Proof. intros a b. unfold lspec. apply N.ltb_lt in a, b. rewrite a, b. reflexivity. Qed.
  Lemma lspec_ok limit s q s' : (size (nodes s') <= size (nodes s) \/ size (nodes s') <= limit) -> lspec limit s q s' = Apply.LOk q s'.
  Proof. intros [a|a]; unfold lspec; apply N.ltb_ge in a; rewrite a; [reflexivity|rewrite andb_false_r; reflexivity]. Qed.
  Lemma lspec_cases limit s q s' :
    (lspec limit s q s' = Apply.LAbort /\ size (nodes s) < size (nodes s') /\ limit < size (nodes s')) \/
    (lspec limit s q s' = Apply.LOk q s' /\ (size (nodes s') <= size (nodes s) \/ size (nodes s') <= limit)).
  Proof.
    unfold lspec. destruct (N.ltb_spec (size (nodes s)) (size (nodes s'))); destruct (N.ltb_spec limit (size (nodes s'))); cbn [andb];
      [left|right|right|right]; repeat split; auto.
  Qed.

  (* purely structural: the limited run aborts exactly when the unlimited one grows the store beyond the limit *)
  Lemma process_l_spec limit : forall fuel t s p s', process fuel t s = Some (p, s') ->
    process_l limit fuel t s = lspec limit s p s'.
  Proof.
    induction fuel as [|f IH]; intros t s p s' E; [discriminate|].
    cbn [Apply.process] in E. cbn [Apply.process_l].
    assert (Hens : forall t0 s0 q s1, ensure_with (process f) t0 s0 = Some (q, s1) ->
              ensure_l (process_l limit f) t0 s0 = lspec limit s0 q s1 /\ size (nodes s0) <= size (nodes s1)).
    { intros t0 s0 q s1 E0. unfold Apply.ensure_with in E0. unfold Apply.ensure_l.
      destruct (op _ _).
      - inversion E0; subst. split; [symmetry; apply lspec_ok; left; lia|lia].
      - destruct (tfind _ _).
        + inversion E0; subst. split; [symmetry; apply lspec_ok; left; lia|lia].
        + split; [apply IH; assumption|eapply process_mono; eassumption]. }
    assert (Hcore : forall ta tb p1 s1 p2 s2 bflag d x y q s4,
              ensure_with (process f) ta s = Some (p1, s1) ->
              ensure_with (process f) tb s1 = Some (p2, s2) ->
              mk (set_ne s2 bflag) d x y = (q, s4) ->
              match ensure_l (process_l limit f) ta s with
              | Apply.LAbort => Apply.LAbort | Apply.LFuel => Apply.LFuel
              | Apply.LOk p1' s1' =>
                match ensure_l (process_l limit f) tb s1' with
                | Apply.LAbort => Apply.LAbort | Apply.LFuel => Apply.LFuel
                | Apply.LOk p2' s2' =>
                  if (size (nodes (set_ne s2 bflag)) <? size (nodes s4)) && (limit <? size (nodes s4)) then Apply.LAbort
                  else Apply.LOk q (memo s4 t q)
                end
              end = lspec limit s q (memo s4 t q)).
    { intros ta tb p1 s1 p2 s2 bflag d x y q s4 E1 E2 Em.
      destruct (Hens _ _ _ _ E1) as (L1 & M1). destruct (Hens _ _ _ _ E2) as (L2 & M2).
      pose proof (mk_mono _ _ _ _ _ _ Em) as (M4 & _). cbn [nodes set_ne] in M4.
      rewrite L1.
      destruct (lspec_cases limit s p1 s1) as [(-> & a & b)|(-> & c1)].
      { symmetry. apply lspec_abort; cbn [nodes memo]; lia. }
      rewrite L2.
      destruct (lspec_cases limit s1 p2 s2) as [(-> & a & b)|(-> & c2)].
      { symmetry. apply lspec_abort; cbn [nodes memo]; lia. }
      cbn [nodes set_ne].
      destruct (N.ltb_spec (size (nodes s2)) (size (nodes s4))) as [a|a]; destruct (N.ltb_spec limit (size (nodes s4))) as [b|b]; cbn [andb].
      - symmetry. apply lspec_abort; cbn [nodes memo]; lia.
      - symmetry. apply lspec_ok; cbn [nodes memo]. right; lia.
      - symmetry. apply lspec_ok; cbn [nodes memo]. destruct c1, c2; lia.
      - symmetry. apply lspec_ok; cbn [nodes memo]. right; lia. }
    destruct (oeq fo (level t)).
    - destruct (ensure_with (process f) (t_lo t) s) as [[p1 s1]|] eqn:E1; [|discriminate].
      destruct (ensure_with (process f) (t_hi t) s1) as [[p2 s2]|] eqn:E2; [|discriminate].
      destruct (mk _ _ _ _) as [q s4] eqn:Em. inversion E; subst p s'. clear E.
      pose proof (Hcore _ _ _ _ _ _ _ _ _ _ _ _ E1 E2 Em) as H.
      destruct (Hens _ _ _ _ E1) as (L1 & _). rewrite L1 in H |- *.
      destruct (lspec limit s p1 s1) as [| |p1' s1'] eqn:X1; try exact H.
      assert (p1' = p1 /\ s1' = s1) as (-> & ->).
      { unfold lspec in X1. destruct (_ && _); inversion X1; auto. }
      destruct (Hens _ _ _ _ E2) as (L2 & _). rewrite L2 in H |- *.
      destruct (lspec limit s1 p2 s2) as [| |p2' s2'] eqn:X2; try exact H.
      assert (p2' = p2 /\ s2' = s2) as (-> & ->).
      { unfold lspec in X2. destruct (_ && _); inversion X2; auto. }
      rewrite Em. exact H.
    - destruct (ensure_with (process f) (t_hi t) s) as [[p1 s1]|] eqn:E1; [|discriminate].
      destruct (ensure_with (process f) (t_lo t) s1) as [[p2 s2]|] eqn:E2; [|discriminate].
      destruct (mk _ _ _ _) as [q s4] eqn:Em. inversion E; subst p s'. clear E.
      pose proof (Hcore _ _ _ _ _ _ _ _ _ _ _ _ E1 E2 Em) as H.
      destruct (Hens _ _ _ _ E1) as (L1 & _). rewrite L1 in H |- *.
      destruct (lspec limit s p1 s1) as [| |p1' s1'] eqn:X1; try exact H.
      assert (p1' = p1 /\ s1' = s1) as (-> & ->).
      { unfold lspec in X1. destruct (_ && _); inversion X1; auto. }
      destruct (Hens _ _ _ _ E2) as (L2 & _). rewrite L2 in H |- *.
      destruct (lspec limit s1 p2 s2) as [| |p2' s2'] eqn:X2; try exact H.
      assert (p2' = p2 /\ s2' = s2) as (-> & ->).
      { unfold lspec in X2. destruct (_ && _); inversion X2; auto. }
      rewrite Em. exact H.
  Qed.

  Lemma root_run : exists p s', process (S (S (N.to_nat nv))) root s0 = Some (p, s') /\
      (nonempty s' = false -> size (nodes s') = 2).
  Proof.
    pose proof root_valid as Vr. pose proof Inv_s0 as HI0. pose proof (level_le root Vr) as Hle.
    destruct (N.eq_dec (level root) nv) as [Eq|Ne].
    - destruct (level_nv_terminal root Vr Eq) as (T1 & T2). destruct Vr as (V1 & V2).
      destruct (as_bool_term _ T1) as (a & Ea), (as_bool_term _ T2) as (b & Eb).
      assert (Hk : t_lo root = root /\ t_hi root = root).
      { unfold Apply.t_lo, Apply.t_hi, kids. rewrite Eq.
        rewrite (term_get A _ WA V1 T1), (term_get B _ WB V2 T2). cbn [nvar nlow nhigh].
        fold nv. rewrite <- NV. fold nv. rewrite N.eqb_refl. cbn [negb].
        rewrite (oeq_nv fa FA), (oeq_nv fb FB). cbn [fst snd]. destruct root; auto. }
      destruct Hk as (Klo & Khi).
      cbn [Apply.process]. rewrite Klo, Khi.
      assert (Hens : forall s, ensure_with (process (S (N.to_nat nv))) root s = Some (of_bool (bop a b), s)).
      { intros s. unfold Apply.ensure_with. rewrite Ea, Eb, OP_total. reflexivity. }
      destruct (oeq fo (level root)); rewrite !Hens; unfold mk; rewrite N.eqb_refl;
        eexists; eexists; (split; [reflexivity|]); intros _; reflexivity.
    - assert (Hlt : level root < nv) by lia.
      destruct (process_ok (S (S (N.to_nat nv))) root s0 HI0 Vr Hlt ltac:(lia)) as (p & s' & E & _).
      pose proof (process_facts (S (S (N.to_nat nv))) root s0 p s' HI0 Vr Hlt ltac:(lia) E) as (_ & _ & _ & F4).
      exists p, s'. split; [exact E|]. intros Hne.
      destruct (F4 ltac:(intros _; reflexivity)) as (J' & _). apply J'. exact Hne.
  Qed.

  Theorem apply2_limit_spec limit : exists r, apply2 = Some r /\
      apply2_limit limit = Some (if limit =? 0 then None else if size r <=? limit then Some r else None).
  Proof.
    destruct root_run as (p & s' & E & Hne).
    unfold Apply.apply2, Apply.apply2_limit. fold nv. rewrite E.
    eexists; split; [reflexivity|].
    destruct (N.eqb_spec limit 0) as [L0|L0]; [reflexivity|].
    rewrite (process_l_spec limit _ _ _ _ _ E).
    destruct (lspec_cases limit s0 p s') as [(-> & a & b)|(-> & c)].
    - (* aborted: the store grew beyond the limit, so the result is not the empty diagram *)
      destruct (nonempty s') eqn:En.
      + apply N.leb_gt in b. rewrite b. reflexivity.
      + specialize (Hne eq_refl). cbn [nodes Apply.s0] in a. change (size [zero; one]) with 2 in a. lia.
    - destruct (nonempty s') eqn:En.
      + destruct (N.ltb_spec limit (size (nodes s'))) as [d|d].
        * apply N.leb_gt in d. rewrite d. reflexivity.
        * apply N.leb_le in d. rewrite d. reflexivity.
      + change (size [zero]) with 1. destruct (N.leb_spec 1 limit); [reflexivity|lia].
  Qed.
End Apply.
Check apply2_sem.
Print Assumptions apply2_sem.
