(* Proofs/CountSupport.v — support_set is the sorted duplicate-free list of decision variables; for canonical
   diagrams it is exactly the set of variables the function depends on; size_per_variable partitions the
   decision nodes over those variables. *)
From Coq Require Import List NArith Lia Bool Sorted.
Import ListNotations.
From BddVerif Require Import Model.Bdd Model.Apply Model.Ops Model.Count Proofs.Sem Proofs.Canon Proofs.RelSem Proofs.CountSem.
Open Scope N_scope.

(* ======================================================================================== *)
(* A. list-level facts                                                                       *)

Lemma decision_vars_support b : decision_vars b = support b.
Proof. reflexivity. Qed.

Lemma insert_var_in x l y : In y (insert_var x l) <-> y = x \/ In y l.
Proof.
  induction l as [|z r IH]; cbn [insert_var].
  - cbn. intuition.
  - destruct (N.ltb_spec x z); [cbn; intuition|]. destruct (N.eqb_spec x z).
    + subst. cbn. intuition.
    + cbn. rewrite IH. intuition.
Qed.

Lemma fold_insert_in l : forall acc y, In y (fold_left (fun a x => insert_var x a) l acc) <-> In y l \/ In y acc.
Proof.
  induction l as [|x l IH]; intros acc y; cbn [fold_left].
  - cbn. intuition.
  - rewrite IH, insert_var_in. cbn. intuition.
Qed.

Theorem support_set_in b x : In x (support_set b) <-> In x (support b).
Proof. unfold support_set. rewrite fold_insert_in, decision_vars_support. cbn. intuition. Qed.

Lemma insert_var_sorted x l : StronglySorted N.lt l -> StronglySorted N.lt (insert_var x l).
Proof.
  induction l as [|z r IH]; intros S; cbn [insert_var].
  - constructor; constructor.
  - inversion S as [|? ? Sr Fr]; subst.
    destruct (N.ltb_spec x z) as [Hlt|Hge].
    + constructor; [assumption|]. constructor; [assumption|].
      rewrite Forall_forall in *. intros y Hy. specialize (Fr y Hy). lia.
    + destruct (N.eqb_spec x z); [assumption|].
      constructor; [apply IH; assumption|].
      rewrite Forall_forall in *. intros y Hy. apply insert_var_in in Hy. destruct Hy as [->|Hy]; [lia|apply Fr; exact Hy].
Qed.

Lemma fold_insert_sorted l : forall acc, StronglySorted N.lt acc ->
  StronglySorted N.lt (fold_left (fun a x => insert_var x a) l acc).
Proof.
  induction l as [|x l IH]; intros acc S; cbn [fold_left]; [assumption|]. apply IH, insert_var_sorted, S.
Qed.

(* sorted and distinct *)
Theorem support_set_sorted b : StronglySorted N.lt (support_set b).
Proof. apply fold_insert_sorted. constructor. Qed.

Lemma sorted_lt_nodup l : StronglySorted N.lt l -> NoDup l.
Proof.
  induction 1 as [|x l S IH F]; constructor; [|assumption].
  intros Hin. rewrite Forall_forall in F. specialize (F x Hin). lia.
Qed.

Lemma bump_keys x l : map fst (bump x l) = insert_var x (map fst l).
Proof.
  induction l as [|[y c] r IH]; cbn [bump map fst insert_var]; [reflexivity|].
  destruct (N.ltb_spec x y); [reflexivity|]. destruct (N.eqb_spec x y); [reflexivity|].
  cbn [map fst]. now rewrite IH.
Qed.

Lemma fold_bump_keys l : forall acc,
  map fst (fold_left (fun a x => bump x a) l acc) = fold_left (fun a x => insert_var x a) l (map fst acc).
Proof.
  induction l as [|x l IH]; intros acc; cbn [fold_left]; [reflexivity|]. now rewrite IH, bump_keys.
Qed.

(* the keys of size_per_variable are exactly the support set *)
Theorem size_per_variable_keys b : map fst (size_per_variable b) = support_set b.
Proof. unfold size_per_variable, support_set. now rewrite fold_bump_keys. Qed.

Fixpoint total (l : list (N * N)) : N := match l with [] => 0 | (_, c) :: r => c + total r end.

Lemma bump_total x l : total (bump x l) = total l + 1.
Proof.
  induction l as [|[y c] r IH]; cbn [bump]; [reflexivity|].
  destruct (N.ltb_spec x y); [cbn [total]; lia|]. destruct (N.eqb_spec x y).
  - cbn [total]. lia.
  - cbn [total]. rewrite IH. lia.
Qed.

Lemma fold_bump_total l : forall acc, total (fold_left (fun a x => bump x a) l acc) = total acc + N.of_nat (length l).
Proof.
  induction l as [|x l IH]; intros acc; cbn [fold_left length]; [cbn; lia|].
  rewrite IH, bump_total. lia.
Qed.

(* the per-variable counts add up to the number of decision nodes *)
Theorem size_per_variable_total b : total (size_per_variable b) = size b - 2.
Proof.
  unfold size_per_variable. rewrite fold_bump_total. cbn [total]. unfold decision_vars, size.
  rewrite map_length, skipn_length. lia.
Qed.

(* number of entries for a key, weighted *)
Fixpoint tot (y : N) (l : list (N * N)) : N :=
  match l with [] => 0 | (k, c) :: r => (if k =? y then c else 0) + tot y r end.

Lemma bump_tot x y l : tot y (bump x l) = tot y l + (if x =? y then 1 else 0).
Proof.
  induction l as [|[k c] r IH]; cbn [bump tot]; [lia|].
  destruct (N.ltb_spec x k); [cbn [tot]; lia|]. destruct (N.eqb_spec x k) as [->|NE].
  - cbn [tot]. destruct (k =? y); lia.
  - cbn [tot]. rewrite IH. lia.
Qed.

Lemma fold_bump_tot y l : forall acc,
  tot y (fold_left (fun a x => bump x a) l acc) = tot y acc + N.of_nat (count_occ N.eq_dec l y).
Proof.
  induction l as [|x l IH]; intros acc; cbn [fold_left count_occ]; [lia|].
  rewrite IH, bump_tot. destruct (N.eq_dec x y) as [->|NE].
  - rewrite N.eqb_refl. lia.
  - destruct (N.eqb_spec x y); [contradiction|]. lia.
Qed.

Lemma tot_notin y l : ~ In y (map fst l) -> tot y l = 0.
Proof.
  induction l as [|[k c] r IH]; intros H; cbn [tot]; [reflexivity|].
  cbn [map fst In] in H. destruct (N.eqb_spec k y); [tauto|]. rewrite IH by tauto. reflexivity.
Qed.

Lemma tot_nodup y c l : NoDup (map fst l) -> In (y, c) l -> tot y l = c.
Proof.
  induction l as [|[k d] r IH]; intros ND Hin; [contradiction|].
  cbn [map fst] in ND. inversion ND as [|? ? Hk NDr]; subst. cbn [tot]. destruct Hin as [E|Hin].
  - inversion E; subst. rewrite N.eqb_refl, tot_notin by assumption. lia.
  - destruct (N.eqb_spec k y) as [->|NE].
    + exfalso. apply Hk. change y with (fst (y, c)). apply in_map. exact Hin.
    + rewrite IH by assumption. lia.
Qed.

(* every entry (x, c) says: exactly c decision nodes test variable x *)
Theorem size_per_variable_count b x c : In (x, c) (size_per_variable b) ->
  c = N.of_nat (count_occ N.eq_dec (decision_vars b) x).
Proof.
  intros Hin.
  assert (ND : NoDup (map fst (size_per_variable b))).
  { rewrite size_per_variable_keys. apply sorted_lt_nodup, support_set_sorted. }
  rewrite <- (tot_nodup x c _ ND Hin). unfold size_per_variable. rewrite fold_bump_tot. reflexivity.
Qed.

(* ======================================================================================== *)
(* B. canonical diagrams: the support is the set of essential variables                       *)

Lemma sem_ext b p v w : (forall y, v y = w y) -> sem b p v = sem b p w.
Proof. intros H. unfold sem. now apply sem_fuel_ext. Qed.

(* constructive converse of sem_inj: distinct nodes of a reduced diagram are separated by a valuation *)
Lemma sem_diff_level b : wf b -> reduced b -> forall k p q, valid b p -> valid b q ->
  (N.to_nat (nvars b - var_of b p) < k)%nat -> (N.to_nat (nvars b - var_of b q) < k)%nat ->
  p <> q -> exists v, sem b p v <> sem b q v.
Proof.
  intros Hwf (Hred & Hdup). induction k as [|k IH]; intros p q Vp Vq Hkp Hkq Hne; [lia|].
  assert (Hstep : forall r t, valid b r -> 2 <= r -> valid b t -> (N.to_nat (nvars b - var_of b r) < S k)%nat ->
             var_of b r < var_of b t -> exists v, sem b r v <> sem b t v).
  { intros r t (Vr & Vr1) Hr Vt Hkr Hv.
    destruct (wf_children b r Hwf Hr Vr) as (Vl & Vh & Hl & Hh & Hnv).
    pose proof (var_of_le b t Hwf Vt) as Hlet.
    pose proof (var_of_le b _ Hwf Vl) as Hlel. pose proof (var_of_le b _ Hwf Vh) as Hleh.
    destruct (N.eq_dec t (nlow (get b r))) as [E|NE].
    - assert (NEh : nhigh (get b r) <> t) by (intros E'; apply (Hred r Hr Vr); congruence).
      destruct (IH _ _ Vh Vt ltac:(lia) ltac:(lia) NEh) as (v & Hv').
      exists (upd v (var_of b r) true). rewrite (sem_cof b r v true) by assumption.
      rewrite (sem_indep b t v _ true) by assumption. exact Hv'.
    - assert (NEl : nlow (get b r) <> t) by congruence.
      destruct (IH _ _ Vl Vt ltac:(lia) ltac:(lia) NEl) as (v & Hv').
      exists (upd v (var_of b r) false). rewrite (sem_cof b r v false) by assumption.
      rewrite (sem_indep b t v _ false) by assumption. exact Hv'. }
  assert (Hsym : forall r t, (exists v, sem b r v <> sem b t v) -> exists v, sem b t v <> sem b r v).
  { intros r t (v & H). exists v. congruence. }
  destruct (N.ltb_spec p 2) as [Hp|Hp], (N.ltb_spec q 2) as [Hq|Hq].
  - exists (fun _ => false).
    assert (p = 0 \/ p = 1) as [->| ->] by lia; assert (q = 0 \/ q = 1) as [->| ->] by lia; cbn; congruence.
  - apply Hsym. pose proof Vq as (Vq0 & _). destruct (wf_children b q Hwf Hq Vq0) as (_ & _ & _ & _ & Hnv).
    apply Hstep; try assumption. rewrite (term_var b p Hwf Vp Hp). exact Hnv.
  - pose proof Vp as (Vp0 & _). destruct (wf_children b p Hwf Hp Vp0) as (_ & _ & _ & _ & Hnv).
    apply Hstep; try assumption. rewrite (term_var b q Hwf Vq Hq). exact Hnv.
  - destruct (N.lt_trichotomy (var_of b p) (var_of b q)) as [Hlt|[Heqv|Hgt]].
    + apply Hstep; assumption.
    + pose proof Vp as (Vp0 & _). pose proof Vq as (Vq0 & _).
      destruct (wf_children b p Hwf Hp Vp0) as (Vl & Vh & Hl & Hh & Hnv).
      destruct (wf_children b q Hwf Hq Vq0) as (Vl' & Vh' & Hl' & Hh' & Hnv').
      pose proof (var_of_le b _ Hwf Vl). pose proof (var_of_le b _ Hwf Vh).
      pose proof (var_of_le b _ Hwf Vl'). pose proof (var_of_le b _ Hwf Vh').
      destruct (N.eq_dec (nlow (get b p)) (nlow (get b q))) as [El|NEl].
      * destruct (N.eq_dec (nhigh (get b p)) (nhigh (get b q))) as [Eh|NEh].
        -- exfalso. apply Hne. apply Hdup; try assumption. apply node_ext; assumption.
        -- destruct (IH _ _ Vh Vh' ltac:(lia) ltac:(lia) NEh) as (v & Hv').
           exists (upd v (var_of b p) true). rewrite (sem_cof b p v true) by assumption.
           rewrite Heqv. rewrite (sem_cof b q v true) by assumption. exact Hv'.
      * destruct (IH _ _ Vl Vl' ltac:(lia) ltac:(lia) NEl) as (v & Hv').
        exists (upd v (var_of b p) false). rewrite (sem_cof b p v false) by assumption.
        rewrite Heqv. rewrite (sem_cof b q v false) by assumption. exact Hv'.
    + apply Hsym. apply Hstep; assumption.
Qed.

Theorem sem_diff b p q : wf b -> reduced b -> valid b p -> valid b q -> p <> q -> exists v, sem b p v <> sem b q v.
Proof.
  intros Hwf Hr Vp Vq. apply (sem_diff_level b Hwf Hr (S (N.to_nat (nvars b)))); try assumption; lia.
Qed.

(* a decision node of a reduced diagram depends on its own variable — with a witness *)
Lemma node_depends b p : wf b -> reduced b -> valid b p -> 2 <= p ->
  exists v, sem b p v <> sem b p (flipv v (var_of b p)).
Proof.
  intros Hwf Hr (Vp & Vp1) Hp. pose proof Hr as (Hred & _).
  destruct (wf_children b p Hwf Hp Vp) as (Vl & Vh & Hl & Hh & Hnv).
  destruct (sem_diff b _ _ Hwf Hr Vl Vh (Hred p Hp Vp)) as (v & Hv).
  exists (upd v (var_of b p) false).
  rewrite (sem_cof b p v false) by assumption.
  rewrite (sem_ext b p (flipv (upd v (var_of b p) false) (var_of b p)) (upd v (var_of b p) true)).
  - rewrite (sem_cof b p v true) by assumption. exact Hv.
  - intros y. unfold flipv. rewrite upd_same. cbn [negb]. unfold upd. destruct (y =? var_of b p); reflexivity.
Qed.

(* reachability along links *)
Inductive reach (b : bdd) : N -> N -> Prop :=
| reach_refl p : reach b p p
| reach_low p q : 2 <= p -> reach b (nlow (get b p)) q -> reach b p q
| reach_high p q : 2 <= p -> reach b (nhigh (get b p)) q -> reach b p q.

Lemma chk_reach b : forall fuel lim p l, 2 <= lim -> chk fuel b lim p = Some l ->
  forall q, lim <= q -> q < l -> reach b p q.
Proof.
  induction fuel as [|f IH]; intros lim p l Hlim H q Hq1 Hq2; [discriminate|]. cbn in H.
  destruct (N.ltb_spec p lim) as [Hp|Hp].
  - inversion H; subst. lia.
  - destruct (chk f b lim (nhigh (get b p))) as [l1|] eqn:A1; [|discriminate].
    destruct (chk f b l1 (nlow (get b p))) as [l2|] eqn:A2; [|discriminate].
    destruct (N.eqb_spec p l2) as [E|]; [|discriminate]. inversion H; subst l.
    pose proof (chk_lt _ _ _ _ _ A1) as (_ & Hl1). pose proof (chk_lt _ _ _ _ _ A2) as (_ & Hl2).
    destruct (N.ltb_spec q l1) as [Hq|Hq].
    + apply reach_high; [lia|]. apply (IH lim _ l1); assumption.
    + destruct (N.ltb_spec q l2) as [Hq'|Hq'].
      * apply reach_low; [lia|]. apply (IH l1 _ l2); try assumption; lia.
      * assert (q = p) by lia. subst q. apply reach_refl.
Qed.

Lemma layout_reach b : layout b -> forall q, 2 <= q -> q < size b -> reach b (size b - 1) q.
Proof.
  intros [Hs|Hc] q Hq Hlt; [lia|]. apply (chk_reach b _ 2 _ (size b) ltac:(lia) Hc); lia.
Qed.

(* a reachable node is reached by fixing the variables tested on the way *)
Lemma reach_path b : wf b -> forall p q, reach b p q -> valid b p ->
  valid b q /\ var_of b p <= var_of b q /\
  exists u, forall w, (forall y, var_of b p <= y -> y < var_of b q -> w y = u y) -> sem b p w = sem b q w.
Proof.
  intros Hwf p q R. induction R as [p|p q Hp R IH|p q Hp R IH]; intros Vp.
  - split; [assumption|]. split; [lia|]. exists (fun _ => false). reflexivity.
  - pose proof Vp as (Vp0 & _). destruct (wf_children b p Hwf Hp Vp0) as (Vl & Vh & Hl & Hh & Hnv).
    destruct (IH Vl) as (Vq & Hle & u & Hu). split; [assumption|]. split; [lia|].
    exists (upd u (var_of b p) false). intros w Hw.
    rewrite (sem_unfold b p w) by assumption. rewrite (Hw (var_of b p)) by lia. rewrite upd_same.
    apply Hu. intros y Hy1 Hy2. rewrite Hw by lia. apply upd_other. lia.
  - pose proof Vp as (Vp0 & _). destruct (wf_children b p Hwf Hp Vp0) as (Vl & Vh & Hl & Hh & Hnv).
    destruct (IH Vh) as (Vq & Hle & u & Hu). split; [assumption|]. split; [lia|].
    exists (upd u (var_of b p) true). intros w Hw.
    rewrite (sem_unfold b p w) by assumption. rewrite (Hw (var_of b p)) by lia. rewrite upd_same.
    apply Hu. intros y Hy1 Hy2. rewrite Hw by lia. apply upd_other. lia.
Qed.

Lemma support_inv b x : In x (support b) -> exists q, 2 <= q /\ q < size b /\ var_of b q = x.
Proof.
  unfold support. intros Hin. apply in_map_iff in Hin. destruct Hin as (nd & Hx & Hin).
  destruct b as [|z [|o rest]]; try contradiction. cbn [skipn] in Hin.
  destruct (In_nth _ _ dnode Hin) as (i & Hi & Hnth).
  exists (N.of_nat (S (S i))). unfold size, var_of, get. rewrite Nnat.Nat2N.id. cbn [length nth].
  rewrite Hnth. split; [lia|]. split; [lia|exact Hx].
Qed.

Theorem support_exact b x : Canonical b ->
  (In x (support_set b) <-> exists v, eval b v <> eval b (flipv v x)).
Proof.
  intros (Hwf & Hr & Hl). rewrite support_set_in. split.
  - intros Hin. destruct (support_inv b x Hin) as (q & Hq & Hlt & Hv).
    pose proof (size_pos b Hwf) as Hs.
    pose proof (layout_reach b Hl q Hq Hlt) as R.
    destruct (reach_path b Hwf _ _ R (root_valid b Hwf)) as (Vq & Hle & u & Hu).
    destruct (node_depends b q Hwf Hr Vq Hq) as (v0 & Hv0). rewrite Hv in *.
    set (w := fun y => if y <? x then u y else v0 y).
    exists w. unfold eval.
    rewrite (Hu w), (Hu (flipv w x)).
    + rewrite (sem_agree' b q w v0), (sem_agree' b q (flipv w x) (flipv v0 x)); try assumption.
      * intros y Hy. rewrite Hv in Hy. destruct (N.eq_dec y x) as [->|NE].
        -- rewrite !flipv_same. subst w. cbn. destruct (N.ltb_spec x x); [lia|reflexivity].
        -- unfold flipv. rewrite !upd_other by assumption. subst w. cbn. destruct (N.ltb_spec y x); [lia|reflexivity].
      * intros y Hy. rewrite Hv in Hy. subst w. cbn. destruct (N.ltb_spec y x); [lia|reflexivity].
    + intros y Hy1 Hy2. unfold flipv. rewrite upd_other by lia. subst w. cbn. destruct (N.ltb_spec y x); [reflexivity|lia].
    + intros y Hy1 Hy2. subst w. cbn. destruct (N.ltb_spec y x); [reflexivity|lia].
  - intros (v & Hv). destruct (mem x (support b)) eqn:M; [apply mem_spec; exact M|].
    exfalso. apply Hv. unfold flipv. symmetry. apply eval_not_support; assumption.
Qed.
