(* Proofs/RenameSem.v — relabelling the decision variables of a diagram by a map that is strictly increasing on
   the support keeps validity, reducedness and the node layout, and composes the denoted function with the map.
   This is the common core of rename_variable(s), set_num_vars and transfer_from (C17). *)
From Coq Require Import List PeanoNat NArith Lia Bool.
Import ListNotations.
From BddVerif Require Import Model.Bdd Model.Apply Model.Ops Model.Rename Proofs.Sem Proofs.Canon.
Open Scope N_scope.

(* ======================================================================================== *)
(* relabel f n' b: terminals get the variable count n', every decision node's variable x becomes f x *)

Definition relabel (f : N -> N) (n' : N) (b : bdd) : bdd :=
  map (fun nd => set_var nd n') (firstn 2 b) ++ map (fun nd => set_var nd (f (nvar nd))) (skipn 2 b).

Definition in_support (b : bdd) (x : N) : Prop := In x (support b).
Definition mono_on (b : bdd) (f : N -> N) : Prop :=
  forall x y, in_support b x -> in_support b y -> x < y -> f x < f y.

Lemma set_var_same n : set_var n (nvar n) = n.
Proof. destruct n; reflexivity. Qed.

Lemma size_relabel f n' b : size (relabel f n' b) = size b.
Proof.
  unfold relabel, size. rewrite app_length, !map_length, <- app_length, firstn_skipn. reflexivity.
Qed.

Lemma get_rest z o rest p : 2 <= p -> get (z :: o :: rest) p = nth (N.to_nat p - 2) rest dnode.
Proof.
  intros H. unfold get. destruct (N.to_nat p) as [|[|k]] eqn:E; try lia. replace (S (S k) - 2)%nat with k by lia. reflexivity.
Qed.

Lemma get_relabel_dec f n' b p : 2 <= p -> p < size b ->
  get (relabel f n' b) p = set_var (get b p) (f (nvar (get b p))).
Proof.
  intros H2 Hp. destruct b as [|z [|o rest]]; unfold size in Hp; cbn [length] in Hp; try lia.
  unfold relabel. cbn [firstn skipn map app]. rewrite !get_rest by assumption.
  set (g := fun nd => set_var nd (f (nvar nd))).
  rewrite (nth_indep _ dnode (g dnode)) by (rewrite map_length; lia).
  apply (map_nth g).
Qed.

Lemma get_relabel_0 f n' b : 1 <= size b -> get (relabel f n' b) 0 = set_var (get b 0) n'.
Proof. destruct b as [|z [|o rest]]; unfold size; cbn [length]; intros H; try lia; reflexivity. Qed.
Lemma get_relabel_1 f n' b : 2 <= size b -> get (relabel f n' b) 1 = set_var (get b 1) n'.
Proof. destruct b as [|z [|o rest]]; unfold size; cbn [length]; intros H; try lia; reflexivity. Qed.

Lemma in_support_get b p : 2 <= p -> p < size b -> in_support b (nvar (get b p)).
Proof.
  intros H2 Hp. unfold in_support, support. apply in_map.
  destruct b as [|z [|o rest]]; unfold size in Hp; cbn [length] in Hp; try lia.
  cbn [skipn]. rewrite get_rest by assumption. apply nth_In. lia.
Qed.

Lemma in_support_inv b x : in_support b x -> exists p, 2 <= p /\ p < size b /\ nvar (get b p) = x.
Proof.
  unfold in_support, support. intros H. apply in_map_iff in H. destruct H as (nd & Hx & Hin).
  destruct b as [|z [|o rest]]; cbn [skipn] in Hin; [destruct Hin|destruct Hin|].
  apply (In_nth _ _ dnode) in Hin. destruct Hin as (k & Hk & Hn).
  exists (N.of_nat (k + 2)). unfold size. cbn [length]. split; [lia|]. split; [lia|].
  rewrite get_rest by lia. rewrite Nnat.Nat2N.id. replace (k + 2 - 2)%nat with k by lia. now rewrite Hn.
Qed.

Section Relabel.
  Variables (b : bdd) (f : N -> N) (n' : N).
  Hypothesis Wb : wf b.
  Hypothesis Mono : mono_on b f.
  Hypothesis Range : forall x, in_support b x -> f x < n'.

  Let r := relabel f n' b.

  Lemma nvars_relabel : nvars r = n'.
  Proof.
    unfold nvars, r. rewrite get_relabel_0 by (apply size_pos; exact Wb). reflexivity.
  Qed.

  Lemma var_relabel p : p < size b -> (p = 1 -> 2 <= size b) ->
    var_of r p = if p <? 2 then n' else f (var_of b p).
  Proof.
    intros Hp Hp1. unfold var_of, r. destruct (N.ltb_spec p 2) as [Hlt|Hge].
    - assert (p = 0 \/ p = 1) as [->| ->] by lia.
      + rewrite get_relabel_0 by lia. reflexivity.
      + rewrite get_relabel_1 by auto. reflexivity.
    - rewrite get_relabel_dec by assumption. reflexivity.
  Qed.

  Theorem relabel_wf : wf r.
  Proof.
    pose proof (size_pos b Wb) as Hs. destruct Wb as (_ & H0 & H1 & Hn).
    unfold wf. rewrite nvars_relabel. unfold r. rewrite size_relabel. split; [exact Hs|]. split; [|split].
    - rewrite get_relabel_0 by exact Hs. rewrite H0. reflexivity.
    - intros H2. rewrite get_relabel_1 by exact H2. rewrite H1 by exact H2. reflexivity.
    - intros p Hp2 Hp. destruct (wf_children b p Wb Hp2 Hp) as (Vl & Vh & Hl & Hh & Hnv).
      pose proof (in_support_get b p Hp2 Hp) as Sp.
      unfold wf_node. rewrite size_relabel. fold r.
      assert (G : get r p = set_var (get b p) (f (nvar (get b p)))) by (apply get_relabel_dec; assumption).
      rewrite G. cbn [set_var nvar nlow nhigh].
      destruct Vl as (Vl & Vl1), Vh as (Vh & Vh1).
      split; [now apply Range|]. split; [exact Vl|]. split; [exact Vh|].
      split.
      + rewrite var_relabel by assumption. destruct (N.ltb_spec (nlow (get b p)) 2) as [|Hc]; [now apply Range|].
        apply Mono; [exact Sp | apply in_support_get; assumption | exact Hl].
      + rewrite var_relabel by assumption. destruct (N.ltb_spec (nhigh (get b p)) 2) as [|Hc]; [now apply Range|].
        apply Mono; [exact Sp | apply in_support_get; assumption | exact Hh].
  Qed.

  Lemma relabel_sem_at v : forall k p, valid b p -> (N.to_nat (nvars b - var_of b p) < k)%nat ->
    sem r p v = sem b p (fun x => v (f x)).
  Proof.
    pose proof relabel_wf as Wr.
    induction k as [|k IH]; intros p Vp Hk; [lia|].
    destruct (N.ltb_spec p 2) as [Hlt|Hge].
    - assert (p = 0 \/ p = 1) as [->| ->] by lia; reflexivity.
    - destruct Vp as (Vp & Vp1).
      rewrite (sem_unfold r p v Wr Hge) by (unfold r; rewrite size_relabel; exact Vp).
      rewrite (sem_unfold b p _ Wb Hge Vp).
      destruct (wf_children b p Wb Hge Vp) as (Vl & Vh & Hl & Hh & Hnv).
      rewrite var_relabel by assumption. destruct (N.ltb_spec p 2); [lia|].
      assert (G : get r p = set_var (get b p) (f (nvar (get b p)))) by (apply get_relabel_dec; assumption).
      rewrite G. cbn [set_var nlow nhigh].
      destruct (v (f (var_of b p))); apply IH; try assumption; lia.
  Qed.

  Theorem relabel_sem v : eval r v = eval b (fun x => v (f x)).
  Proof.
    unfold eval. unfold r at 2. rewrite size_relabel. pose proof (size_pos b Wb) as Hs.
    apply (relabel_sem_at v (S (N.to_nat (nvars b)))); [split; lia | lia].
  Qed.

  Lemma f_inj x y : in_support b x -> in_support b y -> f x = f y -> x = y.
  Proof.
    intros Sx Sy E. destruct (N.lt_trichotomy x y) as [H|[H|H]]; [|exact H|].
    - pose proof (Mono x y Sx Sy H). lia.
    - pose proof (Mono y x Sy Sx H). lia.
  Qed.

  Theorem relabel_reduced : reduced b -> reduced r.
  Proof.
    intros (Hne & Hdup). unfold reduced, r. rewrite size_relabel. split.
    - intros p Hp2 Hp. rewrite get_relabel_dec by assumption. cbn [set_var nlow nhigh]. now apply Hne.
    - intros p q Hp2 Hp Hq2 Hq E. rewrite !get_relabel_dec in E by assumption.
      apply Hdup; try assumption. unfold set_var in E. inversion E as [[Ev El Eh]].
      apply node_ext; [|exact El|exact Eh].
      apply f_inj; [apply in_support_get; assumption | apply in_support_get; assumption | exact Ev].
  Qed.
End Relabel.

(* ======================================================================================== *)
(* layout depends on the links only (and on having enough fuel)                              *)

Lemma chk_links G G' : (forall p, nlow (get G p) = nlow (get G' p) /\ nhigh (get G p) = nhigh (get G' p)) ->
  forall fuel lim p, chk fuel G lim p = chk fuel G' lim p.
Proof.
  intros H. induction fuel as [|k IH]; intros lim p; [reflexivity|]. cbn [chk].
  destruct (p <? lim); [reflexivity|]. destruct (H p) as (-> & ->).
  rewrite IH. destruct (chk k G' lim (nhigh (get G' p))) as [l1|]; [|reflexivity]. now rewrite IH.
Qed.

Lemma chk_fuel_enough G : wf G -> forall f1 f2 lim p, 2 <= lim -> p < size G ->
  (N.to_nat (nvars G - var_of G p) < f1)%nat -> (N.to_nat (nvars G - var_of G p) < f2)%nat ->
  chk f1 G lim p = chk f2 G lim p.
Proof.
  intros W. induction f1 as [|f1 IH]; intros f2 lim p Hl Hp H1 H2; [lia|].
  destruct f2 as [|f2]; [lia|]. cbn [chk]. destruct (N.ltb_spec p lim) as [|Hge]; [reflexivity|].
  destruct (wf_children G p W ltac:(lia) Hp) as ((Vl & _) & (Vh & _) & Hlo & Hhi & Hnv).
  rewrite (IH f2 lim (nhigh (get G p))) by (try assumption; lia).
  destruct (chk f2 G lim (nhigh (get G p))) as [l1|] eqn:E1; [|reflexivity].
  apply chk_lt in E1. rewrite (IH f2 l1 (nlow (get G p))) by (try assumption; lia). reflexivity.
Qed.

Lemma relabel_links f n' b p :
  nlow (get (relabel f n' b) p) = nlow (get b p) /\ nhigh (get (relabel f n' b) p) = nhigh (get b p).
Proof.
  destruct (N.ltb_spec p (size b)) as [Hp|Hp].
  - destruct (N.ltb_spec p 2) as [Hlt|Hge].
    + assert (p = 0 \/ p = 1) as [->| ->] by lia.
      * rewrite get_relabel_0 by lia. split; reflexivity.
      * rewrite get_relabel_1 by lia. split; reflexivity.
    + rewrite get_relabel_dec by assumption. split; reflexivity.
  - unfold get. rewrite !nth_overflow; [split; reflexivity| |].
    + unfold size in Hp. lia.
    + pose proof (size_relabel f n' b) as S. unfold size in S, Hp. lia.
Qed.

Theorem relabel_layout b f n' : wf b -> mono_on b f -> (forall x, in_support b x -> f x < n') ->
  layout b -> layout (relabel f n' b).
Proof.
  intros W M R [L|L]; [left; now rewrite size_relabel|]. right.
  pose proof (relabel_wf b f n' W M R) as Wr. pose proof (size_pos b W) as Hs.
  rewrite size_relabel. set (r := relabel f n' b) in *.
  set (big := S (N.to_nat (nvars b) + N.to_nat (nvars r))).
  assert (Hroot : size b - 1 < size b) by lia.
  rewrite (chk_fuel_enough r Wr _ big 2 (size b - 1)); [| lia | unfold r; rewrite size_relabel; lia | lia | unfold big; lia].
  rewrite (chk_links r b) by (intros p; apply relabel_links).
  rewrite (chk_fuel_enough b W big (S (N.to_nat (nvars b))) 2 (size b - 1)); [exact L | lia | lia | unfold big; lia | lia].
Qed.

Theorem relabel_canonical b f n' : wf b -> mono_on b f -> (forall x, in_support b x -> f x < n') ->
  Canonical b -> Canonical (relabel f n' b).
Proof.
  intros W M R (_ & Rd & L). split; [now apply relabel_wf|]. split; [now apply relabel_reduced | now apply relabel_layout].
Qed.
Theorem relabel_correct b f n' : wf b -> mono_on b f -> (forall x, in_support b x -> f x < n') ->
  wf (relabel f n' b) /\ nvars (relabel f n' b) = n' /\
  (forall v, eval (relabel f n' b) v = eval b (fun x => v (f x))) /\
  (Canonical b -> Canonical (relabel f n' b)).
Proof.
  intros W M R. split; [now apply relabel_wf|]. split; [now apply nvars_relabel|].
  split; [intros v; now apply relabel_sem | now apply relabel_canonical].
Qed.
Print Assumptions relabel_wf.
Print Assumptions relabel_sem.
Print Assumptions relabel_canonical.
