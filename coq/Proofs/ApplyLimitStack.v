(* Proofs/ApplyLimitStack.v — the explicit-stack machine of Model/ApplyLimitStack.v (one lstep = one iteration of the
   Rust `while` loop of apply_with_flip_and_limit) computes exactly what the recursive model `process_l` / `apply2_limit`
   of Model/Apply.v computes: apply2_limit_stack_eq.
   Structure of the proof: (1) one iteration of the limited loop is one iteration of the unlimited loop of
   Model/ApplyStack.v, except that it takes the early `return None` exactly when that iteration pushed a node and the
   store is now larger than the limit (lstep_sstep: no hypotheses); (2) the store size never decreases along a run, so
   k iterations of the limited loop stop early exactly when the unlimited run grew the store beyond the limit
   (liter_siter: no hypotheses) — the machine-level twin of ApplySem.process_l_spec; (3) the unlimited machine simulates
   the recursive engine (Proofs/ApplyStack.v process_sim), which gives the top-level equality. *)
From Coq Require Import List NArith Lia Bool Arith PeanoNat.
Import ListNotations.
From BddVerif Require Import Model.Bdd Model.Apply Model.ApplyStack Model.ApplyLimitStack
  Proofs.Sem Proofs.Canon Proofs.ApplySem Proofs.ApplyTop Proofs.ApplyStack.
Open Scope N_scope.

Local Lemma size_app' (G l : list node) : size (G ++ l) = size G + size l.
Proof. unfold size. rewrite app_length. lia. Qed.

Section LimitStack.
  Variables (A B : bdd) (fa fb fo : option N) (op : op2) (limit : N).
  Local Notation level := (Apply.level A B).
  Local Notation t_lo := (Apply.t_lo A B fa fb).
  Local Notation t_hi := (Apply.t_hi A B fa fb).
  Local Notation process := (Apply.process A B fa fb fo op).
  Local Notation process_l := (Apply.process_l A B fa fb fo op limit).
  Local Notation s0 := (Apply.s0 A).
  Local Notation root := (Apply.root A B).
  Local Notation lookup := (Model.ApplyStack.lookup op).
  Local Notation resolve := (Model.ApplyStack.resolve fo).
  Local Notation sstep := (Model.ApplyStack.sstep A B fa fb fo op).
  Local Notation siter := (Proofs.ApplyStack.siter A B fa fb fo op).
  Local Notation resolve_l := (ApplyLimitStack.resolve_l fo limit).
  Local Notation lstep := (ApplyLimitStack.lstep A B fa fb fo op limit).
  Local Notation lrun := (ApplyLimitStack.lrun A B fa fb fo op limit).
  Local Notation apply2_limit := (Apply.apply2_limit A B fa fb fo op limit).
  Local Notation apply2_limit_stack := (ApplyLimitStack.apply2_limit_stack A B fa fb fo op limit).

  (* "this run pushed at least one node and the store is now above the limit" = the abort condition of lspec *)
  Definition over (s s' : st) : bool := (size (nodes s) <? size (nodes s')) && (limit <? size (nodes s')).

  Lemma over_same s s' : size (nodes s') = size (nodes s) -> over s s' = false.
  Proof. intros E. unfold over. rewrite E, N.ltb_irrefl. reflexivity. Qed.

  (* ------------------------------------------------------------------ *)
  (* k iterations of the limited loop body; lrun d = 2^d iterations       *)
  Fixpoint liter (k : nat) (c : lconf) : lconf :=
    match k with O => c | S k' => liter k' (lstep c) end.

  Lemma liter_add a b c : liter (a + b) c = liter b (liter a c).
  Proof. revert c; induction a as [|a IH]; intros c; cbn; auto. Qed.

  Lemma lstep_done c : lconf_done c = true -> lstep c = c.
  Proof. destruct c as [[|t stk] s|]; cbn; [reflexivity|discriminate|reflexivity]. Qed.

  Lemma liter_done k c : lconf_done c = true -> liter k c = c.
  Proof. intros H. induction k as [|k IH]; cbn; [reflexivity|]. rewrite (lstep_done c H). exact IH. Qed.

  Lemma lrun_liter d : forall c, lrun d c = liter (2 ^ d) c.
  Proof.
    induction d as [|d IH]; intros c; [reflexivity|].
    cbn [ApplyLimitStack.lrun]. rewrite Nat.pow_succ_r', Nat.mul_succ_l, Nat.mul_1_l, liter_add, <- !IH.
    destruct (lconf_done (lrun d c)) eqn:E; [|reflexivity].
    symmetry. rewrite (IH (lrun d c)). apply liter_done. exact E.
  Qed.

  Lemma lrun_reach d k c c' : liter k c = c' -> lconf_done c' = true -> (k <= 2 ^ d)%nat -> lrun d c = c'.
  Proof.
    intros E Hd Hk. rewrite lrun_liter. replace (2 ^ d)%nat with (k + (2 ^ d - k))%nat by lia.
    rewrite liter_add, E. apply liter_done. exact Hd.
  Qed.

  (* ------------------------------------------------------------------ *)
  (* (1) one limited iteration versus one unlimited iteration             *)
  Lemma resolve_l_resolve t dv nl nh s :
    resolve_l t dv nl nh s = if over s (resolve t dv nl nh s) then None else Some (resolve t dv nl nh s).
  Proof.
    unfold ApplyLimitStack.resolve_l, Model.ApplyStack.resolve.
    destruct (nl =? nh); [rewrite over_same; reflexivity|].
    destruct (nfind _ _); [rewrite over_same; reflexivity|].
    unfold push, over. cbn [nodes memo set_ne]. rewrite size_app'. change (size [_]) with 1.
    replace (size (nodes s) <? size (nodes s) + 1) with true by (symmetry; apply N.ltb_lt; lia).
    cbn [andb]. destruct (limit <? _); reflexivity.
  Qed.

  Lemma resolve_mono t dv nl nh s : size (nodes s) <= size (nodes (resolve t dv nl nh s)).
  Proof.
    unfold Model.ApplyStack.resolve. destruct (nl =? nh); [cbn; lia|]. destruct (nfind _ _); [cbn; lia|].
    unfold push. cbn [nodes memo set_ne]. rewrite size_app'. lia.
  Qed.

  Lemma sstep_mono c : size (nodes (snd c)) <= size (nodes (snd (sstep c))).
  Proof.
    destruct c as [[|t rest] s]; [cbn; lia|]. rewrite sstep_eq.
    destruct (tfind t (finished s)); [cbn; lia|].
    destruct (lookup (t_lo t) s), (lookup (t_hi t) s); try (destruct (oeq fo (level t)); cbn [snd]; lia).
    cbn [snd]. apply resolve_mono.
  Qed.

  Lemma lstep_sstep stk s :
    lstep (LRun stk s) =
    let c' := sstep (stk, s) in if over s (snd c') then LStop else LRun (fst c') (snd c').
  Proof.
    destruct stk as [|t rest]; [cbn; rewrite over_same; reflexivity|].
    unfold ApplyLimitStack.lstep, Model.ApplyStack.sstep.
    destruct (tfind t (finished s)); [cbn; rewrite over_same; reflexivity|].
    destruct (kids A fa (fst t) _) as [ll lh], (kids B fb (snd t) _) as [rl rh].
    destruct (lookup (ll, rl) s) as [nl|], (lookup (lh, rh) s) as [nh|];
      try (destruct (oeq fo _); cbn; rewrite over_same; reflexivity).
    cbn. rewrite resolve_l_resolve. destruct (over s _); reflexivity.
  Qed.

  (* (2) k limited iterations versus k unlimited iterations *)
  Lemma siter_mono k : forall c, size (nodes (snd c)) <= size (nodes (snd (siter k c))).
  Proof.
    induction k as [|k IH]; intros c; [cbn; lia|]. cbn [Proofs.ApplyStack.siter].
    pose proof (sstep_mono c). pose proof (IH (sstep c)). lia.
  Qed.

  Lemma liter_siter k : forall stk s,
    liter k (LRun stk s) =
    let c' := siter k (stk, s) in if over s (snd c') then LStop else LRun (fst c') (snd c').
  Proof.
    induction k as [|k IH]; intros stk s; [cbn; rewrite over_same; reflexivity|].
    cbn [liter Proofs.ApplyStack.siter]. rewrite lstep_sstep. cbv zeta.
    pose proof (sstep_mono (stk, s)) as M1. pose proof (siter_mono k (sstep (stk, s))) as M2.
    destruct (sstep (stk, s)) as [stk1 s1] eqn:E1. cbn [fst snd] in *.
    destruct (over s s1) eqn:O1.
    - rewrite liter_done by reflexivity.
      unfold over in *. apply andb_true_iff in O1. destruct O1 as (a & b). apply N.ltb_lt in a, b.
      replace (size (nodes s) <? _) with true by (symmetry; apply N.ltb_lt; lia).
      replace (limit <? _) with true by (symmetry; apply N.ltb_lt; lia). reflexivity.
    - rewrite IH. cbv zeta. destruct (siter k (stk1, s1)) as [stk2 s2]. cbn [fst snd] in *.
      replace (over s s2) with (over s1 s2); [reflexivity|].
      unfold over in *.
      destruct (N.ltb_spec (size (nodes s)) (size (nodes s1))) as [a|a]; cbn [andb] in O1.
      + apply N.ltb_ge in O1.
        destruct (N.ltb_spec limit (size (nodes s2))) as [b|b]; [|rewrite !andb_false_r; reflexivity].
        rewrite !andb_true_r. transitivity true; [|symmetry]; apply N.ltb_lt; lia.
      + replace (size (nodes s1)) with (size (nodes s)) by lia. reflexivity.
  Qed.

  (* ------------------------------------------------------------------ *)
  (* (3) the top-level equality                                           *)
  Hypothesis WA : wf A.
  Hypothesis WB : wf B.
  Hypothesis NV : nvars A = nvars B.
  Hypothesis TOT : forall a b, op (Some a) (Some b) <> None.

  Lemma apply2_limit_stack_eq_section : apply2_limit_stack = apply2_limit.
  Proof.
    pose proof (root_valid A B WA WB NV) as Vr.
    unfold ApplyLimitStack.apply2_limit_stack, Apply.apply2_limit.
    destruct (limit =? 0); [reflexivity|].
    destruct (process_some A B fa fb fo op WA WB NV TOT (S (S (N.to_nat (nvars A)))) root s0 Vr ltac:(lia)) as (p & s' & E).
    rewrite (process_l_spec A B fa fb fo op NV limit _ _ _ _ _ E).
    destruct (process_sim A B fa fb fo op WA WB NV TOT _ _ _ _ _ E Vr eq_refl) as (_ & _ & Run).
    destruct (Run []) as (k & Hk & R).
    pose proof (liter_siter k [root] s0) as L. rewrite R in L. cbv zeta in L. cbn [fst snd] in L.
    assert (Hk' : (k <= 2 ^ S (S (S (S (N.to_nat (nvars A))))))%nat).
    { replace (S (S (N.to_nat (nvars A))) + 2)%nat with (S (S (S (S (N.to_nat (nvars A)))))) in Hk by lia. lia. }
    unfold lspec. fold (over s0 s').
    destruct (over s0 s').
    - rewrite (lrun_reach _ k _ _ L eq_refl Hk'). reflexivity.
    - rewrite (lrun_reach _ k _ _ L eq_refl Hk'). reflexivity.
  Qed.
End LimitStack.

(* ====================================================================== *)
(* Top-level statements                                                    *)

Definition limit_stack_iter := liter.

(* One iteration of the limited loop = one iteration of the unlimited loop, or the early return exactly when that
   iteration pushed a node and the store is now larger than the limit.  No hypotheses. *)
Theorem limit_step_refines_step : forall A B fa fb fo op limit stk s,
  lstep A B fa fb fo op limit (LRun stk s) =
  let c' := sstep A B fa fb fo op (stk, s) in
  if (size (nodes s) <? size (nodes (snd c'))) && (limit <? size (nodes (snd c'))) then LStop else LRun (fst c') (snd c').
Proof. exact lstep_sstep. Qed.

(* k iterations: the machine-level twin of ApplySem.process_l_spec.  No hypotheses. *)
Theorem limit_iter_refines_iter : forall A B fa fb fo op limit k stk s,
  limit_stack_iter A B fa fb fo op limit k (LRun stk s) =
  let c' := stack_iter A B fa fb fo op k (stk, s) in
  if (size (nodes s) <? size (nodes (snd c'))) && (limit <? size (nodes (snd c'))) then LStop else LRun (fst c') (snd c').
Proof. intros A B fa fb fo op limit k stk s. exact (liter_siter A B fa fb fo op limit k stk s). Qed.

(* The refinement theorem, for ANY limit.  Hypotheses as for apply2_stack_eq: valid operands over the same variable
   count and a table that answers on total inputs (what keeps the recursive engine from exhausting its fuel); flips
   need not be in range, the table need not be consistent. *)
Theorem apply2_limit_stack_eq : forall A B fa fb fo op limit,
  wf A -> wf B -> nvars A = nvars B -> total2 op ->
  apply2_limit_stack A B fa fb fo op limit = apply2_limit A B fa fb fo op limit.
Proof. intros A B fa fb fo op limit WA WB NV T. exact (apply2_limit_stack_eq_section A B fa fb fo op limit WA WB NV T). Qed.

(* at API level the variable-count guard is part of the function *)
Corollary fused_binary_flip_op_with_limit_stack_eq : forall limit A B fa fb fo op,
  wf A -> wf B -> total2 op ->
  fused_binary_flip_op_with_limit_stack limit A B fa fb fo op = fused_binary_flip_op_with_limit limit A B fa fb fo op.
Proof.
  intros limit A B fa fb fo op WA WB T. unfold fused_binary_flip_op_with_limit_stack, fused_binary_flip_op_with_limit, guard2.
  destruct (N.eqb_spec (nvars A) (nvars B)) as [NV|NE]; cbn [negb]; [|reflexivity].
  now rewrite apply2_limit_stack_eq.
Qed.

Corollary binary_op_with_limit_stack_eq : forall limit A B op, wf A -> wf B -> total2 op ->
  binary_op_with_limit_stack limit A B op = fused_binary_flip_op_with_limit limit A B None None None op.
Proof. intros. now apply fused_binary_flip_op_with_limit_stack_eq. Qed.

(* ---- transferred statements ---- *)
(* Some r exactly when the unrestricted result r has at most `limit` nodes (ApplyTop.limit_exact) *)
Theorem limit_exact_limit_stack A B fa fb fo op limit :
  wf A -> wf B -> nvars A = nvars B -> flips_ok (nvars A) fa fb fo = true ->
  total2 op -> consistent2 op ->
  exists r, fused_binary_flip_op A B fa fb fo op = Ok r /\
    fused_binary_flip_op_with_limit_stack limit A B fa fb fo op = Ok (if size r <=? limit then Some r else None).
Proof.
  intros WA WB NV FL T C. rewrite fused_binary_flip_op_with_limit_stack_eq by assumption. now apply limit_exact.
Qed.

(* both loops as stack machines: the limited machine against the unlimited machine *)
Theorem limit_exact_both_stack A B fa fb fo op limit :
  wf A -> wf B -> nvars A = nvars B -> flips_ok (nvars A) fa fb fo = true ->
  total2 op -> consistent2 op ->
  exists r, fused_binary_flip_op_stack A B fa fb fo op = Ok r /\
    fused_binary_flip_op_with_limit_stack limit A B fa fb fo op = Ok (if size r <=? limit then Some r else None).
Proof.
  intros WA WB NV FL T C. rewrite fused_binary_flip_op_with_limit_stack_eq, fused_binary_flip_op_stack_eq by assumption.
  now apply limit_exact.
Qed.

(* no hypotheses: the guards are the same two argument checks *)
Theorem fused_binary_flip_op_with_limit_stack_panic_iff limit A B fa fb fo op :
  fused_binary_flip_op_with_limit_stack limit A B fa fb fo op = Panic <->
  (nvars A <> nvars B \/ flips_ok (nvars A) fa fb fo = false).
Proof.
  unfold fused_binary_flip_op_with_limit_stack, guard2, flips_ok.
  destruct (N.eqb_spec (nvars A) (nvars B)) as [E|NE]; cbn [negb].
  - destruct (flip_ok (nvars A) fa && flip_ok (nvars A) fb && flip_ok (nvars A) fo) eqn:F; cbn [negb].
    + split; [|intros [H|H]; congruence]. destruct (apply2_limit_stack A B fa fb fo op limit); cbn; discriminate.
    + split; auto.
  - split; auto.
Qed.

(* the instance of Proofs/ApplyStack.v (result: 8 nodes): limits 0, 1, 7 answer None (the early return is taken when
   the 8th node is pushed), limit 8 answers the diagram; both models agree on each *)
Example apply_limit_stack_example :
  let A := [mkNode 4 0 0; mkNode 4 1 1; mkNode 3 1 0; mkNode 3 0 1; mkNode 2 3 2; mkNode 1 2 4; mkNode 1 4 2; mkNode 0 6 5] in
  let B := [mkNode 4 0 0; mkNode 4 1 1; mkNode 3 1 0; mkNode 3 0 1; mkNode 2 3 2; mkNode 2 1 0; mkNode 1 5 4; mkNode 0 6 1] in
  let R := [mkNode 4 0 0; mkNode 4 1 1; mkNode 3 0 1; mkNode 3 1 0; mkNode 2 3 2; mkNode 1 2 4; mkNode 1 1 4; mkNode 0 6 5] in
  let m l := apply2_limit_stack A B (Some 1) (Some 2) (Some 1) op_xor l in
  let r l := apply2_limit A B (Some 1) (Some 2) (Some 1) op_xor l in
  m 0 = Some None /\ m 1 = Some None /\ m 7 = Some None /\ m 8 = Some (Some R) /\ m 100 = Some (Some R) /\
  r 0 = m 0 /\ r 1 = m 1 /\ r 7 = m 7 /\ r 8 = m 8 /\ r 100 = m 100.
Proof. vm_compute. repeat split; reflexivity. Qed.

Print Assumptions limit_step_refines_step.
Print Assumptions limit_iter_refines_iter.
Print Assumptions apply2_limit_stack_eq.
Print Assumptions fused_binary_flip_op_with_limit_stack_eq.
Print Assumptions limit_exact_limit_stack.
Print Assumptions limit_exact_both_stack.
Print Assumptions fused_binary_flip_op_with_limit_stack_panic_iff.
