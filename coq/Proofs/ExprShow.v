(* Proofs/ExprShow.v — printing an expression over parser-safe names and parsing the text returns the
   identical tree (show_parse). *)
From Coq Require Import List NArith Bool Lia Arith.
Import ListNotations.
From BddVerif Require Import Model.Bdd Model.Apply Model.Ops Model.Expr Proofs.ExprParse.
Local Open Scope nat_scope.

(* parser-safe names: non-empty, no whitespace, no reserved character, not a constant *)
Definition nodelim (x : name) : bool := forallb (fun c => negb (delim c)) x.
Definition safe_name (x : name) : bool :=
  match x with [] => false | _ => true end && nodelim x && negb (name_eqb x s_true) && negb (name_eqb x s_false).
Fixpoint safe_names (e : expr) : bool :=
  match e with
  | EConst _ => true
  | EVar x => safe_name x
  | ENot a => safe_names a
  | EAnd a b | EOr a b | EXor a b | EImp a b | EIff a b => safe_names a && safe_names b
  | ECond a b c => safe_names a && safe_names b && safe_names c
  end.

(* the token tree of the printed form *)
Fixpoint toks (e : expr) : list token :=
  match e with
  | EConst c => [TId (if c then s_true else s_false)]
  | EVar x => [TId x]
  | ENot a => TNot :: toks a
  | EAnd a b => [TGroup (toks a ++ TAnd :: toks b)]
  | EOr a b => [TGroup (toks a ++ TOr :: toks b)]
  | EXor a b => [TGroup (toks a ++ TXor :: toks b)]
  | EImp a b => [TGroup (toks a ++ TImp :: toks b)]
  | EIff a b => [TGroup (toks a ++ TIff :: toks b)]
  | ECond a b c => [TGroup (toks a ++ TQuestion :: toks b ++ TColon :: toks c)]
  end.

(* ------------------------------------------------------------------ tokenizer, fuel-free view *)
Definition Tok (s : list N) (top : bool) (ts : list token) (r : list N) : Prop :=
  exists f, tokenize_group f s top = TOk ts r.
Definition boundary (rest : list N) : Prop := match rest with [] => True | c :: _ => delim c = true end.

Lemma Tok_nil : Tok [] true [] [].
Proof. exists 1. reflexivity. Qed.
Lemma Tok_ws c s top ts r : is_ws c = true -> Tok s top ts r -> Tok (c :: s) top ts r.
Proof. intros Hc [f H]. exists (S f). cbn [tokenize_group]. now rewrite Hc. Qed.
Lemma Tok_sp s top ts r : Tok s top ts r -> Tok (32%N :: s) top ts r.
Proof. now apply Tok_ws. Qed.
Lemma Tok_not s top ts r : Tok s top ts r -> Tok (33%N :: s) top (TNot :: ts) r.
Proof. intros [f H]. exists (S f). cbn [tokenize_group]. change (is_ws 33) with false. cbn. now rewrite H. Qed.
Lemma Tok_and s top ts r : Tok s top ts r -> Tok (38%N :: s) top (TAnd :: ts) r.
Proof. intros [f H]. exists (S f). cbn [tokenize_group]. change (is_ws 38) with false. cbn. now rewrite H. Qed.
Lemma Tok_or s top ts r : Tok s top ts r -> Tok (124%N :: s) top (TOr :: ts) r.
Proof. intros [f H]. exists (S f). cbn [tokenize_group]. change (is_ws 124) with false. cbn. now rewrite H. Qed.
Lemma Tok_xor s top ts r : Tok s top ts r -> Tok (94%N :: s) top (TXor :: ts) r.
Proof. intros [f H]. exists (S f). cbn [tokenize_group]. change (is_ws 94) with false. cbn. now rewrite H. Qed.
Lemma Tok_colon s top ts r : Tok s top ts r -> Tok (58%N :: s) top (TColon :: ts) r.
Proof. intros [f H]. exists (S f). cbn [tokenize_group]. change (is_ws 58) with false. cbn. now rewrite H. Qed.
Lemma Tok_question s top ts r : Tok s top ts r -> Tok (63%N :: s) top (TQuestion :: ts) r.
Proof. intros [f H]. exists (S f). cbn [tokenize_group]. change (is_ws 63) with false. cbn. now rewrite H. Qed.
Lemma Tok_imp s top ts r : Tok s top ts r -> Tok (61%N :: 62%N :: s) top (TImp :: ts) r.
Proof. intros [f H]. exists (S f). cbn [tokenize_group]. change (is_ws 61) with false. cbn. now rewrite H. Qed.
Lemma Tok_iff s top ts r : Tok s top ts r -> Tok (60%N :: 61%N :: 62%N :: s) top (TIff :: ts) r.
Proof. intros [f H]. exists (S f). cbn [tokenize_group]. change (is_ws 60) with false. cbn. now rewrite H. Qed.
Lemma Tok_close s : Tok (41%N :: s) false [] s.
Proof. exists 1. reflexivity. Qed.
Lemma Tok_open s s' inner top ts r : Tok s false inner s' -> Tok s' top ts r -> Tok (40%N :: s) top (TGroup inner :: ts) r.
Proof.
  intros [f1 H1] [f2 H2]. exists (S (Nat.max f1 f2)). cbn [tokenize_group]. change (is_ws 40) with false. cbn.
  rewrite (tokenize_group_mono _ _ _ _ _ _ H1 (Nat.le_max_l _ _)).
  now rewrite (tokenize_group_mono _ _ _ _ _ _ H2 (Nat.le_max_r _ _)).
Qed.

Lemma take_name_app n rest : nodelim n = true -> boundary rest -> take_name (n ++ rest) = (n, rest).
Proof.
  intros Hn Hb. induction n as [|c n IH]; cbn [app].
  - destruct rest as [|c r]; [reflexivity|]. cbn in Hb. cbn [take_name]. now rewrite Hb.
  - cbn [nodelim forallb] in Hn. apply andb_true_iff in Hn as (Hc & Hn). apply negb_true_iff in Hc.
    cbn [take_name]. rewrite Hc. now rewrite (IH Hn).
Qed.

Lemma reserved_false c : reserved c = false ->
  (c =? 33)%N = false /\ (c =? 38)%N = false /\ (c =? 124)%N = false /\ (c =? 94)%N = false /\ (c =? 61)%N = false /\
  (c =? 60)%N = false /\ (c =? 62)%N = false /\ (c =? 40)%N = false /\ (c =? 41)%N = false /\ (c =? 63)%N = false /\
  (c =? 58)%N = false.
Proof.
  unfold reserved. intros H. repeat (apply orb_false_iff in H; destruct H as [H ?]). repeat split; assumption.
Qed.

Lemma Tok_name x rest top ts r : x <> [] -> nodelim x = true -> boundary rest ->
  Tok rest top ts r -> Tok (x ++ rest) top (TId x :: ts) r.
Proof.
  intros Hx Hn Hb [f H]. destruct x as [|c n]; [congruence|]. exists (S f).
  cbn [nodelim forallb] in Hn. apply andb_true_iff in Hn as (Hc & Hn). apply negb_true_iff in Hc.
  unfold delim in Hc. apply orb_false_iff in Hc as (Hw & Hr).
  destruct (reserved_false _ Hr) as (E1 & E2 & E3 & E4 & E5 & E6 & E7 & E8 & E9 & E10 & E11).
  cbn [app tokenize_group]. rewrite Hw, E1, E2, E3, E4, E5, E6, E7, E8, E9, E10, E11.
  rewrite (take_name_app _ _ Hn Hb). now rewrite H.
Qed.

Lemma safe_name_spec x : safe_name x = true ->
  x <> [] /\ nodelim x = true /\ name_eqb x s_true = false /\ name_eqb x s_false = false.
Proof.
  unfold safe_name. intros H. repeat (apply andb_true_iff in H; destruct H as [H ?]).
  repeat split; try (now apply negb_true_iff); auto. destruct x; [discriminate|congruence].
Qed.

Ltac split_safe H :=
  cbn [safe_names] in H; repeat (let H' := fresh "Hs" in apply andb_true_iff in H; destruct H as [H H']).

Lemma boundary_sp s : boundary (32%N :: s). Proof. reflexivity. Qed.
Lemma boundary_close s : boundary (41%N :: s). Proof. reflexivity. Qed.

Lemma Tok_show e : safe_names e = true -> forall rest top ts r, boundary rest -> Tok rest top ts r ->
  Tok (show e ++ rest) top (toks e ++ ts) r.
Proof.
  induction e as [c|x|a IHa|a IHa b IHb|a IHa b IHb|a IHa b IHb|a IHa b IHb|a IHa b IHb|a IHa b IHb c IHc];
    intros Hs rest top ts r Hb HT; cbn [show toks].
  - destruct c; cbn [app]; apply (Tok_name _ rest); auto; discriminate.
  - destruct (safe_name_spec _ Hs) as (H1 & H2 & _). cbn [app]. now apply Tok_name.
  - cbn [app]. apply Tok_not. now apply IHa.
  - split_safe Hs. cbn [app]. repeat (rewrite <- app_assoc; cbn [app]). apply (Tok_open _ rest); [|exact HT].
    rewrite <- (app_nil_r (toks b)).
    apply IHa; auto using boundary_sp. apply Tok_sp, Tok_and, Tok_sp. apply IHb; auto using boundary_close, Tok_close.
  - split_safe Hs. cbn [app]. repeat (rewrite <- app_assoc; cbn [app]). apply (Tok_open _ rest); [|exact HT].
    rewrite <- (app_nil_r (toks b)).
    apply IHa; auto using boundary_sp. apply Tok_sp, Tok_or, Tok_sp. apply IHb; auto using boundary_close, Tok_close.
  - split_safe Hs. cbn [app]. repeat (rewrite <- app_assoc; cbn [app]). apply (Tok_open _ rest); [|exact HT].
    rewrite <- (app_nil_r (toks b)).
    apply IHa; auto using boundary_sp. apply Tok_sp, Tok_xor, Tok_sp. apply IHb; auto using boundary_close, Tok_close.
  - split_safe Hs. cbn [app]. repeat (rewrite <- app_assoc; cbn [app]). apply (Tok_open _ rest); [|exact HT].
    rewrite <- (app_nil_r (toks b)).
    apply IHa; auto using boundary_sp. apply Tok_sp, Tok_imp, Tok_sp. apply IHb; auto using boundary_close, Tok_close.
  - split_safe Hs. cbn [app]. repeat (rewrite <- app_assoc; cbn [app]). apply (Tok_open _ rest); [|exact HT].
    rewrite <- (app_nil_r (toks b)).
    apply IHa; auto using boundary_sp. apply Tok_sp, Tok_iff, Tok_sp. apply IHb; auto using boundary_close, Tok_close.
  - split_safe Hs. cbn [app]. repeat (rewrite <- app_assoc; cbn [app]). apply (Tok_open _ rest); [|exact HT].
    replace (toks a ++ TQuestion :: toks b ++ TColon :: toks c)
      with (toks a ++ TQuestion :: toks b ++ TColon :: toks c ++ []) by now rewrite app_nil_r.
    apply IHa; auto using boundary_sp. apply Tok_sp, Tok_question, Tok_sp.
    apply IHb; auto using boundary_sp. apply Tok_sp, Tok_colon, Tok_sp.
    apply IHc; auto using boundary_close, Tok_close.
Qed.

Theorem tokenize_show e : safe_names e = true -> tokenize (show e) = TOk (toks e) [].
Proof.
  intros Hs. destruct (Tok_show e Hs [] true [] [] I Tok_nil) as [f H]. rewrite !app_nil_r in H.
  unfold tokenize. destruct (Nat.le_ge_cases f (S (length (show e)))) as [Hf|Hf].
  - exact (tokenize_group_mono _ _ _ _ _ _ H Hf).
  - destruct (tokenize_group_tle _ _ (show e) true Hf) as [E|E]; [|congruence].
    exfalso. exact (tokenize_nofuel _ E).
Qed.

(* ------------------------------------------------------------------ parser, fuel-free view *)
Definition Par (lv : level) (ts : list token) (e : expr) : Prop := exists f, parse_at f lv ts = POk e.

Definition atomic_tok (t : token) : bool := match t with TNot | TId _ | TGroup _ => true | _ => false end.
Definition is_op (p : token -> bool) : Prop := forall t, atomic_tok t = true -> p t = false.

Lemma is_op_iff : is_op is_iff. Proof. intros []; cbn; congruence. Qed.
Lemma is_op_imp : is_op is_imp. Proof. intros []; cbn; congruence. Qed.
Lemma is_op_or : is_op is_or. Proof. intros []; cbn; congruence. Qed.
Lemma is_op_and : is_op is_and. Proof. intros []; cbn; congruence. Qed.
Lemma is_op_xor : is_op is_xor. Proof. intros []; cbn; congruence. Qed.
Lemma is_op_question : is_op is_question. Proof. intros []; cbn; congruence. Qed.
Lemma is_op_colon : is_op is_colon. Proof. intros []; cbn; congruence. Qed.
#[local] Hint Resolve is_op_iff is_op_imp is_op_or is_op_and is_op_xor is_op_question is_op_colon : ops.

Lemma atomic_existsb p ts : is_op p -> forallb atomic_tok ts = true -> existsb p ts = false.
Proof.
  intros Hp. induction ts as [|t r IH]; [reflexivity|]. cbn [forallb existsb]. intros H.
  apply andb_true_iff in H as (H1 & H2). now rewrite (Hp _ H1), IH.
Qed.

Lemma existsb_index_none p ts : existsb p ts = false -> index_of p ts = None.
Proof.
  induction ts as [|t r IH]; [reflexivity|]. cbn [existsb index_of]. intros H.
  apply orb_false_iff in H as (H1 & H2). now rewrite H1, IH.
Qed.

Lemma index_of_hit p l t r : existsb p l = false -> p t = true -> index_of p (l ++ t :: r) = Some (length l).
Proof.
  induction l as [|x l IH]; cbn [app existsb index_of length]; intros H Ht.
  - now rewrite Ht.
  - apply orb_false_iff in H as (H1 & H2). now rewrite H1, IH.
Qed.

Lemma firstn_exact {A} (l r : list A) : firstn (length l) (l ++ r) = l.
Proof. rewrite firstn_app, Nat.sub_diag, firstn_all. cbn. apply app_nil_r. Qed.
Lemma skipn_exact {A} (l r : list A) : skipn (length l) (l ++ r) = r.
Proof. rewrite skipn_app, Nat.sub_diag, skipn_all. reflexivity. Qed.
Lemma skipn_exact_S {A} (l : list A) t r : skipn (S (length l)) (l ++ t :: r) = r.
Proof.
  replace (l ++ t :: r) with ((l ++ [t]) ++ r) by now rewrite <- app_assoc.
  replace (S (length l)) with (length (l ++ [t])) by (rewrite app_length; cbn; lia). apply skipn_exact.
Qed.

Lemma toks_atomic e : forallb atomic_tok (toks e) = true.
Proof. induction e; cbn; auto. Qed.
Lemma toks_nonempty e : 1 <= length (toks e).
Proof. destruct e; cbn; lia. Qed.

Lemma Par_S lv ts e f : step f lv ts = POk e -> Par lv ts e.
Proof. intros H. exists (S f). now rewrite parse_at_S. Qed.

(* a level whose operator does not occur at top level hands the tokens to the next level *)
Lemma Par_skip_bin lv p mk next ts e :
  (forall f, step f lv ts = binary_step f lv p mk next ts) ->
  existsb p ts = false -> Par next ts e -> Par lv ts e.
Proof.
  intros Hst Hp [f H]. apply (Par_S _ _ _ f). rewrite Hst.
  rewrite binary_step_none; auto using existsb_index_none.
Qed.

Lemma Par_skip_cond ts e : existsb is_question ts = false -> existsb is_colon ts = false -> Par LOr ts e -> Par LCond ts e.
Proof.
  intros Hq Hc [f H]. apply (Par_S _ _ _ f). cbn [step]. unfold cond_step.
  now rewrite (existsb_index_none _ _ Hq), (existsb_index_none _ _ Hc).
Qed.

Lemma Par_hit_bin lv p mk next l t r a b :
  (forall f ts, step f lv ts = binary_step f lv p mk next ts) ->
  existsb p l = false -> p t = true -> Par next l a -> Par lv r b -> Par lv (l ++ t :: r) (mk a b).
Proof.
  intros Hst Hl Ht [f1 H1] [f2 H2]. apply (Par_S _ _ _ (Nat.max f1 f2)). rewrite Hst.
  rewrite (binary_step_some _ _ _ _ _ _ _ (index_of_hit _ _ _ _ Hl Ht)).
  rewrite firstn_exact, skipn_exact_S.
  rewrite (parse_at_mono _ _ _ _ _ H1 (Nat.le_max_l _ _)). cbn [pbind].
  now rewrite (parse_at_mono _ _ _ _ _ H2 (Nat.le_max_r _ _)).
Qed.

Lemma Par_formula_long ts e : 2 <= length ts -> Par LIff ts e -> Par LFormula ts e.
Proof.
  intros Hl [f H]. apply (Par_S _ _ _ f). cbn [step]. unfold formula_step.
  destruct ts as [|t [|t' r]]; cbn in Hl; try lia. destruct t; exact H.
Qed.

(* a list of atomic tokens (negations, identifiers, groups) reaches terminal() unchanged from every level *)
Lemma Par_atomic ts e : forallb atomic_tok ts = true -> Par LTerm ts e -> forall lv, Par lv ts e.
Proof.
  intros Ha HT.
  assert (Hx : Par LXor ts e).
  { apply (Par_skip_bin LXor is_xor EXor LTerm); auto. apply atomic_existsb; auto with ops. }
  assert (Hand : Par LAnd ts e).
  { apply (Par_skip_bin LAnd is_and EAnd LXor); auto. apply atomic_existsb; auto with ops. }
  assert (Hor : Par LOr ts e).
  { apply (Par_skip_bin LOr is_or EOr LAnd); auto. apply atomic_existsb; auto with ops. }
  assert (Hc : Par LCond ts e).
  { apply Par_skip_cond; auto; apply atomic_existsb; auto with ops. }
  assert (Himp : Par LImp ts e).
  { apply (Par_skip_bin LImp is_imp EImp LCond); auto. apply atomic_existsb; auto with ops. }
  assert (Hiff : Par LIff ts e).
  { apply (Par_skip_bin LIff is_iff EIff LImp); auto. apply atomic_existsb; auto with ops. }
  intros []; auto.
  (* LFormula *)
  destruct Hiff as [f1 H1]. destruct HT as [f2 H2].
  destruct ts as [|t [|t' r]].
  - apply (Par_S _ _ _ f1). exact H1.
  - destruct t; try (apply (Par_S _ _ _ f1); exact H1). apply (Par_S _ _ _ f2). exact H2.
  - apply Par_formula_long; [cbn; lia|]. now exists f1.
Qed.

Lemma Par_group inner e : Par LFormula inner e -> forall lv, Par lv [TGroup inner] e.
Proof.
  intros [f H]. apply Par_atomic; [reflexivity|]. apply (Par_S _ _ _ f). exact H.
Qed.

Lemma toks_noop p e : is_op p -> existsb p (toks e) = false.
Proof. intros Hp. apply atomic_existsb; auto using toks_atomic. Qed.
Ltac noop := repeat (rewrite existsb_app; cbn [existsb]); cbn [existsb]; rewrite ?toks_noop by auto with ops; reflexivity.

Lemma Par_toks e : safe_names e = true -> forall lv, Par lv (toks e) e.
Proof.
  induction e as [c|x|a IHa|a IHa b IHb|a IHa b IHb|a IHa b IHb|a IHa b IHb|a IHa b IHb|a IHa b IHb c IHc];
    intros Hs; cbn [toks].
  - apply Par_atomic; [reflexivity|]. exists 1. destruct c; reflexivity.
  - destruct (safe_name_spec _ Hs) as (_ & _ & H3 & H4).
    apply Par_atomic; [reflexivity|]. exists 1. cbn. now rewrite H3, H4.
  - apply Par_atomic; [exact (toks_atomic (ENot a))|].
    destruct (IHa Hs LTerm) as [f H]. apply (Par_S _ _ _ f). cbn. now rewrite H.
  - split_safe Hs. apply Par_group.
    apply Par_formula_long; [rewrite app_length; cbn; pose proof (toks_nonempty a); lia|].
    apply (Par_skip_bin LIff is_iff EIff LImp); [reflexivity|noop|].
    apply (Par_skip_bin LImp is_imp EImp LCond); [reflexivity|noop|].
    apply Par_skip_cond; [noop|noop|].
    apply (Par_skip_bin LOr is_or EOr LAnd); [reflexivity|noop|].
    apply (Par_hit_bin LAnd is_and EAnd LXor); [reflexivity|noop|reflexivity|auto|auto].
  - split_safe Hs. apply Par_group.
    apply Par_formula_long; [rewrite app_length; cbn; pose proof (toks_nonempty a); lia|].
    apply (Par_skip_bin LIff is_iff EIff LImp); [reflexivity|noop|].
    apply (Par_skip_bin LImp is_imp EImp LCond); [reflexivity|noop|].
    apply Par_skip_cond; [noop|noop|].
    apply (Par_hit_bin LOr is_or EOr LAnd); [reflexivity|noop|reflexivity|auto|auto].
  - split_safe Hs. apply Par_group.
    apply Par_formula_long; [rewrite app_length; cbn; pose proof (toks_nonempty a); lia|].
    apply (Par_skip_bin LIff is_iff EIff LImp); [reflexivity|noop|].
    apply (Par_skip_bin LImp is_imp EImp LCond); [reflexivity|noop|].
    apply Par_skip_cond; [noop|noop|].
    apply (Par_skip_bin LOr is_or EOr LAnd); [reflexivity|noop|].
    apply (Par_skip_bin LAnd is_and EAnd LXor); [reflexivity|noop|].
    apply (Par_hit_bin LXor is_xor EXor LTerm); [reflexivity|noop|reflexivity|auto|auto].
  - split_safe Hs. apply Par_group.
    apply Par_formula_long; [rewrite app_length; cbn; pose proof (toks_nonempty a); lia|].
    apply (Par_skip_bin LIff is_iff EIff LImp); [reflexivity|noop|].
    apply (Par_hit_bin LImp is_imp EImp LCond); [reflexivity|noop|reflexivity|auto|auto].
  - split_safe Hs. apply Par_group.
    apply Par_formula_long; [rewrite app_length; cbn; pose proof (toks_nonempty a); lia|].
    apply (Par_hit_bin LIff is_iff EIff LImp); [reflexivity|noop|reflexivity|auto|auto].
  - split_safe Hs. apply Par_group.
    apply Par_formula_long; [rewrite app_length; cbn; pose proof (toks_nonempty a); lia|].
    apply (Par_skip_bin LIff is_iff EIff LImp); [reflexivity|noop|].
    apply (Par_skip_bin LImp is_imp EImp LCond); [reflexivity|noop|].
    (* cond(): `?` at |toks a|, `:` at |toks a| + 1 + |toks b| *)
    destruct (IHa Hs LOr) as [f1 H1]. destruct (IHb Hs1 LOr) as [f2 H2]. destruct (IHc Hs0 LOr) as [f3 H3].
    set (f := Nat.max f1 (Nat.max f2 f3)).
    apply (Par_S _ _ _ f). cbn [step].
    set (ts := toks a ++ TQuestion :: toks b ++ TColon :: toks c).
    assert (Hq : index_of is_question ts = Some (length (toks a))).
    { apply index_of_hit; [noop|reflexivity]. }
    assert (Hc : index_of is_colon ts = Some (length (toks a ++ TQuestion :: toks b))).
    { unfold ts. replace (toks a ++ TQuestion :: toks b ++ TColon :: toks c)
        with ((toks a ++ TQuestion :: toks b) ++ TColon :: toks c) by (rewrite <- app_assoc; reflexivity).
      apply index_of_hit; [noop|reflexivity]. }
    rewrite (cond_step_some _ _ _ _ Hq Hc).
    unfold ts at 1. rewrite firstn_exact.
    rewrite (parse_at_mono _ f _ _ _ H1) by (unfold f; lia). cbn [pbind].
    unfold with_slice. rewrite slice_mid.
    2:{ rewrite app_length. cbn. lia. }
    2:{ unfold ts. rewrite !app_length. cbn. rewrite app_length. cbn. lia. }
    unfold ts at 1. rewrite skipn_exact_S.
    replace (length (toks a ++ TQuestion :: toks b) - S (length (toks a))) with (length (toks b))
      by (rewrite app_length; cbn; lia).
    rewrite firstn_exact.
    rewrite (parse_at_mono _ f _ _ _ H2) by (unfold f; lia). cbn [pbind].
    unfold ts. replace (toks a ++ TQuestion :: toks b ++ TColon :: toks c)
        with ((toks a ++ TQuestion :: toks b) ++ TColon :: toks c) by (rewrite <- app_assoc; reflexivity).
    rewrite skipn_exact_S.
    now rewrite (parse_at_mono _ f _ _ _ H3) by (unfold f; lia).
Qed.

Theorem parse_tokens_toks e : safe_names e = true -> parse_tokens (toks e) = POk e.
Proof.
  intros Hs. destruct (Par_toks e Hs LFormula) as [f H]. unfold parse_tokens.
  destruct (Nat.le_ge_cases f (parse_fuel (toks e))) as [Hf|Hf].
  - exact (parse_at_mono _ _ _ _ _ H Hf).
  - destruct (parse_at_ple _ _ LFormula (toks e) Hf) as [E|E]; [|congruence].
    exfalso. exact (proj2 (parse_tokens_total (toks e)) E).
Qed.

Theorem show_parse e : safe_names e = true -> parse_string (show e) = POk e.
Proof.
  intros Hs. unfold parse_string. rewrite (tokenize_show e Hs). now apply parse_tokens_toks.
Qed.
