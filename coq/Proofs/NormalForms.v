(* Proofs/NormalForms.v — clause diagrams (conjunctive / disjunctive clauses, valuations, literals)
   and the DNF / CNF constructors: well-formedness, semantics, canonicity, panic conditions. *)
From Coq Require Import List NArith Lia Bool PeanoNat.
Import ListNotations.
From BddVerif Require Import Model.Bdd Model.Apply Model.Ops Proofs.Sem Proofs.Canon Proofs.ApplySem Proofs.ApplyTop.
Open Scope N_scope.

(* ------------------------------------------------------------------------------------------ *)
(* Statement-level definitions                                                                 *)
Definition clause_sat (v : val) (pv : pval) : bool :=
  forallb (fun xc => Bool.eqb (v (fst xc)) (snd xc)) (pv_cells pv).
Definition dclause_sat (v : val) (pv : pval) : bool :=
  existsb (fun xc => Bool.eqb (v (fst xc)) (snd xc)) (pv_cells pv).

Definition lit (v : val) (xc : N * bool) : bool := Bool.eqb (v (fst xc)) (snd xc).

(* ------------------------------------------------------------------------------------------ *)
(* Append lemmas (hypothesis-free versions of those in ApplySem)                               *)
Lemma gapp1 (G l : list node) p : p < size G -> get (G ++ l) p = get G p.
Proof. intros H. unfold get, size in *. apply app_nth1. lia. Qed.
Lemma gapp_last (G : list node) n : get (G ++ [n]) (size G) = n.
Proof. unfold get, size. rewrite Nnat.Nat2N.id. rewrite app_nth2 by lia. now rewrite Nat.sub_diag. Qed.
Lemma sapp (G l : list node) : size (G ++ l) = size G + size l.
Proof. unfold size. rewrite app_length. lia. Qed.
Lemma sapp1 (G : list node) n : size (G ++ [n]) = size G + 1.
Proof. rewrite sapp. reflexivity. Qed.

Lemma wf_closed G : wf G -> closed G (size G).
Proof. intros (_ & _ & _ & H) i Hi Hl. destruct (H i Hi Hl) as (_ & a & b & _). split; assumption. Qed.

Lemma nvars_app G l : 1 <= size G -> nvars (G ++ l) = nvars G.
Proof. intros H. unfold nvars. rewrite gapp1 by lia. reflexivity. Qed.

Lemma sem_app G l : wf G -> wf (G ++ l) -> 2 <= size G ->
  forall p v, p < size G -> sem (G ++ l) p v = sem G p v.
Proof.
  intros WG WG' Hs p v Hp. symmetry.
  assert (H : feq (sem G p) (sem (G ++ l) p)).
  { apply (prefix_sem G (G ++ l) (size G) WG WG') with (k := S (N.to_nat (nvars G - var_of G p))); try lia.
    - symmetry; apply nvars_app; lia.
    - rewrite sapp; lia.
    - intros i Hi. symmetry. apply gapp1; exact Hi.
    - apply wf_closed; assumption. }
  apply H.
Qed.

Lemma chk_S f G lim p : chk (S f) G lim p =
  if p <? lim then Some lim else
  match chk f G lim (nhigh (get G p)) with None => None | Some l1 =>
  match chk f G l1 (nlow (get G p)) with None => None | Some l2 =>
  if p =? l2 then Some (l2 + 1) else None end end.
Proof. reflexivity. Qed.

Lemma chk_vis k G lim p : p < lim -> chk (S k) G lim p = Some lim.
Proof. intros H. rewrite chk_S. destruct (N.ltb_spec p lim); [reflexivity|lia]. Qed.

(* ------------------------------------------------------------------------------------------ *)
(* Chain-shaped diagrams: node p (>= 2) has one child equal to the terminal t and the other   *)
(* equal to the previous node (for p = 2: the other terminal); variables decrease with index. *)
Definition prevc (t p : N) : N := if p =? 2 then 1 - t else p - 1.

Definition chain_ok (nv t : N) (G : bdd) : Prop :=
  2 <= size G /\ get G 0 = mkNode nv 0 0 /\ get G 1 = mkNode nv 1 1 /\
  forall p, 2 <= p -> p < size G ->
    nvar (get G p) < nv /\ nvar (get G p) < var_of G (p - 1) /\
    ((nlow (get G p) = t /\ nhigh (get G p) = prevc t p) \/
     (nlow (get G p) = prevc t p /\ nhigh (get G p) = t)).

Definition top (G : bdd) : N := var_of G (size G - 1).

Lemma chain_nvars nv t G : chain_ok nv t G -> nvars G = nv.
Proof. intros (_ & H0 & _). unfold nvars. rewrite H0. reflexivity. Qed.

Lemma chain_true nv t : chain_ok nv t (mk_true nv).
Proof.
  unfold chain_ok. change (size (mk_true nv)) with 2.
  split; [lia|]. split; [reflexivity|]. split; [reflexivity|]. intros p Hp Hlt; lia.
Qed.

Lemma chain_ext nv t G n : chain_ok nv t G -> nvar n < nv -> nvar n < top G ->
  ((nlow n = t /\ nhigh n = prevc t (size G)) \/ (nlow n = prevc t (size G) /\ nhigh n = t)) ->
  chain_ok nv t (G ++ [n]).
Proof.
  intros (Hs & H0 & H1 & Hn) Hv Hvp Hc. unfold chain_ok. rewrite sapp1.
  split; [lia|]. split; [rewrite gapp1 by lia; exact H0|]. split; [rewrite gapp1 by lia; exact H1|].
  intros p Hp Hlt. unfold var_of. destruct (N.eq_dec p (size G)) as [->|Hne].
  - rewrite gapp_last. rewrite gapp1 by lia. auto.
  - rewrite !gapp1 by lia. apply Hn; lia.
Qed.

Lemma chain_term_var nv t G q : chain_ok nv t G -> q < 2 -> var_of G q = nv.
Proof.
  intros (_ & H0 & H1 & _) Hq. unfold var_of.
  assert (q = 0 \/ q = 1) as [->| ->] by lia; [rewrite H0|rewrite H1]; reflexivity.
Qed.

Lemma chain_prev nv t G p : t < 2 -> chain_ok nv t G -> 2 <= p -> p < size G ->
  prevc t p < p /\ nvar (get G p) < var_of G (prevc t p).
Proof.
  intros Ht H Hp Hlt. pose proof H as (_ & _ & _ & Hn). destruct (Hn p Hp Hlt) as (Hv & Hvp & _).
  unfold prevc. destruct (N.eqb_spec p 2) as [->|Hne].
  - split; [lia|]. rewrite (chain_term_var nv t G) by (assumption || lia). exact Hv.
  - split; [lia|exact Hvp].
Qed.

Lemma chain_wf nv t G : t < 2 -> chain_ok nv t G -> wf G.
Proof.
  intros Ht H. pose proof (chain_nvars _ _ _ H) as Hnv. pose proof H as (Hs & H0 & H1 & Hn).
  unfold wf. rewrite Hnv. split; [lia|]. split; [exact H0|]. split; [intros _; exact H1|].
  intros p Hp Hlt. destruct (Hn p Hp Hlt) as (Hv & _ & Hc).
  destruct (chain_prev nv t G p Ht H Hp Hlt) as (Pl & Pv).
  pose proof (chain_term_var nv t G t H Ht) as Vt.
  unfold wf_node; cbv zeta.
  destruct Hc as [(El & Eh)|(El & Eh)]; rewrite El, Eh; repeat split; try lia.
Qed.

Lemma chain_reduced nv t G : t < 2 -> chain_ok nv t G -> reduced G.
Proof.
  intros Ht (Hs & H0 & H1 & Hn). split.
  - intros p Hp Hlt. destruct (Hn p Hp Hlt) as (_ & _ & Hc). unfold prevc in Hc.
    destruct (N.eqb_spec p 2); destruct Hc as [(A1 & A2)|(A1 & A2)]; lia.
  - intros p q Hp Hpl Hq Hql E.
    destruct (Hn p Hp Hpl) as (_ & _ & Hc). destruct (Hn q Hq Hql) as (_ & _ & Hc').
    rewrite <- E in Hc'. unfold prevc in *.
    destruct (N.eqb_spec p 2), (N.eqb_spec q 2);
      destruct Hc as [(A1 & A2)|(A1 & A2)], Hc' as [(B1 & B2)|(B1 & B2)]; lia.
Qed.

Lemma chain_chk nv t G : t < 2 -> chain_ok nv t G -> forall k p, 2 <= p -> p < size G ->
  (N.to_nat (nv - var_of G p) < k)%nat -> chk k G 2 p = Some (p + 1).
Proof.
  intros Ht H. pose proof H as (Hs & H0 & H1 & Hn).
  induction k as [|k IH]; intros p Hp Hlt Hk; [lia|].
  destruct (Hn p Hp Hlt) as (Hv & Hvp & Hc). fold (var_of G p) in Hv, Hvp.
  destruct k as [|k]; [lia|].
  rewrite chk_S. destruct (N.ltb_spec p 2) as [|_]; [lia|].
  destruct (N.eq_dec p 2) as [->|Hne].
  - unfold prevc in Hc. cbn [N.eqb Pos.eqb] in Hc.
    destruct Hc as [(El & Eh)|(El & Eh)]; rewrite El, Eh;
      rewrite (chk_vis k G 2) by lia; rewrite (chk_vis k G 2) by lia; reflexivity.
  - assert (Ep : prevc t p = p - 1) by (unfold prevc; destruct (N.eqb_spec p 2); [lia|reflexivity]).
    rewrite Ep in Hc.
    assert (IHp : chk (S k) G 2 (p - 1) = Some p).
    { rewrite IH by lia. f_equal. lia. }
    destruct Hc as [(El & Eh)|(El & Eh)]; rewrite El, Eh.
    + rewrite IHp. rewrite (chk_vis k G p) by lia. rewrite N.eqb_refl. reflexivity.
    + rewrite (chk_vis k G 2) by lia. rewrite IHp. rewrite N.eqb_refl. reflexivity.
Qed.

Lemma chain_layout nv t G : t < 2 -> chain_ok nv t G -> layout G.
Proof.
  intros Ht H. pose proof H as (Hs & _ & _ & Hn). right. rewrite (chain_nvars _ _ _ H).
  destruct (N.eq_dec (size G) 2) as [E|NE].
  - rewrite E. apply chk_vis. lia.
  - rewrite (chain_chk nv t G Ht H) by lia. f_equal. lia.
Qed.

Lemma chain_canonical nv t G : t < 2 -> chain_ok nv t G -> Canonical G.
Proof.
  intros Ht H. split; [eapply chain_wf; eassumption|].
  split; [eapply chain_reduced; eassumption|eapply chain_layout; eassumption].
Qed.

Lemma chain_step_sem nv t G n : t < 2 -> chain_ok nv t G -> chain_ok nv t (G ++ [n]) ->
  nlow n < size G -> nhigh n < size G -> forall v,
  eval (G ++ [n]) v = if v (nvar n) then sem G (nhigh n) v else sem G (nlow n) v.
Proof.
  intros Ht HG HG' Hl Hh v.
  pose proof (chain_wf _ _ _ Ht HG) as WG. pose proof (chain_wf _ _ _ Ht HG') as WG'.
  destruct HG as (Hs & _). unfold eval. rewrite sapp1.
  replace (size G + 1 - 1) with (size G) by lia.
  rewrite sem_unfold; [|assumption|lia|rewrite sapp1; lia].
  unfold var_of. rewrite gapp_last. destruct (v (nvar n)); apply sem_app; assumption.
Qed.

Lemma top_app G n : 1 <= size G -> top (G ++ [n]) = nvar n.
Proof.
  intros H. unfold top, var_of. rewrite sapp1. replace (size G + 1 - 1) with (size G) by lia.
  rewrite gapp_last. reflexivity.
Qed.

Lemma canonical_mk_false nv : Canonical (mk_false nv).
Proof.
  unfold Canonical, mk_false. split; [|split].
  - unfold wf. change (size [mkNode nv 0 0]) with 1. split; [lia|]. split; [reflexivity|].
    split; intros; lia.
  - split; change (size [mkNode nv 0 0]) with 1; intros; lia.
  - left. reflexivity.
Qed.

Lemma eval_mk_false nv v : eval (mk_false nv) v = false.
Proof. reflexivity. Qed.
Lemma eval_mk_true nv v : eval (mk_true nv) v = true.
Proof. reflexivity. Qed.

(* ------------------------------------------------------------------------------------------ *)
(* pv_cells is strictly increasing in the variable                                             *)
Fixpoint asc (lo : N) (cells : list (N * bool)) : Prop :=
  match cells with [] => True | xc :: r => lo <= fst xc /\ asc (fst xc + 1) r end.

Lemma pv_cells_from_asc pv : forall i, asc i (pv_cells_from i pv).
Proof.
  induction pv as [|[c|] r IH]; intros i; cbn [pv_cells_from asc fst]; [exact I| |].
  - split; [lia|apply IH].
  - specialize (IH (i + 1)). revert IH. generalize (pv_cells_from (i + 1) r).
    intros [|xc l]; cbn [asc]; [auto|]. intros (H & H'). split; [lia|exact H'].
Qed.

Lemma pv_cells_asc pv : asc 0 (pv_cells pv).
Proof. apply pv_cells_from_asc. Qed.

(* ------------------------------------------------------------------------------------------ *)
(* Conjunctive chains                                                                          *)
Definition cnode (xc : N * bool) (root : N) : node :=
  if snd xc then mkNode (fst xc) 0 root else mkNode (fst xc) root 0.
Definition cstep (acc : bdd) (xc : N * bool) : bdd := acc ++ [cnode xc (size acc - 1)].

Lemma conj_chain_fold cells : forall acc, conj_chain cells acc = fold_left cstep cells acc.
Proof.
  induction cells as [|[x c] r IH]; intros acc; [reflexivity|].
  cbn [conj_chain fold_left]. rewrite IH. reflexivity.
Qed.

Lemma fold_left_rev_fr {A B} (f : B -> A -> B) (l : list A) (i : B) :
  fold_left f (rev l) i = fold_right (fun x a => f a x) i l.
Proof.
  pose proof (fold_left_rev_right (fun x a => f a x) (rev l) i) as H.
  rewrite rev_involutive in H. symmetry. exact H.
Qed.

Lemma mk_partial_valuation_fold nv pv :
  mk_partial_valuation nv pv = fold_right (fun xc a => cstep a xc) (mk_true nv) (pv_cells pv).
Proof. unfold mk_partial_valuation. rewrite conj_chain_fold. apply fold_left_rev_fr. Qed.

Lemma cstep_spec nv R i c : chain_ok nv 0 R -> i < nv -> i < top R ->
  chain_ok nv 0 (cstep R (i, c)) /\ top (cstep R (i, c)) = i /\
  forall v, eval (cstep R (i, c)) v = lit v (i, c) && eval R v.
Proof.
  intros HC Hi Ht. pose proof HC as (Hs & _).
  assert (HC' : chain_ok nv 0 (cstep R (i, c))).
  { apply chain_ext; try assumption.
    - destruct c; cbn; lia.
    - destruct c; cbn; lia.
    - assert (E : prevc 0 (size R) = size R - 1).
      { unfold prevc. destruct (N.eqb_spec (size R) 2) as [->|]; reflexivity. }
      rewrite E. destruct c; cbn; auto. }
  split; [exact HC'|]. split.
  - unfold cstep. rewrite top_app by lia. destruct c; reflexivity.
  - intros v. unfold cstep in *.
    rewrite (chain_step_sem nv 0 R _ ltac:(lia) HC HC') by (destruct c; cbn; lia).
    unfold lit, eval. cbn [fst snd]. destruct c; cbn [cnode snd fst nvar nlow nhigh]; destruct (v i); reflexivity.
Qed.

Lemma cchain_spec nv : forall pv i,
  forallb (fun xc => fst xc <? nv) (pv_cells_from i pv) = true ->
  let R := fold_right (fun xc a => cstep a xc) (mk_true nv) (pv_cells_from i pv) in
  chain_ok nv 0 R /\ N.min i nv <= top R /\ forall v, eval R v = forallb (lit v) (pv_cells_from i pv).
Proof.
  induction pv as [|[c|] r IH]; intros i Hr; cbv zeta in *; cbn [pv_cells_from] in *.
  - cbn [fold_right forallb]. split; [apply chain_true|]. split; [|reflexivity].
    change (top (mk_true nv)) with nv. lia.
  - cbn [forallb fold_right] in *. apply andb_true_iff in Hr. destruct Hr as (Hi & Hr).
    apply N.ltb_lt in Hi. cbn [fst] in Hi.
    destruct (IH (i + 1) Hr) as (HC & Ht & HS).
    pose proof (cstep_spec nv _ i c HC Hi) as X. destruct X as (HC' & Ht' & HS'); [lia|].
    split; [exact HC'|]. split; [rewrite Ht'; lia|].
    intros v. rewrite HS', HS. reflexivity.
  - destruct (IH (i + 1) Hr) as (HC & Ht & HS). split; [exact HC|]. split; [lia|exact HS].
Qed.

Theorem mk_conjunctive_clause_correct nv pv : cells_in_range nv pv = true ->
  exists r, mk_conjunctive_clause nv pv = Ok r /\ wf r /\ nvars r = nv /\
            (forall v, eval r v = clause_sat v pv) /\ Canonical r.
Proof.
  intros Hr. unfold mk_conjunctive_clause. rewrite Hr. eexists. split; [reflexivity|].
  rewrite mk_partial_valuation_fold.
  destruct (cchain_spec nv pv 0 Hr) as (HC & _ & HS). fold (pv_cells pv) in *.
  split; [apply (chain_wf nv 0); [lia|exact HC]|]. split; [exact (chain_nvars _ _ _ HC)|].
  split; [exact HS|]. apply (chain_canonical nv 0); [lia|exact HC].
Qed.
Print Assumptions mk_conjunctive_clause_correct.

Theorem mk_conjunctive_clause_panic nv pv : cells_in_range nv pv = false ->
  mk_conjunctive_clause nv pv = Panic.
Proof. intros H. unfold mk_conjunctive_clause. rewrite H. reflexivity. Qed.
Print Assumptions mk_conjunctive_clause_panic.

Theorem mk_conjunctive_clause_not_fuel nv pv : mk_conjunctive_clause nv pv <> OutOfFuel.
Proof. unfold mk_conjunctive_clause. destruct (cells_in_range nv pv); discriminate. Qed.

(* ------------------------------------------------------------------------------------------ *)
(* Disjunctive chains                                                                          *)
Definition dnode (xc : N * bool) (s : N) : node :=
  if snd xc then mkNode (fst xc) s 1 else mkNode (fst xc) 1 s.
Definition dstep (acc : bdd) (xc : N * bool) : bdd := acc ++ [dnode xc (prevc 1 (size acc))].

Lemma disj_chain_fold cells : forall s acc, s = prevc 1 (size acc) -> 2 <= size acc ->
  disj_chain cells s acc = fold_left dstep cells acc.
Proof.
  induction cells as [|[x c] r IH]; intros s acc Hs H2; [reflexivity|].
  cbn [disj_chain fold_left]. rewrite IH.
  - subst s. reflexivity.
  - unfold prevc. rewrite sapp1. destruct (N.eqb_spec (size acc + 1) 2); [lia|reflexivity].
  - rewrite sapp1. lia.
Qed.

Lemma dstep_spec nv R i c : chain_ok nv 1 R -> i < nv -> i < top R ->
  chain_ok nv 1 (dstep R (i, c)) /\ top (dstep R (i, c)) = i /\
  forall v, eval (dstep R (i, c)) v = lit v (i, c) || sem R (prevc 1 (size R)) v.
Proof.
  intros HC Hi Ht. pose proof HC as (Hs & _).
  assert (HC' : chain_ok nv 1 (dstep R (i, c))).
  { apply chain_ext; try assumption.
    - destruct c; cbn; lia.
    - destruct c; cbn; lia.
    - destruct c; cbn; auto. }
  assert (Hp : prevc 1 (size R) < size R).
  { unfold prevc. destruct (N.eqb_spec (size R) 2); lia. }
  split; [exact HC'|]. split.
  - unfold dstep. rewrite top_app by lia. destruct c; reflexivity.
  - intros v. unfold dstep in *.
    rewrite (chain_step_sem nv 1 R _ ltac:(lia) HC HC') by (destruct c; cbn; lia).
    unfold lit. cbn [fst snd]. destruct c; cbn [dnode snd fst nvar nlow nhigh]; destruct (v i); reflexivity.
Qed.

Lemma dstep_fold_size nv l :
  size (fold_right (fun xc a => dstep a xc) (mk_true nv) l) = 2 + N.of_nat (length l).
Proof.
  induction l as [|xc l IH]; [reflexivity|]. cbn [fold_right length]. unfold dstep at 1.
  rewrite sapp1, IH. lia.
Qed.

Lemma dchain_spec nv : forall pv i,
  forallb (fun xc => fst xc <? nv) (pv_cells_from i pv) = true ->
  let R := fold_right (fun xc a => dstep a xc) (mk_true nv) (pv_cells_from i pv) in
  chain_ok nv 1 R /\ N.min i nv <= top R /\
  forall v, sem R (prevc 1 (size R)) v = existsb (lit v) (pv_cells_from i pv).
Proof.
  induction pv as [|[c|] r IH]; intros i Hr; cbv zeta in *; cbn [pv_cells_from] in *.
  - cbn [fold_right existsb]. split; [apply chain_true|]. split; [|reflexivity].
    change (top (mk_true nv)) with nv. lia.
  - cbn [forallb fold_right existsb] in *. apply andb_true_iff in Hr. destruct Hr as (Hi & Hr).
    apply N.ltb_lt in Hi. cbn [fst] in Hi.
    destruct (IH (i + 1) Hr) as (HC & Ht & HS).
    pose proof (dstep_spec nv _ i c HC Hi) as X. destruct X as (HC' & Ht' & HS'); [lia|].
    split; [exact HC'|]. split; [rewrite Ht'; lia|].
    intros v. rewrite <- HS, <- HS'.
    set (R' := fold_right _ _ _) in *. unfold eval. f_equal.
    unfold prevc, dstep. rewrite sapp1. pose proof HC as (Hs & _).
    destruct (N.eqb_spec (size R' + 1) 2); [lia|reflexivity].
  - destruct (IH (i + 1) Hr) as (HC & Ht & HS). split; [exact HC|]. split; [lia|exact HS].
Qed.

Theorem mk_disjunctive_clause_correct nv pv : cells_in_range nv pv = true ->
  exists r, mk_disjunctive_clause nv pv = Ok r /\ wf r /\ nvars r = nv /\
            (forall v, eval r v = dclause_sat v pv) /\ Canonical r.
Proof.
  intros Hr. unfold mk_disjunctive_clause, dclause_sat.
  destruct (pv_cells pv) as [|xc L] eqn:E.
  - exists (mk_false nv). split; [reflexivity|]. pose proof (canonical_mk_false nv) as C.
    split; [exact (proj1 C)|]. split; [reflexivity|]. split; [reflexivity|exact C].
  - rewrite Hr, <- E. eexists. split; [reflexivity|].
    rewrite disj_chain_fold by (reflexivity || (change (size (mk_true nv)) with 2; lia)).
    rewrite fold_left_rev_fr.
    destruct (dchain_spec nv pv 0 Hr) as (HC & _ & HS). fold (pv_cells pv) in *.
    pose proof (dstep_fold_size nv (pv_cells pv)) as Hsz.
    set (R := fold_right _ _ _) in *.
    split; [apply (chain_wf nv 1); [lia|exact HC]|]. split; [exact (chain_nvars _ _ _ HC)|].
    split; [|apply (chain_canonical nv 1); [lia|exact HC]].
    intros v. etransitivity; [|apply HS]. unfold eval. f_equal. unfold prevc.
    rewrite E in Hsz. cbn [length] in Hsz.
    destruct (N.eqb_spec (size R) 2); [lia|reflexivity].
Qed.
Print Assumptions mk_disjunctive_clause_correct.

Theorem mk_disjunctive_clause_empty nv pv : pv_cells pv = [] -> mk_disjunctive_clause nv pv = Ok (mk_false nv).
Proof. intros E. unfold mk_disjunctive_clause. rewrite E. reflexivity. Qed.

Theorem mk_disjunctive_clause_panic nv pv : cells_in_range nv pv = false ->
  mk_disjunctive_clause nv pv = Panic.
Proof.
  intros H. unfold mk_disjunctive_clause. destruct (pv_cells pv) eqn:E.
  - unfold cells_in_range in H. rewrite E in H. discriminate.
  - rewrite H. reflexivity.
Qed.
Print Assumptions mk_disjunctive_clause_panic.

Theorem mk_disjunctive_clause_not_fuel nv pv : mk_disjunctive_clause nv pv <> OutOfFuel.
Proof.
  unfold mk_disjunctive_clause. destruct (pv_cells pv); [discriminate|].
  destruct (cells_in_range nv pv); discriminate.
Qed.

(* ------------------------------------------------------------------------------------------ *)
(* Literals                                                                                    *)
Lemma mk_literal_cstep nv x c : mk_literal nv x c = cstep (mk_true nv) (x, c).
Proof. destruct c; reflexivity. Qed.

Lemma mk_literal_correct nv x c : x < nv ->
  wf (mk_literal nv x c) /\ nvars (mk_literal nv x c) = nv /\
  (forall v, eval (mk_literal nv x c) v = Bool.eqb (v x) c) /\ Canonical (mk_literal nv x c).
Proof.
  intros Hx. rewrite mk_literal_cstep.
  destruct (cstep_spec nv (mk_true nv) x c (chain_true nv 0) Hx) as (HC & _ & HS).
  { unfold top. cbn. exact Hx. }
  split; [apply (chain_wf nv 0); [lia|exact HC]|]. split; [exact (chain_nvars _ _ _ HC)|].
  split; [|apply (chain_canonical nv 0); [lia|exact HC]].
  intros v. rewrite HS. rewrite eval_mk_true. unfold lit. cbn [fst snd]. apply andb_true_r.
Qed.

Theorem vs_mk_literal_correct nv x c : x < nv ->
  exists r, vs_mk_literal nv x c = Ok r /\ wf r /\ nvars r = nv /\
            (forall v, eval r v = Bool.eqb (v x) c) /\ Canonical r.
Proof.
  intros Hx. exists (mk_literal nv x c). split.
  - unfold vs_mk_literal. destruct (N.ltb_spec x nv); [reflexivity|lia].
  - apply mk_literal_correct; exact Hx.
Qed.
Print Assumptions vs_mk_literal_correct.

Theorem vs_mk_literal_ok_iff nv x c : (exists r, vs_mk_literal nv x c = Ok r) <-> x < nv.
Proof.
  unfold vs_mk_literal. destruct (N.ltb_spec x nv) as [H|H]; split; intros H'.
  - exact H.
  - eexists; reflexivity.
  - destruct H' as (r & Hr); discriminate.
  - lia.
Qed.

Theorem vs_mk_literal_panic_iff nv x c : vs_mk_literal nv x c = Panic <-> nv <= x.
Proof.
  unfold vs_mk_literal. destruct (N.ltb_spec x nv) as [H|H]; split; intros H'; try lia; try discriminate; reflexivity.
Qed.
Print Assumptions vs_mk_literal_panic_iff.

(* ------------------------------------------------------------------------------------------ *)
(* of_valuation                                                                                *)
Lemma cells_map_some_range nv : forall l i, i + N.of_nat (length l) <= nv ->
  forallb (fun xc => fst xc <? nv) (pv_cells_from i (map Some l)) = true.
Proof.
  induction l as [|c l IH]; intros i H; [reflexivity|].
  cbn [map pv_cells_from forallb fst]. cbn [length] in H. apply andb_true_iff. split.
  - apply N.ltb_lt. lia.
  - apply IH. lia.
Qed.

Lemma cells_map_some_sat v : forall l i,
  forallb (lit v) (pv_cells_from i (map Some l)) = true <->
  (forall j, (j < length l)%nat -> v (i + N.of_nat j) = nth j l false).
Proof.
  induction l as [|c l IH]; intros i.
  - cbn. split; [intros _ j Hj; lia|reflexivity].
  - cbn [map pv_cells_from forallb]. rewrite andb_true_iff, IH. unfold lit at 1. cbn [fst snd length].
    split.
    + intros (H0 & Hr) [|j] Hj.
      * cbn [nth]. replace (i + N.of_nat 0) with i by lia. apply eqb_prop. exact H0.
      * cbn [nth]. replace (i + N.of_nat (S j)) with (i + 1 + N.of_nat j) by lia. apply Hr. lia.
    + intros H. split.
      * specialize (H 0%nat ltac:(lia)). cbn [nth] in H. replace (i + N.of_nat 0) with i in H by lia.
        rewrite H. apply eqb_reflx.
      * intros j Hj. specialize (H (S j) ltac:(lia)). cbn [nth] in H.
        replace (i + N.of_nat (S j)) with (i + 1 + N.of_nat j) in H by lia. exact H.
Qed.

Theorem of_valuation_correct l :
  wf (of_valuation l) /\ nvars (of_valuation l) = N.of_nat (length l) /\
  (forall v, eval (of_valuation l) v = true <->
             forall i, (i < length l)%nat -> v (N.of_nat i) = nth i l false) /\
  Canonical (of_valuation l).
Proof.
  unfold of_valuation.
  assert (Hr : cells_in_range (N.of_nat (length l)) (map Some l) = true).
  { apply cells_map_some_range. lia. }
  destruct (mk_conjunctive_clause_correct _ _ Hr) as (r & E & W & Nv & S & C).
  unfold mk_conjunctive_clause in E. rewrite Hr in E. inversion E; subst r. clear E.
  split; [exact W|]. split; [exact Nv|]. split; [|exact C].
  intros v. rewrite S. unfold clause_sat.
  change (forallb (lit v) (pv_cells_from 0 (map Some l)) = true <->
          (forall i, (i < length l)%nat -> v (N.of_nat i) = nth i l false)).
  rewrite cells_map_some_sat. split; intros H j Hj; specialize (H j Hj);
    replace (0 + N.of_nat j) with (N.of_nat j) in * by lia; exact H.
Qed.
Print Assumptions of_valuation_correct.

(* the same with N-indexed positions: the diagram denotes exactly the valuation `val_of_list l`
   on the variables below `length l` *)
Corollary of_valuation_correct_N l v :
  eval (of_valuation l) v = true <-> forall x, x < N.of_nat (length l) -> v x = val_of_list l x.
Proof.
  destruct (of_valuation_correct l) as (_ & _ & S & _). rewrite S. unfold val_of_list. split.
  - intros H x Hx. specialize (H (N.to_nat x) ltac:(lia)). rewrite Nnat.N2Nat.id in H. exact H.
  - intros H i Hi. specialize (H (N.of_nat i) ltac:(lia)). rewrite Nnat.Nat2N.id in H. exact H.
Qed.

(* ------------------------------------------------------------------------------------------ *)
(* DNF / CNF                                                                                   *)
Lemma bdd_or_correct a b : wf a -> wf b -> nvars a = nvars b ->
  exists r, bdd_or a b = Ok r /\ Canonical r /\ nvars r = nvars a /\
            forall v, eval r v = eval a v || eval b v.
Proof.
  intros Wa Wb Nv. destruct or_table_ok as (T & C & F).
  destruct (fused_binary_flip_op_correct a b None None None op_or Wa Wb Nv eq_refl T C)
    as (r & E & K & N' & S).
  exists r. split; [exact E|]. split; [exact K|]. split; [exact N'|].
  intros v. rewrite S, F. reflexivity.
Qed.

Lemma bdd_and_correct a b : wf a -> wf b -> nvars a = nvars b ->
  exists r, bdd_and a b = Ok r /\ Canonical r /\ nvars r = nvars a /\
            forall v, eval r v = eval a v && eval b v.
Proof.
  intros Wa Wb Nv. destruct and_table_ok as (T & C & F).
  destruct (fused_binary_flip_op_correct a b None None None op_and Wa Wb Nv eq_refl T C)
    as (r & E & K & N' & S).
  exists r. split; [exact E|]. split; [exact K|]. split; [exact N'|].
  intros v. rewrite S, F. reflexivity.
Qed.

Lemma mk_dnf_fold_correct nv : forall cs acc,
  (forall c, In c cs -> cells_in_range nv c = true) -> Canonical acc -> nvars acc = nv ->
  exists r, mk_dnf_fold nv cs acc = Ok r /\ Canonical r /\ nvars r = nv /\
            forall v, eval r v = eval acc v || existsb (clause_sat v) cs.
Proof.
  induction cs as [|c cs IH]; intros acc Hr Ca Na.
  - exists acc. split; [reflexivity|]. split; [exact Ca|]. split; [exact Na|].
    intros v. cbn [existsb]. rewrite orb_false_r. reflexivity.
  - destruct (mk_conjunctive_clause_correct nv c (Hr c (or_introl eq_refl))) as (cb & Ec & Wc & Nc & Sc & _).
    destruct (bdd_or_correct acc cb (proj1 Ca) Wc ltac:(congruence)) as (r1 & E1 & C1 & N1 & S1).
    destruct (IH r1 (fun c' H => Hr c' (or_intror H)) C1 ltac:(congruence)) as (r & E & C & N' & S).
    exists r. cbn [mk_dnf_fold]. rewrite Ec. cbn [bind]. rewrite E1. cbn [bind].
    split; [exact E|]. split; [exact C|]. split; [exact N'|].
    intros v. rewrite S, S1, Sc. cbn [existsb]. rewrite orb_assoc. reflexivity.
Qed.

Theorem mk_dnf_correct : forall nv cs, (forall c, In c cs -> cells_in_range nv c = true) ->
  exists r, mk_dnf nv cs = Ok r /\ wf r /\ nvars r = nv /\
            (forall v, eval r v = existsb (clause_sat v) cs) /\ Canonical r.
Proof.
  intros nv cs Hr.
  destruct (mk_dnf_fold_correct nv cs (mk_false nv) Hr (canonical_mk_false nv) eq_refl)
    as (r & E & C & N' & S).
  exists r. split; [exact E|]. split; [exact (proj1 C)|]. split; [exact N'|]. split; [|exact C].
  intros v. rewrite S. reflexivity.
Qed.
Print Assumptions mk_dnf_correct.

Lemma mk_dnf_fold_panic nv : forall cs acc, Canonical acc -> nvars acc = nv ->
  forallb (cells_in_range nv) cs = false -> mk_dnf_fold nv cs acc = Panic.
Proof.
  induction cs as [|c cs IH]; intros acc Ca Na H; [discriminate|].
  cbn [forallb mk_dnf_fold] in *. destruct (cells_in_range nv c) eqn:Hc.
  - destruct (mk_conjunctive_clause_correct nv c Hc) as (cb & Ec & Wc & Nc & Sc & _).
    destruct (bdd_or_correct acc cb (proj1 Ca) Wc ltac:(congruence)) as (r1 & E1 & C1 & N1 & S1).
    rewrite Ec. cbn [bind]. rewrite E1. cbn [bind]. apply IH; [exact C1|congruence|exact H].
  - rewrite (mk_conjunctive_clause_panic nv c Hc). reflexivity.
Qed.

(* a clause with a cell outside the variable range makes the constructor panic (the clause
   diagrams before it are built and joined without incident); fuel never runs out *)
Theorem mk_dnf_panic nv cs : (exists c, In c cs /\ cells_in_range nv c = false) -> mk_dnf nv cs = Panic.
Proof.
  intros (c & Hin & Hc). apply mk_dnf_fold_panic; [apply canonical_mk_false|reflexivity|].
  destruct (forallb (cells_in_range nv) cs) eqn:F; [|reflexivity].
  rewrite forallb_forall in F. rewrite (F c Hin) in Hc. discriminate.
Qed.
Print Assumptions mk_dnf_panic.

Lemma forallb_false_ex {A} (f : A -> bool) l : forallb f l = false -> exists x, In x l /\ f x = false.
Proof.
  induction l as [|a l IH]; [discriminate|]. cbn [forallb]. destruct (f a) eqn:Fa.
  - intros H. destruct (IH H) as (x & Hin & Hx). exists x. split; [right; exact Hin|exact Hx].
  - intros _. exists a. split; [left; reflexivity|exact Fa].
Qed.

Theorem mk_dnf_panic_iff nv cs :
  mk_dnf nv cs = Panic <-> exists c, In c cs /\ cells_in_range nv c = false.
Proof.
  split; [|apply mk_dnf_panic]. intros H.
  destruct (forallb (cells_in_range nv) cs) eqn:F; [|apply forallb_false_ex; exact F].
  rewrite forallb_forall in F. destruct (mk_dnf_correct nv cs F) as (r & E & _). congruence.
Qed.

Theorem mk_dnf_not_fuel nv cs : mk_dnf nv cs <> OutOfFuel.
Proof.
  destruct (forallb (cells_in_range nv) cs) eqn:F.
  - rewrite forallb_forall in F. destruct (mk_dnf_correct nv cs F) as (r & E & _). congruence.
  - destruct (forallb_false_ex _ _ F) as (c & Hc). rewrite (mk_dnf_panic nv cs (ex_intro _ c Hc)). discriminate.
Qed.
Print Assumptions mk_dnf_not_fuel.

Lemma canonical_mk_true nv : Canonical (mk_true nv).
Proof. apply (chain_canonical nv 0); [lia|apply chain_true]. Qed.

Lemma mk_cnf_fold_correct nv : forall cs acc,
  (forall c, In c cs -> cells_in_range nv c = true) -> Canonical acc -> nvars acc = nv ->
  exists r, mk_cnf_fold nv cs acc = Ok r /\ Canonical r /\ nvars r = nv /\
            forall v, eval r v = eval acc v && forallb (dclause_sat v) cs.
Proof.
  induction cs as [|c cs IH]; intros acc Hr Ca Na.
  - exists acc. split; [reflexivity|]. split; [exact Ca|]. split; [exact Na|].
    intros v. cbn [forallb]. rewrite andb_true_r. reflexivity.
  - destruct (mk_disjunctive_clause_correct nv c (Hr c (or_introl eq_refl))) as (cb & Ec & Wc & Nc & Sc & _).
    destruct (bdd_and_correct acc cb (proj1 Ca) Wc ltac:(congruence)) as (r1 & E1 & C1 & N1 & S1).
    destruct (IH r1 (fun c' H => Hr c' (or_intror H)) C1 ltac:(congruence)) as (r & E & C & N' & S).
    exists r. cbn [mk_cnf_fold]. rewrite Ec. cbn [bind]. rewrite E1. cbn [bind].
    split; [exact E|]. split; [exact C|]. split; [exact N'|].
    intros v. rewrite S, S1, Sc. cbn [forallb]. rewrite andb_assoc. reflexivity.
Qed.

Theorem mk_cnf_correct : forall nv cs, (forall c, In c cs -> cells_in_range nv c = true) ->
  exists r, mk_cnf nv cs = Ok r /\ wf r /\ nvars r = nv /\
            (forall v, eval r v = forallb (dclause_sat v) cs) /\ Canonical r.
Proof.
  intros nv cs Hr.
  destruct (mk_cnf_fold_correct nv cs (mk_true nv) Hr (canonical_mk_true nv) eq_refl)
    as (r & E & C & N' & S).
  exists r. split; [exact E|]. split; [exact (proj1 C)|]. split; [exact N'|]. split; [|exact C].
  intros v. rewrite S. reflexivity.
Qed.
Print Assumptions mk_cnf_correct.

Lemma mk_cnf_fold_panic nv : forall cs acc, Canonical acc -> nvars acc = nv ->
  forallb (cells_in_range nv) cs = false -> mk_cnf_fold nv cs acc = Panic.
Proof.
  induction cs as [|c cs IH]; intros acc Ca Na H; [discriminate|].
  cbn [forallb mk_cnf_fold] in *. destruct (cells_in_range nv c) eqn:Hc.
  - destruct (mk_disjunctive_clause_correct nv c Hc) as (cb & Ec & Wc & Nc & Sc & _).
    destruct (bdd_and_correct acc cb (proj1 Ca) Wc ltac:(congruence)) as (r1 & E1 & C1 & N1 & S1).
    rewrite Ec. cbn [bind]. rewrite E1. cbn [bind]. apply IH; [exact C1|congruence|exact H].
  - rewrite (mk_disjunctive_clause_panic nv c Hc). reflexivity.
Qed.

Theorem mk_cnf_panic nv cs : (exists c, In c cs /\ cells_in_range nv c = false) -> mk_cnf nv cs = Panic.
Proof.
  intros (c & Hin & Hc). apply mk_cnf_fold_panic; [apply canonical_mk_true|reflexivity|].
  destruct (forallb (cells_in_range nv) cs) eqn:F; [|reflexivity].
  rewrite forallb_forall in F. rewrite (F c Hin) in Hc. discriminate.
Qed.
Print Assumptions mk_cnf_panic.

Theorem mk_cnf_panic_iff nv cs :
  mk_cnf nv cs = Panic <-> exists c, In c cs /\ cells_in_range nv c = false.
Proof.
  split; [|apply mk_cnf_panic]. intros H.
  destruct (forallb (cells_in_range nv) cs) eqn:F; [|apply forallb_false_ex; exact F].
  rewrite forallb_forall in F. destruct (mk_cnf_correct nv cs F) as (r & E & _). congruence.
Qed.

Theorem mk_cnf_not_fuel nv cs : mk_cnf nv cs <> OutOfFuel.
Proof.
  destruct (forallb (cells_in_range nv) cs) eqn:F.
  - rewrite forallb_forall in F. destruct (mk_cnf_correct nv cs F) as (r & E & _). congruence.
  - destruct (forallb_false_ex _ _ F) as (c & Hc). rewrite (mk_cnf_panic nv cs (ex_intro _ c Hc)). discriminate.
Qed.
Print Assumptions mk_cnf_not_fuel.

(* concrete instances: empty list, empty clause, duplicates, complementary clauses *)
Example dnf_ex1 : mk_dnf 3 [] = Ok (mk_false 3). Proof. reflexivity. Qed.
Example dnf_ex2 : mk_dnf 3 [[Some true; None; Some false]; []] = Ok (mk_true 3). Proof. vm_compute. reflexivity. Qed.
Example dnf_ex3 : mk_dnf 2 [[Some true]; [Some false]; [Some true]] = Ok (mk_true 2). Proof. vm_compute. reflexivity. Qed.
Example dnf_ex4 : mk_dnf 2 [[Some true]; [None; None; Some false]] = Panic. Proof. vm_compute. reflexivity. Qed.
Example cnf_ex1 : mk_cnf 2 [[Some true]; [Some false]] = Ok (mk_false 2). Proof. vm_compute. reflexivity. Qed.

Print Assumptions pv_cells_asc.
Print Assumptions mk_conjunctive_clause_not_fuel.
Print Assumptions mk_disjunctive_clause_empty.
Print Assumptions mk_disjunctive_clause_not_fuel.
Print Assumptions vs_mk_literal_ok_iff.
Print Assumptions of_valuation_correct_N.
Print Assumptions mk_dnf_panic_iff.
Print Assumptions mk_cnf_panic_iff.
