(* Proofs/Thresholds.v — the threshold constructors mk_sat_exactly_k / mk_sat_up_to_k
   (Model/Ops.v: all_false_clause, sat_round, sat_iter, mk_sat_k). *)
From Coq Require Import List NArith Lia Bool PeanoNat.
Import ListNotations.
From BddVerif Require Import Model.Bdd Model.Apply Model.Ops Proofs.Sem Proofs.Canon Proofs.ApplySem Proofs.ApplyTop
  Proofs.NormalForms.
Open Scope N_scope.

(* number of variables of l that are true under v *)
Fixpoint count_true (v : val) (l : list N) : N :=
  match l with [] => 0 | x :: r => (if v x then 1 else 0) + count_true v r end.

(* ------------------------------------------------------------------------------------------ *)
(* Partial valuations: cells, pv_set, pv_from_values                                           *)
Lemma nth_nil_none (y : nat) : nth y (@nil (option bool)) None = None.
Proof. destruct y; reflexivity. Qed.

Lemma pv_set_nth : forall x pv c y,
  nth y (pv_set pv x c) None = if Nat.eqb y x then c else nth y pv None.
Proof.
  induction x as [|k IH]; intros pv c y.
  - destruct pv as [|a r]; destruct y as [|y]; cbn [pv_set nth Nat.eqb]; try reflexivity.
    destruct y; reflexivity.
  - destruct pv as [|a r]; destruct y as [|y]; cbn [pv_set nth Nat.eqb]; try reflexivity.
    + rewrite IH. destruct y; reflexivity.
    + apply IH.
Qed.

Lemma pv_get_set pv x c y :
  pv_get (pv_set pv (N.to_nat x) c) y = if y =? x then c else pv_get pv y.
Proof.
  unfold pv_get. rewrite pv_set_nth.
  destruct (Nat.eqb_spec (N.to_nat y) (N.to_nat x)) as [E|NE], (N.eqb_spec y x) as [E'|NE']; try reflexivity.
  - exfalso. apply NE'. now apply Nnat.N2Nat.inj.
  - exfalso. apply NE. now rewrite E'.
Qed.

Lemma pv_cells_from_in : forall pv i x c,
  In (x, c) (pv_cells_from i pv) <-> i <= x /\ nth (N.to_nat (x - i)) pv None = Some c.
Proof.
  induction pv as [|[c0|] r IH]; intros i x c; cbn [pv_cells_from].
  - rewrite nth_nil_none. cbn. split; [tauto|intros (_ & H); discriminate].
  - cbn [In]. rewrite IH. split.
    + intros [E|(Hle & Hn)].
      * inversion E; subst. split; [lia|]. rewrite N.sub_diag. reflexivity.
      * split; [lia|]. replace (N.to_nat (x - i)) with (S (N.to_nat (x - (i + 1)))) by lia. exact Hn.
    + intros (Hle & Hn). destruct (N.eq_dec x i) as [->|Hne].
      * rewrite N.sub_diag in Hn. cbn in Hn. left. congruence.
      * right. split; [lia|].
        replace (N.to_nat (x - i)) with (S (N.to_nat (x - (i + 1)))) in Hn by lia. exact Hn.
  - rewrite IH. split.
    + intros (Hle & Hn). split; [lia|].
      replace (N.to_nat (x - i)) with (S (N.to_nat (x - (i + 1)))) by lia. exact Hn.
    + intros (Hle & Hn). destruct (N.eq_dec x i) as [->|Hne].
      * rewrite N.sub_diag in Hn. cbn in Hn. discriminate.
      * split; [lia|].
        replace (N.to_nat (x - i)) with (S (N.to_nat (x - (i + 1)))) in Hn by lia. exact Hn.
Qed.

Lemma pv_cells_in pv x c : In (x, c) (pv_cells pv) <-> pv_get pv x = Some c.
Proof.
  unfold pv_cells, pv_get. rewrite pv_cells_from_in. rewrite N.sub_0_r. split; [tauto|].
  intros H; split; [lia|exact H].
Qed.

Lemma all_false_get : forall vars pv0 y,
  pv_get (fold_left (fun pv xc => pv_set pv (N.to_nat (fst xc)) (Some (snd xc)))
                    (map (fun x => (x, false)) vars) pv0) y
  = if mem y vars then Some false else pv_get pv0 y.
Proof.
  induction vars as [|x r IH]; intros pv0 y; [reflexivity|].
  cbn [map fold_left fst snd]. rewrite IH. unfold mem. cbn [existsb]. fold (mem y r).
  rewrite pv_get_set. destruct (mem y r), (y =? x); reflexivity.
Qed.

Lemma all_false_clause_get vars y :
  pv_get (all_false_clause vars) y = if mem y vars then Some false else None.
Proof.
  unfold all_false_clause, pv_from_values. rewrite all_false_get.
  unfold pv_get. rewrite nth_nil_none. reflexivity.
Qed.

Lemma mem_in y vars : mem y vars = true <-> In y vars.
Proof.
  unfold mem. rewrite existsb_exists. split.
  - intros (x & Hin & E). apply N.eqb_eq in E. now subst.
  - intros H. exists y. split; [exact H|apply N.eqb_refl].
Qed.

Lemma all_false_cells vars x c :
  In (x, c) (pv_cells (all_false_clause vars)) <-> In x vars /\ c = false.
Proof.
  rewrite pv_cells_in, all_false_clause_get. destruct (mem x vars) eqn:M.
  - apply mem_in in M. split; [intros E; split; [exact M|congruence]|intros (_ & ->); reflexivity].
  - split; [discriminate|]. intros (H & _). apply mem_in in H. congruence.
Qed.

Lemma all_false_range nv vars : (forall x, In x vars -> x < nv) ->
  cells_in_range nv (all_false_clause vars) = true.
Proof.
  intros H. unfold cells_in_range. apply forallb_forall. intros [x c] Hin.
  apply all_false_cells in Hin. destruct Hin as (Hin & _). apply N.ltb_lt. cbn [fst]. auto.
Qed.

Lemma all_false_out_of_range nv vars x : In x vars -> nv <= x ->
  cells_in_range nv (all_false_clause vars) = false.
Proof.
  intros Hin Hx. unfold cells_in_range.
  destruct (forallb (fun xc => fst xc <? nv) (pv_cells (all_false_clause vars))) eqn:F; [|reflexivity].
  rewrite forallb_forall in F. specialize (F (x, false)). cbn [fst] in F.
  rewrite all_false_cells in F. specialize (F (conj Hin eq_refl)). apply N.ltb_lt in F. lia.
Qed.

Lemma all_false_sat v vars :
  clause_sat v (all_false_clause vars) = forallb (fun x => negb (v x)) vars.
Proof.
  apply eq_iff_eq_true. unfold clause_sat. rewrite !forallb_forall. split.
  - intros H x Hin. specialize (H (x, false)). cbn [fst snd] in H.
    rewrite all_false_cells in H. specialize (H (conj Hin eq_refl)).
    destruct (v x); [discriminate|reflexivity].
  - intros H [x c] Hin. apply all_false_cells in Hin. destruct Hin as (Hin & ->).
    specialize (H x Hin). cbn [fst snd]. destruct (v x); [discriminate|reflexivity].
Qed.

(* ------------------------------------------------------------------------------------------ *)
(* Counting                                                                                    *)
Lemma flipv_same v x : flipv v x x = negb (v x).
Proof. unfold flipv. apply upd_same. Qed.
Lemma flipv_other v x y : y <> x -> flipv v x y = v y.
Proof. unfold flipv. apply upd_other. Qed.

Lemma count_flip_notin v x l : ~ In x l -> count_true (flipv v x) l = count_true v l.
Proof.
  induction l as [|y r IH]; intros H; [reflexivity|]. cbn [count_true].
  rewrite flipv_other by (intros ->; apply H; left; reflexivity).
  rewrite IH by (intros H'; apply H; right; exact H'). reflexivity.
Qed.

(* the key counting lemma *)
Lemma count_flip_in v x l : NoDup l -> In x l -> v x = true ->
  count_true (flipv v x) l + 1 = count_true v l.
Proof.
  induction l as [|y r IH]; intros ND Hin Hv; [destruct Hin|].
  inversion ND as [|y' r' Hny ND']; subst. cbn [count_true].
  destruct (N.eq_dec y x) as [->|Hne].
  - rewrite flipv_same, Hv. cbn [negb]. rewrite count_flip_notin by exact Hny. lia.
  - destruct Hin as [E|Hin]; [congruence|].
    rewrite flipv_other by exact Hne. rewrite <- (IH ND' Hin Hv). lia.
Qed.

Lemma count_pos_ex v l : 1 <= count_true v l -> exists x, In x l /\ v x = true.
Proof.
  induction l as [|y r IH]; cbn [count_true]; intros H; [lia|].
  destruct (v y) eqn:Vy.
  - exists y. split; [left; reflexivity|exact Vy].
  - destruct (IH ltac:(lia)) as (x & Hin & Hx). exists x. split; [right; exact Hin|exact Hx].
Qed.

Lemma count_zero_iff v l : count_true v l = 0 <-> forall x, In x l -> v x = false.
Proof.
  induction l as [|y r IH]; cbn [count_true].
  - split; [intros _ x []|reflexivity].
  - split.
    + intros H x [->|Hin].
      * destruct (v x); [lia|reflexivity].
      * apply IH; [|exact Hin]. destruct (v y); lia.
    + intros H. rewrite (H y (or_introl eq_refl)). rewrite (proj2 IH); [reflexivity|].
      intros x Hin. apply H. right. exact Hin.
Qed.

Lemma all_false_count v vars :
  forallb (fun x => negb (v x)) vars = (count_true v (nodup N.eq_dec vars) =? 0).
Proof.
  apply eq_iff_eq_true. rewrite forallb_forall, N.eqb_eq, count_zero_iff. split.
  - intros H x Hin. apply nodup_In in Hin. specialize (H x Hin). now destruct (v x).
  - intros H x Hin. rewrite (H x); [reflexivity|]. apply nodup_In. exact Hin.
Qed.

(* the set reached after j rounds *)
Definition thr (upto : bool) (v : val) (l : list N) (j : N) : bool :=
  if upto then count_true v l <=? j else count_true v l =? j.

(* one round, semantically: S  |->  [S u] U_x flip_x (S /\ ~x) *)
Lemma round_sem (upto : bool) (v : val) (vars : list N) (j : N) :
  (if upto then thr upto v (nodup N.eq_dec vars) j else false) ||
  existsb (fun x => thr upto (flipv v x) (nodup N.eq_dec vars) j && v x) vars
  = thr upto v (nodup N.eq_dec vars) (j + 1).
Proof.
  set (L := nodup N.eq_dec vars).
  assert (A : forall x, In x vars -> v x = true -> count_true (flipv v x) L + 1 = count_true v L).
  { intros x Hin Hv. apply count_flip_in; [apply NoDup_nodup|apply nodup_In; exact Hin|exact Hv]. }
  assert (B : 1 <= count_true v L -> exists x, In x vars /\ v x = true).
  { intros H. destruct (count_pos_ex v L H) as (x & Hin & Hx). exists x. split; [|exact Hx].
    apply nodup_In in Hin. exact Hin. }
  apply eq_iff_eq_true. rewrite orb_true_iff, existsb_exists. unfold thr. destruct upto.
  - rewrite !N.leb_le. split.
    + intros [H|(x & Hin & H)]; [lia|]. apply andb_true_iff in H. destruct H as (H & Hv).
      apply N.leb_le in H. specialize (A x Hin Hv). lia.
    + intros H. destruct (N.le_gt_cases (count_true v L) j) as [Hle|Hgt]; [left; exact Hle|right].
      destruct (B ltac:(lia)) as (x & Hin & Hv). exists x. split; [exact Hin|].
      rewrite Hv, andb_true_r. apply N.leb_le. specialize (A x Hin Hv). lia.
  - rewrite N.eqb_eq. split.
    + intros [H|(x & Hin & H)]; [discriminate|]. apply andb_true_iff in H. destruct H as (H & Hv).
      apply N.eqb_eq in H. specialize (A x Hin Hv). lia.
    + intros H. right. destruct (B ltac:(lia)) as (x & Hin & Hv). exists x. split; [exact Hin|].
      rewrite Hv, andb_true_r. apply N.eqb_eq. specialize (A x Hin Hv). lia.
Qed.

(* ------------------------------------------------------------------------------------------ *)
(* The diagram-level loops                                                                     *)
Lemma prop_correct nv result x : wf result -> nvars result = nv -> x < nv ->
  exists nx p, vs_mk_literal nv x false = Ok nx /\
    fused_binary_flip_op result nx None None (Some x) op_and = Ok p /\
    Canonical p /\ nvars p = nv /\ forall v, eval p v = eval result (flipv v x) && v x.
Proof.
  intros W Nv Hx.
  destruct (vs_mk_literal_correct nv x false Hx) as (nx & Ex & Wx & Nx & Sx & _).
  destruct and_table_ok as (T & C & F).
  assert (FL : flips_ok (nvars result) None None (Some x) = true).
  { unfold flips_ok. cbn [flip_ok andb]. apply N.ltb_lt. lia. }
  destruct (fused_binary_flip_op_correct result nx None None (Some x) op_and W Wx ltac:(congruence) FL T C)
    as (p & Ep & Cp & Np & Sp).
  exists nx, p. split; [exact Ex|]. split; [exact Ep|]. split; [exact Cp|]. split; [congruence|].
  intros v. rewrite Sp, F. cbn [oflip]. rewrite Sx. rewrite flipv_same.
  destruct (v x); reflexivity.
Qed.

(* single-round lemma: acc |-> acc \/ U_x flip_x (result /\ ~x) *)
Lemma sat_round_correct nv result : wf result -> nvars result = nv ->
  forall vars acc, (forall x, In x vars -> x < nv) -> Canonical acc -> nvars acc = nv ->
  exists r, sat_round nv vars result acc = Ok r /\ Canonical r /\ nvars r = nv /\
    forall v, eval r v = eval acc v || existsb (fun x => eval result (flipv v x) && v x) vars.
Proof.
  intros W Nv. induction vars as [|x vars IH]; intros acc Hr Ca Na.
  - exists acc. split; [reflexivity|]. split; [exact Ca|]. split; [exact Na|].
    intros v. cbn [existsb]. now rewrite orb_false_r.
  - destruct (prop_correct nv result x W Nv (Hr x (or_introl eq_refl))) as (nx & p & Ex & Ep & Cp & Np & Sp).
    destruct (bdd_or_correct acc p (proj1 Ca) (proj1 Cp) ltac:(congruence)) as (a' & Ea & Ca' & Na' & Sa).
    destruct (IH a' (fun y H => Hr y (or_intror H)) Ca' ltac:(congruence)) as (r & E & C & N' & S).
    exists r. cbn [sat_round]. rewrite Ex. cbn [bind]. rewrite Ep. cbn [bind]. rewrite Ea. cbn [bind].
    split; [exact E|]. split; [exact C|]. split; [exact N'|].
    intros v. rewrite S, Sa, Sp. cbn [existsb]. now rewrite orb_assoc.
Qed.
Print Assumptions sat_round_correct.

Lemma existsb_ext_all {A} (f g : A -> bool) l : (forall x, f x = g x) -> existsb f l = existsb g l.
Proof. intros H. induction l as [|a l IH]; [reflexivity|]. cbn [existsb]. now rewrite H, IH. Qed.

Lemma sat_iter_correct nv vars upto : (forall x, In x vars -> x < nv) ->
  forall k result j, Canonical result -> nvars result = nv ->
  (forall v, eval result v = thr upto v (nodup N.eq_dec vars) j) ->
  exists r, sat_iter k nv vars upto result = Ok r /\ Canonical r /\ nvars r = nv /\
    forall v, eval r v = thr upto v (nodup N.eq_dec vars) (j + N.of_nat k).
Proof.
  intros Hr. induction k as [|k IH]; intros result j Cr Nr Sr.
  - exists result. split; [reflexivity|]. split; [exact Cr|]. split; [exact Nr|].
    intros v. rewrite Sr. f_equal. lia.
  - assert (Ca : Canonical (if upto then result else mk_false nv)) by (destruct upto; [exact Cr|apply canonical_mk_false]).
    assert (Na : nvars (if upto then result else mk_false nv) = nv) by (destruct upto; [exact Nr|reflexivity]).
    destruct (sat_round_correct nv result (proj1 Cr) Nr vars _ Hr Ca Na) as (r1 & E1 & C1 & N1 & S1).
    destruct (IH r1 (j + 1) C1 N1) as (r & E & C & N' & S).
    { intros v. rewrite S1. rewrite <- round_sem.
      f_equal.
      - destruct upto; [apply Sr|reflexivity].
      - apply existsb_ext_all. intros x. rewrite Sr. reflexivity. }
    exists r. cbn [sat_iter]. rewrite E1. cbn [bind].
    split; [exact E|]. split; [exact C|]. split; [exact N'|].
    intros v. rewrite S. f_equal. lia.
Qed.

Theorem mk_sat_k_correct upto nv k vars : (forall x, In x vars -> x < nv) ->
  exists r, mk_sat_k upto nv k vars = Ok r /\ wf r /\ nvars r = nv /\ Canonical r /\
    forall v, eval r v = if upto then count_true v (nodup N.eq_dec vars) <=? k
                         else count_true v (nodup N.eq_dec vars) =? k.
Proof.
  intros Hr. unfold mk_sat_k.
  destruct (mk_conjunctive_clause_correct nv _ (all_false_range nv vars Hr)) as (r0 & E0 & W0 & N0 & S0 & C0).
  destruct (sat_iter_correct nv vars upto Hr (N.to_nat k) r0 0 C0 N0) as (r & E & C & N' & S).
  { intros v. rewrite S0, all_false_sat, all_false_count. unfold thr. destruct upto; [|reflexivity].
    destruct (N.eqb_spec (count_true v (nodup N.eq_dec vars)) 0), (N.leb_spec (count_true v (nodup N.eq_dec vars)) 0);
      try reflexivity; lia. }
  exists r. rewrite E0. cbn [bind]. split; [exact E|]. split; [exact (proj1 C)|]. split; [exact N'|].
  split; [exact C|]. intros v. rewrite S. unfold thr. rewrite Nnat.N2Nat.id. reflexivity.
Qed.
Print Assumptions mk_sat_k_correct.

Corollary mk_sat_exactly_k_correct nv k vars : (forall x, In x vars -> x < nv) ->
  exists r, mk_sat_k false nv k vars = Ok r /\ wf r /\ nvars r = nv /\ Canonical r /\
    forall v, eval r v = (count_true v (nodup N.eq_dec vars) =? k).
Proof. exact (mk_sat_k_correct false nv k vars). Qed.
Print Assumptions mk_sat_exactly_k_correct.

Corollary mk_sat_up_to_k_correct nv k vars : (forall x, In x vars -> x < nv) ->
  exists r, mk_sat_k true nv k vars = Ok r /\ wf r /\ nvars r = nv /\ Canonical r /\
    forall v, eval r v = (count_true v (nodup N.eq_dec vars) <=? k).
Proof. exact (mk_sat_k_correct true nv k vars). Qed.
Print Assumptions mk_sat_up_to_k_correct.

(* a listed variable outside the range: the constructor panics (debug_assert of the clause) *)
Theorem mk_sat_k_panic upto nv k vars : (exists x, In x vars /\ nv <= x) -> mk_sat_k upto nv k vars = Panic.
Proof.
  intros (x & Hin & Hx). unfold mk_sat_k.
  rewrite (mk_conjunctive_clause_panic nv _ (all_false_out_of_range nv vars x Hin Hx)). reflexivity.
Qed.
Print Assumptions mk_sat_k_panic.

Theorem mk_sat_k_not_fuel upto nv k vars : mk_sat_k upto nv k vars <> OutOfFuel.
Proof.
  destruct (forallb (fun x => x <? nv) vars) eqn:F.
  - rewrite forallb_forall in F.
    destruct (mk_sat_k_correct upto nv k vars) as (r & E & _); [|congruence].
    intros x Hin. apply N.ltb_lt. auto.
  - destruct (forallb_false_ex _ _ F) as (x & Hin & Hx). apply N.ltb_ge in Hx.
    rewrite (mk_sat_k_panic upto nv k vars (ex_intro _ x (conj Hin Hx))). discriminate.
Qed.
Print Assumptions mk_sat_k_not_fuel.

(* concrete instance with a repeated variable: exactly-1 / up-to-1 over {0,2} in 3 variables *)
Example sat_ex1 : exists r, mk_sat_k false 3 1 [0; 2; 0] = Ok r /\
  eval r (val_of_list [true; true; false]) = true /\ eval r (val_of_list [true; false; true]) = false /\
  eval r (val_of_list [false; true; false]) = false.
Proof. vm_compute. eexists. repeat split. Qed.
Example sat_ex2 : exists r, mk_sat_k true 3 1 [0; 2; 0] = Ok r /\
  eval r (val_of_list [true; true; false]) = true /\ eval r (val_of_list [true; false; true]) = false /\
  eval r (val_of_list [false; true; false]) = true.
Proof. vm_compute. eexists. repeat split. Qed.
