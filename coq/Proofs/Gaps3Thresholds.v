(* Proofs/Gaps3Thresholds.v — two-sided panic condition of mk_sat_exactly_k / mk_sat_up_to_k (C16). *)
From Coq Require Import List NArith Lia Bool.
Import ListNotations.
From BddVerif Require Import Model.Bdd Model.Apply Model.Ops Proofs.Sem Proofs.Canon Proofs.NormalForms Proofs.Thresholds.
Open Scope N_scope.

Lemma vars_range_dec nv (vars : list N) :
  (forall x, In x vars -> x < nv) \/ (exists x, In x vars /\ nv <= x).
Proof.
  destruct (forallb (fun x => x <? nv) vars) eqn:F.
  - left. rewrite forallb_forall in F. intros x Hin. apply N.ltb_lt. auto.
  - right. destruct (forallb_false_ex _ _ F) as (x & Hin & Hx). apply N.ltb_ge in Hx. eauto.
Qed.

(* Ok exactly when every listed variable is in range — any k, repetitions allowed *)
Theorem mk_sat_k_ok_iff upto nv k vars :
  (exists r, mk_sat_k upto nv k vars = Ok r) <-> (forall x, In x vars -> x < nv).
Proof.
  split.
  - intros (r & E). destruct (vars_range_dec nv vars) as [H|H]; [exact H|].
    rewrite (mk_sat_k_panic upto nv k vars H) in E. discriminate.
  - intros H. destruct (mk_sat_k_correct upto nv k vars H) as (r & E & _). eauto.
Qed.
Print Assumptions mk_sat_k_ok_iff.

(* … Panic exactly otherwise *)
Theorem mk_sat_k_panic_iff upto nv k vars :
  mk_sat_k upto nv k vars = Panic <-> (exists x, In x vars /\ nv <= x).
Proof.
  split.
  - intros E. destruct (vars_range_dec nv vars) as [H|H]; [|exact H].
    destruct (mk_sat_k_correct upto nv k vars H) as (r & E' & _). congruence.
  - apply mk_sat_k_panic.
Qed.
Print Assumptions mk_sat_k_panic_iff.

(* the complete case split in one statement: nothing but Ok (with the counting semantics) or Panic *)
Theorem mk_sat_k_total upto nv k vars :
  ((forall x, In x vars -> x < nv) /\
     exists r, mk_sat_k upto nv k vars = Ok r /\ Canonical r /\ nvars r = nv /\
       forall v, eval r v = if upto then count_true v (nodup N.eq_dec vars) <=? k
                            else count_true v (nodup N.eq_dec vars) =? k) \/
  ((exists x, In x vars /\ nv <= x) /\ mk_sat_k upto nv k vars = Panic).
Proof.
  destruct (vars_range_dec nv vars) as [H|H].
  - left. split; [exact H|]. destruct (mk_sat_k_correct upto nv k vars H) as (r & E & _ & N' & C & S).
    exists r. auto.
  - right. split; [exact H|]. now apply mk_sat_k_panic.
Qed.
Print Assumptions mk_sat_k_total.

Example sat_ok_iff_ex : mk_sat_k false 3 7 [2; 2; 0] <> Panic /\ mk_sat_k true 3 0 [1; 3; 1] = Panic /\
  mk_sat_k false 0 5 [] = Ok (mk_false 0) /\ mk_sat_k true 0 5 [] = Ok (mk_true 0).
Proof. vm_compute. repeat split. discriminate. Qed.
