(* Proofs/SelectCube.v — the SEMANTIC reading of is_clause / is_valuation on canonical diagrams.

   Proofs/SelectPred.v characterises is_clause syntactically (`unique_path`: exactly one root-to-1 path), which is what the
   walk decides on every benign diagram; Proofs/SelectBenign.v shows that on NON-reduced diagrams this is strictly stronger
   than "the function is a single cube" (`is_cube`, `is_clause_benign_refuted`).  Here: on a reduced valid diagram the two
   notions coincide, node by node:

     unique_path_cube   wf, nz       a unique path ds from p to 1  ->  sem b p v = true <-> v follows ds
                                     (every sibling link along the path is 0, because a non-zero pointer reaches 1)
     cube_unique_path   wf, reduced  sem b p is a cube  ->  p has a unique path to 1
                                     (a decision node whose variable the cube does not mention would have two children
                                      with the same function, i.e. low = high by sem_inj; one whose variable the cube
                                      fixes to c has child (negb c) unsatisfiable, i.e. equal to 0)

   so  is_clause b = Ok true  <->  is_cube b  for Canonical b (`is_clause_semantic`; only wf and reduced are used:
   `is_clause_semantic_reduced`).  A cube is a satisfiable conjunction of literals over distinct variables: the empty list
   (the tautology) counts, a contradiction does not (`cube_not_false`).  The literals of a cube of a valid diagram are
   automatically below nvars (`is_cube_in_iff`), so the range-restricted notion `is_cube_in` is equivalent.

   is_valuation: `unique_sat_list` of SelectPred.v ALREADY is the semantic statement in the library's own vocabulary
   (exactly one Vec<bool> of length nvars satisfies the diagram; `sat_list b l := length l = nvars b /\ eval b (val_of_list l)
   = true`).  Two function-level restatements are added: exactly one satisfying valuation up to the variables >= nvars, which
   the diagram cannot read (`is_valuation_semantic`), and "a cube that fixes every variable" (`is_valuation_minterm`). *)
From Coq Require Import List PeanoNat NArith Lia Bool FinFun.
Import ListNotations.
From BddVerif Require Import Model.Bdd Model.Apply Model.Ops Model.Select Proofs.Sem Proofs.Canon Proofs.Reflect
  Proofs.PvalSem Proofs.SelectBase Proofs.SelectWalk Proofs.SelectPred Proofs.SelectBenign.
Open Scope N_scope.

(* ======================================================================================== *)
(* unique path -> cube                                                                       *)
Lemma unique_path_cube b : wf b -> nz b -> forall ds p, valid b p -> path b p ds 1 ->
  (forall ds', path b p ds' 1 -> ds' = ds) -> forall v, sem b p v = true <-> follows v ds.
Proof.
  intros W R. induction ds as [|[x c] r IH]; intros p V P U v.
  - cbn [path] in P. subst p. split; [intros _ y d []|intros _; reflexivity].
  - pose proof P as P0. cbn [path fst snd] in P. destruct P as (Hp & Hlt & Hx & P).
    destruct (child_valid b p c W Hp Hlt) as (Vc & _).
    destruct (child_valid b p (negb c) W Hp Hlt) as (Vn & _).
    assert (Hz : child b p (negb c) = 0).
    { destruct (N.eq_dec (child b p (negb c)) 0) as [E|E]; [exact E|exfalso].
      destruct (nonzero_path b _ W R Vn E) as (dl & Pl).
      assert (E' : (var_of b p, negb c) :: dl = (x, c) :: r)
        by (apply U; cbn [path fst snd]; repeat split; assumption).
      injection E' as _ Hc _. destruct c; discriminate. }
    assert (U' : forall r', path b (child b p c) r' 1 -> r' = r).
    { intros r' Pr'. assert (E' : (x, c) :: r' = (x, c) :: r)
        by (apply U; cbn [path fst snd]; repeat split; assumption).
      now inversion E'. }
    rewrite follows_cons. rewrite <- (IH _ Vc P U' v). subst x. split.
    + intros Hs. exact (sem_forced b p c v W Hp Hlt Hz Hs).
    + intros (Ev & Hs). rewrite sem_unfold by assumption. rewrite Ev. exact Hs.
Qed.

(* ======================================================================================== *)
(* cube -> unique path                                                                       *)
(* the function of node p is a satisfiable conjunction of literals (consistency instead of NoDup: closed under
   dropping a variable without any list surgery) *)
Definition cube_at (b : bdd) (p : N) : Prop :=
  exists ds : list dec, (exists v0, follows v0 ds) /\ forall v, sem b p v = true <-> follows v ds.

Definition drop_var (x : N) (ds : list dec) : list dec := filter (fun d => negb (fst d =? x)) ds.

Lemma in_drop_var x ds y d : In (y, d) (drop_var x ds) <-> In (y, d) ds /\ y <> x.
Proof.
  unfold drop_var. rewrite filter_In. cbn [fst]. rewrite negb_true_iff, N.eqb_neq. reflexivity.
Qed.

Lemma follows_upd_drop v0 ds v x c : follows v0 ds -> In (x, c) ds ->
  (follows (upd v x c) ds <-> follows v (drop_var x ds)).
Proof.
  intros F0 Hin. split.
  - intros F y d Hy. apply in_drop_var in Hy. destruct Hy as (Hy & Hne).
    rewrite <- (F y d Hy). now rewrite upd_other.
  - intros F y d Hy. destruct (N.eq_dec y x) as [->|Hne].
    + rewrite upd_same. rewrite <- (F0 x c Hin). exact (F0 x d Hy).
    + rewrite upd_other by exact Hne. apply F. apply in_drop_var. split; assumption.
Qed.

Lemma follows_upd_absent v ds x c : ~ In x (map fst ds) -> (follows (upd v x c) ds <-> follows v ds).
Proof.
  intros Hn. assert (Hne : forall y d, In (y, d) ds -> y <> x).
  { intros y d Hy ->. apply Hn. apply in_map_iff. exists (x, d). split; [reflexivity|exact Hy]. }
  split; intros F y d Hy; specialize (F y d Hy).
  - now rewrite upd_other in F by (exact (Hne y d Hy)).
  - now rewrite upd_other by (exact (Hne y d Hy)).
Qed.

Lemma in_fst_dec (ds : list dec) x : (exists c, In (x, c) ds) \/ ~ In x (map fst ds).
Proof.
  destruct (in_dec N.eq_dec x (map fst ds)) as [H|H]; [left|right; exact H].
  apply in_map_iff in H. destruct H as ([y c] & E & Hy). cbn in E. subst y. exists c. exact Hy.
Qed.

Lemma cube_unique_path b : wf b -> reduced b -> forall fuel p, valid b p -> enough b p fuel ->
  cube_at b p -> unique_path b p.
Proof.
  intros W R. pose proof (reduced_nz b R) as NZ.
  induction fuel as [|f IH]; intros p V E (ds & (v0 & F0) & H); [unfold enough in E; lia|].
  destruct (N.eq_dec p 0) as [->|Hp0].
  { exfalso. apply H in F0. cbn in F0. discriminate. }
  destruct (N.eq_dec p 1) as [->|Hp1].
  { exists []. split; [reflexivity|]. intros ds' P. now destruct (path_from_1 b ds' 1 P). }
  assert (Hp : 2 <= p) by lia. pose proof V as (Hlt & _). set (x := var_of b p).
  destruct (in_fst_dec ds x) as [(c & Hin)|Hn].
  - (* the cube fixes the tested variable to c: the other child is unsatisfiable, hence 0 *)
    destruct (child_valid b p c W Hp Hlt) as (Vc & _).
    destruct (child_valid b p (negb c) W Hp Hlt) as (Vn & _).
    assert (Hz : child b p (negb c) = 0).
    { destruct (N.eq_dec (child b p (negb c)) 0) as [Ez|Ez]; [exact Ez|exfalso].
      destruct (nonzero_sat_benign b _ W NZ Vn Ez) as (w & Hw).
      rewrite <- (sem_cof' b p w (negb c) W Hp Hlt) in Hw. apply H in Hw.
      specialize (Hw x c Hin). unfold x in Hw. rewrite upd_same in Hw. destruct c; discriminate. }
    apply (unique_path_forced b p c Hp Hlt Hz).
    apply (IH _ Vc (enough_child b p c f W Hp Hlt E)).
    exists (drop_var x ds). split.
    + exists v0. intros y d Hy. apply in_drop_var in Hy. apply F0. apply Hy.
    + intros v. rewrite <- (sem_cof' b p v c W Hp Hlt). rewrite H. fold x.
      exact (follows_upd_drop v0 ds v x c F0 Hin).
  - (* the cube does not mention the tested variable: both children denote the same function *)
    exfalso. destruct (wf_children b p W Hp Hlt) as (Vl & Vh & _).
    pose proof R as (R1 & _). apply (R1 p Hp Hlt).
    apply (sem_inj b _ _ W R Vl Vh). intros v.
    pose proof (sem_cof' b p v false W Hp Hlt) as El. pose proof (sem_cof' b p v true W Hp Hlt) as Eh.
    unfold child in El, Eh. rewrite <- El, <- Eh. fold x. apply eq_true_iff_eq.
    rewrite !H. rewrite !(follows_upd_absent v ds x) by exact Hn. reflexivity.
Qed.

(* ======================================================================================== *)
(* the two notions coincide on reduced valid diagrams                                        *)
Lemma is_cube_cube_at b : is_cube b -> cube_at b (root b).
Proof.
  intros (ds & N & H). exists ds. split; [exists (tval ds false); apply tval_follows; exact N|exact H].
Qed.

Theorem unique_path_is_cube b : wf b -> nz b -> unique_path b (root b) -> is_cube b.
Proof.
  intros W NZ (ds & P & U). exists ds.
  destruct (path_vars b W ds (root b) 1 (valid_root b W) P) as (_ & _ & _ & N).
  split; [exact N|]. intros v. exact (unique_path_cube b W NZ ds (root b) (valid_root b W) P U v).
Qed.

Theorem is_cube_unique_path b : wf b -> reduced b -> is_cube b -> unique_path b (root b).
Proof.
  intros W R C. apply (cube_unique_path b W R (wfuel b)); [apply valid_root|apply enough_root|apply is_cube_cube_at]; assumption.
Qed.

Theorem unique_path_iff_cube b : wf b -> reduced b -> (unique_path b (root b) <-> is_cube b).
Proof.
  intros W R. split; [apply unique_path_is_cube; [exact W|apply reduced_nz; exact R]|apply is_cube_unique_path; assumption].
Qed.
Print Assumptions unique_path_iff_cube.

(* a cube is satisfiable: the contradiction is not a cube, the tautology (no literals) is *)
Lemma cube_not_false b : is_cube b -> exists v, eval b v = true.
Proof. intros (ds & N & H). exists (tval ds false). apply H. apply tval_follows. exact N. Qed.

Lemma false_not_cube nv : ~ is_cube (mk_false nv).
Proof. intros C. destruct (cube_not_false _ C) as (v & Hv). cbn in Hv. discriminate. Qed.

Lemma true_is_cube nv : is_cube (mk_true nv).
Proof. exists []. split; [constructor|]. intros v. split; [intros _ x c []|intros _; reflexivity]. Qed.

(* ---- the literals of a cube lie below nvars ---- *)
Definition is_cube_in (b : bdd) : Prop :=
  exists ds : list dec, NoDup (map fst ds) /\ (forall x c, In (x, c) ds -> x < nvars b) /\
    forall v, eval b v = true <-> follows v ds.

Lemma is_cube_in_iff b : wf b -> (is_cube_in b <-> is_cube b).
Proof.
  intros W. split.
  - intros (ds & N & _ & H). exists ds. split; assumption.
  - intros (ds & N & H). exists ds. split; [exact N|]. split; [|exact H].
    intros x c Hin. destruct (N.lt_ge_cases x (nvars b)) as [Hlt|Hge]; [exact Hlt|exfalso].
    pose proof (tval_follows ds false N) as F. apply H in F.
    rewrite (eval_agree_nv b _ (upd (tval ds false) x (negb c)) W) in F
      by (intros y Hy; rewrite upd_other by lia; reflexivity).
    apply H in F. specialize (F x c Hin). rewrite upd_same in F. destruct c; discriminate.
Qed.

(* ======================================================================================== *)
(* is_clause, semantically                                                                   *)
Theorem is_clause_semantic_reduced b : wf b -> reduced b ->
  exists r, is_clause b = Ok r /\ (r = true <-> is_cube b).
Proof.
  intros W R. pose proof (reduced_nz b R) as NZ. unfold is_clause.
  destruct (is_clause_walk_spec b W NZ (wfuel b) (root b) (valid_root b W) (enough_root b W)) as (r & Hr & Hiff).
  exists r. split; [exact Hr|]. rewrite Hiff. apply unique_path_iff_cube; assumption.
Qed.
Print Assumptions is_clause_semantic_reduced.

Theorem is_clause_semantic b : Canonical b -> exists r, is_clause b = Ok r /\ (r = true <-> is_cube b).
Proof. intros (W & R & _). apply is_clause_semantic_reduced; assumption. Qed.
Print Assumptions is_clause_semantic.

Theorem is_clause_semantic_in b : Canonical b -> exists r, is_clause b = Ok r /\ (r = true <-> is_cube_in b).
Proof.
  intros C. destruct (is_clause_semantic b C) as (r & Hr & Hiff). exists r. split; [exact Hr|].
  rewrite Hiff. symmetry. apply is_cube_in_iff. apply C.
Qed.
Print Assumptions is_clause_semantic_in.

(* ======================================================================================== *)
(* is_valuation, semantically                                                                *)
(* exactly one satisfying valuation, up to the variables the diagram cannot read *)
Definition unique_sat (b : bdd) : Prop :=
  exists v, eval b v = true /\ forall w, eval b w = true -> forall x, x < nvars b -> w x = v x.

Lemma unique_sat_iff_list b : wf b -> (unique_sat b <-> unique_sat_list b).
Proof.
  intros W. rewrite <- (unique_sat_root b W). unfold unique_sat, unique_sat_from, eval, root. split.
  - intros (v & Hv & U). exists v. split; [exact Hv|]. intros w Hw x _ Hx. apply U; assumption.
  - intros (v & Hv & U). exists v. split; [exact Hv|]. intros w Hw x Hx. apply U; [exact Hw|lia|exact Hx].
Qed.

(* the function is a minterm: a cube that fixes every variable of the diagram *)
Definition is_minterm (b : bdd) : Prop :=
  exists ds : list dec, NoDup (map fst ds) /\ (forall x, In x (map fst ds) <-> x < nvars b) /\
    forall v, eval b v = true <-> follows v ds.

Lemma unique_sat_iff_minterm b : wf b -> (unique_sat b <-> is_minterm b).
Proof.
  intros W. split.
  - intros (v & Hv & U). set (xs := map N.of_nat (seq 0 (N.to_nat (nvars b)))).
    assert (Hxs : forall x, In x xs <-> x < nvars b).
    { intros x. unfold xs. rewrite in_map_iff. split.
      - intros (k & <- & Hk). apply in_seq in Hk. lia.
      - intros Hx. exists (N.to_nat x). split; [lia|]. apply in_seq. lia. }
    assert (Hfst : map fst (map (fun x => (x, v x)) xs) = xs).
    { rewrite map_map. cbn [fst]. apply map_id. }
    exists (map (fun x => (x, v x)) xs). rewrite Hfst. split.
    + unfold xs. apply Injective_map_NoDup; [intros i j Hij; lia|apply seq_NoDup].
    + split; [exact Hxs|]. intros w. split.
      * intros Hw x c Hin. apply in_map_iff in Hin. destruct Hin as (y & Ey & Hy). inversion Ey; subst.
        apply U; [exact Hw|]. apply Hxs. exact Hy.
      * intros F. rewrite (eval_agree_nv b w v W); [exact Hv|]. intros x Hx. apply F.
        apply in_map_iff. exists x. split; [reflexivity|]. apply Hxs. exact Hx.
  - intros (ds & N & Hall & H). exists (tval ds false). pose proof (tval_follows ds false N) as F. split; [apply H; exact F|].
    intros w Hw x Hx. apply H in Hw. apply Hall in Hx. apply in_map_iff in Hx. destruct Hx as ([y c] & Ey & Hy).
    cbn in Ey. subst y. rewrite (Hw x c Hy). symmetry. exact (F x c Hy).
Qed.

Theorem is_valuation_semantic b : Canonical b -> exists r, is_valuation b = Ok r /\ (r = true <-> unique_sat b).
Proof.
  intros C. destruct (is_valuation_iff b C) as (r & Hr & Hiff). exists r. split; [exact Hr|].
  rewrite Hiff. symmetry. apply unique_sat_iff_list. apply C.
Qed.
Print Assumptions is_valuation_semantic.

Theorem is_valuation_minterm b : Canonical b -> exists r, is_valuation b = Ok r /\ (r = true <-> is_minterm b).
Proof.
  intros C. destruct (is_valuation_semantic b C) as (r & Hr & Hiff). exists r. split; [exact Hr|].
  rewrite Hiff. apply unique_sat_iff_minterm. apply C.
Qed.
Print Assumptions is_valuation_minterm.

(* is_valuation also holds on every benign diagram (no reducedness needed: a redundant test makes two valuations) *)
Theorem is_valuation_semantic_benign b : Benign b -> exists r, is_valuation b = Ok r /\ (r = true <-> unique_sat b).
Proof.
  intros C. destruct (is_valuation_iff_benign b C) as (r & Hr & Hiff). exists r. split; [exact Hr|].
  rewrite Hiff. symmetry. apply unique_sat_iff_list. apply C.
Qed.

(* a single valuation is in particular a single cube *)
Lemma minterm_cube b : is_minterm b -> is_cube b.
Proof. intros (ds & N & _ & H). exists ds. split; assumption. Qed.
