(* Proofs/NestedFast.v — the efficient nested apply of Model/NestedFast.v computes exactly what the reference
   algorithm of Model/Nested.v computes: nested_apply_fast_eq, nested_apply_fn_fast_eq and the derived entry
   points (no hypotheses: pure data refinement; simulations by induction on the fuel for the inner engine —
   which reads the growing store through the index map —, the outer engine and the fix_alignment copy),
   plus the transferred top-level theorems. *)
From Coq Require Import List NArith Lia Bool Arith PeanoNat FMapPositive.
Import ListNotations.
From BddVerif Require Import Model.Bdd Model.Apply Model.Ops Model.ApplyFast Model.Nested Model.NestedFast
  Proofs.Sem Proofs.Canon Proofs.ApplySem Proofs.ApplyTop Proofs.QuantSem Proofs.ApplyFast Proofs.NestedSem.
Open Scope N_scope.

(* ------------------------------------------------------------------ *)
(* reading the store after a push                                       *)
Lemma get_snoc (G : list node) n p : get (G ++ [n]) p = if p =? size G then n else get G p.
Proof.
  unfold get, size. destruct (N.eqb_spec p (N.of_nat (length G))) as [->|NE].
  - rewrite Nnat.Nat2N.id, app_nth2 by lia. now rewrite Nat.sub_diag.
  - destruct (Nat.lt_ge_cases (N.to_nat p) (length G)) as [L|L].
    + now apply app_nth1.
    + rewrite !nth_overflow; [reflexivity|lia|rewrite app_length; cbn [length]; lia].
Qed.

(* ------------------------------------------------------------------ *)
(* state relation                                                       *)
Definition RN (s : nst) (f : nstF) : Prop :=
  (forall p, aget (fnarr f) p = get (nn s) p) /\ fnsize f = size (nn s) /\
  (forall n, nfindF n (fnex f) = nfind n (nex s)) /\
  (forall t, tfindF t (fnouter f) = tfind t (nouter s)) /\
  (forall t, tfindF t (fninner f) = tfind t (ninner s)).

Definition simN (r : option (N * nst)) (r' : option (N * nstF)) : Prop :=
  match r, r' with
  | None, None => True
  | Some (p, s), Some (p', s') => p = p' /\ RN s s'
  | _, _ => False
  end.

Lemma RN_imemo s f t p : RN s f -> RN (imemo s t p) (imemoF f t p).
Proof.
  intros (H1 & H2 & H3 & H4 & H5). unfold RN, imemo, imemoF; cbn [nn nex nouter ninner fnarr fnsize fnex fnouter fninner].
  repeat split; try assumption.
  intros t'. rewrite tfindF_add. cbn [tfind]. destruct (task_eqb t' t); [reflexivity|apply H5].
Qed.

Lemma RN_omemo s f t p : RN s f -> RN (omemo s t p) (omemoF f t p).
Proof.
  intros (H1 & H2 & H3 & H4 & H5). unfold RN, omemo, omemoF; cbn [nn nex nouter ninner fnarr fnsize fnex fnouter fninner].
  repeat split; try assumption.
  intros t'. rewrite tfindF_add. cbn [tfind]. destruct (task_eqb t' t); [reflexivity|apply H4].
Qed.

Lemma nmk_sim s f d lo hi : RN s f ->
  fst (nmk s d lo hi) = fst (nmkF f d lo hi) /\ RN (snd (nmk s d lo hi)) (snd (nmkF f d lo hi)).
Proof.
  intros HR. unfold nmk, nmkF. destruct (lo =? hi); [split; [reflexivity|exact HR]|].
  pose proof HR as (H1 & H2 & H3 & H4 & H5). rewrite H3.
  destruct (nfind (mkNode d lo hi) (nex s)) as [p|]; [split; [reflexivity|exact HR]|].
  cbn [fst snd]. split; [now rewrite H2|].
  unfold RN; cbn [nn nex nouter ninner fnarr fnsize fnex fnouter fninner].
  repeat split; try assumption.
  - intros p. rewrite aget_add, get_snoc, H2. destruct (p =? size (nn s)); [reflexivity|apply H1].
  - rewrite H2. unfold size. rewrite app_length. cbn [length]. lia.
  - intros n. rewrite nfindF_add. cbn [nfind]. rewrite H2.
    destruct (node_eqb n (mkNode d lo hi)); [reflexivity|apply H3].
Qed.

(* ------------------------------------------------------------------ *)
(* inner engine                                                         *)
Section SimInner.
  Variable inner : op2.

  Lemma iensure_sim proc procF t s f :
    (forall t s f, RN s f -> simN (proc t s) (procF t f)) ->
    RN s f -> simN (iensure inner proc t s) (iensureF inner procF t f).
  Proof.
    intros Hp HR. unfold iensure, iensureF.
    destruct (inner (as_bool (fst t)) (as_bool (snd t))) as [c|]; [cbn; auto|].
    pose proof HR as (_ & _ & _ & _ & H5). rewrite H5.
    destruct (tfind t (ninner s)) as [p|]; [cbn; auto|]. now apply Hp.
  Qed.

  Lemma iproc_sim : forall fuel t s f, RN s f -> simN (iproc inner fuel t s) (iprocF inner fuel t f).
  Proof.
    induction fuel as [|k IH]; intros t s f HR; [exact I|].
    cbn [iproc iprocF]. pose proof HR as (HG & _).
    rewrite (levelF_eq (nn s) (nn s) (fnarr f) (fnarr f) HG HG),
            (t_loF_eq (nn s) (nn s) (fnarr f) (fnarr f) None None HG HG),
            (t_hiF_eq (nn s) (nn s) (fnarr f) (fnarr f) None None HG HG).
    pose proof (iensure_sim _ _ (t_hi (nn s) (nn s) None None t) s f IH HR) as S1.
    destruct (iensure inner (iproc inner k) (t_hi (nn s) (nn s) None None t) s) as [[phi s1]|],
             (iensureF inner (iprocF inner k) (t_hi (nn s) (nn s) None None t) f) as [[phi' f1]|]; cbn in S1; try contradiction; [|exact I].
    destruct S1 as (<- & R1).
    pose proof (iensure_sim _ _ (t_lo (nn s) (nn s) None None t) s1 f1 IH R1) as S2.
    destruct (iensure inner (iproc inner k) (t_lo (nn s) (nn s) None None t) s1) as [[plo s2]|],
             (iensureF inner (iprocF inner k) (t_lo (nn s) (nn s) None None t) f1) as [[plo' f2]|]; cbn in S2; try contradiction; [|exact I].
    destruct S2 as (<- & R2).
    pose proof (nmk_sim s2 f2 (level (nn s) (nn s) t) plo phi R2) as (E & R3).
    destruct (nmk s2 (level (nn s) (nn s) t) plo phi) as [p s3].
    destruct (nmkF f2 (level (nn s) (nn s) t) plo phi) as [p' f3].
    cbn [fst snd] in E, R3. subst p'. cbn. split; [reflexivity|]. now apply RN_imemo.
  Qed.

  Lemma inner_apply_sim l r s f : RN s f -> simN (inner_apply inner l r s) (inner_applyF inner l r f).
  Proof.
    intros HR. unfold inner_apply, inner_applyF. pose proof HR as (HG & _ & _ & _ & H5). rewrite H5.
    destruct (tfind (l, r) (ninner s)) as [p|]; [cbn; auto|].
    rewrite HG. change (nvar (get (nn s) 0)) with (nvars (nn s)). now apply iproc_sim.
  Qed.
End SimInner.

(* ------------------------------------------------------------------ *)
(* outer engine                                                         *)
Section SimOuter.
  Variables (A B : bdd) (MA MB : arr) (trigger : N -> bool) (outer inner : op2).
  Hypothesis HA : forall p, aget MA p = get A p.
  Hypothesis HB : forall p, aget MB p = get B p.

  Lemma oensure_sim proc procF t s f :
    (forall t s f, RN s f -> simN (proc t s) (procF t f)) ->
    RN s f -> simN (oensure outer proc t s) (oensureF outer procF t f).
  Proof.
    intros Hp HR. unfold oensure, oensureF.
    destruct (outer (as_bool (fst t)) (as_bool (snd t))) as [c|]; [cbn; auto|].
    pose proof HR as (_ & _ & _ & H4 & _). rewrite H4.
    destruct (tfind t (nouter s)) as [p|]; [cbn; auto|]. now apply Hp.
  Qed.

  Lemma resolve_sim dv plo phi s f : RN s f ->
    simN (resolve trigger inner dv plo phi s) (resolveF trigger inner dv plo phi f).
  Proof.
    intros HR. unfold resolve, resolveF.
    destruct (plo =? phi); [cbn; auto|].
    destruct (trigger dv); [now apply inner_apply_sim|].
    pose proof (nmk_sim s f dv plo phi HR) as (E & R1).
    destruct (nmk s dv plo phi) as [p s1]. destruct (nmkF f dv plo phi) as [p' f1].
    cbn [fst snd] in E, R1. subst p'. cbn. auto.
  Qed.

  Lemma oproc_sim : forall fuel t s f, RN s f ->
    simN (oproc A B trigger outer inner fuel t s) (oprocF MA MB trigger outer inner fuel t f).
  Proof.
    induction fuel as [|k IH]; intros t s f HR; [exact I|].
    cbn [oproc oprocF].
    rewrite (levelF_eq A B MA MB HA HB), (t_loF_eq A B MA MB None None HA HB), (t_hiF_eq A B MA MB None None HA HB).
    pose proof (oensure_sim _ _ (t_hi A B None None t) s f IH HR) as S1.
    destruct (oensure outer (oproc A B trigger outer inner k) (t_hi A B None None t) s) as [[phi s1]|],
             (oensureF outer (oprocF MA MB trigger outer inner k) (t_hi A B None None t) f) as [[phi' f1]|]; cbn in S1; try contradiction; [|exact I].
    destruct S1 as (<- & R1).
    pose proof (oensure_sim _ _ (t_lo A B None None t) s1 f1 IH R1) as S2.
    destruct (oensure outer (oproc A B trigger outer inner k) (t_lo A B None None t) s1) as [[plo s2]|],
             (oensureF outer (oprocF MA MB trigger outer inner k) (t_lo A B None None t) f1) as [[plo' f2]|]; cbn in S2; try contradiction; [|exact I].
    destruct S2 as (<- & R2).
    pose proof (resolve_sim (level A B t) plo phi s2 f2 R2) as S3.
    destruct (resolve trigger inner (level A B t) plo phi s2) as [[p s3]|],
             (resolveF trigger inner (level A B t) plo phi f2) as [[p' f3]|]; cbn in S3; try contradiction; [|exact I].
    destruct S3 as (<- & R3). cbn. split; [reflexivity|]. now apply RN_omemo.
  Qed.
End SimOuter.

(* ------------------------------------------------------------------ *)
(* fix_alignment                                                        *)
Definition RC (acc : list node) (pm : list (N * N)) (racc : list node) (sz : N) (pmF : pmapF) : Prop :=
  acc = rev racc /\ sz = size acc /\ forall k, pfindF k pmF = pfind k pm.

Definition simC (r : option (N * (list node * list (N * N)))) (r' : option (N * (list node * (N * pmapF)))) : Prop :=
  match r, r' with
  | None, None => True
  | Some (q, (acc, pm)), Some (q', (racc, (sz, pmF))) => q = q' /\ RC acc pm racc sz pmF
  | _, _ => False
  end.

Lemma copy_sim (G : bdd) (GF : arr) : (forall p, aget GF p = get G p) ->
  forall fuel p acc pm racc sz pmF, RC acc pm racc sz pmF ->
    simC (copy fuel G p acc pm) (copyF fuel GF p racc sz pmF).
Proof.
  intros HG. induction fuel as [|k IH]; intros p acc pm racc sz pmF HR; [exact I|].
  cbn [copy copyF]. destruct (p <? 2); [cbn; auto|].
  pose proof HR as (_ & _ & HP). rewrite HP.
  destruct (pfind p pm) as [q|]; [cbn; auto|].
  rewrite HG.
  pose proof (IH (nhigh (get G p)) acc pm racc sz pmF HR) as S1.
  destruct (copy k G (nhigh (get G p)) acc pm) as [[qh [acc1 pm1]]|],
           (copyF k GF (nhigh (get G p)) racc sz pmF) as [[qh' [racc1 [sz1 pmF1]]]|]; cbn in S1; try contradiction; [|exact I].
  destruct S1 as (<- & R1).
  pose proof (IH (nlow (get G p)) acc1 pm1 racc1 sz1 pmF1 R1) as S2.
  destruct (copy k G (nlow (get G p)) acc1 pm1) as [[ql [acc2 pm2]]|],
           (copyF k GF (nlow (get G p)) racc1 sz1 pmF1) as [[ql' [racc2 [sz2 pmF2]]]|]; cbn in S2; try contradiction; [|exact I].
  destruct S2 as (<- & (E1 & E2 & E3)).
  cbn. split; [now rewrite E2|]. unfold RC. repeat split.
  - cbn [rev]. now rewrite E1.
  - rewrite E2. unfold size. rewrite app_length. cbn [length]. lia.
  - intros k'. unfold pfindF. rewrite find_add_key. cbn [pfind]. rewrite E2.
    destruct (k' =? p); [reflexivity|apply E3].
Qed.

Lemma fix_alignment_sim (G : bdd) (GF : arr) root : (forall p, aget GF p = get G p) ->
  fix_alignmentF GF root = fix_alignment G root.
Proof.
  intros HG. unfold fix_alignmentF, fix_alignment. rewrite HG. change (nvar (get G 0)) with (nvars G).
  destruct (root =? 0); [reflexivity|]. destruct (root =? 1); [reflexivity|].
  assert (R0 : RC (mk_true (nvars G)) [] [mkNode (nvars G) 1 1; mkNode (nvars G) 0 0] 2 (PM.empty N)).
  { unfold RC. repeat split. intros k. unfold pfindF. now rewrite PM.gempty. }
  pose proof (copy_sim G GF HG (S (S (N.to_nat (nvars G)))) root _ _ _ _ _ R0) as HS.
  destruct (copy (S (S (N.to_nat (nvars G)))) G root (mk_true (nvars G)) []) as [[q [acc pm]]|],
           (copyF (S (S (N.to_nat (nvars G)))) GF root [mkNode (nvars G) 1 1; mkNode (nvars G) 0 0] 2 (PM.empty N)) as [[q' [racc [sz pmF]]]|];
    cbn in HS; try contradiction; [|reflexivity].
  destruct HS as (_ & (E1 & _ & _)). now rewrite E1, rev_append_rev, app_nil_r.
Qed.

(* ------------------------------------------------------------------ *)
(* top level                                                            *)
Lemma RN_n0 zero one : RN (mkN [zero; one] [(zero, 0); (one, 1)] [] []) (n0F zero one).
Proof.
  unfold RN, n0F; cbn [nn nex nouter ninner fnarr fnsize fnex fnouter fninner].
  repeat split.
  - intros p. rewrite !aget_add, aget_empty. unfold get.
    destruct (N.eqb_spec p 1) as [->|N1]; [reflexivity|].
    destruct (N.eqb_spec p 0) as [->|N0]; [reflexivity|].
    symmetry. apply nth_overflow. cbn [length]. lia.
  - intros n. rewrite !nfindF_add, nfindF_empty. reflexivity.
  - intros t. unfold tfindF. now rewrite find2_empty.
  - intros t. unfold tfindF. now rewrite find2_empty.
Qed.

Theorem nested_apply_fast_eq : forall A B trigger outer inner,
  nested_apply_fast A B trigger outer inner = nested_apply A B trigger outer inner.
Proof.
  intros A B trigger outer inner. unfold nested_apply_fast, nested_apply, nested_run.
  destruct (load_get A) as (SA & GA). destruct (load_get B) as (SB & GB).
  destruct (load A 0 (PM.empty node)) as [sa MA]. destruct (load B 0 (PM.empty node)) as [sb MB].
  cbn [fst snd] in SA, GA, SB, GB. subst sa sb.
  rewrite GA. change (nvar (get A 0)) with (nvars A).
  pose proof (oproc_sim A B MA MB trigger outer inner GA GB (S (S (N.to_nat (nvars A)))) (root A B) (n0 A)
                (n0F (zero A) (one A)) (RN_n0 (zero A) (one A))) as HS.
  unfold root in *. fold (zero A). fold (one A).
  destruct (oproc A B trigger outer inner (S (S (N.to_nat (nvars A)))) (size A - 1, size B - 1) (n0 A)) as [[p s]|],
           (oprocF MA MB trigger outer inner (S (S (N.to_nat (nvars A)))) (size A - 1, size B - 1) (n0F (zero A) (one A))) as [[p' f]|];
    cbn in HS; try contradiction; [|reflexivity].
  destruct HS as (<- & (HG & _)). now apply fix_alignment_sim.
Qed.

Corollary nested_apply_fn_fast_eq : forall A B trigger outer inner,
  nested_apply_fn_fast A B trigger outer inner = nested_apply_fn A B trigger outer inner.
Proof. intros. unfold nested_apply_fn_fast, nested_apply_fn. now rewrite nested_apply_fast_eq. Qed.

Corollary nested_apply_faithful_fast_eq : forall A B trig outer inner,
  nested_apply_faithful_fast A B trig outer inner = nested_apply_faithful A B trig outer inner.
Proof. intros. apply nested_apply_fn_fast_eq. Qed.

Corollary binary_op_with_exists_faithful_fast_eq : forall a b op vars,
  binary_op_with_exists_faithful_fast a b op vars = binary_op_with_exists_faithful a b op vars.
Proof. intros. apply nested_apply_fn_fast_eq. Qed.

Corollary binary_op_with_for_all_faithful_fast_eq : forall a b op vars,
  binary_op_with_for_all_faithful_fast a b op vars = binary_op_with_for_all_faithful a b op vars.
Proof. intros. apply nested_apply_fn_fast_eq. Qed.

Corollary bdd_exists_faithful_fast_eq : forall b vars, bdd_exists_faithful_fast b vars = bdd_exists_faithful b vars.
Proof. intros. apply nested_apply_fn_fast_eq. Qed.

Corollary bdd_for_all_faithful_fast_eq : forall b vars, bdd_for_all_faithful_fast b vars = bdd_for_all_faithful b vars.
Proof. intros. apply nested_apply_fn_fast_eq. Qed.

(* ---- transferred statements ---- *)
Theorem nested_fn_fast_correct A B trigger outer inner (u : bool) :
  wf A -> wf B -> nvars A = nvars B -> total2 outer -> consistent2 outer ->
  builtin_ok inner (if u then andb else orb) ->
  exists r, nested_apply_fn_fast A B trigger outer inner = Ok r /\ Canonical r /\ wf r /\ nvars r = nvars A /\
    forall v, eval r v = true <-> qtr trigger u (fun w => bop_of outer (eval A w) (eval B w)) v.
Proof. rewrite nested_apply_fn_fast_eq. apply nested_fn_correct. Qed.

Theorem nested_faithful_fast_eq_model A B trig outer inner (u : bool) :
  wf A -> wf B -> nvars A = nvars B -> total2 outer -> consistent2 outer ->
  builtin_ok inner (if u then andb else orb) ->
  nested_apply_faithful_fast A B trig outer inner = binary_op_nested A B trig outer u.
Proof. rewrite nested_apply_faithful_fast_eq. apply nested_faithful_eq_model. Qed.

Theorem bdd_exists_faithful_fast_eq_model b vars : wf b -> bdd_exists_faithful_fast b vars = bdd_exists b vars.
Proof. rewrite bdd_exists_faithful_fast_eq. apply bdd_exists_faithful_eq. Qed.

Example nested_fast_example :
  nested_apply_faithful_fast [mkNode 3 0 0; mkNode 3 1 1; mkNode 1 0 1; mkNode 0 0 2]
                             [mkNode 3 0 0; mkNode 3 1 1; mkNode 1 0 1; mkNode 0 0 2] [false; true] op_or op_or
  = Ok [mkNode 3 0 0; mkNode 3 1 1; mkNode 0 0 1].
Proof. vm_compute. reflexivity. Qed.

Print Assumptions nested_apply_fast_eq.
Print Assumptions nested_apply_fn_fast_eq.
Print Assumptions bdd_exists_faithful_fast_eq.
Print Assumptions nested_faithful_fast_eq_model.
